import sys; sys.path.insert(0, '/verif/harness')
import mkprops as m
P = 'Proofs/Wire.v'
IMP = 'From BE Require Import Model.Wire Proofs.Wire Gen.Regexes Proofs.Pins Gen.Skeleton Proofs.SkeletonPin Gen.WireFns Proofs.WireGen.\nLocal Open Scope string_scope.\nLocal Open Scope nat_scope.'
m.write('C19', 'Protocol messages mean the same to both ends and framing always terminates.', IMP, '', [
 (P, 'call_roundtrip', 'C19_call', 'all 38 calls x 4 seats'),
 (P, 'call_any_case', 'C19_call_any_case', 'in any letter case'),
 (P, 'call_with_alert', 'C19_call_with_alert', 'with an alert suffix (whitespace+ Alert. whitespace*, any case): understood, and relayed without the suffix'),
 (P, 'call_without_alert_relayed_verbatim', 'C19_call_relayed_verbatim', None),
 (P, 'card_roundtrip', 'C19_card', 'all 52 cards x 4 seats x both notations, any letter case'),
 (P, 'hand_roundtrip', 'C19_hand', 'every hand (any list of cards, voids included), every seat and Dummy'),
 (P, 'header_roundtrip', 'C19_header', 'every board number, dealer, vulnerability'),
 (P, 'string_of_nat_roundtrip', 'C19_numbers', None),
 (P, 'teams_roundtrip', 'C19_teams', 'team names without a double quote'),
 (P, 'connect_roundtrip', 'C19_connect', None),
 (P, 'check_message_exact', 'C19_ready_messages', None),
 (P, 'recv_one', 'C19_framing_one', None),
 (P, 'recv_all_frames', 'C19_framing', 'any sequence of CR-free messages is received intact and in order'),
 (P, 'recv_all_chunked', 'C19_framing_chunked', 'however the bytes are split in transit'),
 (P, 'eof_between', 'C19_eof_between', 'end of stream: an error, never a message, never a loop (the reader is structurally recursive on the stream)'),
 (P, 'eof_inside', 'C19_eof_inside', None),
 (P, 'eof_after_cr', 'C19_eof_after_cr', None),
 (P, 'eof_anywhere', 'C19_eof_anywhere', None),
 ('Proofs/WireGen.v', 'g_send_message_eq', 'C19_generated_send_is_hand_model', 'send_message REGENERATED from socket_interface.py on every run (harness/gen_wire.py) equals the hand model'),
 ('Proofs/WireGen.v', 'g_receive_message_eq', 'C19_generated_receive_is_hand_model', 'receive_message regenerated (the byte loop on explicit fuel, proved sufficient) equals the hand model on EVERY byte stream - streams that end inside a message, after a CR, or with a CR not followed by LF included'),
 ('Proofs/WireGen.v', 'g_send_receive', 'C19_generated_send_receive', 'what the regenerated sender frames the regenerated receiver returns, whatever follows'),
 ('Proofs/SkeletonPin.v', 'framing_skeleton_pinned', 'C19_framing_skeleton_is_the_modelled_one', 'the structure of send_message / receive_message (socket calls, loop, returns), re-extracted from the source on this run, is the one Model/Wire.v mirrors'),
 ('Proofs/Pins.v', 'pins_wire', 'C19_regex_pins', 'the patterns of the parsers, regenerated from the source on every run, are the ones the matchers of Model/Wire.v mirror'),
 (P, 'ex_alert_read', 'C19_example_alert', 'non-vacuity'),
 (P, 'ex_frames', 'C19_example_frames', None),
])
