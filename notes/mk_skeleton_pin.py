"""Writes coq/Proofs/SkeletonPin.v: the synchronisation skeleton the session model (Model/Session.v) was written against,
as literals, and the lemmas that the skeleton regenerated from /repo on this run is that literal.  Run once, by hand, after
reading the diff of Gen/Skeleton.v against the model; never run by a check."""
import re
import sys
sys.path.insert(0, '/verif/harness')
import gen
name, text = gen.gen_skeleton()
lit = text[text.index('(* bridge_env'):]
counts = {}
for n in ('server', 'client', 'framing'):
    lit = lit.replace(f'Definition {n}_skeleton ', f'Definition pinned_{n}_skeleton ')
    part = lit[lit.index(f'Definition pinned_{n}_skeleton '):]
    part = part[:part.index('].\n')]
    counts[n] = len(re.findall(r'^\s*\[?\("', part, re.M))
out = r"""(* Pin: the synchronisation skeleton of server.py, client.py and socket_interface.py that Model/Session.v was written against -
   per method, the control structure and the synchronising / communicating calls (Event set/clear/wait, Queue put/get, Barrier
   wait, Thread start/join/is_alive, accept, send/receive, close, sleep, the phases' entry points) in evaluation order, with the
   text skeleton of the message they send or expect.  Gen/Skeleton.v is regenerated from the source on every run; if the
   synchronisation structure of the code is edited the pin no longer holds by reflexivity and the controlled runs decide whether
   behaviour changed.  Logging, comments, local names and straight-line computation are not part of the skeleton. *)
From Coq Require Import List String.
Import ListNotations.
From BE Require Import Gen.Skeleton.
Local Open Scope string_scope.
""" + lit + r"""
Lemma server_skeleton_pinned : server_skeleton = pinned_server_skeleton.
Proof. reflexivity. Qed.
Lemma client_skeleton_pinned : client_skeleton = pinned_client_skeleton.
Proof. reflexivity. Qed.
Lemma framing_skeleton_pinned : framing_skeleton = pinned_framing_skeleton.
Proof. reflexivity. Qed.
Example skeleton_not_empty : (List.length pinned_server_skeleton, List.length pinned_client_skeleton, List.length pinned_framing_skeleton) = (@S@, @C@, @F@).
Proof. vm_compute. reflexivity. Qed.
"""
for tok, n in (('@S@', 'server'), ('@C@', 'client'), ('@F@', 'framing')):
    out = out.replace(tok, str(counts[n]))
open('/verif/coq/Proofs/SkeletonPin.v', 'w').write(out)
print(len(out), counts)
