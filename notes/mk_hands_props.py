import sys; sys.path.insert(0, '/verif/harness')
import mkprops as m
P = 'Proofs/Hands.v'
IMP = 'From BE Require Import Model.Json Gen.JsonFns Proofs.JsonGen.\nFrom BE Require Import Gen.HandsFns Proofs.HandsGen.\nFrom BE Require Import Model.Hands Proofs.Hands Gen.Regexes Proofs.Pins.\nFrom Coq Require Import Permutation.\nLocal Open Scope nat_scope.'
m.write('C14', 'Every deal survives every encoding round trip.', IMP, '', [
 (P, 'to_pbn_defined', 'C14_pbn_defined', 'every deal whose hands have 13 or 0 cards can be written from any first seat'),
 (P, 'pbn_roundtrip', 'C14_pbn_roundtrip', 'and is read back as the same four hands'),
 (P, 'to_pbn_shape', 'C14_pbn_shape', 'canonical form: "<first>:<hand> <hand> <hand> <hand>", first seat then clockwise'),
 (P, 'hand_pbn_canonical', 'C14_pbn_hand_canonical', 'S.H.D.C order, 16 characters'),
 (P, 'suit_field_descending', 'C14_pbn_ranks_descending', 'each field lists exactly the hand\'s ranks of that suit, strictly high to low'),
 (P, 'void_is_empty_field', 'C14_pbn_void_is_empty_field', None),
 (P, 'empty_hand_is_dash', 'C14_pbn_unknown_hand_is_dash', None),
 (P, 'to_binary_length', 'C14_binary_length', None),
 (P, 'to_binary_spec', 'C14_binary_spec', None),
 (P, 'binary_roundtrip', 'C14_binary_roundtrip', 'any disjoint hands (any sizes)'),
 (P, 'json_roundtrip', 'C14_json_roundtrip', None),
 (P, 'json_sorted', 'C14_json_sorted', 'JSON cards strictly ascending by card index'),
 (P, 'json_lists_each_card_once', 'C14_json_each_card_once', None),
 ('Proofs/HandsGen.v', 'to_pbn_gen', 'C14_generated_to_pbn_is_hand_model', 'Hands.to_pbn REGENERATED from hands.py on every run (harness/gen_hands.py) equals the hand model, for every deal and first seat'),
 ('Proofs/HandsGen.v', 'convert_hand_to_pbn_gen', 'C14_generated_hand_to_pbn_is_hand_model', None),
 ('Proofs/HandsGen.v', 'to_binary_gen', 'C14_generated_to_binary_is_hand_model', None),
 ('Proofs/HandsGen.v', 'convert_binary_gen', 'C14_generated_convert_binary_is_hand_model', 'convert_binary regenerated (a missing key or a short vector raises); the hands come out in the reverse order of insertion, the same sets'),
 ('Proofs/HandsGen.v', 'generate_random_hands_gen', 'C14_generated_dealer_is_hand_model', 'the random dealer regenerated, for every shuffle'),
 ('Proofs/HandsGen.v', 'generated_pbn_roundtrip', 'C14_pbn_roundtrip_generated', 'the property, for the regenerated functions'),
 ('Proofs/HandsGen.v', 'generated_binary_roundtrip', 'C14_binary_roundtrip_generated', None),
 ('Proofs/HandsGen.v', 'generated_dealer_deals_a_deal', 'C14_dealer_generated', None),
 ('Proofs/JsonGen.v', 'g_deal_json_eq', 'C14_generated_deal_writer_is_hand_model', 'convert_deal REGENERATED from json_handler/writer.py on every run equals the hand model, for every deal'),
 ('Proofs/JsonGen.v', 'g_deal_of_json_eq', 'C14_generated_deal_reader_is_hand_model', 'hands_parser regenerated from json_handler/parser.py equals the hand model on every JSON value'),
 (P, 'pack_is_all_cards', 'C14_pack', None),
 (P, 'dealer_deals_a_deal', 'C14_dealer', 'whatever permutation the shuffle produces: four disjoint 13-card hands covering the pack'),
 ('Proofs/Pins.v', 'pins_hands', 'C14_regex_pins', 'the patterns of hands.py, regenerated from the source on every run, are the ones the matchers of Model/Hands.v mirror'),
 (P, 'ex_read_back', 'C14_example_read_back', 'non-vacuity: a deal with voids and a 13-card suit written from East'),
 (P, 'ex_partial_read_back', 'C14_example_partial', None),
])
