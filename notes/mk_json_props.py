import sys; sys.path.insert(0, '/verif/harness')
import mkprops as m
P = 'Proofs/Json.v'
IMP = 'From BE Require Import Model.Json Model.Schema Gen.JsonFraming Gen.Schemas Proofs.Json.\nFrom Coq Require Import ZArith.\nLocal Open Scope string_scope.\nLocal Open Scope list_scope.'
m.write('C12', 'JSON game logs are schema-valid and read back exactly as written.', IMP, '', [
 (P, 'parse_tokens', 'C12_parser_reads_what_is_printed', 'token level: every JSON value printed is parsed back, whatever follows'),
 (P, 'parse_doc_tokens', 'C12_parse_doc', None),
 (P, 'tags_are_words', 'C12_tags', None),
 (P, 'framing_tokens', 'C12_framing_tokens', 'the pieces written by open / write* / close (literals regenerated from writer.py) are exactly the tokens of one document, for every list of values, empty included'),
 (P, 'framing_parses', 'C12_framing', None),
 (P, 'log_roundtrip', 'C12_roundtrip_one', 'every writable record is read back equal field by field, as typed values'),
 (P, 'logs_roundtrip', 'C12_roundtrip', None),
 (P, 'log_as_settings', 'C12_as_settings', 'the same document is a board-settings source yielding the same boards in order'),
 (P, 'log_schema_valid', 'C12_schema', 'the document conforms to the published log schema (AST regenerated from the shipped files); double-dummy rows, when given, must list all five strains'),
 (P, 'log_schema_needs_full_rows', 'C12_schema_hypothesis_is_needed', 'the hypothesis on double-dummy rows cannot be dropped'),
 (P, 'ex_written_and_read', 'C12_example_written_and_read', 'non-vacuity'),
 (P, 'ex_logs_back', 'C12_example_logs_back', None),
 (P, 'ex_validates', 'C12_example_validates', None),
 (P, 'ex_empty_logs', 'C12_example_empty', None),
])
