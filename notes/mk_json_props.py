import sys; sys.path.insert(0, '/verif/harness')
import mkprops as m
P = 'Proofs/Json.v'
IMP = 'From BE Require Import Gen.JsonFns Proofs.JsonGen Proofs.JsonGenCor.\nFrom BE Require Import Model.Json Model.Schema Model.JsonFramingHand Model.SchemasHand Proofs.Json Proofs.JsonPins.\nFrom BE Require Gen.JsonFraming Gen.Schemas.\nFrom Coq Require Import ZArith.\nLocal Open Scope string_scope.\nLocal Open Scope list_scope.'
m.write('C12', 'JSON game logs are schema-valid and read back exactly as written.', IMP, '', [
 (P, 'parse_tokens', 'C12_parser_reads_what_is_printed', 'token level: every JSON value printed is parsed back, whatever follows'),
 (P, 'parse_doc_tokens', 'C12_parse_doc', None),
 (P, 'tags_are_words', 'C12_tags', None),
 (P, 'framing_tokens', 'C12_framing_tokens', 'the pieces written by open / write* / close (literals regenerated from writer.py) are exactly the tokens of one document, for every list of values, empty included'),
 (P, 'framing_parses', 'C12_framing', None),
 (P, 'log_roundtrip', 'C12_roundtrip_one', 'every writable record is read back equal field by field, as typed values'),
 (P, 'logs_roundtrip', 'C12_roundtrip', None),
 (P, 'log_as_settings', 'C12_as_settings', 'the same document is a board-settings source yielding the same boards in order'),
 (P, 'log_schema_valid', 'C12_schema', 'the document conforms to the published log schema (AST regenerated from the shipped files); double-dummy rows, when given, must list all five strains'),
 (P, 'log_schema_needs_full_rows', 'C12_schema_hypothesis_is_needed', 'the hypothesis on double-dummy rows cannot be dropped'),
 ('Proofs/JsonGen.v', 'g_record_json_eq', 'C12_generated_writer_is_hand_model', 'JsonLogWriter.write REGENERATED from the text of writer.py on every run (harness/gen_jsonw.py): the record it builds equals the hand model, for every record'),
 ('Proofs/JsonGen.v', 'g_log_of_written', 'C12_generated_reader_on_written_records', 'convert_board_log regenerated from parser.py, on everything the writer writes, equals the hand model (read through the typed view shape_log)'),
 ('Proofs/JsonGen.v', 'g_parse_board_logs_eq', 'C12_generated_reader_is_hand_model', 'parse_board_logs regenerated: the hand model on every document whose records have a play_history key and only seat / side names under players / scores (as every written record has)'),
 ('Proofs/JsonGenCor.v', 'g_logs_roundtrip', 'C12_roundtrip_generated', 'the property, for the regenerated writer and reader'),
 ('Proofs/JsonGenCor.v', 'g_log_as_settings', 'C12_as_settings_generated', None),
 ('Proofs/JsonGenCor.v', 'g_logs_schema_valid', 'C12_schema_generated', None),
 ('Proofs/JsonPins.v', 'framing_pinned', 'C12_source_framing_is_the_modelled_one', 'the literals JsonWriter.open / close / _write_content write, re-read from writer.py on this run, are the ones the proofs use'),
 ('Proofs/JsonPins.v', 'tags_pinned', 'C12_source_tags_are_the_modelled_ones', None),
 ('Proofs/JsonPins.v', 'log_schema_pinned', 'C12_source_schema_is_the_modelled_one', 'log_format.schema.json, re-read on this run, is the schema term the proofs use'),
 (P, 'ex_written_and_read', 'C12_example_written_and_read', 'non-vacuity'),
 (P, 'ex_logs_back', 'C12_example_logs_back', None),
 (P, 'ex_validates', 'C12_example_validates', None),
 (P, 'ex_empty_logs', 'C12_example_empty', None),
])
