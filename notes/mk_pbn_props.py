import sys; sys.path.insert(0, '/verif/harness')
import mkprops as m
J = 'Proofs/Json.v'; P = 'Proofs/Pbn.v'
IMP = ('From BE Require Import Model.Json Model.Schema Model.Pbn Model.JsonFramingHand Model.SchemasHand Gen.Regexes Proofs.Json Proofs.Pbn Proofs.Pins Proofs.JsonPins.\nFrom BE Require Gen.JsonFraming Gen.Schemas.\n'
       'From Coq Require Import ZArith.\nLocal Open Scope string_scope.\nLocal Open Scope nat_scope.\nLocal Open Scope list_scope.')
m.write('C17', 'Board-settings files are read back as the boards that were written, in order.', ('From BE Require Import Gen.JsonFns Proofs.JsonGen Proofs.JsonGenCor.\n' + IMP), '', [
 (J, 'setting_roundtrip', 'C17_json_setting_roundtrip', 'JSON: every board setting, double-dummy table included'),
 (J, 'settings_roundtrip', 'C17_json_settings_roundtrip', 'JSON: every list of settings, in order', {'parse_board_settings': 'Json.parse_board_settings'}),
 (J, 'framing_parses', 'C17_json_framing', 'the file written by open / write* / close is one JSON document, for every list (tag board_settings is covered by the word condition)'),
 (J, 'settings_schema_valid', 'C17_json_schema', None),
 ('Proofs/JsonGen.v', 'g_setting_json_eq', 'C17_generated_setting_writer_is_hand_model', 'JsonBoardSettingWriter.write REGENERATED from writer.py on every run equals the hand model, for every setting'),
 ('Proofs/JsonGen.v', 'g_setting_of_json_eq', 'C17_generated_setting_reader_is_hand_model', 'convert_board_setting regenerated from parser.py equals the hand model on EVERY JSON value'),
 ('Proofs/JsonGen.v', 'g_parse_board_settings_eq', 'C17_generated_settings_reader_is_hand_model', None, {'parse_board_settings': 'Json.parse_board_settings'}),
 ('Proofs/JsonGenCor.v', 'g_settings_roundtrip', 'C17_json_settings_roundtrip_generated', 'the property, for the regenerated writer and reader'),
 ('Proofs/JsonPins.v', 'framing_pinned', 'C17_source_framing_is_the_modelled_one', 'the framing literals re-read from writer.py on this run are the ones the proofs use'),
 ('Proofs/JsonPins.v', 'setting_schema_pinned', 'C17_source_schema_is_the_modelled_one', None),
 (J, 'ex_settings_written_and_read', 'C17_json_example', 'non-vacuity', {'parse_board_settings': 'Json.parse_board_settings'}),
 (P, 'parse_all_layout', 'C17_pbn_layouts', 'PBN: every admissible layout - header lines, LF or CR LF, runs of blank lines before / between / after games, tags in any order, extra and repeated tags, table rows - is read as its games, first occurrence of each tag winning'),
 (P, 'settings_of_layout', 'C17_pbn_settings_of_layout', 'hence the boards: deal written from any first seat, any accepted vulnerability spelling, dealer, id - in order'),
 ('Proofs/Pins.v', 'pins_pbn', 'C17_regex_pins', 'the patterns of the PBN parser, regenerated from the source on every run, are the ones Model/Pbn.v mirrors'),
 (P, 'ex_layout_ok', 'C17_pbn_example_layout', 'non-vacuity: a two-game CR LF layout with header, repeated blank lines, a repeated tag, extra tags and a table row'),
 (P, 'ex_layout_settings', 'C17_pbn_example_settings', None),
])
G = 'Proofs/PbnGen.v'; GC = 'Proofs/PbnGenCor.v'
m.write('C18', 'PBN export is read back by the PBN parser, one game per board.', IMP.replace('Proofs.JsonPins.', 'Proofs.JsonPins Gen.PbnFns Proofs.PbnGen Proofs.PbnGenCor.'), '', [
 (P, 'write_line_le_255', 'C18_write_line_le_255', 'any text: every line written has at most 255 characters'),
 (P, 'write_line_ends_lines', 'C18_write_line_ends_lines', None),
 (P, 'write_line_keeps_text', 'C18_write_line_keeps_text', None),
 (P, 'every_written_line_le_255', 'C18_lines_le_255', 'every line of every exported file, for any results'),
 (P, 'export_defined', 'C18_export_defined', None),
 (P, 'export_roundtrip', 'C18_roundtrip', 'every sequence of results whose tag pairs fit on a line is read back as the fifteen tags with the written values, game by game'),
 (P, 'export_one_game_per_result', 'C18_separate_games', 'consecutive results are separate games'),
 (P, 'export_as_settings', 'C18_as_settings', 'deal, dealer, vulnerability and board number are recovered as board settings'),
 ('Proofs/Pins.v', 'pins_pbn', 'C18_regex_pins', None),
 (G, 'g_write_board_result_eq', 'C18_generated_write_board_result_is_hand_model', 'write_board_result REGENERATED from the text of pbn_handler/writer.py on every run (harness/gen_pbnw.py) equals the hand model, for every result'),
 (G, 'g_write_line_spec', 'C18_generated_write_line', 'write_line regenerated: the hand model, or the IndexError on the empty string'),
 (G, 'g_write_tag_pair_eq', 'C18_generated_write_tag_pair', 'write_tag_pair regenerated: the hand model, or the assertion on the first letter of the tag'),
 (G, 'g_write_header_eq', 'C18_generated_write_header', None),
 (GC, 'g_write_file_eq', 'C18_generated_export_is_hand_model', None),
 (GC, 'g_lines_le_255', 'C18_lines_le_255_generated', 'the property, for the regenerated writer'),
 (GC, 'g_export_roundtrip', 'C18_roundtrip_generated', None),
 (GC, 'g_export_one_game_per_result', 'C18_separate_games_generated', None),
 (GC, 'g_export_as_settings', 'C18_as_settings_generated', None),
 (P, 'ex_results_ok', 'C18_example_results', 'non-vacuity: two results, one passed out'),
 (P, 'ex_export_read_back', 'C18_example_read_back', None),
 (P, 'ex_long_line', 'C18_example_long_line', None),
])
