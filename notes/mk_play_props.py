import sys; sys.path.insert(0, '/verif/harness')
import mkprops as m
P = 'Proofs/Play.v'
IMP = 'From BE Require Import Model.Play Spec.PlayLaws Gen.PlayFns Proofs.Play Proofs.PlayGen Proofs.PlayGenCor.\nLocal Open Scope nat_scope.'
G = 'Proofs/PlayGen.v'; GC = 'Proofs/PlayGenCor.v'
m.write('C04', 'Tricks are won, led and counted according to the laws of play.', IMP, '', [
 (P, 'opening', 'C04_opening', 'opening lead by declarer\'s left-hand opponent, declarer\'s partner is dummy'),
 (P, 'winner_idx_wins', 'C04_winner_meets_the_law', 'the code\'s winner computation satisfies the declarative law for every non-empty card list, repeats and revokes included'),
 (P, 'wins_unique', 'C04_winner_unique', None),
 (P, 'winner_idx_is_spec_winner', 'C04_winner_is_spec_winner', None),
 (P, 'calc_highest_spec', 'C04_calc_highest_spec', None),
 (P, 'calc_highest_NT', 'C04_calc_highest_NT', None),
 (P, 'counters', 'C04_turns_and_counters', 'after any list of cards: trick number, position in the trick, recorded tricks, counts total, turn = leader rotated by the cards on the table'),
 (P, 'history_is_the_cards', 'C04_history_is_the_cards', 'the record is exactly the cards in the order played, four per trick'),
 (P, 'mid_trick_step', 'C04_mid_trick', None),
 (P, 'trick_done_step', 'C04_trick_done', 'fourth card: recorded with the actual leader, winner leads, winner\'s side +1, other side unchanged'),
 (P, 'recorded_leaders', 'C04_recorded_leaders', None),
 (P, 'thirteen_tricks', 'C04_thirteen', None),
 (P, 'not_done_before_52', 'C04_not_done_before_52', None),
 (G, 'g_play_card_spec', 'C04_generated_play_card', 'play_card REGENERATED from the text of playing_phase.py on every run (harness/gen_play.py): the hand model, or the ValueError of PlayingHistory.record'),
 (G, 'g_play_card_eq', 'C04_generated_play_card_is_hand_model', 'under the invariant trick_num = 1 + recorded tricks'),
 (G, 'g_init_play_eq', 'C04_generated_init_is_hand_model', None),
 (G, 'g_calc_highest_eq', 'C04_generated_calc_highest_is_hand_model', None),
 (G, 'g_set_next_leader_eq', 'C04_generated_next_leader_is_hand_model', None),
 (GC, 'g_runp_eq', 'C04_generated_run_is_hand_model', 'every run of the regenerated functions from __init__ equals the run of the hand model'),
 (GC, 'g_play_never_raises', 'C04_generated_never_raises', 'the record error is unreachable'),
 (GC, 'g_opening', 'C04_opening_generated', 'the property, for the regenerated functions'),
 (GC, 'g_counters', 'C04_turns_and_counters_generated', None),
 (GC, 'g_history_is_the_cards', 'C04_history_is_the_cards_generated', None),
 (GC, 'g_next_leader_is_law_winner', 'C04_next_leader_generated', None),
 (GC, 'g_phase_done_iff', 'C04_done_generated', None),
 (P, 'ex_overruff', 'C04_example_overruff', 'non-vacuity: a ruff and an over-ruff'),
 (P, 'ex_board', 'C04_example_full_board', 'non-vacuity: a complete 52-card board'),
])
m.write('C05', 'Only the seat on turn can play, only a card it holds; cards are conserved.', IMP, '', [
 (P, 'play_by_accept_iff', 'C05_accept_iff', None),
 (P, 'play_by_refused_noop', 'C05_refused_is_noop', None),
 (P, 'play_by_accepted_effect', 'C05_accepted_effect', 'exactly that card leaves exactly that hand'),
 (P, 'partition_invariant', 'C05_partition', 'for every op list (wrong seats, foreign and replayed cards included): hands + played partition the deal, no card twice'),
 (P, 'used_cards_are_played', 'C05_used_cards', None),
 (P, 'empty_at_52', 'C05_empty_at_52', None),
 (G, 'g_play_by_spec', 'C05_generated_play_by', 'PlayingPhaseWithHands.play_card_by_player regenerated from playing_phase.py on every run'),
 (G, 'g_play_by_raises', 'C05_generated_play_by_raise_branch', None),
 (G, 'g_check_active_player_eq', 'C05_generated_turn_check', None),
 (G, 'g_check_has_card_eq', 'C05_generated_card_check', None),
 (GC, 'g_runh_eq', 'C05_generated_run_is_hand_model', None),
 (GC, 'g_accept_iff', 'C05_accept_iff_generated', 'the property, for the regenerated functions, on every reachable state'),
 (GC, 'g_refused_is_noop', 'C05_refused_is_noop_generated', None),
 (GC, 'g_partition', 'C05_partition_generated', None),
 (P, 'ex_refusals', 'C05_example_refusals', 'non-vacuity'),
 (P, 'ex_deal_ok', 'C05_example_deal', None),
])
m.write('C06', 'The playable-card set is exactly the follow-suit rule.', IMP, '', [
 (P, 'available_spec', 'C06_available_spec', None),
 (P, 'available_leading', 'C06_leading', None),
 (P, 'available_follow', 'C06_follow', None),
 (P, 'available_void', 'C06_void', None),
 (P, 'available_nonempty', 'C06_nonempty', None),
 (P, 'available_subset', 'C06_subset', None),
 (P, 'current_available_is_available', 'C06_current', None),
 (G, 'g_available_eq', 'C06_generated_available_is_hand_model', 'available_cards regenerated from playing_phase.py on every run'),
 (G, 'g_current_available_eq', 'C06_generated_current_available', None),
 (G, 'g_hands_available_eq', 'C06_generated_hands_available', None),
 (G, 'g_obs_available_in_hand_eq', 'C06_generated_observer_available', None),
 (G, 'g_obs_available_in_dummy_eq', 'C06_generated_observer_dummy_available', None),
 (GC, 'g_available_spec', 'C06_available_spec_generated', 'the property, for the regenerated function'),
 (P, 'choice_in_set', 'C06_random_play_in_set', 'random.choice(list(set)) as "some index"'),
])
m.write('C11', 'All replicas of a board agree with the table manager.', ('From BE Require Import Model.Session Model.Conform Proofs.Kahn Proofs.Session Proofs.Wire Proofs.SessionPassOut Proofs.SessionConform Proofs.SessionAdmission Proofs.SessionArrivals.\n' + IMP.replace('Proofs.PlayGenCor.', 'Proofs.PlayGenCor Gen.Skeleton Proofs.SkeletonPin.')), '''(* (a) in process: the observer simulation theorem.  (b) over the wire: the model client keeps an ObservedPlayingPhase replica per board
   and stops (Fail) as soon as that replica refuses a card it is told about or it cannot parse what it receives; the
   theorem C11_clients_complete_every_session says that in every session whose seated clients conform, under every schedule,
   all four seated clients RETURN - so no replica ever refused an action the table manager accepted and the bundled client
   completes every session the server completes; that the replicas hold the board as played is evaluated per session on the
   real clients (replicas_ok of Spec/SessionSpec.v). *)''', [
 (P, 'observer_agrees', 'C11_observer_agrees', 'a single-seat observer fed the accepted plays accepts every one and holds the same public state'),
 (G, 'g_obs_play_by_spec', 'C11_generated_observer_step', 'ObservedPlayingPhase.play_card_by_player regenerated from playing_phase.py on every run'),
 (G, 'g_obs_play_by_eq', 'C11_generated_observer_step_is_hand_model', None),
 (G, 'g_init_obs_eq', 'C11_generated_observer_init', None),
 (G, 'g_set_dummy_hand_eq', 'C11_generated_set_dummy_hand', None),
 ('Proofs/SessionArrivals.v', 'conforming_session_any_arrivals_every_schedule', 'C11_clients_complete_every_session', 'network part: every seated client returns, under every schedule, for every request list that fills the table'),
 ('Proofs/SkeletonPin.v', 'client_skeleton_pinned', 'C11_client_skeleton_is_the_modelled_one', 'network part: the structure of the bundled client (what it receives, sends and applies to its replica, in which order), re-extracted from client.py on this run, is the one the client processes of Model/Session.v mirror'),
 ('Proofs/SkeletonPin.v', 'server_skeleton_pinned', 'C11_server_skeleton_is_the_modelled_one', None),
 (P, 'ex_observer_hyp', 'C11_example_hypothesis', 'non-vacuity'),
 (P, 'ex_observer_run', 'C11_example_run', None),
])
