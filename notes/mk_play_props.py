import sys; sys.path.insert(0, '/verif/harness')
import mkprops as m
P = 'Proofs/Play.v'
IMP = 'From BE Require Import Model.Play Spec.PlayLaws Proofs.Play.\nLocal Open Scope nat_scope.'
m.write('C04', 'Tricks are won, led and counted according to the laws of play.', IMP, '', [
 (P, 'opening', 'C04_opening', 'opening lead by declarer\'s left-hand opponent, declarer\'s partner is dummy'),
 (P, 'winner_idx_wins', 'C04_winner_meets_the_law', 'the code\'s winner computation satisfies the declarative law for every non-empty card list, repeats and revokes included'),
 (P, 'wins_unique', 'C04_winner_unique', None),
 (P, 'winner_idx_is_spec_winner', 'C04_winner_is_spec_winner', None),
 (P, 'calc_highest_spec', 'C04_calc_highest_spec', None),
 (P, 'calc_highest_NT', 'C04_calc_highest_NT', None),
 (P, 'counters', 'C04_turns_and_counters', 'after any list of cards: trick number, position in the trick, recorded tricks, counts total, turn = leader rotated by the cards on the table'),
 (P, 'history_is_the_cards', 'C04_history_is_the_cards', 'the record is exactly the cards in the order played, four per trick'),
 (P, 'mid_trick_step', 'C04_mid_trick', None),
 (P, 'trick_done_step', 'C04_trick_done', 'fourth card: recorded with the actual leader, winner leads, winner\'s side +1, other side unchanged'),
 (P, 'recorded_leaders', 'C04_recorded_leaders', None),
 (P, 'thirteen_tricks', 'C04_thirteen', None),
 (P, 'not_done_before_52', 'C04_not_done_before_52', None),
 (P, 'ex_overruff', 'C04_example_overruff', 'non-vacuity: a ruff and an over-ruff'),
 (P, 'ex_board', 'C04_example_full_board', 'non-vacuity: a complete 52-card board'),
])
m.write('C05', 'Only the seat on turn can play, only a card it holds; cards are conserved.', IMP, '', [
 (P, 'play_by_accept_iff', 'C05_accept_iff', None),
 (P, 'play_by_refused_noop', 'C05_refused_is_noop', None),
 (P, 'play_by_accepted_effect', 'C05_accepted_effect', 'exactly that card leaves exactly that hand'),
 (P, 'partition_invariant', 'C05_partition', 'for every op list (wrong seats, foreign and replayed cards included): hands + played partition the deal, no card twice'),
 (P, 'used_cards_are_played', 'C05_used_cards', None),
 (P, 'empty_at_52', 'C05_empty_at_52', None),
 (P, 'ex_refusals', 'C05_example_refusals', 'non-vacuity'),
 (P, 'ex_deal_ok', 'C05_example_deal', None),
])
m.write('C06', 'The playable-card set is exactly the follow-suit rule.', IMP, '', [
 (P, 'available_spec', 'C06_available_spec', None),
 (P, 'available_leading', 'C06_leading', None),
 (P, 'available_follow', 'C06_follow', None),
 (P, 'available_void', 'C06_void', None),
 (P, 'available_nonempty', 'C06_nonempty', None),
 (P, 'available_subset', 'C06_subset', None),
 (P, 'current_available_is_available', 'C06_current', None),
 (P, 'choice_in_set', 'C06_random_play_in_set', 'random.choice(list(set)) as "some index"'),
])
m.write('C11', 'All replicas of a board agree with the table manager (in-process part).', IMP, '', [
 (P, 'observer_agrees', 'C11_observer_agrees', 'a single-seat observer fed the accepted plays accepts every one and holds the same public state'),
 (P, 'ex_observer_hyp', 'C11_example_hypothesis', 'non-vacuity'),
 (P, 'ex_observer_run', 'C11_example_run', None),
])
