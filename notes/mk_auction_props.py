import sys; sys.path.insert(0, '/verif/harness')
import mkprops as m
P = 'Proofs/Auction.v'
IMP = 'From BE Require Import Model.Auction Spec.Laws Gen.AuctionFns Proofs.Auction Proofs.AuctionGen Proofs.AuctionGenCor.\nLocal Open Scope nat_scope.'
G = 'Proofs/AuctionGen.v'; GC = 'Proofs/AuctionGenCor.v'
m.write('C01', 'Auction accepts exactly the calls the Laws of bridge allow.', IMP, '', [
 (P, 'vector_is_legal_set', 'C01_vector_is_legal_set', 'after offering ANY list of calls (legal or not) from any dealer: the advertised vector is exactly the legal set of Spec/Laws.v'),
 (P, 'accept_iff_legal', 'C01_accept_iff_legal', None),
 (P, 'illegal_iff_not_legal', 'C01_illegal_iff_not_legal', None),
 (P, 'rejected_is_noop', 'C01_rejected_is_noop', 'a rejected call returns the very same state (history, turn, vector, everything)'),
 (P, 'accepted_appends', 'C01_accepted_appends', None),
 (P, 'avail_length', 'C01_vector_has_38_slots', None),
 (P, 'redouble_is_of_own_sides_bid', 'C01_redouble_is_of_own_sides_bid', 'Law 19 consequence: a legal redouble is of a double of one\'s own side\'s bid'),
 (P, 'ex_refusals', 'C01_example_refusals', 'non-vacuity'),
 (G, 'g_take_bid_eq', 'C01_generated_model_is_hand_model', 'take_bid REGENERATED from the text of bidding_phase.py on every run (harness/gen_auction.py) equals the hand model, for all states and calls'),
 (G, 'g_init_eq', 'C01_generated_init_is_hand_model', None),
 (GC, 'g_vector_is_legal_set', 'C01_vector_is_legal_set_generated', 'the property, for the regenerated functions'),
 (GC, 'g_accept_iff_legal', 'C01_accept_iff_legal_generated', None),
 (GC, 'g_rejected_is_noop', 'C01_rejected_is_noop_generated', None),
])
m.write('C02', 'Auction proceeds clockwise from the dealer and ends exactly when it must.', IMP, '', [
 (P, 'turn', 'C02_turn', 'turn = dealer rotated by the number of accepted calls, none once ended; ended exactly when Law 22 says'),
 (P, 'personal_histories', 'C02_personal_histories', None),
 (P, 'no_proper_prefix_ended', 'C02_never_later', 'no reachable history has an ended proper prefix: the auction never continues after it should have ended'),
 (P, 'finished_iff_ended', 'C02_finished_iff_ended', None),
 (P, 'after_end', 'C02_after_end', 'once ended every further call raises and nothing changes'),
 (P, 'length_bound', 'C02_length_bound', None),
 (P, 'ex_longest_accepted', 'C02_example_longest_auction', 'non-vacuity: the 319-call auction is accepted call by call'),
 (P, 'ex_passed_out', 'C02_example_passed_out', None),
 (G, 'g_take_bid_eq', 'C02_generated_model_is_hand_model', 'for the functions regenerated from bidding_phase.py on every run'),
 (GC, 'g_turn', 'C02_turn_generated', None),
 (GC, 'g_after_end', 'C02_after_end_generated', None),
])
m.write('C03', 'Final contract is the last bid, its doubling state and its true declarer.', IMP, '', [
 (P, 'contract_at_end', 'C03_contract', 'for every finished auction the reported contract is the one Spec/Laws.v derives from the bare history'),
 (P, 'no_contract_before_end', 'C03_none_before_end', None),
 (P, 'ex_redoubled_contract', 'C03_example_redoubled', 'non-vacuity'),
 (P, 'ex_declarer_is_first_namer', 'C03_example_declarer_is_first_namer', None),
 (G, 'g_contract_eq', 'C03_generated_contract_is_hand_model', 'contract() regenerated from bidding_phase.py on every run'),
 (GC, 'g_contract_at_end', 'C03_contract_generated', None),
 (GC, 'g_no_contract_before_end', 'C03_none_before_end_generated', None),
])
