import sys; sys.path.insert(0, '/verif/harness')
import mkprops as m
S = 'Proofs/Session.v'
E = 'Proofs/SessionExamples.v'
IMP = ('From BE Require Import Model.Session Model.SessionTie Spec.SessionSpec Proofs.Kahn Proofs.Session Proofs.SessionExamples.\n'
       'From BE Require Import Gen.Skeleton Proofs.SkeletonPin.\n'
       'From Coq Require Import ZArith.\nLocal Open Scope nat_scope.\nLocal Open Scope list_scope.')
COMMON = [
 (S, 'session_wf', '{P}_ownership', 'every channel of the session network has one reader and one writer, for every input and every message that might arrive'),
 (S, 'session_any_run_extends', '{P}_any_schedule_can_be_completed', 'confluence: a run that has not finished can always be extended to the final state of any terminating run, with the same total number of steps'),
 (S, 'session_maximal_runs_agree', '{P}_all_maximal_runs_agree', 'every maximal run, under every scheduler, ends in the same state after the same number of steps'),
 (S, 'session_no_run_is_longer', '{P}_no_run_is_longer', None),
 (S, 'canonical_run_sound', '{P}_canonical_run_is_a_run', None),
 ('Proofs/SkeletonPin.v', 'server_skeleton_pinned', '{P}_server_skeleton_is_the_modelled_one', 'the synchronisation skeleton of server.py, re-extracted from the source on this run, is the one the session model was written against'),
]
def common(P): return [(a, b, c.replace('{P}', P), d) for a, b, c, d in COMMON]

PO = 'Proofs/SessionPassOut.v'
m.write('C09', 'A session with four conforming clients always runs to completion (every schedule).', IMP.replace('Proofs.SessionExamples.', 'Proofs.SessionExamples Proofs.SessionPassOut Proofs.Wire Model.Conform Proofs.SessionConform Proofs.SessionAdmission Proofs.SessionArrivals Proofs.SessionAbort.').replace('From Coq Require Import ZArith.', 'From Coq Require Import ZArith Permutation.'), '''(* FULL STATEMENT, PROVED (C09_conforming_sessions_complete / _every_schedule, Proofs/SessionConform.v): for every non-empty
   board list (any deals, dealers, vulnerabilities, ids), any two team names and EVERY conforming behaviour of the four clients
   (any legal auction of any length, any sequence of legal plays, every spelling of a call or card that the server parses - case,
   alerts, either card notation), every schedule of the network of threads ends with every process returned and one log record
   per board.  First proved for clients connecting in the order N, E, S, W, then lifted to EVERY list of requests that fills the
   table (C09_any_arrivals_every_schedule): main, the four seated connections and their clients return, turned-away clients
   have stopped at their error line, and only the clients of requests that arrived after the table was full wait for ever -
   which is what the property's premise (four conforming clients) leaves open. *)''',
 common('C09') + [
 (S, 'every_schedule_reaches_canonical', 'C09_every_schedule_completes_partial', 'if the canonical run of a session reaches a final state, every schedule of that session reaches exactly that state: no deadlock, no lost wake-up, however long a thread is delayed'),
 ('Proofs/SessionConform.v', 'conforming_session_completes', 'C09_conforming_sessions_complete', 'FULL, symbolic and unbounded: for every conforming session a schedule exists that drives the network to the state where every process has returned, with a log of one record per board'),
 ('Proofs/SessionConform.v', 'conforming_session_every_schedule', 'C09_conforming_sessions_every_schedule', 'hence EVERY schedule of every conforming session completes - no deadlock, no lost wake-up, however long a thread is delayed - in the same final state and within the same number of steps'),
 ('Proofs/SessionArrivals.v', 'conforming_session_any_arrivals_every_schedule', 'C09_any_arrivals_every_schedule', 'FULL for every request list that fills the table, any number of connections: every schedule ends, within the same number of steps, in the one final state described by arrivals_outcome - main returned, log complete, the four seated connections and their clients returned'),
 ('Proofs/SessionArrivals.v', 'conforming_session_any_order', 'C09_any_order_of_the_four', 'in particular for the four acceptable requests in any order every process finishes'),
 ('Proofs/SessionAbort.v', 'no_infinite_schedule', 'C09_no_infinite_schedule', 'and for EVERY input, conforming or not: no schedule of the network runs for ever (every step descends in a well-founded order)'),
 (PO, 'passout_session_completes', 'C09_passed_out_sessions_complete', 'the special case proved first: ANY non-empty list of boards (arbitrary deals, dealers, vulnerabilities, ids), four clients arriving N, E, S, W, everybody passing: a schedule exists that drives the network to the state where every process has returned, with a log of one record per board'),
 (PO, 'passout_session_every_schedule', 'C09_passed_out_sessions_every_schedule', 'hence EVERY schedule of such a session completes, in the same way and within the same number of steps'),
 (E, 'ex_played_completes', 'C09_example_played_session_completes', 'non-vacuity: a two-board session taken from a real run'),
 (E, 'ex_passed_out_completes', 'C09_example_passed_out_session_completes', None),
 (E, 'ex_played_model_is_the_real_run', 'C09_example_model_is_the_real_run', None),
])
m.write('C13', 'An aborted session still leaves a well-formed log of the completed boards.', IMP.replace('Proofs.SessionExamples.', 'Proofs.SessionExamples Model.Conform Proofs.SessionConform Proofs.SessionPassOut Proofs.Wire Model.Json Model.JsonFramingHand Proofs.C13Cor Proofs.JsonPins Proofs.SessionAbort Proofs.SessionAdmission Proofs.SessionArrivals Proofs.SessionAbortArrivals.'), '''(* FULL STATEMENT, PROVED (Proofs/SessionAbort.v for clients connecting in the order N, E, S, W; Proofs/SessionAbortArrivals.v for EVERY
   request list that fills the table, by the network embedding of Proofs/KahnEmbed.v): if the seated clients
   conform on the first a boards and board a+1 goes wrong at ANY position - a call text that does not parse, a call that parses
   but is illegal, a card text that does not parse, a card the table refuses - by whichever seat is on turn, then some schedule
   makes the main thread raise, no schedule can avoid it, every schedule is bounded, and whenever the main thread has ended (or
   nothing can move) the file is open ; the model records of exactly the first a boards ; close, and parses to those records.
   An operator interrupt after k main-thread steps leaves a prefix of the records of the uninterrupted session.  Not covered: a
   client that stops silently (then nothing is abandoned: the session blocks), and which prefix a given k yields. *)''',
 common('C13') + [
 (S, 'log_always_wellformed', 'C13_log_always_wellformed', 'for every input (conforming or not), every interrupt point and EVERY schedule: at every moment the file content is open ; record* [; close]'),
 (S, 'log_complete_when_main_ends', 'C13_abort_log_complete', 'and once the main thread has ended - returned or raised, wherever and for whatever reason - the log is complete: never opened, or open ; record* ; close. Records are single writes, so each listed board is whole'),
 ('Proofs/JsonPins.v', 'framing_pinned', 'C13_source_framing_is_the_modelled_one', 'the literals the writer puts around and between the records, re-read from writer.py on this run, are the ones these theorems use'),
 ('Proofs/C13Cor.v', 'aborted_log_parses', 'C13_aborted_log_parses', 'and such a file - written with the literals regenerated from writer.py - is one JSON document whose records are exactly those'),
 ('Proofs/SessionAbort.v', 'abandoned_session_log', 'C13_abandoned_session_log', 'FULL, symbolic and unbounded: any abort point (board, position, seat) and each kind of offending action'),
 ('Proofs/SessionAbort.v', 'abandoned_session_bounded', 'C13_abandoned_session_bounded', 'one final state, every schedule bounded, every maximal schedule ends in it'),
 ('Proofs/SessionAbortArrivals.v', 'abandoned_session_any_arrivals', 'C13_abandoned_session_any_arrivals', 'the same for EVERY request list that fills the table (any order, refusals in between, late requests)'),
 ('Proofs/SessionAbortArrivals.v', 'abandoned_session_any_arrivals_bounded', 'C13_abandoned_session_any_arrivals_bounded', None),
 ('Proofs/SessionAbortArrivals.v', 'abandoned_session_any_arrivals_interrupted', 'C13_abandoned_and_interrupted_any_arrivals', None),
 ('Proofs/SessionAbort.v', 'interrupted_session_log', 'C13_interrupted_session_log', 'operator interrupt at any step of the main thread: the file holds a prefix of the records'),
 ('Proofs/SessionAbort.v', 'interrupted_session_every_schedule', 'C13_interrupted_session_every_schedule', None),
 ('Proofs/SessionAbort.v', 'abandoned_session_interrupted', 'C13_abandoned_and_interrupted', None),
 ('Proofs/SessionAbort.v', 'no_infinite_schedule', 'C13_no_infinite_schedule', 'for EVERY state of the network (any input): no schedule runs for ever'),
 ('Proofs/SessionAbort.v', 'every_run_extends_to_a_final_state', 'C13_every_run_ends', None),
 (S, 'every_schedule_reaches_canonical', 'C13_same_log_under_every_schedule_partial', 'which boards are listed does not depend on the schedule'),
 (E, 'ex_aborted_main_raised', 'C13_example_aborted', 'non-vacuity: a session abandoned on board 2 because of an unparseable call'),
 (E, 'ex_aborted_log_shape', 'C13_example_aborted_log', None),
 (E, 'ex_aborted_model_is_the_real_run', 'C13_example_model_is_the_real_run', None),
])
m.write('C08', "The table manager's log records exactly what was played (every schedule).", IMP.replace('Proofs.SessionExamples.', 'Proofs.SessionExamples Model.Conform Model.Json Proofs.RecordSpec Proofs.SessionPassOut Proofs.Wire Proofs.SessionConform Proofs.SessionConformLog Proofs.SessionAdmission Proofs.SessionArrivals Proofs.SessionArrivalsCor Gen.JsonFns Proofs.JsonGen Gen.ScoreFns Proofs.ScoreGen.'), '''(* FULL STATEMENT, PROVED (C08_conforming_session_log_is_the_reference / _every_schedule, Proofs/SessionConformLog.v): for
   every non-empty board list and every conforming behaviour of the four clients, under EVERY schedule the log is
   open ; one record per board, in order ; close, and each record is, as a JSON value, record_spec of the sequential reference
   (the boards and what the players said, by the Laws / play reference / Law 77 formulas of Spec/).  First proved for clients
   connecting in the order N, E, S, W (the C08_conforming_session_log theorems), then lifted to EVERY list of requests that fills the table -
   any order, with wrong versions, duplicates and mismatching partners turned away in between and late requests ignored -
   by embedding the four-connection network into the n-connection one (C08_any_arrivals_log_is_the_reference). *)''',
 common('C08') + [
 (S, 'every_schedule_reaches_canonical', 'C08_log_independent_of_timing_partial', 'the final state - hence the log - of a session does not depend on thread timing'),
 (S, 'log_always_wellformed', 'C08_log_wellformed', None),
 ('Proofs/SessionConformLog.v', 'conforming_session_log', 'C08_conforming_session_log', 'FULL, symbolic and unbounded, at the level of the thread network: a run of every conforming session ends with every process returned and the log open ; records ; close, where the record of board j is the record the model builds from board j and the four scripts'),
 ('Proofs/SessionConformLog.v', 'conforming_session_log_is_spec', 'C08_conforming_session_log_is_the_reference', 'and, as JSON values, the records are exactly the sequential reference record_spec of Spec/SessionSpec.v'),
 ('Proofs/SessionConformLog.v', 'conforming_session_log_every_schedule', 'C08_conforming_session_log_every_schedule', 'EVERY maximal run of the session ends in that same state - the log does not depend on thread timing'),
 ('Proofs/SessionArrivalsCor.v', 'any_arrivals_log_and_views_are_the_reference', 'C08_any_arrivals_log_is_the_reference', 'FULL for every request list that fills the table (any order, refusals in between, late requests): under every schedule the log is the reference record of every board - and every seated connection is sent the reference view of its seat'),
 ('Proofs/ScoreGen.v', 'g_calc_score_eq', 'C08_generated_score_is_hand_model', 'calc_score REGENERATED from score.py on every run (with the numbers re-read from the source) equals the scoring function the session model uses'),
 ('Proofs/JsonGen.v', 'g_record_json_eq', 'C08_generated_record_writer_is_hand_model', 'the JSON value of a record as built by JsonLogWriter.write REGENERATED from writer.py on every run is record_json of the model'),
 ('Proofs/RecordSpec.v', 'model_record_is_record_spec', 'C08_model_record_is_the_reference_record', 'FULL, for every board and every conforming script (sequential, no threads): the record the table manager model builds with the MODEL functions (take_bid / contract_of, play_by / tricks, calc_score) is, as a JSON value, exactly record_spec of the sequential reference built with the SPEC functions (Laws, play reference, Law 77 formulas)'),
 (E, 'ex_played_real_run_is_the_reference', 'C08_example_log_is_the_reference', 'non-vacuity: the real run of a two-board session equals the sequential reference (log and transcripts)'),
 (E, 'ex_played_model_is_the_real_run', 'C08_example_model_is_the_real_run', None),
 (E, 'ex_passed_out_real_run_is_the_reference', 'C08_example_passed_out', None),
])
VW = 'Proofs/View.v'
m.write('C10', 'Each seat is told exactly what the protocol entitles it to, and nothing else (every schedule).', IMP.replace('Proofs.SessionExamples.', 'Proofs.SessionExamples Proofs.View Model.Conform Proofs.SessionPassOut Proofs.Wire Proofs.SessionConform Proofs.SessionConformLog Proofs.SessionAdmission Proofs.SessionArrivals Proofs.SessionArrivalsCor.').replace('Local Open Scope nat_scope.', 'Local Open Scope string_scope.\nLocal Open Scope nat_scope.'), '''(* FULL STATEMENT, PROVED (C10_conforming_session_views / _every_schedule, Proofs/SessionConformLog.v): for every non-empty
   board list and every conforming behaviour of the four clients, under EVERY schedule the complete sequence of lines sent
   on each of the four connections equals view_spec of Spec/SessionSpec.v for that seat; the theorems about view_spec below
   say that this reference is what the property states.  First proved for clients connecting in the order N, E, S, W, then
   lifted to EVERY list of requests that fills the table (C10_any_arrivals_views_are_the_reference). *)''',
 common('C10') + [
 (S, 'every_schedule_reaches_canonical', 'C10_transcripts_independent_of_timing_partial', 'the complete transcript of every connection does not depend on thread timing'),
 ('Proofs/SessionConformLog.v', 'conforming_session_views', 'C10_conforming_session_views', 'FULL, symbolic and unbounded: a run of every conforming session ends with every process returned and, on each of the four connections, exactly the lines of view_spec for that seat'),
 ('Proofs/SessionConformLog.v', 'conforming_session_views_every_schedule', 'C10_conforming_session_views_every_schedule', 'and EVERY maximal run ends in that same state: what each seat is told does not depend on thread timing'),
 ('Proofs/SessionArrivalsCor.v', 'any_arrivals_log_and_views_are_the_reference', 'C10_any_arrivals_views_are_the_reference', 'FULL for every request list that fills the table: under every schedule the connection seated at p is sent exactly view_spec for p'),
 (VW, 'view_board_decomp', 'C10_view_decomposition', 'the reference itself says what the property says: start line, header, own hand; then the auction part; then the play part'),
 (VW, 'board_starts_with_header', 'C10_board_starts_with_configured_header', None),
 (VW, 'view_spec_cards_lines', 'C10_only_own_cards_and_dummy', 'over a whole session the only cards lines a seat is sent are its own hand and Dummy (client texts that themselves look like a cards line excluded)'),
 (VW, 'dummy_never_sees_any_dummy_line', 'C10_dummy_never_sent_dummy', None),
 (VW, 'others_see_dummy_exactly_once', 'C10_others_sent_dummy_exactly_once', None),
 (VW, 'dummy_line_right_after_first_card', 'C10_dummy_shown_right_after_opening_lead', 'after the relayed opening lead (after its own lead prompt, for the leader) and before anything about the second card'),
 (VW, 'no_dummy_line_without_play', 'C10_no_dummy_without_play', None),
 (VW, 'calls_relayed_in_order', 'C10_calls_relayed_in_order_to_the_others', None),
 (VW, 'cards_relayed_to_others', 'C10_cards_relayed_in_order_to_the_others', 'to every seat other than the one that spoke for the card (declarer for dummy)'),
 (VW, 'lead_prompt_only_when_leading', 'C10_lead_prompt_only_to_the_leader', None),
 (VW, 'dummy_lead_prompt_only_for_declarer', 'C10_dummy_lead_prompt_only_to_declarer', None),
 (E, 'ex_played_real_run_is_the_reference', 'C10_example_transcripts_are_the_reference', 'non-vacuity'),
 (E, 'ex_admission_real_run_is_the_reference', 'C10_example_with_rejected_connections', None),
])
A = 'Proofs/SessionAdmission.v'
m.write('C20', 'Admission seats one conforming client per seat and turns the others away.', IMP.replace('Proofs.SessionExamples.', 'Proofs.SessionExamples Model.Conform Proofs.SessionConform Proofs.SessionPassOut Proofs.Wire Proofs.SessionAdmission Proofs.SessionArrivals.').replace('Local Open Scope nat_scope.', 'Local Open Scope string_scope.\nLocal Open Scope nat_scope.'), '',
 common('C20') + [
 (S, 'rejected_iff', 'C20_rejected_iff', 'a request is turned away exactly for a wrong protocol version, a seat already taken, or a team name different from the seated partner\'s'),
 (S, 'seated_keeps_seats', 'C20_monotone', 'whatever arrives later, a seated client keeps its seat and team (a rejected request leaves the table unchanged)'),
 (S, 'partners_share', 'C20_partners_share', None),
 (S, 'all_seated_eventually', 'C20_completes', 'if every seat is eventually offered an acceptable request, all four seats are taken'),
 (A, 'table_seats_first_acceptable', 'C20_first_acceptable_request_per_seat', 'the table reached seats, in every seat, exactly the FIRST request for it that was acceptable when it was looked at; every other request for that seat that was looked at was turned away'),
 (A, 'admission_phase_any', 'C20_admission_network_any', 'FULL, symbolic and unbounded, at the level of the thread network: for EVERY list of requests (any seats, teams, versions, order, length; no hypothesis) there is a schedule after which main has run the accept loop over exactly the requests it looks at and every connection is in the state its outcome prescribes'),
 (A, 'admission_phase', 'C20_admission_network', 'when the requests fill the table: every request looked at and turned away got exactly its error line and was closed, its thread returned, its client failed; every seated one got exactly its seated line; the requests after the table was full were never looked at'),
 (A, 'seating_phase', 'C20_seating_network', 'and then all four are told both team names (the names of the table) and the first board is about to start - for any boards and scripts'),
 ('Proofs/SessionArrivals.v', 'conforming_session_any_arrivals', 'C20_whole_session_any_arrivals', 'and the whole session that follows: with conforming seated clients a run exists to a final state where every turned-away connection holds exactly [its error line; CLOSED], every late one was never answered, and the seated four played every board'),
 ('Proofs/SessionArrivals.v', 'conforming_session_any_arrivals_every_schedule', 'C20_whole_session_every_schedule', 'under EVERY schedule'),
 (S, 'every_schedule_reaches_canonical', 'C20_independent_of_timing_partial', 'with the confluence theorem above all maximal runs end in one final state, a continuation of the state reached by that schedule (transcripts are append-only)'),
 (A, 'premises_satisfiable', 'C20_example_premises', 'non-vacuity: eight requests - wrong version, duplicate seat, partner mismatch, one too late'),
 (A, 'admission_instance', 'C20_example_admission_instance', None),
 (E, 'ex_admission_model_is_the_real_run', 'C20_example_model_is_the_real_run', 'non-vacuity: eight requests, four turned away'),
 (E, 'ex_admission_real_run_is_the_reference', 'C20_example_real_run_is_the_reference', None),
])
