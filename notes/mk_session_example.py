"""Generates coq/Proofs/SessionExamples.v once (committed): concrete sessions, taken from real controlled runs, on which the
model's canonical run completes and equals the sequential reference - non-vacuity for the session theorems."""
import sys, random, json
sys.path.insert(0, '/verif/harness')
import lib
from props import session_common as sc
r = random.Random(11)
boards = sc.gen_boards(r, 2)
for b in boards: b['dda'] = None
arr = sc.four_arrivals(r, style='competitive')
sess = dict(boards=boards, arrivals=arr, strategy='rr', sched_seed=1)
o = sc.run_sessions([sess])[0]
assert o['result'] == 'finished'
# a passed-out board as second session
arr2 = sc.four_arrivals(r, style='pass', variant=False)
sess2 = dict(boards=boards[:1], arrivals=arr2, strategy='rr', sched_seed=1)
o2 = sc.run_sessions([sess2])[0]
# an aborted session: garbage call on board 2
arr3 = [dict(a) for a in arr]
arr3[1]['fault'] = dict(kind='garbage_call', board=2, nth=1)
sess3 = dict(boards=boards, arrivals=arr3, strategy='rr', sched_seed=1)
o3 = sc.run_sessions([sess3])[0]
# admission with turned-away requests
arr4 = [dict(seat=0, team='A', version=18), dict(seat=0, team='A', version=18), dict(seat=1, team='B', version=17), dict(seat=2, team='X', version=18),
        dict(seat=1, team='B', version=18), dict(seat=2, team='A', version=18), dict(seat=3, team='B', version=18), dict(seat=3, team='B', version=18)]
for a in arr4: a.update(policy_seed=3, style='pass', variant={})
sess4 = dict(boards=boards[:1], arrivals=arr4, strategy='rr', sched_seed=1)
o4 = sc.run_sessions([sess4])[0]
out = ['(* GENERATED ONCE by notes/mk_session_example.py from real controlled runs of the implementation; committed.',
       '   Concrete sessions on which the canonical run of the network model completes and equals the sequential reference. *)',
       'From BE Require Import Model.Session Model.SessionTie Model.JsonTie Spec.SessionSpec Model.CaseLib.',
       'From Coq Require Import ZArith.', 'Local Open Scope string_scope.', 'Local Open Scope nat_scope.', 'Local Open Scope list_scope.']
def spec_args(s, o):
    ob = sc.observed(s, o)
    lit = sc.spec_lit(s, o['scripts'], ob)
    return lit
for name, s, o in (('played', sess, o), ('passed_out', sess2, o2), ('aborted', sess3, o3), ('admission', sess4, o4)):
    out.append(f'Definition ex_{name} : session := {sc.csession(s, o["scripts"])}.')
    out.append(f'Definition ex_{name}_observed : observed := {sc.cobserved(sc.observed(s, o))}.')
    out.append(f'Definition ex_{name}_spec_input := {spec_args(s, o)}.')
open('/verif/coq/Proofs/SessionExamples.v', 'w').write('\n'.join(out) + '''

(* the canonical run completes: final state reached, every thread returned *)
Definition completes (x : session) : bool :=
  let '(s, sched, ok) := run_session FUEL x in ok && Kahn.all_doneb msg s.
Definition log_of (x : session) := let '(s, _, _) := run_session FUEL x in log_events (nconn x) s.
Definition main_code (x : session) := let '(s, _, _) := run_session FUEL x in option_map proc_code (nth_error (Kahn.procs msg s) 0).
Definition spec_ok (k : list sboard * list request * list (list said) * option (list json) * list (list string)) : nat :=
  let '(b, r, s, l, d) := k in session_ok b r s l d.

Example ex_played_completes : completes ex_played = true. Proof. vm_compute. reflexivity. Qed.
Example ex_played_log_shape : match log_of ex_played with [LOpen; LRec _; LRec _; LClose] => True | _ => False end. Proof. vm_compute. exact I. Qed.
Example ex_played_model_is_the_real_run : tie_session ex_played ex_played_observed = 0. Proof. vm_compute. reflexivity. Qed.
Example ex_played_real_run_is_the_reference : spec_ok ex_played_spec_input = 0. Proof. vm_compute. reflexivity. Qed.
Example ex_passed_out_completes : completes ex_passed_out = true. Proof. vm_compute. reflexivity. Qed.
Example ex_passed_out_model_is_the_real_run : tie_session ex_passed_out ex_passed_out_observed = 0. Proof. vm_compute. reflexivity. Qed.
Example ex_passed_out_real_run_is_the_reference : spec_ok ex_passed_out_spec_input = 0. Proof. vm_compute. reflexivity. Qed.
(* an aborted session: main raised, the log holds exactly the first board and is closed *)
Example ex_aborted_main_raised : main_code ex_aborted = Some 1. Proof. vm_compute. reflexivity. Qed.
Example ex_aborted_log_shape : match log_of ex_aborted with [LOpen; LRec _; LClose] => True | _ => False end. Proof. vm_compute. exact I. Qed.
Example ex_aborted_model_is_the_real_run : tie_session ex_aborted ex_aborted_observed = 0. Proof. vm_compute. reflexivity. Qed.
(* admission: eight requests, four turned away, then a board is played *)
Example ex_admission_model_is_the_real_run : tie_session ex_admission ex_admission_observed = 0. Proof. vm_compute. reflexivity. Qed.
Example ex_admission_real_run_is_the_reference : spec_ok ex_admission_spec_input = 0. Proof. vm_compute. reflexivity. Qed.
''')
print('written', [x['result'] for x in (o, o2, o3, o4)])
