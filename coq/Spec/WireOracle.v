(* Oracle for C19, from the statement itself: what one end builds the other end reads back as the original value;
   CR LF framing delivers every complete message in order and then stops with an error at end of stream.
   Independent of Model/Wire.v. *)
From Coq Require Import String Ascii Arith Bool List.
Import ListNotations.
From BE Require Import Model.CaseLib.
Local Open Scope nat_scope.

(* (expected value, observed value) as small codes; None = the parser raised *)
Definition rt_ok (k : list nat * option (list nat)) : bool := opt_eqb (list_eqb Nat.eqb) (Some (fst k)) (snd k).
Definition rt_text_ok (k : list string * option (list string)) : bool := opt_eqb (list_eqb String.eqb) (Some (fst k)) (snd k).
(* complete messages of a byte stream: maximal CR-free runs each followed by CR LF *)
Fixpoint complete (data cur : list nat) : list (list nat) :=
  match data with
  | [] => []
  | 13 :: 10 :: r => rev cur :: complete r []
  | 13 :: _ => []                      (* CR not followed by LF: protocol error, nothing more is delivered *)
  | b :: r => complete r (b :: cur) end.
(* data = frames of CR-free messages cut at any position; observed messages; end code: 0 error raised, 1 spin, 2 decode *)
Definition frame_ok (k : list nat * list (list nat) * nat) : bool :=
  let '(data, msgs, e) := k in list_eqb (list_eqb Nat.eqb) msgs (complete data []) && (e =? 0).
