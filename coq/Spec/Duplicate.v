(* Duplicate bridge scoring, Law 77, written as formulas (no tables) and without
   reference to the code or to Gen.  Independent oracle for C07/C08. *)
From BE Require Export Model.Basics.
Local Open Scope Z_scope.

Definition trick_score (s : strain) (lv : Z) : Z :=
  match s with Tr Cl | Tr Di => 20 * lv | Tr He | Tr Sp => 30 * lv | NT => 30 * lv + 10 end.
Definition overtrick_undoubled (s : strain) : Z := match s with Tr Cl | Tr Di => 20 | _ => 30 end.
Definition mult (st : dbl_status) : Z := match st with Undoubled => 1 | Doubled => 2 | Redoubled => 4 end.

(* penalty for n >= 1 undertricks *)
Definition doubled_penalty (vul : bool) (n : Z) : Z :=
  if vul then 200 + 300 * (n - 1)
  else if n <=? 3 then 100 + 200 * (n - 1) else 500 + 300 * (n - 3).
Definition penalty (st : dbl_status) (vul : bool) (n : Z) : Z :=
  match st with
  | Undoubled => n * (if vul then 100 else 50)
  | Doubled => doubled_penalty vul n
  | Redoubled => 2 * doubled_penalty vul n end.

(* score from declarer's side: level 1..7, tricks 0..13 *)
Definition dup_score (lv : Z) (s : strain) (st : dbl_status) (vul : bool) (tricks : Z) : Z :=
  let need := lv + 6 in
  if tricks <? need then - penalty st vul (need - tricks)
  else
    let base := trick_score s lv * mult st in
    let part_or_game := if 100 <=? base then (if vul then 500 else 300) else 50 in
    let slam := if lv =? 6 then (if vul then 750 else 500)
                else if lv =? 7 then (if vul then 1500 else 1000) else 0 in
    let insult := match st with Undoubled => 0 | Doubled => 50 | Redoubled => 100 end in
    let per_over := match st with
                    | Undoubled => overtrick_undoubled s
                    | Doubled => if vul then 200 else 100
                    | Redoubled => if vul then 400 else 200 end in
    base + part_or_game + slam + insult + per_over * (tricks - need).

(* vulnerability of a seat's side, stated from scratch *)
Definition declarer_vulnerable (d : seat) (v : vul) : bool :=
  match v with
  | VNone => false | VBoth => true
  | VNS => match d with North | South => true | _ => false end
  | VEW => match d with East | West => true | _ => false end end.

(* the official IMP scale (Law 78B): lower bounds of 1..24 IMPs *)
Definition official_imp_bounds : list Z :=
  [20; 50; 90; 130; 170; 220; 270; 320; 370; 430; 500; 600; 750; 900; 1100; 1300; 1500; 1750;
   2000; 2250; 2500; 3000; 3500; 4000].
Definition count_le (a : Z) (l : list Z) : Z := Z.of_nat (length (filter (fun t => t <=? a) l)).
Definition official_imps (d : Z) : Z := Z.sgn d * count_le (Z.abs d) official_imp_bounds.
