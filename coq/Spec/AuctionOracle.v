(* Oracle for C01-C03: checks recorded behaviour of an auction implementation against Spec/Laws.v.
   Observations are those printed by harness/drivers/auction.py.  Independent of Model/Auction.v. *)
From BE Require Import Spec.Laws Model.CaseLib.
From Coq Require Import NArith.
Local Open Scope nat_scope.

Definition mask_of (l : list bool) : N := fold_right (fun (b : bool) acc => ((if b then 1 else 0) + 2 * acc)%N) 0%N l.
(* one offered call: (call idx, availability mask before, active before (4 = none),
   flags before/after: 1 contract() is None, 2 has_done(), 4 state unchanged by the offer, 8 history grew by exactly this call,
   16 vector has an entry other than 0/1;  return code 0 raises 1 ILLEGAL 2 ONGOING 3 FINISHED;
   probe of all 38 calls on copies: masks of accepted / FINISHED / raising) *)
Definition ostep := (nat * N * nat * nat * nat * option (N * N * N))%type.
Definition ofinal := (list nat * list (list nat) * nat * bool * option (option nat * bool * bool * nat * option nat * bool))%type.
Definition flag (f bit : nat) : bool := Nat.odd (f / bit).
Definition o_c (o : ostep) := let '(c, _, _, _, _, _) := o in c.
Definition o_ret (o : ostep) := let '(_, _, _, _, r, _) := o in r.
Definition accepted (o : ostep) : bool := (o_ret o =? 2) || (o_ret o =? 3).
Definition finishes (d : seat) (h : list call) (c : call) : bool := legal d h c && ended (h ++ [c]).
Definition all_ones : N := mask_of (repeat true 38).

Definition c01_step (d : seat) (h : list call) (o : ostep) : bool :=
  let '(ci, m, _, f, r, pr) := o in
  let c := bn ci in
  if ended h then true else
  negb (r =? 0) && Bool.eqb ((r =? 2) || (r =? 3)) (legal d h c) && ((r =? 1) || (r =? 2) || (r =? 3)) &&
  (if r =? 1 then flag f 4 else flag f 8) && negb (flag f 16) &&
  N.eqb m (mask_of (map (legal d h) all_calls)) &&
  match pr with None => true
  | Some (acc, _, rai) => N.eqb acc (mask_of (map (legal d h) all_calls)) && N.eqb rai 0%N end.

Definition c02_step (d : seat) (h : list call) (o : ostep) : bool :=
  let '(ci, _, a, f, r, pr) := o in
  let c := bn ci in
  (a =? (if ended h then 4 else seat_idx (caller d (length h)))) && Bool.eqb (flag f 2) (ended h) &&
  if ended h then (r =? 0) && flag f 4 && match pr with None => true | Some (_, _, rai) => N.eqb rai all_ones end
  else Bool.eqb (r =? 3) (finishes d h c) &&
       match pr with None => true | Some (_, fin, _) => N.eqb fin (mask_of (map (finishes d h) all_calls)) end.

Definition c03_step (d : seat) (h : list call) (o : ostep) : bool :=
  let '(_, _, _, f, _, _) := o in Bool.eqb (flag f 1) (negb (ended h)).

(* walk the recorded steps, rebuilding the accepted history from the recorded return codes;
   0 = all steps fine, S i = step i is the first that is not *)
Fixpoint walk (chk : seat -> list call -> ostep -> bool) (d : seat) (h : list call) (steps : list ostep) (i : nat) : nat * list call :=
  match steps with
  | [] => (0, h)
  | o :: r => if chk d h o then walk chk d (if accepted o then h ++ [bn (o_c o)] else h) r (S i) else (S i, h) end.

Definition c02_final (d : seat) (h : list call) (fin : ofinal) : bool :=
  let '(fh, fph, fa, fd, _) := fin in
  list_eqb Nat.eqb fh (map call_idx h) &&
  list_eqb (list_eqb Nat.eqb) fph (map (fun p => map call_idx (pick d p h)) all_seats) &&
  (fa =? (if ended h then 4 else seat_idx (caller d (length h)))) && Bool.eqb fd (ended h).
Definition kview (k : contract) :=
  (option_map (fun '(l, s) => call_idx (Bid l s)) (final_bid k), cx k, cxx k, vul_idx (cvul k), option_map seat_idx (cdeclarer k)).
Definition c03_final (d : seat) (v : vul) (h : list call) (fin : ofinal) : bool :=
  let '(_, _, _, _, fk) := fin in
  if ended h then
    match fk with
    | None => false
    | Some (fb, x, xx, vu, de, po) =>
        let k := contract_spec d v h in
        opt_eqb Nat.eqb fb (fst (fst (fst (fst (kview k))))) && Bool.eqb x (cx k) && Bool.eqb xx (cxx k) &&
        (vu =? vul_idx v) && opt_eqb Nat.eqb de (option_map seat_idx (cdeclarer k)) &&
        Bool.eqb po (match final_bid k with None => true | Some _ => false end) end
  else match fk with None => true | Some _ => false end.

(* a case = dealer idx, vul idx, steps, final;  results: 0 ok, S i = first bad step, 1000 = final observation *)
Definition acase := (nat * nat * list ostep * ofinal)%type.
Definition c01_case (k : acase) : nat := let '(d, _, st, _) := k in fst (walk c01_step (sn d) [] st 0).
Definition c02_case (k : acase) : nat :=
  let '(d, _, st, fin) := k in
  let '(r, h) := walk c02_step (sn d) [] st 0 in
  if r =? 0 then (if c02_final (sn d) h fin then 0 else 1000) else r.
Definition c03_case (k : acase) : nat :=
  let '(d, v, st, fin) := k in
  let '(r, h) := walk c03_step (sn d) [] st 0 in
  if r =? 0 then (if c03_final (sn d) (vn v) h fin then 0 else 1000) else r.
