(* The play of the cards according to the Laws (44, 45): who wins a trick, who leads,
   what may be played.  Stated without reference to the code. *)
From BE Require Export Model.Basics.
Local Open Scope nat_scope.

(* a card can win the trick only if it is a trump (when any trump was played in a suit contract)
   or, failing that, of the suit led *)
Definition trump_played (tr : strain) (cards : list card) : bool :=
  match tr with NT => false | Tr t => existsb (fun c => suit_beq (csuit c) t) cards end.
Definition eligible (tr : strain) (cards : list card) (c : card) : bool :=
  match tr, cards with
  | _, [] => false
  | Tr t, led :: _ => if trump_played tr cards then suit_beq (csuit c) t else suit_beq (csuit c) (csuit led)
  | NT, led :: _ => suit_beq (csuit c) (csuit led) end.
(* position i wins: its card is eligible, no eligible card ranks higher, and (for lists with repeated
   cards, which the bare environment does not refuse) it is the first such position *)
Definition wins (tr : strain) (cards : list card) (i : nat) : Prop :=
  exists c, nth_error cards i = Some c /\ eligible tr cards c = true /\
    (forall j c', nth_error cards j = Some c' -> eligible tr cards c' = true -> rank_val (crank c') <= rank_val (crank c)) /\
    (forall j c', j < i -> nth_error cards j = Some c' -> eligible tr cards c' = true -> rank_val (crank c') < rank_val (crank c)).

(* executable form used as the oracle: highest eligible rank, then the first position showing it *)
Definition best_rank (tr : strain) (cards : list card) : nat :=
  fold_right Nat.max 0 (map (fun c => rank_val (crank c)) (filter (eligible tr cards) cards)).
Fixpoint first_pos (f : card -> bool) (cards : list card) (i : nat) : nat :=
  match cards with [] => i | c :: r => if f c then i else first_pos f r (S i) end.
Definition winner (tr : strain) (cards : list card) : nat :=
  first_pos (fun c => eligible tr cards c && (rank_val (crank c) =? best_rank tr cards)) cards 0.

(* follow suit: from a hand, given the card led (None when leading) *)
Definition may_play (hand : list card) (led : option card) (c : card) : Prop :=
  In c hand /\
  match led with
  | None => True
  | Some f => (exists c', In c' hand /\ csuit c' = csuit f) -> csuit c = csuit f end.
