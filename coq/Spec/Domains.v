(* Finite domains the complete-domain theorems range over, with membership lemmas stated in Proofs/Finite.v *)
From BE Require Export Model.Basics.
Local Open Scope Z_scope.

Definition flag_combos : list (bool * bool) := [(false,false); (true,false); (false,true); (true,true)].
Definition bools := [false; true].
Definition all_level_strain : list (level * strain) :=
  flat_map (fun l => map (fun s => (l, s)) all_strains) all_levels.
Definition tricks14 : list Z := [0;1;2;3;4;5;6;7;8;9;10;11;12;13].
(* enumeration order of harness/drivers/score_graph.py *)
Definition score_domain : list contract :=
  flat_map (fun b => flat_map (fun f => flat_map (fun v => map (fun d =>
    mkcontract (Some b) (fst f) (snd f) v (Some d)) all_seats) all_vuls) flag_combos) all_level_strain.
Definition bid_score_domain : list ((level * strain) * (bool * bool) * bool) :=
  flat_map (fun b => flat_map (fun f => map (fun vb => (b, f, vb)) bools) flag_combos) all_level_strain.
Definition passed_out_domain : list contract :=
  flat_map (fun _ : bool => flat_map (fun v => map (fun d => mkcontract None false false v d)
    (None :: map Some all_seats)) all_vuls) bools.
