(* Oracle for C12 / C17(JSON), from the statement itself: what the parser returns equals what was written, field by field
   (normal forms built by the harness from the inputs and by the driver from the parser's value objects, with type tags). *)
From BE Require Import Model.Json Model.JsonTie Model.CaseLib.
Definition read_equals_written (k : list json * option (list json)) : bool := opt_eqb (list_eqb json_eqb) (Some (fst k)) (snd k).
