(* C15 oracle: what "notations are exact inverses" means, checked directly on tables of the
   implementation's converter results (any table of the right shape); independent of the models.
   Each checker returns the indices of the rows that violate the property. *)
From Coq Require Import String Ascii Arith Bool List.
Import ListNotations.
From BE Require Import Model.CaseLib.

Fixpoint nodupb {A} (eqb : A -> A -> bool) (l : list A) : bool :=
  match l with [] => true | x :: r => negb (existsb (eqb x) r) && nodupb eqb r end.
Definition nn_eqb (a b : nat * nat) := Nat.eqb (fst a) (fst b) && Nat.eqb (snd a) (snd b).
Definition on_eqb := @opt_eqb nat Nat.eqb.
Fixpoint indexed {A} (i : nat) (l : list A) : list (nat * A) :=
  match l with [] => [] | x :: r => (i, x) :: indexed (S i) r end.
Definition bad_rows {A} (ok : nat -> A -> bool) (l : list A) : list nat :=
  map fst (filter (fun p => negb (ok (fst p) (snd p))) (indexed 0 l)).

(* row k describes the card with rank k mod 13 + 2 and suit value k / 13 + 1 *)
Definition card_row_ok (k : nat) (r : nat * string * (nat * nat) * (nat * nat) * (nat * nat)) : bool :=
  let '(i, _, back_str, back_int, of_k) := r in
  let me := (k mod 13 + 2, k / 13 + 1) in
  Nat.eqb i k && nn_eqb back_str me && nn_eqb back_int me && nn_eqb of_k me.
Definition cards_bad (g : list (nat * string * (nat * nat) * (nat * nat) * (nat * nat))) : list nat :=
  bad_rows card_row_ok g
  ++ (if nodupb String.eqb (map (fun r => snd (fst (fst (fst r)))) g) then [] else [1000])
  ++ (if Nat.eqb (length g) 52 then [] else [1001]).
Definition ranks_bad (g : list (string * nat)) : list nat :=
  bad_rows (fun k r => Nat.eqb (snd r) (k + 2)) g
  ++ (if nodupb String.eqb (map fst g) then [] else [1000]) ++ (if Nat.eqb (length g) 13 then [] else [1001]).
(* bits: 1 lt, 2 le, 4 gt, 8 ge, 16 eq must be those of the indices a ? b *)
Definition cmp_bits (a b : nat) : nat :=
  (if a <? b then 1 else 0) + (if a <=? b then 2 else 0) + (if b <? a then 4 else 0) + (if b <=? a then 8 else 0)
  + (if Nat.eqb a b then 16 else 0).
Definition card_cmp_bad (g : list (list nat)) : list nat :=
  bad_rows (fun a row => Nat.eqb (length row) 52 && forallb (fun p => Nat.eqb (snd p) (cmp_bits a (fst p))) (indexed 0 row)) g
  ++ (if Nat.eqb (length g) 52 then [] else [1001]).
(* row k describes the call with value k + 1 *)
Definition call_row_ok (k : nat) (r : nat * string * nat * nat * option nat * option nat * option nat) : bool :=
  let '(i, _, back_str, back_int, lvl, su, back_ls) := r in
  Nat.eqb i k && Nat.eqb back_str (k + 1) && Nat.eqb back_int (k + 1) &&
  (if k <? 35 then on_eqb lvl (Some (k / 5 + 1)) && on_eqb su (Some (k mod 5 + 1)) && on_eqb back_ls (Some (k + 1))
   else on_eqb lvl None && on_eqb su None).
Definition calls_bad (g : list (nat * string * nat * nat * option nat * option nat * option nat)) : list nat :=
  bad_rows call_row_ok g
  ++ (if nodupb String.eqb (map (fun r => snd (fst (fst (fst (fst (fst r)))))) g) then [] else [1000])
  ++ (if Nat.eqb (length g) 38 then [] else [1001]).
Definition seats_bad (g : list (string * nat * string * nat * list nat * list nat)) : list nat :=
  bad_rows (fun k r => let '(_, back, _, backf, _, _) := r in Nat.eqb back (k + 1) && Nat.eqb backf (k + 1)) g
  ++ (if nodupb String.eqb (map (fun r => fst (fst (fst (fst (fst r))))) g) then [] else [1000])
  ++ (if nodupb String.eqb (map (fun r => snd (fst (fst (fst r)))) g) then [] else [1002])
  ++ (if Nat.eqb (length g) 4 then [] else [1001]).
Definition vuls_bad (g : list (string * string * nat * nat)) : list nat :=
  bad_rows (fun k r => let '(_, _, b1, b2) := r in Nat.eqb b1 (k + 1) && Nat.eqb b2 (k + 1)) g
  ++ (if nodupb String.eqb (map (fun r => fst (fst (fst r))) g) then [] else [1000])
  ++ (if nodupb String.eqb (map (fun r => snd (fst (fst r))) g) then [] else [1002])
  ++ (if Nat.eqb (length g) 4 then [] else [1001]).
(* the seven accepted spellings *)
Definition vul_inputs_expected : list (string * option nat) :=
  [("None", Some 1); ("Love", Some 1); ("-", Some 1); ("Both", Some 4); ("All", Some 4); ("NS", Some 2); ("EW", Some 3)]%string.
Definition vul_inputs_bad (g : list (string * option nat)) : list nat :=
  mismatches (fun a b => String.eqb (fst a) (fst b) && on_eqb (snd a) (snd b)) g vul_inputs_expected.
Definition suits_bad (g : list (string * nat * bool * bool)) : list nat :=
  bad_rows (fun k r => let '(_, back, _, _) := r in Nat.eqb back (k + 1)) g
  ++ (if nodupb String.eqb (map (fun r => fst (fst (fst r))) g) then [] else [1000]) ++ (if Nat.eqb (length g) 5 then [] else [1001]).
Definition pairs_bad (g : list (string * nat * nat * list bool)) : list nat :=
  bad_rows (fun k r => let '(_, back, _, _) := r in Nat.eqb back (k + 1)) g
  ++ (if nodupb String.eqb (map (fun r => fst (fst (fst r))) g) then [] else [1000]) ++ (if Nat.eqb (length g) 2 then [] else [1001]).

(* contract row k: bid k / 80, flags (k / 20) mod 4 in the order ff tf ft tt, vul (k / 5) mod 4, declarer k mod 5 (0 = none) *)
Definition status (x xx : bool) : nat := if xx then 2 else if x then 1 else 0.
Definition contract_row_ok (k : nat)
  (r : string * option (option nat * bool * bool * nat * option nat * option nat * option nat) * option bool) : bool :=
  let b := k / 80 in let f := (k / 20) mod 4 in let v := (k / 5) mod 4 in let d := k mod 5 in
  let x := Nat.eqb f 1 || Nat.eqb f 3 in let xx := Nat.eqb f 2 || Nat.eqb f 3 in
  match snd (fst r) with
  | Some (fb, px, pxx, pv, pd, plvl, ptr) =>
      on_eqb plvl (Some (b / 5 + 1)) && on_eqb ptr (Some (b mod 5 + 1)) && Nat.eqb pv (v + 1) &&
      on_eqb pd (if Nat.eqb d 0 then None else Some d) && Nat.eqb (status px pxx) (status x xx)
  | None => false end.
Definition contracts_bad g : list nat :=
  bad_rows contract_row_ok g ++ (if Nat.eqb (length g) (35 * 80) then [] else [9999]).
Definition passed_out_row_ok (k : nat)
  (r : string * option (option nat * bool * bool * nat * option nat * option nat * option nat) * option bool) : bool :=
  match r with
  | (_, Some (None, false, false, pv, None, None, None), Some true) => Nat.eqb pv (k mod 4 + 1)
  | _ => false end.
Definition passed_out_bad g : list nat := bad_rows passed_out_row_ok g ++ (if Nat.eqb (length g) 8 then [] else [1001]).
