(* Oracles for C04, C05, C06, C11(in process): recorded behaviour of the playing-phase classes
   checked against Spec/PlayLaws.v by a sequential reference written from the laws.  Independent of Model/Play.v. *)
From BE Require Import Spec.PlayLaws Model.CaseLib.
Local Open Scope nat_scope.

(* reference: who leads, whose turn, counts, record - from the list of cards played so far *)
Record ref := mkR { r_leader : seat; r_trick : list card; r_num : nat; r_ns : nat; r_ew : nat; r_hist : list (seat * list card) }.
Definition ref_init (decl : seat) : ref := mkR (next decl) [] 1 0 0 [].
Definition ref_turn (r : ref) : seat := rot (r_leader r) (length (r_trick r)).
Definition ref_play (tr : strain) (r : ref) (c : card) : ref :=
  let t := r_trick r ++ [c] in
  if length t =? 4 then
    let w := rot (r_leader r) (winner tr t) in
    mkR w [] (S (r_num r)) (match side_of w with NS => S (r_ns r) | EW => r_ns r end)
        (match side_of w with EW => S (r_ew r) | NS => r_ew r end) (r_hist r ++ [(r_leader r, t)])
  else mkR (r_leader r) t (r_num r) (r_ns r) (r_ew r) (r_hist r).

Definition strain_of_bid (b : nat) : strain := match bn b with Bid _ s => s | _ => NT end.
(* public projection: leader, active, trick number, NS tricks, EW tricks, number of recorded tricks, has_done *)
Definition proj := (nat * nat * nat * nat * nat * nat * bool)%type.
Definition ref_proj (r : ref) : proj :=
  (seat_idx (r_leader r), seat_idx (ref_turn r), r_num r, r_ns r, r_ew r, length (r_hist r), 13 <? r_num r).
Definition proj_eqb (a b : proj) : bool :=
  let '(a1, a2, a3, a4, a5, a6, a7) := a in let '(b1, b2, b3, b4, b5, b6, b7) := b in
  (a1 =? b1) && (a2 =? b2) && (a3 =? b3) && (a4 =? b4) && (a5 =? b5) && (a6 =? b6) && Bool.eqb a7 b7.
Definition hist_eqb (a : list (nat * list nat)) (b : list (seat * list card)) : bool :=
  list_eqb (fun x y => (fst x =? fst y) && list_eqb Nat.eqb (snd x) (snd y)) a
           (map (fun t => (seat_idx (fst t), map card_idx (snd t))) b).

(* ---- C04: bare environment, any list of cards ----
   case = (bid idx, declarer idx, (trump value, declarer, dummy, leader, active) at start, cards, projection after each card, final history) *)
Definition c04case := (nat * nat * (nat * nat * nat * nat * nat) * list nat * list proj * list (nat * list nat))%type.
Fixpoint c04_walk (tr : strain) (r : ref) (cards : list nat) (obs : list proj) (i : nat) : nat * ref :=
  match cards, obs with
  | [], [] => (0, r)
  | c :: cs, o :: os => let r' := ref_play tr r (cn c) in
                        if proj_eqb o (ref_proj r') then c04_walk tr r' cs os (S i) else (S i, r)
  | _, _ => (S i, r) end.
Definition c04_case (k : c04case) : nat :=
  let '(b, d, (t0, d0, dm0, l0, a0), cards, obs, fh) := k in
  let tr := strain_of_bid b in let decl := sn d in
  if negb ((t0 =? strain_val tr) && (d0 =? d) && (dm0 =? seat_idx (partner decl)) && (l0 =? seat_idx (next decl)) && (a0 =? seat_idx (next decl)))
  then 999 else
  let '(r, f) := c04_walk tr (ref_init decl) cards obs 0 in
  if r =? 0 then (if hist_eqb fh (r_hist f) then 0 else 1000) else r.
(* calc_highest on its own: (suit value 1..5, cards, result or -1 as None) *)
Definition highest_spec (sv : nat) (cards : list card) : option nat :=
  match strain_of_val sv with
  | Some (Tr su) => if existsb (fun c => suit_beq (csuit c) su) cards
                    then Some (first_pos (fun c => suit_beq (csuit c) su &&
                           (rank_val (crank c) =? fold_right Nat.max 0 (map (fun c => rank_val (crank c)) (filter (fun c => suit_beq (csuit c) su) cards)))) cards 0)
                    else None
  | _ => None end.
Definition c04_highest (k : nat * list nat * option nat) : bool :=
  let '(sv, cards, res) := k in opt_eqb Nat.eqb res (highest_spec sv (map cn cards)).

(* ---- C05: with hands; ops = (card, seat) attempts ----
   per op: (accepted?, state unchanged?, projection after); final: four hands (sorted idx), used cards (sorted idx), history *)
Definition c05case := (nat * nat * list (list nat) * list (nat * nat) * list (bool * bool * proj) * (list (list nat) * list nat * list (nat * list nat)))%type.
Definition mem (c : nat) (l : list nat) : bool := existsb (Nat.eqb c) l.
Definition rem (c : nat) (l : list nat) : list nat := filter (fun x => negb (x =? c)) l.
Fixpoint upd_nth {A} (i : nat) (f : A -> A) (l : list A) : list A :=
  match i, l with 0, x :: r => f x :: r | S j, x :: r => x :: upd_nth j f r | _, [] => [] end.
Fixpoint c05_walk (tr : strain) (r : ref) (hands : list (list nat)) (played : list nat)
         (ops : list (nat * nat)) (obs : list (bool * bool * proj)) (i : nat) : nat * (ref * list (list nat) * list nat) :=
  match ops, obs with
  | [], [] => (0, (r, hands, played))
  | (c, p) :: os, (ok, unch, pj) :: bs =>
      let should := (p =? seat_idx (ref_turn r)) && mem c (nth p hands []) in
      if negb (Bool.eqb ok should) then (S i, (r, hands, played))
      else if ok then
        let r' := ref_play tr r (cn c) in
        if proj_eqb pj (ref_proj r') && negb unch then c05_walk tr r' (upd_nth p (rem c) hands) (c :: played) os bs (S i)
        else (S i, (r, hands, played))
      else if unch && proj_eqb pj (ref_proj r) then c05_walk tr r hands played os bs (S i) else (S i, (r, hands, played))
  | _, _ => (S i, (r, hands, played)) end.
Fixpoint insert_sorted (x : nat) (l : list nat) : list nat :=
  match l with [] => [x] | y :: r => if x <=? y then x :: l else y :: insert_sorted x r end.
Definition sort_nat (l : list nat) : list nat := fold_right insert_sorted [] l.
Definition c05_case (k : c05case) : nat :=
  let '(b, d, deal, ops, obs, (fhands, fused, fh)) := k in
  let tr := strain_of_bid b in
  let '(r, (f, hands, played)) := c05_walk tr (ref_init (sn d)) deal [] ops obs 0 in
  if r =? 0 then
    (if list_eqb (list_eqb Nat.eqb) fhands (map sort_nat hands) && list_eqb Nat.eqb fused (sort_nat played) &&
        hist_eqb fh (r_hist f) &&
        (* conservation, stated directly on the observation: remaining hands + used cards = the deal, no card twice *)
        list_eqb Nat.eqb (sort_nat (concat fhands ++ fused)) (sort_nat (concat deal))
     then 0 else 1000)
  else r.

(* ---- C06: playable set ----  case = (hand, led card or none, returned set sorted) *)
Definition avail_spec (hand : list nat) (led : option nat) : list nat :=
  match led with
  | None => sort_nat hand
  | Some f => let same := filter (fun c => suit_beq (csuit (cn c)) (csuit (cn f))) hand in
              sort_nat (if existsb (fun c => suit_beq (csuit (cn c)) (csuit (cn f))) hand then same else hand) end.
Definition c06_case (k : list nat * option nat * list nat) : bool :=
  let '(hand, led, res) := k in list_eqb Nat.eqb res (avail_spec hand led).
(* the bundled player: (hand, led, chosen) *)
Definition c06_choice (k : list nat * option nat * nat) : bool :=
  let '(hand, led, ch) := k in mem ch (avail_spec hand led).

(* ---- C11 / C05 in process: single-seat observers (own hand + dummy's hand once set) ----
   each observer is fed every accepted play and those refused attempts it is in a position to refuse itself
   (out of turn, or from a seat whose hand it knows).
   case = (bid, declarer (+ 4 in a "late" case), deal, per observer seat: attempts, (accepted?, unchanged?, projection after) per attempt,
           final (own hand, dummy hand if set, history)) *)
Definition c11obs := (list (nat * nat) * list (bool * bool * proj) * (list nat * option (list nat) * list (nat * list nat)))%type.
Definition c11case := (nat * nat * list (list nat) * list c11obs)%type.
Definition played_by (p : nat) (ops : list (nat * nat)) : list nat := map fst (filter (fun o => snd o =? p) ops).
Definition minus (a b : list nat) : list nat := filter (fun x => negb (mem x b)) a.
Fixpoint c11_walk (late : bool) (tr : strain) (me dm : nat) (deal : list (list nat)) (r : ref) (mine : list nat) (dh : option (list nat)) (started : bool)
         (ops : list (nat * nat)) (obs : list (bool * bool * proj)) (i : nat) : nat * (ref * list nat * option (list nat)) :=
  match ops, obs with
  | [], [] => (0, (r, mine, dh))
  | (c, p) :: os, (ok, unch, pj) :: bs =>
      let should := (p =? seat_idx (ref_turn r)) &&
                    (if p =? me then mem c mine
                     else if p =? dm then match dh with Some h => mem c h | None => false end
                     else true) in
      if negb (Bool.eqb ok should) then (S i, (r, mine, dh))
      else if ok then
        let r' := ref_play tr r (cn c) in
        let mine' := if p =? me then rem c mine else mine in
        let dh1 := if p =? me then dh else if p =? dm then option_map (rem c) dh else dh in
        (* dummy's hand is laid down right after the first accepted card, for every observer but dummy *)
        let dh' := if negb late && negb started && negb (me =? dm) then Some (if p =? dm then rem c (nth dm deal []) else nth dm deal []) else dh1 in
        if proj_eqb pj (ref_proj r') && negb unch then c11_walk late tr me dm deal r' mine' dh' true os bs (S i) else (S i, (r, mine, dh))
      else if unch && proj_eqb pj (ref_proj r) then
        (* "late" cases: dummy's hand is shown to the observer only after it has refused dummy's first play (hand not set);
           the same play is then offered again *)
        let dh2 := if late && (p =? dm) && negb (me =? dm) && (p =? seat_idx (ref_turn r)) && match dh with None => true | Some _ => false end
                   then Some (nth dm deal []) else dh in
        c11_walk late tr me dm deal r mine dh2 started os bs (S i) else (S i, (r, mine, dh))
  | _, _ => (S i, (r, mine, dh)) end.
Definition c11_observer (late : bool) (tr : strain) (decl : seat) (deal : list (list nat)) (me : nat) (o : c11obs) : nat :=
  let '(ops, steps, (fh, fd, fhist)) := o in
  let dm := seat_idx (partner decl) in
  let '(r, (f, mine, dh)) := c11_walk late tr me dm deal (ref_init decl) (nth me deal []) None false ops steps 0 in
  if r =? 0 then
    if list_eqb Nat.eqb fh (sort_nat mine) && hist_eqb fhist (r_hist f) && opt_eqb (list_eqb Nat.eqb) fd (option_map sort_nat dh)
    then 0 else 1000
  else r.
Definition c11_case (k : c11case) : nat :=
  let '(b, d0, deal, obss) := k in
  let late := 4 <=? d0 in let d := d0 mod 4 in       (* declarer + 4 marks a "late" case *)
  let tr := strain_of_bid b in
  fold_right (fun '(me, o) acc => let r := c11_observer late tr (sn d) deal me o in if r =? 0 then acc else 2000 * (S me) + r)
             0 (combine (seq 0 4) obss).
