(* Oracle for C14: recorded encodings/decodings of deals checked against the statement itself:
   decode(encode d) = d, and the canonical forms.  Has its own tiny string splitter; independent of Model/Hands.v. *)
From BE Require Import Model.Basics Model.CaseLib.
Local Open Scope string_scope.
Local Open Scope nat_scope.

Fixpoint splitc (a : ascii) (s : string) : list string :=
  match s with
  | EmptyString => [""]
  | String b r => if Ascii.eqb a b then "" :: splitc a r
                  else match splitc a r with x :: xs => String b x :: xs | [] => [String b ""] end end.
Fixpoint chars (s : string) : list ascii := match s with EmptyString => [] | String a r => a :: chars r end.
Fixpoint insert_sorted (x : nat) (l : list nat) : list nat :=
  match l with [] => [x] | y :: r => if x <=? y then x :: l else y :: insert_sorted x r end.
Definition sort_nat (l : list nat) : list nat := fold_right insert_sorted [] l.
Fixpoint strictly_desc (l : list nat) : bool :=
  match l with a :: ((b :: _) as r) => (b <? a) && strictly_desc r | _ => true end.
Fixpoint strictly_asc (l : list nat) : bool :=
  match l with a :: ((b :: _) as r) => (a <? b) && strictly_asc r | _ => true end.
Definition rank_char_val (a : ascii) : nat := match rank_of_ascii a with Some r => rank_val r | None => 0 end.

(* one suit field: rank characters, strictly descending, naming exactly the hand's cards of suit value sv (1..4) *)
Definition field_ok (hand : list nat) (sv : nat) (f : string) : bool :=
  let rs := map rank_char_val (chars f) in
  forallb (fun r => 2 <=? r) rs && strictly_desc rs &&
  list_eqb Nat.eqb (sort_nat (map (fun r => (sv - 1) * 13 + r - 2) rs)) (sort_nat (filter (fun c => c / 13 =? sv - 1) hand)).
Definition hand_field_ok (hand : list nat) (f : string) : bool :=
  match hand with
  | [] => String.eqb f "-"
  | _ => match splitc "."%char f with
         | [s; h; d; c] => field_ok hand 4 s && field_ok hand 3 h && field_ok hand 2 d && field_ok hand 1 c
         | _ => false end end.
(* "<first>:<hand of first> <next> <next> <next>" *)
Definition pbn_canonical (deal : list (list nat)) (first : nat) (s : string) : bool :=
  match splitc ":"%char s with
  | [f; rest] =>
      String.eqb f (seat_str (sn first)) &&
      match splitc " "%char rest with
      | [a; b; c; d] => hand_field_ok (nth (first mod 4) deal []) a && hand_field_ok (nth ((first + 1) mod 4) deal []) b &&
                        hand_field_ok (nth ((first + 2) mod 4) deal []) c && hand_field_ok (nth ((first + 3) mod 4) deal []) d
      | _ => false end
  | _ => false end.

Definition deal_eqb (a b : list (list nat)) : bool := list_eqb (list_eqb Nat.eqb) (map sort_nat a) (map sort_nat b).
(* case: deal (4 hands as card indices), first seat, PBN text, PBN decoded, binary vectors, binary decoded,
   numpy forms agree, JSON lists, JSON decoded *)
Definition c14case := (list (list nat) * nat * option string * option (list (list nat)) * option (list (list nat)) *
                       option (list (list nat)) * bool * option (list (list string)) * option (list (list nat)))%type.
Definition pbn_writable (deal : list (list nat)) : bool := forallb (fun h => (length h =? 13) || (length h =? 0)) deal.
(* result bits: 1 PBN round trip, 2 PBN canonical, 4 binary, 8 JSON round trip, 16 JSON sorted *)
Definition c14_case (k : c14case) : nat :=
  let '(deal, first, pbn, pbn_back, bin, bin_back, np_ok, js, js_back) := k in
  (if pbn_writable deal then
     match pbn, pbn_back with
     | Some s, Some d' => (if deal_eqb deal d' then 0 else 1) + (if pbn_canonical deal first s then 0 else 2)
     | _, _ => 3 end
   else 0) +
  match bin, bin_back with
  | Some vs, Some d' =>
      if deal_eqb deal d' && np_ok &&
         list_eqb (list_eqb Nat.eqb) vs (map (fun h => map (fun i => if existsb (Nat.eqb i) h then 1 else 0) (seq 0 52)) deal)
      then 0 else 4
  | _, _ => 4 end +
  match js, js_back with
  | Some ls, Some d' =>
      (if deal_eqb deal d' then 0 else 8) +
      (if list_eqb (list_eqb String.eqb) ls (map (fun h => map (fun c => card_str (cn c)) (sort_nat h)) deal) then 0 else 16)
  | _, _ => 24 end.
(* the dealer: four hands of 13, together exactly the pack *)
Definition c14_dealer (d : list (list nat)) : bool :=
  (length d =? 4) && forallb (fun h => length h =? 13) d && list_eqb Nat.eqb (sort_nat (concat d)) (seq 0 52).
