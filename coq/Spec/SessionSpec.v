(* Sequential reference of a session (DESIGN.md 2.7): the boards are played one after the other by the rules
   (Spec/Laws.v, Spec/PlayOracle.v reference, Spec/Duplicate.v) from what the seats said; it yields the log
   records that must be written and, for every seat, exactly the lines the table manager must send it.
   Written without reference to the network model (threads, queues, barriers). *)
From BE Require Import Spec.Laws Spec.PlayOracle Spec.Duplicate Model.Wire Model.Json Model.JsonTie Model.CaseLib.
From Coq Require Import ZArith.
Local Open Scope string_scope.
Local Open Scope nat_scope.
Local Open Scope list_scope.
Local Infix "+++" := String.append (right associativity, at level 60).

Record sboard := mkSB { sb_id : string; sb_dealer : seat; sb_vul : vul; sb_deal : seat -> list card; sb_dda : option dda_table }.
Record request := mkReq { rq_seat : seat; rq_team : string; rq_version : nat }.
(* what a seat says on one board: its calls and its cards (declarer also says dummy's), in the order it says them *)
Record said := mkSaid { sd_calls : list (string * call); sd_cards : list (string * card) }.

(* ---- admission: first acceptable request for each seat, in arrival order, until all four are seated ---- *)
Definition tbl := seat -> option (nat * string).        (* connection index and team *)
Definition full (t : tbl) : bool := forallb (fun p => match t p with Some _ => true | None => false end) all_seats.
Definition acceptable (t : tbl) (r : request) : bool :=
  (rq_version r =? 18) && (match t (rq_seat r) with None => true | Some _ => false end) &&
  (match t (partner (rq_seat r)) with None => true | Some (_, tm) => String.eqb tm (rq_team r) end).
Fixpoint seat_all (i : nat) (rs : list request) (t : tbl) (verdicts : list (option seat)) : tbl * list (option (option seat)) :=
  (* verdict per connection: None = never looked at (table already full), Some None = turned away, Some (Some p) = seated at p *)
  match rs with
  | [] => (t, [])
  | r :: rest =>
      if full t then let (t', v) := seat_all (S i) rest t verdicts in (t', None :: v)
      else if acceptable t r then
        let (t', v) := seat_all (S i) rest (fun q => if seat_beq q (rq_seat r) then Some (i, rq_team r) else t q) verdicts in (t', Some (Some (rq_seat r)) :: v)
      else let (t', v) := seat_all (S i) rest t verdicts in (t', Some None :: v) end.

(* ---- the auction and the play of one board, from what was said ---- *)
Fixpoint merge_calls (fuel : nat) (d : seat) (h : list (seat * string * call)) (said_by : seat -> list (string * call)) : list (seat * string * call) :=
  match fuel with
  | 0 => h
  | S f =>
    if ended (map (fun x => snd x) h) then h
    else let p := caller d (length h) in
         match said_by p with
         | [] => h
         | (m, c) :: rest => merge_calls f d (h ++ [(p, m, c)]) (fun q => if seat_beq q p then rest else said_by q) end end.
(* (active seat, who speaks for it, text, card) *)
Fixpoint merge_cards (fuel : nat) (tr : strain) (decl : seat) (r : ref) (acc : list (seat * seat * string * card))
         (said_by : seat -> list (string * card)) : list (seat * seat * string * card) * ref :=
  match fuel with
  | 0 => (acc, r)
  | S f =>
    let a := ref_turn r in
    let who := if seat_beq a (partner decl) then decl else a in
    match said_by who with
    | [] => (acc, r)
    | (m, c) :: rest => merge_cards f tr decl (ref_play tr r c) (acc ++ [(a, who, m, c)]) (fun q => if seat_beq q who then rest else said_by q) end end.

Record outcome := mkOut {
  oc_calls : list (seat * string * call); oc_contract : contract;
  oc_plays : list (seat * seat * string * card); oc_final : option ref }.
Definition play_board (b : sboard) (s : seat -> said) : outcome :=
  let cs := merge_calls 400 (sb_dealer b) [] (fun p => sd_calls (s p)) in
  let k := contract_spec (sb_dealer b) (sb_vul b) (map (fun x => snd x) cs) in
  match final_bid k, cdeclarer k with
  | Some (_, tr), Some decl =>
      let (ps, r) := merge_cards 52 tr decl (ref_init decl) [] (fun p => sd_cards (s p)) in mkOut cs k ps (Some r)
  | _, _ => mkOut cs k [] None end.

(* ---- C08: the record that must be logged ---- *)
Definition side_tricks (r : ref) (sd : side) : nat := match sd with NS => r_ns r | EW => r_ew r end.
Definition record_spec (ns ew : string) (b : sboard) (o : outcome) : json :=
  let k := oc_contract o in
  let base := [("players", JObj [("N", JStr ns); ("E", JStr ew); ("S", JStr ns); ("W", JStr ew)]);
               ("board_id", JStr (sb_id b)); ("dealer", JStr (seat_str (sb_dealer b)));
               ("deal", deal_json (sb_deal b)); ("vulnerability", JStr (vul_str (sb_vul b)));
               ("bid_history", JArr (map (fun x => JStr (call_str (snd x))) (oc_calls o)));
               ("contract", JStr (contract_str k))] in
  let tail_dda := match sb_dda b with None => [] | Some t => [("dda", dda_json t)] end in
  match final_bid k, cdeclarer k, oc_final o with
  | Some (l, st), Some d, Some r =>
      let t := Z.of_nat (side_tricks r (side_of d)) in
      let sc := dup_score (Z.of_nat (level_val l)) st (cstatus k) (declarer_vulnerable d (sb_vul b)) t in
      JObj (base ++ [("declarer", JStr (seat_str d));
                     ("play_history", JArr (map (fun '(ld, cs) => JObj [("leader", JStr (seat_str ld)); ("cards", JArr (map (fun c => JStr (card_str c)) cs))]) (r_hist r)));
                     ("taken_trick", JNum t); ("score_type", JStr "IMP");
                     ("scores", match side_of d with NS => JObj [("NS", JNum sc); ("EW", JNum (- sc)%Z)]
                                                  | EW => JObj [("NS", JNum (- sc)%Z); ("EW", JNum sc)] end)] ++ tail_dda)
  | _, _, _ =>
      JObj (base ++ [("declarer", JNull); ("play_history", JNull); ("taken_trick", JNull); ("score_type", JStr "IMP");
                     ("scores", JObj [("NS", JNum 0%Z); ("EW", JNum 0%Z)])] ++ tail_dda) end.

(* ---- C10: the lines the table manager must send to seat p on one board ---- *)
Definition relay_text (m : string) (who : seat) : string := fst (server_read_bid m (formal_name who)).
Definition view_board (number : nat) (b : sboard) (o : outcome) (p : seat) : list string :=
  let auction := flat_map (fun '(who, m, _) => if seat_beq who p then [] else [relay_text m who]) (oc_calls o) in
  let k := oc_contract o in
  let play :=
    match cdeclarer k with
    | None => []
    | Some decl =>
        let dm := partner decl in
        flat_map (fun '(i, (a, who, m, _)) =>
          (if i mod 4 =? 0 then
             (if seat_beq a p && negb (seat_beq p dm) then [formal_name p +++ " to lead"]
              else if seat_beq a dm && seat_beq p decl then ["Dummy to lead"] else [])
           else []) ++
          (if seat_beq who p then [] else [m]) ++
          (if (i =? 0) && negb (seat_beq p dm) then [cards_line "Dummy" (sb_deal b dm)] else []))
          (combine (seq 0 (length (oc_plays o))) (oc_plays o)) end in
  ["Start of board"; board_header number (sb_dealer b) (sb_vul b); cards_line (formal_name p) (sb_deal b p)] ++ auction ++ play.
Fixpoint view_boards (number : nat) (bs : list (sboard * outcome)) (p : seat) : list string :=
  match bs with [] => [] | (b, o) :: r => view_board number b o p ++ view_boards (S number) r p end.
(* everything sent to the connection seated at p during a complete session *)
Definition view_spec (team ns ew : string) (bs : list (sboard * outcome)) (p : seat) : list string :=
  [seated_line p team; teams_line ns ew] ++ view_boards 1 bs p ++ ["End of session"].

(* ---- a whole session ---- *)
Definition CLOSED := "<connection closed by server>".
Definition team_of (t : tbl) (p : seat) : string := match t p with Some (_, tm) => tm | None => "None" end.
Definition session_spec (boards : list sboard) (reqs : list request) (scripts : list (list said))
  : list json * list (option (list string)) :=
  (* records; per connection: Some lines = exact expectation, None = turned away (an error line and the close are expected) *)
  let (t, verdicts) := seat_all 0 reqs (fun _ => None) [] in
  let ns := team_of t North in let ew := team_of t East in
  (* what the seat p said on board j is what the connection seated there said *)
  let said_for (j : nat) (p : seat) := match t p with Some (i, _) => nth j (nth i scripts []) (mkSaid [] []) | None => mkSaid [] [] end in
  let outs := map (fun '(j, b) => (b, play_board b (said_for j))) (combine (seq 0 (length boards)) boards) in
  (map (fun '(b, o) => record_spec ns ew b o) outs,
   map (fun '(i, v) => match v with
                       | Some (Some p) => Some (view_spec (team_of t p) ns ew outs p)
                       | Some None => None
                       | None => Some [] end) (combine (seq 0 (length verdicts)) verdicts)).

(* observed lines of a turned-away connection: one error line, then the close *)
Definition turned_away_ok (ls : list string) : bool :=
  match ls with [e; c] => starts_with "ERROR" e && String.eqb c CLOSED | _ => false end.
(* bits: 1 log records, 2 lines to some seated client, 4 a turned-away connection not answered with error + close,
   8 secrecy: a line naming another seat's cards / dummy's cards sent to dummy *)
Definition session_ok (boards : list sboard) (reqs : list request) (said_by : list (list said))
           (obs_log : option (list json)) (obs_down : list (list string)) : nat :=
  let (recs, views) := session_spec boards reqs said_by in
  (if opt_eqb (list_eqb json_eqb) obs_log (Some recs) then 0 else 1) +
  (if forallb (fun '(v, ls) => match v with Some want => list_eqb String.eqb ls want | None => true end) (combine views obs_down)
      && (length views =? length obs_down) then 0 else 2) +
  (if forallb (fun '(v, ls) => match v with None => turned_away_ok ls | Some _ => true end) (combine views obs_down) then 0 else 4).

(* ---- C11 (over the wire): what each client holds at the end of each board must be the board as played ---- *)
(* observed replica of one client on one board: contract (final bid idx, x, xx, vul idx, declarer idx) and, if the board was
   played, (leader, active, trick number, NS tricks, EW tricks, done, history, own hand left, dummy hand left or none) *)
Definition obs_replica := (option nat * bool * bool * nat * option nat *
                           option (nat * nat * nat * nat * nat * bool * list (nat * list nat) * list nat * option (list nat)))%type.
Definition replica_ok (p : seat) (o : outcome) (rep : obs_replica) : bool :=
  let '(fb, x, xx, v, d, play) := rep in
  let k := oc_contract o in
  opt_eqb Nat.eqb fb (option_map (fun '(l, s) => call_idx (Bid l s)) (final_bid k)) && Bool.eqb x (cx k) && Bool.eqb xx (cxx k) &&
  (v =? vul_idx (cvul k)) && opt_eqb Nat.eqb d (option_map seat_idx (cdeclarer k)) &&
  match oc_final o, play with
  | _, None => true          (* passed out, or dummy's client whose replica cannot be observed from outside *)
  | Some r, Some (ld, ac, tn, ns, ew, dn, hist, hand, dh) =>
      (ld =? seat_idx (r_leader r)) && (ac =? seat_idx (ref_turn r)) && (tn =? r_num r) && (ns =? r_ns r) && (ew =? r_ew r) &&
      Bool.eqb dn (13 <? r_num r) &&
      list_eqb (fun a b : nat * list nat => (fst a =? fst b) && list_eqb Nat.eqb (snd a) (snd b)) hist
               (map (fun tr => (seat_idx (fst tr), map card_idx (snd tr))) (r_hist r)) &&
      (* after a complete board nothing is left in hand *)
      (if 13 <? r_num r then match hand with [] => true | _ => false end else true) &&
      match cdeclarer k with
      | Some decl => if seat_beq p (partner decl) then match dh with None => true | Some _ => false end
                     else match dh with Some l => (if 13 <? r_num r then match l with [] => true | _ => false end else true) | None => false end
      | None => false end
  | _, _ => false end.
Definition replicas_ok (boards : list sboard) (reqs : list request) (scripts : list (list said)) (reps : list (list obs_replica)) : bool :=
  let (t, verdicts) := seat_all 0 reqs (fun _ => None) [] in
  let said_for (j : nat) (p : seat) := match t p with Some (i, _) => nth j (nth i scripts []) (mkSaid [] []) | None => mkSaid [] [] end in
  let outs := map (fun '(j, b) => play_board b (said_for j)) (combine (seq 0 (length boards)) boards) in
  forallb (fun p => match t p with
                    | Some (i, _) => let mine := nth i reps [] in
                                     (length mine =? length outs) && forallb (fun '(o, rep) => replica_ok p o rep) (combine outs mine)
                    | None => false end) all_seats.
