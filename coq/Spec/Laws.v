(* The auction according to the Laws of duplicate bridge (Laws 17-22), stated on the bare
   chronological call history.  Written without reference to the code's cached flags. *)
From BE Require Export Model.Basics.
Local Open Scope nat_scope.

(* who makes the i-th call (0-based): rotation starts with the dealer *)
Definition caller (d : seat) (i : nat) : seat := rot d i.
Definition opponents (a b : seat) : bool := negb (side_beq (side_of a) (side_of b)).

(* bids are ranked by level, then by denomination C < D < H < S < NT *)
Definition outranks (b b' : level * strain) : bool :=
  (level_val (fst b') <? level_val (fst b)) ||
  ((level_val (fst b') =? level_val (fst b)) && (strain_val (snd b') <? strain_val (snd b))).

Fixpoint skip_passes (rh : list call) : list call :=
  match rh with Pass :: r => skip_passes r | _ => rh end.
(* the last call other than a pass, with the position at which it was made *)
Definition last_nonpass (h : list call) : option (nat * call) :=
  match skip_passes (rev h) with [] => None | c :: r => Some (length r, c) end.
Fixpoint last_bid_r (rh : list call) : option (nat * (level * strain)) :=
  match rh with
  | [] => None
  | Bid l s :: r => Some (length r, (l, s))
  | _ :: r => last_bid_r r end.
(* the last bid (not pass/double/redouble), with its position *)
Definition last_bid_of (h : list call) : option (nat * (level * strain)) := last_bid_r (rev h).

(* Law 18/19: which call may be made next by the player in turn *)
Definition legal (d : seat) (h : list call) (c : call) : bool :=
  let me := caller d (length h) in
  match c with
  | Pass => true
  | Bid l s => match last_bid_of h with None => true | Some (_, b') => outranks (l, s) b' end
  | Dbl => match last_nonpass h with Some (i, Bid _ _) => opponents (caller d i) me | _ => false end
  | Rdbl => match last_nonpass h with Some (i, Dbl) => opponents (caller d i) me | _ => false end
  end.

(* Law 22: the auction is over after four opening passes, or three passes following any bid, double or redouble *)
Definition ended (h : list call) : bool :=
  match rev h with
  | [Pass; Pass; Pass; Pass] => true
  | Pass :: Pass :: Pass :: c :: _ => negb (call_beq c Pass)
  | _ => false end.

(* seat p's own calls: those at the positions where p is the caller *)
Fixpoint pick_from (d p : seat) (h : list call) (i : nat) : list call :=
  match h with
  | [] => []
  | c :: r => if seat_beq (caller d i) p then c :: pick_from d p r (S i) else pick_from d p r (S i) end.
Definition pick (d p : seat) (h : list call) : list call := pick_from d p h 0.

(* the member of side sd who first named strain st *)
Fixpoint first_namer_from (d : seat) (sd : side) (st : strain) (h : list call) (j : nat) : option seat :=
  match h with
  | [] => None
  | c :: r =>
      if side_beq (side_of (caller d j)) sd && match c with Bid _ s' => strain_beq s' st | _ => false end
      then Some (caller d j) else first_namer_from d sd st r (S j) end.
Definition first_namer d sd st h := first_namer_from d sd st h 0.

(* the final contract of a finished auction *)
Definition contract_spec (d : seat) (v : vul) (h : list call) : contract :=
  match last_bid_of h with
  | None => mkcontract None false false v None
  | Some (i, (l, st)) =>
      let after := skipn (S i) h in
      mkcontract (Some (l, st)) (existsb (call_beq Dbl) after) (existsb (call_beq Rdbl) after) v
                 (first_namer d (side_of (caller d i)) st h)
  end.
