(* The rows of Gen/NotationGraph.v recomputed from the models of Model/Basics.v. *)
From BE Require Import Model.Basics Spec.Domains.
Local Open Scope nat_scope.

Definition rs (c : card) : nat * nat := (rank_val (crank c), suit_val (csuit c)).
Definition ors (o : option card) : nat * nat := match o with Some c => rs c | None => (999, 999) end.
Definition card_lt (a b : card) := card_idx a <? card_idx b.     (* Card.__lt__ : int(self) < int(other) *)
Definition card_le (a b : card) := card_idx a <=? card_idx b.
Definition card_gt (a b : card) := card_idx b <? card_idx a.
Definition card_ge (a b : card) := card_idx b <=? card_idx a.
Fixpoint idxd {A} (i : nat) (l : list A) : list (nat * A) := match l with [] => [] | x :: r => (i, x) :: idxd (S i) r end.

Definition m_cards := map (fun '(k, c) => (card_idx c, card_str c, ors (card_of_str (card_str c)),
                                        ors (card_of_idx (card_idx c)), ors (card_of_idx k))) (idxd 0 all_cards).
Definition m_ranks := map (fun r => (rank_str r, match rank_str r with String a EmptyString =>
                                      match rank_of_ascii a with Some r' => rank_val r' | None => 999 end | _ => 999 end)) all_ranks.
Definition m_card_cmp := map (fun a => map (fun b =>
   (if card_lt a b then 1 else 0) + (if card_le a b then 2 else 0) + (if card_gt a b then 4 else 0)
   + (if card_ge a b then 8 else 0) + (if card_beq a b then 16 else 0)) all_cards) all_cards.
Definition cval (o : option call) : nat := match o with Some c => call_idx c + 1 | None => 999 end.
Definition m_calls := map (fun c => (call_idx c, call_str c, cval (call_of_str (call_str c)), cval (call_of_idx (call_idx c)),
   option_map level_val (call_level c), option_map strain_val (call_strain c),
   match c with Bid l s => Some (call_idx (Bid l s) + 1) | _ => None end)) all_calls.
Definition sval (o : option seat) : nat := match o with Some p => seat_val p | None => 999 end.
Definition side_val (s : side) : nat := match s with NS => 1 | EW => 2 end.
Definition m_seats := map (fun p => (seat_str p, sval (seat_of_str (seat_str p)), formal_name p, sval (seat_of_formal (formal_name p)),
   [seat_val (next p); seat_val (partner p); seat_val (next p); seat_val (right p)],
   [side_val (side_of p); side_val (other_side (side_of p))])) all_seats.
Definition m_is_partner := map (fun p => map (fun q => same_side q p) all_seats) all_seats.
Definition m_seat_is_vul := map (fun p => map (fun v => seat_is_vul p v) all_vuls) all_seats.
Definition vval (o : option vul) : nat := match o with Some v => vul_idx v + 1 | None => 999 end.
Definition m_vuls := map (fun v => (vul_str v, vul_pbn v, vval (vul_of_str (vul_str v)), vval (vul_of_str (vul_pbn v)))) all_vuls.
Definition m_vul_inputs := map (fun s => (s, option_map (fun v => vul_idx v + 1) (vul_of_str s)))
   ["None"; "Love"; "-"; "Both"; "All"; "NS"; "EW"]%string.
Definition m_suits := map (fun s => (strain_str s, match strain_of_str (strain_str s) with Some t => strain_val t | None => 999 end,
   strain_val s <=? 2, (2 <? strain_val s) && (strain_val s <=? 4))) all_strains.
Definition m_pairs := map (fun s => (side_str s, match side_of_str (side_str s) with Some t => side_val t | None => 999 end,
   side_val (other_side s), map (side_is_vul s) all_vuls)) all_sides.
Definition kview (k : contract) :=
  (option_map (fun '(l, s) => call_idx (Bid l s) + 1) (final_bid k), cx k, cxx k, vul_idx (cvul k) + 1,
   option_map seat_val (cdeclarer k), option_map (fun '(l, _) => level_val l) (final_bid k),
   option_map (fun '(_, s) => strain_val s) (final_bid k)).
Definition contract_domain : list contract :=
  flat_map (fun b => flat_map (fun f => flat_map (fun v => map (fun d =>
    mkcontract (Some b) (fst f) (snd f) v d) (None :: map Some all_seats)) all_vuls) flag_combos) all_level_strain.
Definition m_contracts := map (fun k => (contract_str k, option_map kview (contract_of_str (contract_str k) (cvul k) (cdeclarer k)),
                                        contract_is_vul k)) contract_domain.
Definition m_passed_out := map (fun k => (contract_str k, option_map kview (contract_of_str (contract_str k) (cvul k) None),
                                         Some (is_passed_out k)))
   (flat_map (fun _ : bool => map (fun v => mkcontract None false false v None) all_vuls) [false; true]).
