(* Correspondence for C17 (PBN) and C18: Model/Pbn.v against recorded behaviour of PbnParser / PbnWriter. *)
From BE Require Import Model.Pbn Model.Json Model.JsonTie Model.CaseLib.
From Coq Require Import ZArith.
Local Open Scope string_scope.
Local Open Scope nat_scope.
Local Open Scope list_scope.

Definition norm_psetting (s : psetting) : json :=
  JObj [("board_id", JStr (ps_board_id s)); ("hands", jdeal (ps_deal s)); ("dealer", jn (seat_idx (ps_dealer s)));
        ("vul", jn (vul_idx (ps_vul s))); ("dda", JNull)].
Definition games_eqb := list_eqb (list_eqb (fun a b : string * string => String.eqb (fst a) (fst b) && String.eqb (snd a) (snd b))).
(* text, observed parse_board_settings (normal forms; None = raised), observed parse_all; bits: 1 settings, 2 games; 0 also when not modelled *)
Definition tpbn_case (k : string * option (list json) * option (list (list (string * string)))) : nat :=
  let '(text, sts, games) := k in
  match parse_all text with
  | None => 0
  | Some gs =>
      (if opt_eqb (list_eqb json_eqb) sts (option_map (map norm_psetting) (map_opt setting_of_game gs)) then 0 else 1) +
      (if opt_eqb games_eqb games (Some gs) then 0 else 2) end.
Definition twrite_case (k : bool * list pbn_result * string) : nat :=
  let '(h, rs, text) := k in if opt_eqb String.eqb (write_file h rs) (Some text) then 0 else 1.
Definition tline_case (k : string * string) : nat := if String.eqb (sconcat (write_line (fst k))) (snd k) then 0 else 1.
