(* Correspondence for C01-C03: replays recorded walks on Model/Auction.v and compares every observation. *)
From BE Require Import Model.Auction Model.CaseLib.
From Coq Require Import NArith.
Local Open Scope nat_scope.

Definition mask_of (l : list bool) : N := fold_right (fun (b : bool) acc => ((if b then 1 else 0) + 2 * acc)%N) 0%N l.
Definition ostep := (nat * N * nat * nat * nat * option (N * N * N))%type.
Definition ofinal := (list nat * list (list nat) * nat * bool * option (option nat * bool * bool * nat * option nat * bool))%type.
Definition ocode (o : outcome) : nat := match o with Raises => 0 | Illegal => 1 | Ongoing => 2 | Finished => 3 end.
Definition acode (a : option seat) : nat := match a with None => 4 | Some p => seat_idx p end.
Definition oN_eqb (a b : option (N * N * N)) : bool :=
  match a, b with
  | None, _ => true     (* no probe recorded *)
  | Some (x, y, z), Some (x', y', z') => N.eqb x x' && N.eqb y y' && N.eqb z z'
  | Some _, None => false end.

(* what the model predicts for the observation of offering call index ci in state s *)
Definition predict (s : astate) (ci : nat) : astate * ostep :=
  let c := bn ci in
  let (s', o) := take_bid s c in
  let rets := map (fun c' => snd (take_bid s c')) all_calls in
  let f := (match contract_of s with None => 1 | Some _ => 0 end) + (if has_done s then 2 else 0)
           + (match o with Raises | Illegal => 4 | _ => 0 end) + (match o with Ongoing | Finished => 8 | _ => 0 end) in
  (s', (ci, mask_of (avail s), acode (active s), f, ocode o,
        Some (mask_of (map (fun r => match r with Ongoing | Finished => true | _ => false end) rets),
              mask_of (map (fun r => match r with Finished => true | _ => false end) rets),
              mask_of (map (fun r => match r with Raises => true | _ => false end) rets)))).
Definition step_eqb (obs pred : ostep) : bool :=
  let '(c, m, a, f, r, p) := obs in let '(c', m', a', f', r', p') := pred in
  (c =? c') && N.eqb m m' && (a =? a') && ((f mod 16) =? f') && (r =? r') && oN_eqb p p'.
Fixpoint mwalk (s : astate) (steps : list ostep) (i : nat) : nat * astate :=
  match steps with
  | [] => (0, s)
  | o :: r => let '(ci, _, _, _, _, _) := o in
              let (s', p) := predict s ci in
              if step_eqb o p then mwalk s' r (S i) else (S i, s) end.
Definition kview (k : contract) :=
  (option_map (fun '(l, s) => call_idx (Bid l s)) (final_bid k), cx k, cxx k, vul_idx (cvul k), option_map seat_idx (cdeclarer k),
   match final_bid k with None => true | Some _ => false end).
Definition k_eqb (a b : option (option nat * bool * bool * nat * option nat * bool)) : bool :=
  match a, b with
  | None, None => true
  | Some (fb, x, xx, v, d, po), Some (fb', x', xx', v', d', po') =>
      opt_eqb Nat.eqb fb fb' && Bool.eqb x x' && Bool.eqb xx xx' && (v =? v') && opt_eqb Nat.eqb d d' && Bool.eqb po po'
  | _, _ => false end.
Definition final_eqb (s : astate) (fin : ofinal) : bool :=
  let '(fh, fph, fa, fd, fk) := fin in
  list_eqb Nat.eqb fh (map call_idx (hist s)) &&
  list_eqb (list_eqb Nat.eqb) fph (map (fun p => map call_idx (phist s p)) all_seats) &&
  (fa =? acode (active s)) && Bool.eqb fd (has_done s) && k_eqb fk (option_map kview (contract_of s)).
Definition acase := (nat * nat * list ostep * ofinal)%type.
Definition tie_case (k : acase) : nat :=
  let '(d, v, st, fin) := k in
  let '(r, s) := mwalk (init (sn d) (vn v)) st 0 in
  if r =? 0 then (if final_eqb s fin then 0 else 1000) else r.
