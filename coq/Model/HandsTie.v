(* Correspondence for C14: Model/Hands.v against recorded behaviour. *)
From BE Require Import Model.Hands Model.CaseLib.
Local Open Scope nat_scope.
Fixpoint insert_sorted (x : nat) (l : list nat) : list nat :=
  match l with [] => [x] | y :: r => if x <=? y then x :: l else y :: insert_sorted x r end.
Definition sort_nat (l : list nat) : list nat := fold_right insert_sorted [] l.
Definition dfn (dl : list (list nat)) : deal := fun p => map cn (nth (seat_idx p) dl []).
Definition dv (d : deal) : list (list nat) := map (fun p => sort_nat (map card_idx (d p))) all_seats.
Definition c14case := (list (list nat) * nat * option string * option (list (list nat)) * option (list (list nat)) *
                       option (list (list nat)) * bool * option (list (list string)) * option (list (list nat)))%type.
Definition lle := list_eqb (list_eqb Nat.eqb).
(* bits: 1 to_pbn text, 2 convert_pbn of that text, 4 binary, 8 json *)
Definition t14_case (suffix : string) (k : c14case) : nat :=
  let '(deal, first, pbn, pbn_back, bin, bin_back, np_ok, js, js_back) := k in
  let d := dfn deal in
  (if opt_eqb String.eqb pbn (to_pbn d (sn first)) then 0 else 1) +
  match pbn with
  | Some s => if opt_eqb lle pbn_back (option_map dv (convert_pbn (s ++ suffix))) then 0 else 2
  | None => 0 end +
  (if opt_eqb lle bin (Some (map (fun p => to_binary (d p)) all_seats)) &&
      opt_eqb lle bin_back (Some (dv (convert_binary (to_binary (d North)) (to_binary (d East)) (to_binary (d South)) (to_binary (d West)))))
   then 0 else 4) +
  (if opt_eqb (list_eqb (list_eqb String.eqb)) js (Some (map (fun p => deal_to_json (d p)) all_seats)) &&
      match js with
      | Some [a; b; c; e] => match json_to_hand a, json_to_hand b, json_to_hand c, json_to_hand e with
                             | Some x, Some y, Some z, Some w => opt_eqb lle js_back (Some (map (fun h => sort_nat (map card_idx h)) [x; y; z; w]))
                             | _, _, _, _ => false end
      | _ => false end
   then 0 else 8).
