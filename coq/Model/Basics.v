(* Basics: the value types of bridge_env and their notations.
   Hand-written model of suit.py, pair.py, vul.py, player.py, card.py, bid.py,
   contract.py (conversions only).  No proofs in this file. *)
From Coq Require Export String Ascii Arith ZArith Bool List.
Export ListNotations.
Local Open Scope string_scope.

(* ---------- finite value types ---------- *)
Inductive suit := Cl | Di | He | Sp.                     (* Suit.C D H S *)
Inductive strain := Tr (s : suit) | NT.                  (* Suit incl. NT *)
Inductive rank := R2|R3|R4|R5|R6|R7|R8|R9|RT|RJ|RQ|RK|RA.
Record card := mkcard { crank : rank; csuit : suit }.
Inductive seat := North | East | South | West.           (* Player.N E S W *)
Inductive side := NS | EW.                               (* Pair *)
Inductive vul := VNone | VNS | VEW | VBoth.
Inductive level := L1|L2|L3|L4|L5|L6|L7.
Inductive call := Bid (l : level) (s : strain) | Pass | Dbl | Rdbl.

Scheme Equality for suit.
Scheme Equality for strain.
Scheme Equality for rank.
Scheme Equality for card.
Scheme Equality for seat.
Scheme Equality for side.
Scheme Equality for vul.
Scheme Equality for level.
Scheme Equality for call.

Definition all_suits := [Cl; Di; He; Sp].
Definition all_strains := [Tr Cl; Tr Di; Tr He; Tr Sp; NT].
Definition all_ranks := [R2;R3;R4;R5;R6;R7;R8;R9;RT;RJ;RQ;RK;RA].
Definition all_seats := [North; East; South; West].
Definition all_sides := [NS; EW].
Definition all_vuls := [VNone; VNS; VEW; VBoth].
Definition all_levels := [L1;L2;L3;L4;L5;L6;L7].
(* index order: C2..CA, D2..DA, H2..HA, S2..SA *)
Definition all_cards : list card :=
  flat_map (fun s => map (fun r => mkcard r s) all_ranks) all_suits.
(* index order: 1C 1D 1H 1S 1NT 2C ... 7NT Pass X XX *)
Definition all_bids : list call :=
  flat_map (fun l => map (fun s => Bid l s) all_strains) all_levels.
Definition all_calls : list call := all_bids ++ [Pass; Dbl; Rdbl].

(* ---------- numeric views (Enum .value and derived) ---------- *)
Definition suit_val (s : suit) : nat := match s with Cl => 1 | Di => 2 | He => 3 | Sp => 4 end.
Definition strain_val (s : strain) : nat := match s with Tr s => suit_val s | NT => 5 end.
Definition rank_val (r : rank) : nat :=
  match r with R2=>2|R3=>3|R4=>4|R5=>5|R6=>6|R7=>7|R8=>8|R9=>9|RT=>10|RJ=>11|RQ=>12|RK=>13|RA=>14 end.
Definition seat_val (p : seat) : nat := match p with North => 1 | East => 2 | South => 3 | West => 4 end.
Definition level_val (l : level) : nat := match l with L1=>1|L2=>2|L3=>3|L4=>4|L5=>5|L6=>6|L7=>7 end.

Definition suit_of_val (n : nat) : option suit :=
  match n with 1 => Some Cl | 2 => Some Di | 3 => Some He | 4 => Some Sp | _ => None end.
Definition strain_of_val (n : nat) : option strain :=
  match n with 5 => Some NT | _ => option_map Tr (suit_of_val n) end.
Definition rank_of_val (n : nat) : option rank :=
  match n with 2=>Some R2|3=>Some R3|4=>Some R4|5=>Some R5|6=>Some R6|7=>Some R7|8=>Some R8|9=>Some R9
             |10=>Some RT|11=>Some RJ|12=>Some RQ|13=>Some RK|14=>Some RA|_=>None end.
Definition seat_of_val (n : nat) : option seat :=
  match n with 1 => Some North | 2 => Some East | 3 => Some South | 4 => Some West | _ => None end.
Definition level_of_val (n : nat) : option level :=
  match n with 1=>Some L1|2=>Some L2|3=>Some L3|4=>Some L4|5=>Some L5|6=>Some L6|7=>Some L7|_=>None end.

(* Player: left = Player(value % 4 + 1) etc. *)
Definition next (p : seat) : seat := match p with North => East | East => South | South => West | West => North end.
Definition partner (p : seat) : seat := next (next p).
Definition right (p : seat) : seat := next (next (next p)).
Definition side_of (p : seat) : side := match p with North | South => NS | East | West => EW end.
Definition other_side (s : side) : side := match s with NS => EW | EW => NS end.
(* Player.is_partner: "partner or one's self" *)
Definition same_side (a b : seat) : bool := side_beq (side_of a) (side_of b).
Fixpoint rot (p : seat) (n : nat) : seat := match n with 0 => p | S n' => next (rot p n') end.

(* Pair.is_vul / Player.is_vul *)
Definition side_is_vul (s : side) (v : vul) : bool :=
  match v, s with VBoth, _ => true | VNS, NS => true | VEW, EW => true | _, _ => false end.
Definition seat_is_vul (p : seat) (v : vul) : bool := side_is_vul (side_of p) v.

(* Card.__int__ , Card.int_to_card *)
Definition card_idx (c : card) : nat := rank_val (crank c) - 2 + (suit_val (csuit c) - 1) * 13.
Definition card_of_idx (x : nat) : option card :=
  if Nat.ltb 51 x then None else
  match rank_of_val (x mod 13 + 2), suit_of_val (x / 13 + 1) with
  | Some r, Some s => Some (mkcard r s) | _, _ => None end.
(* total version used by generated case files *)
Definition cn (x : nat) : card := match card_of_idx x with Some c => c | None => mkcard R2 Cl end.

(* Bid.idx , Bid.int_to_bid , level , suit , level_suit_to_bid *)
Definition call_idx (c : call) : nat :=
  match c with Bid l s => (level_val l - 1) * 5 + strain_val s - 1 | Pass => 35 | Dbl => 36 | Rdbl => 37 end.
Definition call_of_idx (x : nat) : option call :=
  match x with 35 => Some Pass | 36 => Some Dbl | 37 => Some Rdbl
  | _ => match level_of_val (x / 5 + 1), strain_of_val (x mod 5 + 1) with
         | Some l, Some s => Some (Bid l s) | _, _ => None end end.
Definition bn (x : nat) : call := match call_of_idx x with Some c => c | None => Pass end.
Definition sn (x : nat) : seat := match seat_of_val (x mod 4 + 1) with Some p => p | None => North end. (* 0=N 1=E 2=S 3=W *)
Definition seat_idx (p : seat) : nat := seat_val p - 1.
Definition vn (x : nat) : vul := match x with 0 => VNone | 1 => VNS | 2 => VEW | _ => VBoth end.
Definition vul_idx (v : vul) : nat := match v with VNone => 0 | VNS => 1 | VEW => 2 | VBoth => 3 end.
Definition call_level (c : call) : option level := match c with Bid l _ => Some l | _ => None end.
Definition call_strain (c : call) : option strain := match c with Bid _ s => Some s | _ => None end.
Definition is_bid (c : call) : bool := match c with Bid _ _ => true | _ => false end.

(* ---------- text notations ---------- *)
Definition suit_str (s : suit) : string := match s with Cl => "C" | Di => "D" | He => "H" | Sp => "S" end.
Definition strain_str (s : strain) : string := match s with Tr s => suit_str s | NT => "NT" end.
Definition suit_of_str (s : string) : option suit :=
  if String.eqb s "C" then Some Cl else if String.eqb s "D" then Some Di else
  if String.eqb s "H" then Some He else if String.eqb s "S" then Some Sp else None.
Definition strain_of_str (s : string) : option strain :=     (* Suit[name] *)
  if String.eqb s "NT" then Some NT else option_map Tr (suit_of_str s).
Definition rank_str (r : rank) : string :=                    (* Card.rank_int_to_str *)
  match r with R2=>"2"|R3=>"3"|R4=>"4"|R5=>"5"|R6=>"6"|R7=>"7"|R8=>"8"|R9=>"9"|RT=>"T"|RJ=>"J"|RQ=>"Q"|RK=>"K"|RA=>"A" end.
(* Card.rank_str_to_int followed by the Card constructor's range check, on one character:
   T J Q K A, else int(); int("0"),int("1") are out of range -> raises (None) *)
Definition rank_of_ascii (a : ascii) : option rank :=
  match a with
  | "2" => Some R2 | "3" => Some R3 | "4" => Some R4 | "5" => Some R5 | "6" => Some R6 | "7" => Some R7
  | "8" => Some R8 | "9" => Some R9 | "T" => Some RT | "J" => Some RJ | "Q" => Some RQ | "K" => Some RK
  | "A" => Some RA | _ => None end%char.
Definition seat_str (p : seat) : string := match p with North => "N" | East => "E" | South => "S" | West => "W" end.
Definition seat_of_str (s : string) : option seat :=           (* Player[name] *)
  if String.eqb s "N" then Some North else if String.eqb s "E" then Some East else
  if String.eqb s "S" then Some South else if String.eqb s "W" then Some West else None.
Definition formal_name (p : seat) : string :=
  match p with North => "North" | East => "East" | South => "South" | West => "West" end.
Definition seat_of_formal (s : string) : option seat :=        (* Player.convert_formal_name *)
  if String.eqb s "North" then Some North else if String.eqb s "East" then Some East else
  if String.eqb s "South" then Some South else if String.eqb s "West" then Some West else None.
Definition side_str (s : side) : string := match s with NS => "NS" | EW => "EW" end.
Definition side_of_str (s : string) : option side :=
  if String.eqb s "NS" then Some NS else if String.eqb s "EW" then Some EW else None.
Definition vul_str (v : vul) : string := match v with VNone => "None" | VNS => "NS" | VEW => "EW" | VBoth => "Both" end.
Definition vul_pbn (v : vul) : string := match v with VNone => "None" | VNS => "NS" | VEW => "EW" | VBoth => "All" end.
Definition vul_of_str (s : string) : option vul :=             (* Vul.str_to_vul *)
  if String.eqb s "None" || String.eqb s "Love" || String.eqb s "-" then Some VNone
  else if String.eqb s "Both" || String.eqb s "All" then Some VBoth
  else if String.eqb s "NS" then Some VNS else if String.eqb s "EW" then Some VEW
  else if String.eqb s "NONE" then Some VNone else if String.eqb s "BOTH" then Some VBoth   (* Vul[name] *)
  else None.

(* Card.__str__ : suit then rank;  Card.str_to_card : exactly two characters *)
Definition card_str (c : card) : string := suit_str (csuit c) ++ rank_str (crank c).
Definition card_of_str (s : string) : option card :=
  match s with
  | String a (String b EmptyString) =>
      match suit_of_str (String a EmptyString), rank_of_ascii b with
      | Some su, Some r => Some (mkcard r su) | _, _ => None end
  | _ => None end.

(* Bid.__str__ : name[-1] + name[:-1];  Bid.str_to_bid : Bid[s[1:] + s[0]] *)
Definition level_str (l : level) : string :=
  match l with L1=>"1"|L2=>"2"|L3=>"3"|L4=>"4"|L5=>"5"|L6=>"6"|L7=>"7" end.
Definition level_of_ascii (a : ascii) : option level :=
  match a with "1"=>Some L1|"2"=>Some L2|"3"=>Some L3|"4"=>Some L4|"5"=>Some L5|"6"=>Some L6|"7"=>Some L7|_=>None end%char.
Definition call_str (c : call) : string :=
  match c with Bid l s => level_str l ++ strain_str s | Pass => "Pass" | Dbl => "X" | Rdbl => "XX" end.
Definition call_of_str (s : string) : option call :=
  if String.eqb s "Pass" then Some Pass else if String.eqb s "X" then Some Dbl else
  if String.eqb s "XX" then Some Rdbl else
  match s with
  | String a rest => match level_of_ascii a, strain_of_str rest with
                     | Some l, Some st => Some (Bid l st) | _, _ => None end
  | EmptyString => None end.

(* ---------- Contract ---------- *)
(* final_bid None = passed out (Contract(None) and Contract(Bid.Pass) are both "passed out") *)
Record contract := mkcontract {
  final_bid : option (level * strain);
  cx : bool; cxx : bool; cvul : vul; cdeclarer : option seat }.
Inductive dbl_status := Undoubled | Doubled | Redoubled.
Scheme Equality for dbl_status.
Definition status_of (x xx : bool) : dbl_status := if xx then Redoubled else if x then Doubled else Undoubled.
Definition cstatus (k : contract) : dbl_status := status_of (cx k) (cxx k).
Definition is_passed_out (k : contract) : bool := match final_bid k with None => true | Some _ => false end.
(* Contract.__str__ *)
Definition contract_str (k : contract) : string :=
  match final_bid k with
  | None => "Passed_out"
  | Some (l, s) => call_str (Bid l s) ++ (if cxx k then "XX" else if cx k then "X" else "")
  end.
(* Contract.is_vul: None when it raises (declarer unknown with one-sided vulnerability) *)
Definition contract_is_vul (k : contract) : option bool :=
  match cvul k with
  | VNone => Some false | VBoth => Some true
  | v => match cdeclarer k with None => None | Some d => Some (seat_is_vul d v) end end.

(* string helpers *)
Fixpoint str_rev_acc (s acc : string) : string :=
  match s with EmptyString => acc | String a r => str_rev_acc r (String a acc) end.
Definition str_rev (s : string) := str_rev_acc s EmptyString.
(* drop a trailing "X": Some prefix if the last character is X *)
Definition strip_last_X (s : string) : option string :=
  match str_rev s with String "X"%char r => Some (str_rev r) | _ => None end.
(* Contract.str_to_contract; None where the code raises *)
Definition contract_of_str (s : string) (v : vul) (d : option seat) : option contract :=
  if String.eqb s "Passed_out" then
    match d with None => Some (mkcontract None false false v None) | Some _ => None end
  else
    match s with EmptyString => None | _ =>
    let '(x, xx, body) :=
      match strip_last_X s with
      | Some s1 => match s1 with EmptyString => (true, false, None)   (* s1[-1] raises IndexError *)
                   | _ => match strip_last_X s1 with
                          | Some s2 => (true, true, Some s2)
                          | None => (true, false, Some s1) end end
      | None => (false, false, Some s) end in
    match body with
    | None => None
    | Some b => match call_of_str b with
                | Some (Bid l st) => Some (mkcontract (Some (l, st)) x xx v d)
                | Some Pass => Some (mkcontract None x xx v d)   (* Contract(Bid.Pass): passed out *)
                | _ => None end
    end end.
