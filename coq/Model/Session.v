(* Model of a whole table-manager session as a network of sequential processes (Model/Kahn.v):
   the main thread of network_bridge/server.py (Server.run), one PlayerThread per accepted connection,
   and one bundled Client (client.py) per connection, its bidding/playing policy replaced by a script.
   Built from the auction, play, score and wire models.  No proofs here.

   Representation choices (DESIGN.md 2.7): per-seat queues become per-connection channels (main looks the
   connection up in its seat table); the single event_thread becomes the connection's reply on its own
   channel; the shared team_names dict is handed to a new connection thread as a snapshot and, after the
   seating barrier, as a message from main (every write happens-before every read through the barrier);
   Thread.join is a final message from the thread; closing a connection is a marker line; every line put
   on a socket is also appended to a write-only transcript channel. *)
From BE Require Export Model.Kahn Model.Basics Model.Strings Model.Auction Model.Play Model.Score Model.Wire Model.Json.
From Coq Require Import ZArith.
Local Open Scope string_scope.
Local Open Scope nat_scope.
Local Open Scope list_scope.
Local Infix "+++" := String.append (right associativity, at level 60).

(* ---------- messages ---------- *)
Definition table := seat -> option string.                 (* team_names *)
Inductive logev := LOpen | LRec (r : logrec) | LClose.
Inductive msg :=
| MS (s : string)                          (* a protocol line or a queue item *)
| MTable (t : table)                       (* team_names as seen at that moment *)
| MVerdict (v : option (seat * string))    (* connection thread -> main: seated as / rejected *)
| MLog (e : logev)
| MDone.                                   (* thread finished (join) *)
Notation proc := (Kahn.proc msg).

(* Server.Message *)
Definition ILLEGAL_BID := "illegal bid".
Definition ERROR_MSG := "error detected".
Definition PASSED_OUT := "passed out".
Definition NULL_MSG := "nothing happens".
Definition END_SESSION := "End of session".
Definition NEXT_BOARD := "next board".
Definition CLOSED := "<connection closed by server>".   (* marker standing for connection.close() *)

(* ---------- numbering ---------- *)
(* threads: 0 main; 1+i connection thread i; 1+n+i client i.  channels of connection i: *)
Definition ch_up (i : nat) := 4 * i.          (* client -> thread (socket) *)
Definition ch_down (i : nat) := 4 * i + 1.    (* thread -> client (socket) *)
Definition ch_q (i : nat) := 4 * i + 2.       (* main -> thread (start snapshot, then received_message_queues) *)
Definition ch_r (i : nat) := 4 * i + 3.       (* thread -> main (verdict, then sent_message_queues, then join) *)
Definition ch_log (n : nat) := 4 * n.         (* the output file: written by main, read by nobody *)
Definition ch_never (n : nat) := 4 * n + 1.   (* never written: a blocked accept() *)
Definition tr_down (n i : nat) := 4 * n + 2 + 2 * i.   (* model-only transcripts, read by nobody *)
Definition tr_up (n i : nat) := 4 * n + 3 + 2 * i.

(* ---------- inputs ---------- *)
Record board := mkBoard { b_id : string; b_dealer : seat; b_vul : vul; b_deal : deal; b_dda : option dda_table }.
Record arrival := mkArr { a_seat : seat; a_team : string; a_version : nat }.
(* what a client will say when it is its turn: the texts it sends with the values they stand for, board by board *)
Record cscript := mkScript { sc_calls : list (string * call); sc_cards : list (string * card) }.

Definition sget (f : string -> proc) (c : nat) : proc :=
  Get c (fun m => match m with MS s => f s | _ => Fail end).
Definition put_all (conn : seat -> nat) (m : string) (k : proc) : proc :=        (* for player in Player: queue.put *)
  fold_right (fun p acc => Put (ch_q (conn p)) (MS m) acc) k all_seats.
Definition put_others (conn : seat -> nat) (skip : seat) (m : string) (k : proc) : proc :=
  fold_right (fun p acc => if seat_beq p skip then acc else Put (ch_q (conn p)) (MS m) acc) k all_seats.

(* =====================================================================  main thread  *)
Section Main.
  Variable n : nat.                      (* number of arriving connections *)
  Variable conn : seat -> nat.           (* seat table: which connection sits where (known after admission) *)
  Variable names : seat -> string.       (* team name per seat *)
  Definition logp (e : logev) (k : proc) : proc := Put (ch_log n) (MLog e) k.
  (* what happens when Server.run raises inside the board loop: the log writer is closed by its context manager *)
  Definition abort : proc := logp LClose Fail.
  (* a queue read of the main thread inside the board loop: an item that is not a text line makes the code raise there *)
  Definition mget (f : string -> proc) (c : nat) : proc :=
    Get c (fun m => match m with MS s => f s | _ => abort end).

  (* Server.bidding_phase *)
  Fixpoint bidding (fuel : nat) (s : astate) (k : astate -> proc) : proc :=
    match fuel with
    | 0 => Fail
    | S f =>
      match active s with
      | None => k s
      | Some a =>
        put_all conn (formal_name a)
          (mget (fun m =>
             let (m', oc) := server_read_bid m (formal_name a) in
             match oc with
             | None => abort                                            (* parse_bid raises *)
             | Some c =>
                 match take_bid s c with
                 | (_, Illegal) => Put (ch_q (conn a)) (MS ILLEGAL_BID) (put_others conn a ERROR_MSG abort)
                 | (_, Raises) => abort
                 | (s', _) => put_others conn a m' (bidding f s' k) end end) (ch_r (conn a)))
      end end.

  (* Server.playing_phase: 13 tricks x 4 cards; i = cards played so far *)
  Fixpoint playing (fuel : nat) (i : nat) (hs : hstate) (orig : deal) (k : hstate -> proc) : proc :=
    match fuel with
    | 0 => k hs
    | S f =>
      let b := hbase hs in
      let a := pactive b in
      let played := if seat_beq a (dummy b) then declarer b else a in
      let body :=
        mget (fun m =>
           match parse_card m a with
           | None => abort
           | Some c =>
               match play_by hs c a with
               | (_, PRaises) => abort
               | (hs', POk) =>
                   put_others conn played m
                     (if i =? 0 then put_others conn (dummy b) (cards_line "Dummy" (orig (dummy b))) (playing f (S i) hs' orig k)
                      else playing f (S i) hs' orig k) end end) (ch_r (conn played)) in
      if i mod 4 =? 0 then Tau (put_all conn (formal_name (leader b)) body) else body     (* time.sleep(1); leader to every queue *)
    end.

  Definition put_null_pair (k : contract) (rest : proc) : proc :=
    fold_right (fun p acc => Put (ch_q (conn p)) (MS NULL_MSG)
                               (Put (ch_q (conn p)) (MS (if is_passed_out k then PASSED_OUT else NULL_MSG)) acc)) rest all_seats.
  Definition scores_of (k : contract) (score : Z) : Z * Z :=
    match cdeclarer k with
    | None => (0, 0)%Z
    | Some d => match side_of d with NS => (score, (- score)%Z) | EW => ((- score)%Z, score) end end.
  Definition join_all : proc := fold_right (fun p acc => Get (ch_r (conn p)) (fun _ => acc)) Ret all_seats.

  (* one board of Server.run's loop, then the rest *)
  Fixpoint boards_loop (bs : list board) (number : nat) : proc :=
    match bs with
    | [] => logp LClose (put_all conn END_SESSION join_all)
    | bd :: rest =>
      (* deal(): header and hand to every seat, then the two barriers *)
      fold_right (fun p acc => Put (ch_q (conn p)) (MS (board_header number (b_dealer bd) (b_vul bd)))
                               (Put (ch_q (conn p)) (MS (cards_line (formal_name p) (b_deal bd p))) acc))
        (Bar (Bar
          (bidding 400 (Auction.init (b_dealer bd) (b_vul bd)) (fun s =>
             match contract_of s with
             | None => abort
             | Some k =>
               put_null_pair k
                 (let finish (play : option (list (seat * list card))) (taken : option Z) (score : Z) :=
                    let (sns, sew) := scores_of k score in
                    logp (LRec (mkLog names (b_id bd) (b_dealer bd) (b_deal bd) (hist s) k play taken "IMP" sns sew (b_dda bd)))
                      (match rest with
                       | [] => boards_loop rest (S number)
                       | _ => put_all conn NEXT_BOARD (boards_loop rest (S number)) end) in
                  if is_passed_out k then finish None None 0%Z
                  else
                    match init_hands k (b_deal bd) with
                    | None => abort
                    | Some hs0 =>
                        put_all conn (formal_name (declarer (hbase hs0)))
                          (playing 52 0 hs0 (b_deal bd) (fun hs =>
                             let t := Z.of_nat (taken (hbase hs) (side_of (declarer (hbase hs)))) in
                             match calc_score k t with
                             | None => abort
                             | Some sc => finish (Some (tricks (hbase hs))) (Some t) sc end)) end)
             end))))
        all_seats
    end.
End Main.

(* admission loop of Server.run: accept connections in arrival order until all four seats are taken *)
Definition all_seated (t : table) : bool := forallb (fun p => match t p with Some _ => true | None => false end) all_seats.
Definition tset (t : table) (p : seat) (v : string) : table := fun q => if seat_beq q p then Some v else t q.
Fixpoint admission (n : nat) (arrivals : list nat) (t : table) (conn : seat -> nat) (k : table -> (seat -> nat) -> proc) : proc :=
  if all_seated t then k t conn
  else match arrivals with
       | [] => Get (ch_never n) (fun _ => Fail)           (* accept() blocks for ever: nobody else connects *)
       | i :: rest =>
           Put (ch_q i) (MTable t)                                         (* thread.start() *)
             (Get (ch_r i) (fun v =>                                       (* event_thread.wait() *)
                Tau                                                        (* time.sleep(1) *)
                  (match v with
                   | MVerdict (Some (p, team)) => admission n rest (tset t p team) (fun q => if seat_beq q p then i else conn q) k
                   | MVerdict None => admission n rest t conn k
                   | _ => Fail end))) end.
Definition main_proc (n : nat) (boards : list board) : proc :=
  admission n (seq 0 n) (fun _ => None) (fun _ => 0) (fun t conn =>
    let names := fun p => match t p with Some s => s | None => "None" end in
    fold_right (fun p acc => Put (ch_q (conn p)) (MTable t) acc)         (* model-only: the table as of the barrier *)
      (Bar (Put (ch_log n) (MLog LOpen) (boards_loop n conn names boards 1))) all_seats).

(* PlayerThread._connect's three checks as a pure function of the table it sees: the error line, or None = seated *)
Definition admission_error (tbl : table) (team : string) (p : seat) (ver : nat) : option string :=
  if negb (ver =? 18) then Some ("ERROR: Protocol version is not 18 but " +++ string_of_nat ver +++ ".")
  else match tbl p with
       | Some _ => Some ("ERROR: Player " +++ formal_name p +++ " is already seated.")
       | None =>
         match tbl (partner p) with
         | Some t' => if negb (String.eqb t' team)
                      then Some ("ERROR: Team name """ +++ team +++ """ is not same as partner's team name """ +++ t' +++ """.")
                      else None
         | None => None end end.
(* the table after a list of well-formed requests, taken in arrival order until the four seats are filled (Server.run's loop) *)
Fixpoint seat_requests (reqs : list arrival) (tbl : table) : table :=
  match reqs with
  | [] => tbl
  | a :: r => if all_seated tbl then tbl
              else match admission_error tbl (a_team a) (a_seat a) (a_version a) with
                   | Some _ => seat_requests r tbl
                   | None => seat_requests r (tset tbl (a_seat a) (a_team a)) end end.

(* =====================================================================  PlayerThread  *)
Section Conn.
  Variable n : nat.
  Variable i : nat.
  Definition send (s : string) (k : proc) : proc := Put (ch_down i) (MS s) (Put (tr_down n i) (MS s) k).
  Definition handle_error (s : string) (k : proc) : proc := send s (send CLOSED k).
  (* _check_message: on mismatch the error line is sent and the connection closed *)
  Definition expect (expected : string) (ok bad : proc) : proc :=
    sget (fun l => if check_message expected l then ok else handle_error "ERROR: Unexpected message received." bad) (ch_up i).
  Definition forward_q (k : proc) : proc := sget (fun m => send m k) (ch_q i).      (* send_message(receive_message_from_queue()) *)
  Definition to_main (l : string) (k : proc) : proc := Put (ch_r i) (MS l) k.

  (* _bidding_phase *)
  Fixpoint t_bidding (fuel : nat) (me : seat) (k : proc) : proc :=
    match fuel with
    | 0 => Fail
    | S f =>
      sget (fun m =>
        if String.eqb m NULL_MSG then k
        else if String.eqb m ILLEGAL_BID then handle_error ILLEGAL_BID Ret
        else if String.eqb m ERROR_MSG then handle_error ERROR_MSG Ret
        else match seat_of_formal m with
             | None => Fail
             | Some a =>
                 if seat_beq me a then sget (fun l => to_main l (t_bidding f me k)) (ch_up i)
                 else expect (formal_name me +++ " ready for " +++ formal_name a +++ "'s bid")
                        (forward_q (t_bidding f me k)) Fail end) (ch_q i)
    end.
  (* _playing_phase: 13 x 4; j = position so far; a = seat to play (read from the queue at the start of each trick) *)
  Fixpoint t_playing (fuel : nat) (j : nat) (me decl : seat) (a0 : seat) (k : proc) : proc :=
    match fuel with
    | 0 => k
    | S f =>
      let dm := partner decl in
      let go (a : seat) : proc :=
        let rest0 := t_playing f (S j) me decl (next a) k in
        (* opens dummy's hand after the first card *)
        let rest := if j =? 0 then (if seat_beq me dm then rest0
                                    else expect (formal_name me +++ " ready for dummy") (forward_q rest0) Fail)
                    else rest0 in
        if seat_beq me a && negb (seat_beq me dm) then
          (if j mod 4 =? 0 then send (formal_name me +++ " to lead") else (fun x : proc => x))
            (sget (fun l => to_main l rest) (ch_up i))
        else if seat_beq me decl && seat_beq a dm then
          (if j mod 4 =? 0 then send "Dummy to lead" else (fun x : proc => x))
            (sget (fun l => to_main l rest) (ch_up i))
        else
          expect (formal_name me +++ " ready for " +++ (if seat_beq a dm then "dummy" else formal_name a) +++ "'s card to trick " +++ string_of_nat (j / 4 + 1))
            (forward_q rest) Fail in
      if j mod 4 =? 0 then sget (fun m => match seat_of_formal m with Some l => go l | None => Fail end) (ch_q i)
      else go a0
    end.

  Fixpoint t_boards (fuel : nat) (me : seat) : proc :=
    match fuel with
    | 0 => Fail
    | S f =>
      send "Start of board"
        (expect (formal_name me +++ " ready for deal")
           (Bar (forward_q
              (expect (formal_name me +++ " ready for cards")
                 (Bar (forward_q
                    (t_bidding 400 me
                       (sget (fun m =>
                          let after :=
                            sget (fun st => if String.eqb st NEXT_BOARD then t_boards f me
                                            else if String.eqb st END_SESSION then send END_SESSION (Put (ch_r i) MDone Ret)
                                            else Fail) (ch_q i) in
                          if String.eqb m PASSED_OUT then after
                          else if String.eqb m NULL_MSG then
                            sget (fun d => match seat_of_formal d with
                                           | Some decl => t_playing 52 0 me decl North after
                                           | None => Fail end) (ch_q i)
                          else Fail) (ch_q i)))))
                 Ret)))
           Ret)
    end.

  Definition seated (nboards : nat) (p : seat) (team : string) : proc :=
    send (seated_line p team)
      (expect (formal_name p +++ " ready for teams")
         (Put (ch_r i) (MVerdict (Some (p, team)))
            (Bar (Get (ch_q i) (fun mt =>
               match mt with
               | MTable t =>
                   let nm := fun s => match t s with Some x => x | None => "None" end in
                   send (teams_line (nm North) (nm East))
                     (expect (formal_name p +++ " ready to start") (t_boards (S nboards) p) Ret)
               | _ => Fail end))))
         (* the seat stays registered although the thread gives up *)
         (Put (ch_r i) (MVerdict (Some (p, team))) Ret)).

  Definition conn_proc (nboards : nat) : proc :=
    Get (ch_q i) (fun m0 =>
      match m0 with
      | MTable tbl =>
        sget (fun line =>
          match parse_connection_info line with
          | None => Fail
          | Some (team, p, ver) =>
            match admission_error tbl team p ver with
            | Some e => handle_error e (Put (ch_r i) (MVerdict None) Ret)
            | None => seated nboards p team end
          end) (ch_up i)
      | _ => Fail end).
End Conn.

(* =====================================================================  the bundled Client  *)
Section Client.
  Variable n : nat.
  Variable i : nat.
  Variable me : seat.
  Variable team : string.
  Variable version : nat.
  Definition csend (s : string) (k : proc) : proc := Put (ch_up i) (MS s) (Put (tr_up n i) (MS s) k).
  Definition crecv (f : string -> proc) : proc :=
    sget (fun s => if String.eqb s CLOSED then Fail else f s) (ch_down i).
  Definition to_lead_name (l : string) : option string :=       (* parse_leader_message's group *)
    match find_last " to lead" (lower l) with
    | Some (pre, _) => Some (substring 0 (String.length pre) l) | None => None end.

  (* Client.bidding_phase: own replica of the auction; calls taken from the script when it is my turn *)
  Fixpoint c_bidding (fuel : nat) (s : astate) (calls : list (string * call)) (k : astate -> list (string * call) -> proc) : proc :=
    match fuel with
    | 0 => Fail
    | S f =>
      match active s with
      | None => k s calls
      | Some a =>
        if seat_beq a me then
          match calls with
          | [] => Fail
          | (text, c) :: rest =>
              csend text (match take_bid s c with
                          | (_, Illegal) | (_, Raises) => Fail
                          | (s', _) => c_bidding f s' rest k end) end
        else
          csend (formal_name me +++ " ready for " +++ formal_name a +++ "'s bid")
            (crecv (fun l => match parse_bid l (formal_name a) with
                             | None => Fail
                             | Some c => match take_bid s c with
                                         | (_, Illegal) | (_, Raises) => Fail
                                         | (s', _) => c_bidding f s' calls k end end))
      end end.

  (* Client.playing_phase: j = cards played so far *)
  Fixpoint c_playing (fuel : nat) (j : nat) (o : ostate) (hand_open : bool) (cards : list (string * card))
           (k : ostate -> list (string * card) -> proc) : proc :=
    match fuel with
    | 0 => k o cards
    | S f =>
      let b := obase o in
      let a := pactive b in let dm := dummy b in let decl := declarer b in
      let my_turn := (seat_beq a me && negb (seat_beq me dm)) || (seat_beq a dm && seat_beq me decl) in
      let lead (rest : proc) :=
        if (j mod 4 =? 0) && my_turn then
          crecv (fun l => match to_lead_name l with
                          | Some who => let ld := if String.eqb who "Dummy" then Some dm else seat_of_formal who in
                                        match ld with Some x => if seat_beq x a then rest else Fail | None => Fail end
                          | None => Fail end)
        else rest in
      let with_dummy (cont : ostate -> proc) : proc :=
        if seat_beq a dm && negb hand_open && negb (seat_beq dm me) then
          csend (formal_name me +++ " ready for dummy")
            (crecv (fun l => match parse_cards_line l "Dummy" with
                             | Some h => cont (set_dummy_hand o h)
                             | None => Fail end))
        else cont o in
      let hand_open' := hand_open || seat_beq a dm in
      lead (with_dummy (fun o1 =>
        if seat_beq a me && negb (seat_beq me dm) then
          match cards with
          | [] => Fail
          | (text, c) :: rest => match obs_play_by o1 c me with
                                 | (o2, POk) => csend text (c_playing f (S j) o2 hand_open' rest k)
                                 | (_, PRaises) => Fail end end
        else if seat_beq a dm && seat_beq me decl then
          match cards with
          | [] => Fail
          | (text, c) :: rest => match obs_play_by o1 c dm with
                                 | (o2, POk) => csend text (c_playing f (S j) o2 hand_open' rest k)
                                 | (_, PRaises) => Fail end end
        else
          csend (formal_name me +++ " ready for " +++ (if seat_beq a dm then "dummy" else formal_name a) +++ "'s card to trick " +++ string_of_nat (trick_num b))
            (crecv (fun l => match parse_card l a with
                             | Some c => match obs_play_by o1 c a with
                                         | (o2, POk) => c_playing f (S j) o2 hand_open' cards k
                                         | (_, PRaises) => Fail end
                             | None => Fail end))))
    end.

  (* Client.run: boards until "End of session" *)
  Fixpoint c_boards (fuel : nat) (first : string) (scripts : list cscript) : proc :=
    match fuel with
    | 0 => Fail
    | S f =>
      if negb (String.eqb (lower first) "start of board") then Fail else
      let sc := match scripts with s :: _ => s | [] => mkScript [] [] end in
      csend (formal_name me +++ " ready for deal")
        (crecv (fun hd =>
           match parse_board hd with
           | None => Fail
           | Some (_, dealer, vul) =>
             csend (formal_name me +++ " ready for cards")
               (crecv (fun cl =>
                  match parse_cards_line cl (formal_name me) with
                  | None => Fail
                  | Some hand =>
                    c_bidding 400 (Auction.init dealer vul) (sc_calls sc) (fun s _ =>
                      let next := crecv (fun m => if String.eqb m END_SESSION then Ret else c_boards f m (tl scripts)) in
                      match contract_of s with
                      | None => Fail
                      | Some k =>
                          if is_passed_out k then next
                          else match init_obs k me hand with
                               | None => Fail
                               | Some o => c_playing 52 0 o false (sc_cards sc) (fun _ _ => next) end end)
                  end))
           end))
    end.

  Definition client_proc (scripts : list cscript) : proc :=
    csend (connect_line team me version)
      (crecv (fun reply =>
         if String.eqb reply (formal_name me +++ " " +++ team +++ " seated") || String.eqb reply (formal_name me +++ " (""" +++ team +++ """) seated") then
           csend (formal_name me +++ " ready for teams")
             (crecv (fun tl =>
                match parse_team_names tl with
                | None => Fail
                | Some (ns, ew) =>
                    if String.eqb (match side_of me with NS => ns | EW => ew end) team then
                      csend (formal_name me +++ " ready to start") (crecv (fun m => c_boards (S (List.length scripts)) m scripts))
                    else Fail end))
         else Fail)).
End Client.

(* =====================================================================  the network  *)
(* operator interrupt: KeyboardInterrupt raised in the main thread while it is blocked in its k-th queue read after the
   log file has been opened and before it is closed (inside the with block); the context manager closes the log, then the
   exception leaves Server.run.  After the close (joins) an interrupt just ends the main thread. *)
Fixpoint interrupt_at (n : nat) (opened : bool) (k : nat) (p : proc) : proc :=
  match p with
  | Get c f => if opened then (match k with 0 => Put (ch_log n) (MLog LClose) Fail | S k' => Get c (fun m => interrupt_at n opened k' (f m)) end)
               else Get c (fun m => interrupt_at n opened k (f m))
  | Put c m q => Put c m (interrupt_at n (match m with MLog LOpen => true | MLog LClose => false | _ => opened end) k q)
  | Bar q => Bar (interrupt_at n opened k q)
  | BarWait a q => BarWait a (interrupt_at n opened k q)
  | WriteCell x v q => WriteCell x v (interrupt_at n opened k q)
  | ReadCell x f => ReadCell x (fun v => interrupt_at n opened k (f v))
  | Tau q => Tau (interrupt_at n opened k q)
  | Ret => Ret
  | Fail => Fail end.
Record session := mkSession { s_boards : list board; s_arrivals : list arrival; s_scripts : list (list cscript) (* per arrival *);
                              s_interrupt : option nat }.
Definition nconn (x : session) : nat := List.length (s_arrivals x).
Definition init_state (x : session) : Kahn.st msg :=
  let n := nconn x in
  Kahn.mk msg
    ((match s_interrupt x with None => main_proc n (s_boards x) | Some k => interrupt_at n false k (main_proc n (s_boards x)) end)
     :: map (fun i => conn_proc n i (List.length (s_boards x))) (seq 0 n)
     ++ map (fun '(i, (a, sc)) => client_proc n i (a_seat a) (a_team a) (a_version a) sc)
            (combine (seq 0 n) (combine (s_arrivals x) (s_scripts x ++ repeat [] n))))
    (repeat [] (6 * n + 2)) [] (repeat 0 (1 + 2 * n)).
Definition PARTIES := 5.
(* ownership: who reads / writes each channel (2n+1 = nobody) *)
Definition reader_of (n : nat) (c : nat) : nat :=
  if c <? 4 * n then (match c mod 4 with 0 => 1 + c / 4 | 1 => 1 + n + c / 4 | 2 => 1 + c / 4 | _ => 0 end)
  else if c =? 4 * n + 1 then 0 else 1 + 2 * n.
Definition writer_of (n : nat) (c : nat) : nat :=
  if c <? 4 * n then (match c mod 4 with 0 => 1 + n + c / 4 | 1 => 1 + c / 4 | 2 => 0 | _ => 1 + c / 4 end)
  else if c =? 4 * n then 0
  else if c =? 4 * n + 1 then 1 + 2 * n
  else if (c - (4 * n + 2)) mod 2 =? 0 then 1 + (c - (4 * n + 2)) / 2 else 1 + n + (c - (4 * n + 2)) / 2.

(* a canonical scheduler: run a thread while it can, then the next one; stop after a full idle round *)
Fixpoint drive (fuel : nat) (s : Kahn.st msg) (t : nat) (idle : nat) (sched : list nat) : Kahn.st msg * list nat * bool :=
  match fuel with
  | 0 => (s, sched, false)
  | S f =>
    let nt := List.length (Kahn.procs msg s) in
    if nt <=? idle then (s, sched, Kahn.finalb msg PARTIES s)     (* a full idle round; the final test is re-evaluated explicitly *)
    else match Kahn.step msg PARTIES t s with
         | Some s' => drive f s' t 0 (t :: sched)
         | None => drive f s (if S t <? nt then S t else 0) (S idle) sched end end.
Definition run_session (fuel : nat) (x : session) : Kahn.st msg * list nat * bool :=
  let '(s, sched, ok) := drive fuel (init_state x) 0 0 [] in (s, rev sched, ok).

(* observables of a state *)
Definition lines_of (l : list msg) : list string := flat_map (fun m => match m with MS s => [s] | _ => [] end) l.
Definition chan (s : Kahn.st msg) (c : nat) : list msg := nth c (Kahn.chans msg s) [].
Definition log_events (n : nat) (s : Kahn.st msg) : list logev :=
  flat_map (fun m => match m with MLog e => [e] | _ => [] end) (chan s (ch_log n)).
Definition proc_code (p : proc) : nat := match p with Ret => 0 | Fail => 1 | _ => 2 end.     (* returned / raised / blocked *)
