(* JSON values, tokens, a token-level parser, and the models of
   data_handler/json_handler/writer.py (JsonWriter framing, JsonLogWriter.write, JsonBoardSettingWriter.write)
   and parser.py (convert_board_setting, convert_board_log, JsonParser parse functions).  No proofs here.
   The character level of json.dumps / json.load (escapes, number syntax) is below this model. *)
From BE Require Export Model.Basics Model.Strings Model.Hands.
From Coq Require Import ZArith.
Local Open Scope string_scope.
Local Open Scope nat_scope.
Local Open Scope list_scope.

Inductive json :=
| JNull | JBool (b : bool) | JNum (z : Z) | JStr (s : string)
| JArr (l : list json) | JObj (l : list (string * json)).
Inductive tok := TLBrace | TRBrace | TLBrack | TRBrack | TColon | TComma | TStr (s : string) | TNum (z : Z) | TTrue | TFalse | TNull.

(* ---- printing to tokens (json.dumps at token level) ---- *)
Fixpoint tokens (j : json) : list tok :=
  match j with
  | JNull => [TNull] | JBool true => [TTrue] | JBool false => [TFalse] | JNum z => [TNum z] | JStr s => [TStr s]
  | JArr l => TLBrack :: (fix items (l : list json) : list tok :=
                            match l with [] => [] | [x] => tokens x | x :: r => tokens x ++ TComma :: items r end) l ++ [TRBrack]
  | JObj l => TLBrace :: (fix members (l : list (string * json)) : list tok :=
                            match l with [] => [] | [(k, v)] => TStr k :: TColon :: tokens v
                            | (k, v) :: r => TStr k :: TColon :: tokens v ++ TComma :: members r end) l ++ [TRBrace]
  end.

(* ---- recursive-descent parser on tokens (json.load at token level); fuel = number of tokens suffices ---- *)
Fixpoint parse_value (fuel : nat) (ts : list tok) : option (json * list tok) :=
  match fuel with
  | 0 => None
  | S f =>
    match ts with
    | TNull :: r => Some (JNull, r) | TTrue :: r => Some (JBool true, r) | TFalse :: r => Some (JBool false, r)
    | TNum z :: r => Some (JNum z, r) | TStr s :: r => Some (JStr s, r)
    | TLBrack :: TRBrack :: r => Some (JArr [], r)
    | TLBrack :: r =>
        (fix items (g : nat) (ts : list tok) (acc : list json) : option (json * list tok) :=
           match g with
           | 0 => None
           | S g' => match parse_value f ts with
                     | Some (v, TComma :: r') => items g' r' (acc ++ [v])
                     | Some (v, TRBrack :: r') => Some (JArr (acc ++ [v]), r')
                     | _ => None end end) f r []
    | TLBrace :: TRBrace :: r => Some (JObj [], r)
    | TLBrace :: r =>
        (fix members (g : nat) (ts : list tok) (acc : list (string * json)) : option (json * list tok) :=
           match g with
           | 0 => None
           | S g' => match ts with
                     | TStr k :: TColon :: r1 =>
                         match parse_value f r1 with
                         | Some (v, TComma :: r') => members g' r' (acc ++ [(k, v)])
                         | Some (v, TRBrace :: r') => Some (JObj (acc ++ [(k, v)]), r')
                         | _ => None end
                     | _ => None end end) f r []
    | _ => None end end.
Definition parse_doc (ts : list tok) : option json :=
  match parse_value (S (length ts)) ts with Some (v, []) => Some v | _ => None end.

(* dict semantics of json.load: a later duplicate key replaces the value of the earlier one *)
Fixpoint lookup (k : string) (l : list (string * json)) : option json :=
  match l with [] => None | (k', v) :: r => match lookup k r with Some v' => Some v' | None => if String.eqb k k' then Some v else None end end.
Definition field (k : string) (j : json) : option json := match j with JObj l => lookup k l | _ => None end.

(* ---- JsonWriter framing: the literal pieces come from Gen/JsonFraming.v (regenerated from writer.py) ---- *)
(* a lexer for the framing literals only: structural characters, blanks/newlines, and plain quoted words *)
Fixpoint lex_framing (fuel : nat) (s : string) : option (list tok) :=
  match fuel with
  | 0 => None
  | S f =>
    match s with
    | EmptyString => Some []
    | String a r =>
        if is_ws a then lex_framing f r
        else if Ascii.eqb a "{" then option_map (cons TLBrace) (lex_framing f r)
        else if Ascii.eqb a "}" then option_map (cons TRBrace) (lex_framing f r)
        else if Ascii.eqb a "[" then option_map (cons TLBrack) (lex_framing f r)
        else if Ascii.eqb a "]" then option_map (cons TRBrack) (lex_framing f r)
        else if Ascii.eqb a ":" then option_map (cons TColon) (lex_framing f r)
        else if Ascii.eqb a "," then option_map (cons TComma) (lex_framing f r)
        else if Ascii.eqb a """" then
          let w := take_while (fun c => is_alpha c || Ascii.eqb c "_") r in
          match strip_prefix w r with
          | Some (String q r') => if Ascii.eqb q """" then option_map (cons (TStr w)) (lex_framing f r') else None
          | _ => None end
        else None end end.
Definition lexf (s : string) : option (list tok) := lex_framing (S (String.length s)) s.
(* the token stream of a file written by open(); _write_content(r) for r in rs; close() *)
Record framing := mkFraming { f_open : string -> string; f_sep : string; f_close_empty : string; f_close : string }.
Definition written_tokens (fr : framing) (tag : string) (rs : list json) : option (list tok) :=
  match lexf (f_open fr tag), lexf (f_sep fr), lexf (if match rs with [] => true | _ => false end then f_close_empty fr else f_close fr) with
  | Some o, Some sp, Some c =>
      Some (o ++ (fix go (l : list json) : list tok :=
                    match l with [] => [] | [x] => tokens x | x :: r => tokens x ++ sp ++ go r end) rs ++ c)%list
  | _, _, _ => None end.

(* ---- records ---- *)
Definition dda_table := list (seat * list (strain * Z)).
Record logrec := mkLog {
  l_players : seat -> string; l_board_id : string; l_dealer : seat; l_deal : deal; l_bids : list call;
  l_contract : contract; l_play : option (list (seat * list card)); l_taken : option Z;
  l_scoring : string; l_score_ns : Z; l_score_ew : Z; l_dda : option dda_table }.
Record setting := mkSetting { s_board_id : string; s_dealer : seat; s_deal : deal; s_vul : vul; s_dda : option dda_table }.

Definition jstrs (l : list string) : json := JArr (map JStr l).
Definition deal_json (d : deal) : json :=
  JObj [("N", jstrs (deal_to_json (d North))); ("E", jstrs (deal_to_json (d East)));
        ("S", jstrs (deal_to_json (d South))); ("W", jstrs (deal_to_json (d West)))].
Definition dda_json (t : dda_table) : json :=
  JObj (map (fun '(p, row) => (seat_str p, JObj (map (fun '(s, n) => (strain_str s, JNum n)) row))) t).
(* JsonLogWriter.write *)
Definition record_json (r : logrec) : json :=
  JObj ([("players", JObj [("N", JStr (l_players r North)); ("E", JStr (l_players r East));
                          ("S", JStr (l_players r South)); ("W", JStr (l_players r West))]);
         ("board_id", JStr (l_board_id r));
         ("dealer", JStr (seat_str (l_dealer r)));
         ("deal", deal_json (l_deal r));
         ("vulnerability", JStr (vul_str (cvul (l_contract r))));
         ("bid_history", jstrs (map call_str (l_bids r)));
         ("contract", JStr (contract_str (l_contract r)));
         ("declarer", if is_passed_out (l_contract r) then JNull
                      else match cdeclarer (l_contract r) with Some d => JStr (seat_str d) | None => JStr "None" end);
         ("play_history", match l_play r with
                          | None => JNull
                          | Some ts => JArr (map (fun '(ld, cs) => JObj [("leader", JStr (seat_str ld)); ("cards", jstrs (map card_str cs))]) ts) end);
         ("taken_trick", match l_taken r with None => JNull | Some n => JNum n end);
         ("score_type", JStr (l_scoring r));
         ("scores", JObj [("NS", JNum (l_score_ns r)); ("EW", JNum (l_score_ew r))])]
        ++ match l_dda r with None => [] | Some t => [("dda", dda_json t)] end)%list.
(* JsonBoardSettingWriter.write *)
Definition setting_json (s : setting) : json :=
  JObj ([("board_id", JStr (s_board_id s)); ("dealer", JStr (seat_str (s_dealer s))); ("deal", deal_json (s_deal s));
         ("vulnerability", JStr (vul_str (s_vul s)))]
        ++ match s_dda s with None => [] | Some t => [("dda", dda_json t)] end)%list.

(* ---- parser.py ---- *)
Definition as_str (j : json) : option string := match j with JStr s => Some s | _ => None end.
Fixpoint strs_of (l : list json) : option (list string) :=
  match l with [] => Some [] | JStr s :: r => option_map (cons s) (strs_of r) | _ => None end.
Definition hand_of_json (j : option json) : option hand :=
  match j with Some (JArr l) => match strs_of l with Some ss => json_to_hand ss | None => None end | _ => None end.
(* hands_parser *)
Definition deal_of_json (j : json) : option deal :=
  match hand_of_json (field "N" j), hand_of_json (field "E" j), hand_of_json (field "S" j), hand_of_json (field "W" j) with
  | Some n, Some e, Some s, Some w => Some (fun p => match p with North => n | East => e | South => s | West => w end)
  | _, _, _, _ => None end.
Fixpoint dda_row (l : list (string * json)) : option (list (strain * Z)) :=
  match l with
  | [] => Some []
  | (k, JNum n) :: r => match strain_of_str k, dda_row r with Some s, Some rr => Some ((s, n) :: rr) | _, _ => None end
  | _ => None end.
Fixpoint dda_of (l : list (string * json)) : option dda_table :=
  match l with
  | [] => Some []
  | (k, JObj row) :: r => match seat_of_str k, dda_row row, dda_of r with Some p, Some rw, Some rr => Some ((p, rw) :: rr) | _, _, _ => None end
  | _ => None end.
(* convert_board_setting; None = raises *)
Definition setting_of_json (j : json) : option setting :=
  match field "board_id" j, field "dealer" j, field "deal" j, field "vulnerability" j with
  | Some (JStr b), Some (JStr d), Some dl, Some (JStr v) =>
      match seat_of_str d, deal_of_json dl, vul_of_str v with
      | Some d', Some dl', Some v' =>
          match field "dda" j with
          | None => Some (mkSetting b d' dl' v' None)
          | Some (JObj t) => option_map (fun t' => mkSetting b d' dl' v' (Some t')) (dda_of t)
          | Some _ => None end
      | _, _, _ => None end
  | _, _, _, _ => None end.
Fixpoint calls_of (l : list string) : option (list call) :=
  match l with [] => Some [] | s :: r => match call_of_str s, calls_of r with Some c, Some cs => Some (c :: cs) | _, _ => None end end.
Fixpoint cards_of (l : list string) : option (list card) :=
  match l with [] => Some [] | s :: r => match card_of_str s, cards_of r with Some c, Some cs => Some (c :: cs) | _, _ => None end end.
Fixpoint tricks_of (l : list json) : option (list (seat * list card)) :=
  match l with
  | [] => Some []
  | t :: r =>
      match field "leader" t, field "cards" t with
      | Some (JStr ld), Some (JArr cs) =>
          match seat_of_str ld, strs_of cs with
          | Some ld', Some ss => match cards_of ss, tricks_of r with Some cc, Some rr => Some ((ld', cc) :: rr) | _, _ => None end
          | _, _ => None end
      | _, _ => None end end.
(* convert_board_log (with leader and score keys converted to the library's value objects); None = raises.
   The record is returned in the shape it was written so that the two can be compared field by field. *)
Definition log_of_json (j : json) : option logrec :=
  match setting_of_json j with
  | None => None
  | Some st =>
    match field "declarer" j, field "contract" j, field "taken_trick" j with
    | Some dj, Some (JStr ks), Some tj =>
      let decl := match dj with JNull => Some None | JStr d => option_map Some (seat_of_str d) | _ => None end in
      match decl with
      | None => None
      | Some decl' =>
        match contract_of_str ks (s_vul st) decl' with
        | None => None
        | Some k =>
          let taken := match tj with JNull => Some None | JNum n => Some (Some n) | _ => None end in
          let players := match field "players" j with
                         | Some pj => match field "N" pj, field "E" pj, field "S" pj, field "W" pj with
                                      | Some (JStr n), Some (JStr e), Some (JStr s), Some (JStr w) =>
                                          Some (fun p => match p with North => n | East => e | South => s | West => w end)
                                      | _, _, _, _ => None end
                         | None => None end in
          let bids := match field "bid_history" j with Some (JArr l) => match strs_of l with Some ss => calls_of ss | None => None end | _ => None end in
          let play := match field "play_history" j with
                      | Some JNull => Some None
                      | Some (JArr l) => option_map Some (tricks_of l)
                      | _ => None end in
          let scoring := match field "score_type" j with Some (JStr s) => Some s | _ => None end in
          let scores := match field "scores" j with
                        | Some sj => match field "NS" sj, field "EW" sj with Some (JNum a), Some (JNum b) => Some (a, b) | _, _ => None end
                        | None => None end in
          match taken, players, bids, play, scoring, scores with
          | Some tk, Some pl, Some bd, Some py, Some sc, Some (a, b) =>
              Some (mkLog pl (s_board_id st) (s_dealer st) (s_deal st) bd k py tk sc a b (s_dda st))
          | _, _, _, _, _, _ => None end end end
    | _, _, _ => None end end.
Fixpoint map_opt {A B} (f : A -> option B) (l : list A) : option (list B) :=
  match l with [] => Some [] | x :: r => match f x, map_opt f r with Some y, Some ys => Some (y :: ys) | _, _ => None end end.
(* JsonParser.parse_board_logs / parse_board_settings on a document *)
Definition parse_board_logs (doc : json) : option (list logrec) :=
  match field "logs" doc with Some (JArr l) => map_opt log_of_json l | _ => None end.
Definition parse_board_settings (doc : json) : option (list setting) :=
  match field "logs" doc with
  | Some (JArr l) => map_opt setting_of_json l
  | Some _ => None
  | None => match field "board_settings" doc with Some (JArr l) => map_opt setting_of_json l | _ => None end end.
