(* Correspondence for C04/C05/C06/C11: replays recorded cases on Model/Play.v and compares every observation. *)
From BE Require Import Model.Play Model.CaseLib.
Local Open Scope nat_scope.

Definition strain_of_bid (b : nat) : strain := match bn b with Bid _ s => s | _ => NT end.
Definition kontract (b d : nat) : contract :=
  match bn b with Bid l s => mkcontract (Some (l, s)) false false VNone (Some (sn d)) | _ => mkcontract None false false VNone None end.
Definition proj := (nat * nat * nat * nat * nat * nat * bool)%type.
Definition mproj (s : pstate) : proj :=
  (seat_idx (leader s), seat_idx (pactive s), trick_num s, taken_ns s, taken_ew s, length (rtricks s), phase_done s).
Definition proj_eqb (a b : proj) : bool :=
  let '(a1, a2, a3, a4, a5, a6, a7) := a in let '(b1, b2, b3, b4, b5, b6, b7) := b in
  (a1 =? b1) && (a2 =? b2) && (a3 =? b3) && (a4 =? b4) && (a5 =? b5) && (a6 =? b6) && Bool.eqb a7 b7.
Definition hist_eqb (a : list (nat * list nat)) (b : list (seat * list card)) : bool :=
  list_eqb (fun x y => (fst x =? fst y) && list_eqb Nat.eqb (snd x) (snd y)) a
           (map (fun t => (seat_idx (fst t), map card_idx (snd t))) b).
Fixpoint insert_sorted (x : nat) (l : list nat) : list nat :=
  match l with [] => [x] | y :: r => if x <=? y then x :: l else y :: insert_sorted x r end.
Definition sort_nat (l : list nat) : list nat := fold_right insert_sorted [] l.
Definition idxs (l : list card) : list nat := sort_nat (map card_idx l).
Fixpoint nodup_nat (l : list nat) : list nat :=
  match l with [] => [] | x :: r => if existsb (Nat.eqb x) r then nodup_nat r else x :: nodup_nat r end.

Definition c04case := (nat * nat * (nat * nat * nat * nat * nat) * list nat * list proj * list (nat * list nat))%type.
Fixpoint t04_walk (s : pstate) (cards : list nat) (obs : list proj) (i : nat) : nat * pstate :=
  match cards, obs with
  | [], [] => (0, s)
  | c :: cs, o :: os => let s' := play_card s (cn c) in if proj_eqb o (mproj s') then t04_walk s' cs os (S i) else (S i, s)
  | _, _ => (S i, s) end.
Definition t04_case (k : c04case) : nat :=
  let '(b, d, (t0, d0, dm0, l0, a0), cards, obs, fh) := k in
  match init_play (kontract b d) with
  | None => 998
  | Some s0 =>
    if negb ((t0 =? strain_val (trump s0)) && (d0 =? seat_idx (declarer s0)) && (dm0 =? seat_idx (dummy s0)) &&
             (l0 =? seat_idx (leader s0)) && (a0 =? seat_idx (pactive s0))) then 999 else
    let '(r, f) := t04_walk s0 cards obs 0 in
    if r =? 0 then (if hist_eqb fh (tricks f) then 0 else 1000) else r end.
Definition t04_highest (k : nat * list nat * option nat) : bool :=
  let '(sv, cards, res) := k in
  opt_eqb Nat.eqb res (match strain_of_val sv with Some st => calc_highest st (map cn cards) | None => None end).

Definition c05case := (nat * nat * list (list nat) * list (nat * nat) * list (bool * bool * proj) * (list (list nat) * list nat * list (nat * list nat)))%type.
Definition deal_fn (deal : list (list nat)) (p : seat) : list card := map cn (nth (seat_idx p) deal []).
Fixpoint t05_walk (s : hstate) (ops : list (nat * nat)) (obs : list (bool * bool * proj)) (i : nat) : nat * hstate :=
  match ops, obs with
  | [], [] => (0, s)
  | (c, p) :: os, (ok, unch, pj) :: bs =>
      let (s', r) := play_by s (cn c) (sn p) in
      if Bool.eqb ok (match r with POk => true | PRaises => false end) && Bool.eqb unch (negb ok) && proj_eqb pj (mproj (hbase s'))
      then t05_walk s' os bs (S i) else (S i, s)
  | _, _ => (S i, s) end.
Definition t05_case (k : c05case) : nat :=
  let '(b, d, deal, ops, obs, (fhands, fused, fh)) := k in
  match init_hands (kontract b d) (deal_fn deal) with
  | None => 998
  | Some s0 =>
    let '(r, f) := t05_walk s0 ops obs 0 in
    if r =? 0 then
      (if list_eqb (list_eqb Nat.eqb) fhands (map (fun p => idxs (hands f p)) all_seats) &&
          list_eqb Nat.eqb fused (nodup_nat (idxs (used (hbase f)))) && hist_eqb fh (tricks (hbase f)) then 0 else 1000)
    else r end.

Definition t06_case (k : list nat * option nat * list nat) : bool :=
  let '(hand, led, res) := k in list_eqb Nat.eqb res (idxs (available (map cn hand) (option_map cn led))).

Definition c11obs := (list (nat * nat) * list (bool * bool * proj) * (list nat * option (list nat) * list (nat * list nat)))%type.
Definition c11case := (nat * nat * list (list nat) * list c11obs)%type.
(* the harness sets dummy's hand right after the first accepted card, for observers other than dummy *)
Fixpoint t11_walk (late : bool) (deal : list (list nat)) (s : ostate) (started : bool) (ops : list (nat * nat)) (obs : list (bool * bool * proj)) (i : nat) : nat * ostate :=
  match ops, obs with
  | [], [] => (0, s)
  | (c, p) :: os, (ok, unch, pj) :: bs =>
      let (s1, r) := obs_play_by s (cn c) (sn p) in
      let acc := match r with POk => true | PRaises => false end in
      let dm := dummy (obase s) in
      let s' := if negb late && acc && negb started && negb (seat_beq (ome s) dm)
                then set_dummy_hand s1 (if seat_beq (sn p) dm then remove_card (deal_fn deal dm) (cn c) else deal_fn deal dm) else s1 in
      (* "late" cases: the harness sets dummy's hand after the observer has refused dummy's first play, and offers it again *)
      let s'' := if late && negb acc && seat_beq (sn p) dm && negb (seat_beq (ome s) dm) && seat_beq (sn p) (pactive (obase s))
                    && match odummy s with None => true | Some _ => false end
                 then set_dummy_hand s' (deal_fn deal dm) else s' in
      if Bool.eqb ok acc && Bool.eqb unch (negb acc) && proj_eqb pj (mproj (obase s'))
      then t11_walk late deal s'' (started || acc) os bs (S i) else (S i, s)
  | _, _ => (S i, s) end.
Definition t11_observer (late : bool) (b d : nat) (deal : list (list nat)) (me : nat) (o : c11obs) : nat :=
  let '(ops, steps, (fh, fd, fhist)) := o in
  match init_obs (kontract b d) (sn me) (deal_fn deal (sn me)) with
  | None => 998
  | Some o0 =>
    let '(r, f) := t11_walk late deal o0 false ops steps 0 in
    if r =? 0 then
      (if list_eqb Nat.eqb fh (idxs (ohand f)) && opt_eqb (list_eqb Nat.eqb) fd (option_map idxs (odummy f)) && hist_eqb fhist (tricks (obase f))
       then 0 else 1000)
    else r end.
Definition t11_case (k : c11case) : nat :=
  let '(b, d0, deal, obss) := k in
  let late := 4 <=? d0 in let d := d0 mod 4 in
  fold_right (fun '(me, o) acc => let r := t11_observer late b d deal me o in if r =? 0 then acc else 2000 * (S me) + r)
             0 (combine (seq 0 4) obss).
