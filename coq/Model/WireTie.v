(* Correspondence for C19: Model/Wire.v against recorded behaviour of the real builders/parsers/framing. *)
From BE Require Import Model.Wire Model.CaseLib.
Local Open Scope string_scope.
Local Open Scope nat_scope.

Inductive wobs :=
| ORaise | OText (s : string) | OTexts (a b : string) | ONat (n : nat) | OCards (l : list nat)
| OLine (s : string) (l : list nat) | ORelay (s : string) (n : nat)
| OHeader (n : string) (d v : nat) | OTextHeader (t n : string) (d v : nat) | OConn (t : string) (p : nat) (v : string) | OBool (b : bool).
Inductive wcase :=
| WHandLine (who : string) (h : list nat) | WHandToStr (h : list nat) | WParseHandLine (line who : string)
| WBidMessage (c : nat) (name : string) | WParseBid (m name : string) | WServerReadBid (m name : string) | WRemoveAlert (m : string)
| WCardStr (c : nat) | WParseCard (m : string) (p : nat) | WHeader (n : string) (d v : nat) | WParseBoard (m : string)
| WParseTeams (m : string) | WParseConn (m : string) | WCheck (e r : string).
Fixpoint insert_sorted (x : nat) (l : list nat) : list nat :=
  match l with [] => [x] | y :: r => if x <=? y then x :: l else y :: insert_sorted x r end.
Definition sort_nat (l : list nat) : list nat := fold_right insert_sorted [] l.
Fixpoint nodup_nat (l : list nat) : list nat :=
  match l with [] => [] | x :: r => if existsb (Nat.eqb x) r then nodup_nat r else x :: nodup_nat r end.
Definition idxs (l : list card) : list nat := nodup_nat (sort_nat (map card_idx l)).
Definition model_of (k : wcase) : wobs :=
  match k with
  | WHandLine who h => let line := cards_line who (map cn h) in
                       match parse_cards_line line who with Some cs => OLine line (idxs cs) | None => ORaise end
  | WHandToStr h => OText (hand_to_str (map cn h))
  | WParseHandLine line who => match parse_cards_line line who with Some cs => OCards (idxs cs) | None => ORaise end
  | WBidMessage c name => OText (bid_message (bn c) name)
  | WParseBid m name => match parse_bid m name with Some c => ONat (call_idx c) | None => ORaise end
  | WServerReadBid m name => match server_read_bid m name with (r, Some c) => ORelay r (call_idx c) | (_, None) => ORaise end
  | WRemoveAlert m => OText (remove_alert_word m)
  | WCardStr c => OTexts (card_rs (cn c)) (card_str (cn c))
  | WParseCard m p => match parse_card m (sn p) with Some c => ONat (card_idx c) | None => ORaise end
  | WHeader n d v => let t := board_header (nat_of_digits n) (sn d) (vn v) in
                     match parse_board t with Some (n', d', v') => OTextHeader t (string_of_nat n') (seat_idx d') (vul_idx v') | None => ORaise end
  | WParseBoard m => match parse_board m with Some (n', d', v') => OHeader (string_of_nat n') (seat_idx d') (vul_idx v') | None => ORaise end
  | WParseTeams m => match parse_team_names m with Some (a, b) => OTexts a b | None => ORaise end
  | WParseConn m => match parse_connection_info m with Some (t, p, v) => OConn t (seat_idx p) (string_of_nat v) | None => ORaise end
  | WCheck e r => OBool (check_message e r)
  end.
Definition wobs_eqb (a b : wobs) : bool :=
  match a, b with
  | ORaise, ORaise => true
  | OText s, OText s' => String.eqb s s'
  | OTexts s t, OTexts s' t' => String.eqb s s' && String.eqb t t'
  | ONat n, ONat n' => n =? n'
  | OCards l, OCards l' => list_eqb Nat.eqb l l'
  | OLine s l, OLine s' l' => String.eqb s s' && list_eqb Nat.eqb l l'
  | ORelay s n, ORelay s' n' => String.eqb s s' && (n =? n')
  | OHeader n d v, OHeader n' d' v' => String.eqb n n' && (d =? d') && (v =? v')
  | OTextHeader t n d v, OTextHeader t' n' d' v' => String.eqb t t' && String.eqb n n' && (d =? d') && (v =? v')
  | OConn t p v, OConn t' p' v' => String.eqb t t' && (p =? p') && String.eqb v v'
  | OBool x, OBool y => Bool.eqb x y
  | _, _ => false end.
Definition tie_case (k : wcase * wobs) : bool := wobs_eqb (model_of (fst k)) (snd k).
(* framing: data bytes, observed messages, observed end (0 error, 1 spin, 2 decode error) *)
Definition tie_frame (k : list nat * list (list nat) * nat) : bool :=
  let '(data, msgs, e) := k in
  let (ms, _) := recv_all (S (List.length data)) (bs data) in
  list_eqb String.eqb ms (map bs msgs) && (e =? 0).
