(* Model of the Blue Chip Bridge protocol text layer: message builders and parsers of
   network_bridge/server.py, client.py and socket_interface.py, and CR LF framing.  No proofs here.
   The regex-based parsers are mirrored by direct matchers; re.IGNORECASE is ASCII case folding. *)
From BE Require Export Model.Basics Model.Strings.
Local Open Scope string_scope.
Local Open Scope nat_scope.

(* ================= builders ================= *)
(* Server.hand_to_str *)
Definition ranks_desc : list rank := rev all_ranks.
Definition suit_ranks (h : list card) (su : suit) : list string :=
  map rank_str (filter (fun r => existsb (card_beq (mkcard r su)) h) ranks_desc).
Definition suit_part (h : list card) (su : suit) : string :=
  match suit_ranks h su with [] => "-" | l => sjoin " " l end.
Definition hand_to_str (h : list card) : string :=
  "S " ++ suit_part h Sp ++ ". H " ++ suit_part h He ++ ". D " ++ suit_part h Di ++ ". C " ++ suit_part h Cl ++ ".".
Definition convert_vul (v : vul) : string := match v with VNone => "Neither" | VNS => "N/S" | VEW => "E/W" | VBoth => "Both" end.
Definition board_header (n : nat) (d : seat) (v : vul) : string :=
  "Board number " ++ string_of_nat n ++ ". Dealer " ++ formal_name d ++ ". " ++ convert_vul v ++ " vulnerable.".
Definition cards_line (who : string) (h : list card) : string := who ++ "'s cards : " ++ hand_to_str h.
Definition teams_line (ns ew : string) : string := "Teams : N/S : """ ++ ns ++ """ E/W : """ ++ ew ++ """".
Definition seated_line (p : seat) (team : string) : string := formal_name p ++ " " ++ team ++ " seated".
Definition connect_line (team : string) (p : seat) (version : nat) : string :=
  "Connecting """ ++ team ++ """ as " ++ formal_name p ++ " using protocol version " ++ string_of_nat version.
(* Client.create_bid_message *)
Definition bid_message (c : call) (name : string) : string :=
  name ++ " " ++ match c with Pass => "passes" | Dbl => "doubles" | Rdbl => "redoubles" | Bid _ _ => "bids " ++ call_str c end.
(* Client.card_str : rank then suit; the alternative notation is suit then rank (str(card)) *)
Definition card_rs (c : card) : string := rank_str (crank c) ++ suit_str (csuit c).
Definition play_message (p : seat) (c : card) (suit_first : bool) : string :=
  formal_name p ++ " plays " ++ (if suit_first then card_str c else card_rs c).

(* ================= parsers ================= *)
(* MessageInterface.parse_bid(content, player_name); None = raises *)
Definition parse_bid (content name : string) : option call :=
  let c := lower content in let n := lower name in
  let bid_form :=
    match strip_prefix (n ++ " bids ") c with
    | Some (String d r) =>
        if is_digit d then
          let st := if starts_with "c" r then Some (Tr Cl) else if starts_with "d" r then Some (Tr Di)
                    else if starts_with "h" r then Some (Tr He) else if starts_with "s" r then Some (Tr Sp)
                    else if starts_with "nt" r then Some NT else None in
          match st with
          | Some s => Some (match level_of_val (nat_of_ascii d - 48) with Some l => Some (Bid l s) | None => None end)  (* matched: level 0, 8, 9 raise *)
          | None => None end
        else None
    | _ => None end in
  match bid_form with
  | Some r => r
  | None =>
      match strip_prefix (n ++ " ") c with
      | Some rest =>
          (* the group stops at a line break *)
          let g := take_while (fun a => negb (Ascii.eqb a LF)) rest in
          if String.eqb g "passes" then Some Pass else if String.eqb g "doubles" then Some Dbl
          else if String.eqb g "redoubles" then Some Rdbl else None
      | None => None end end.
(* Server.remove_alert_word: re.sub of whitespace+ Alert. whitespace*, IGNORECASE -- every occurrence; leftmost, greedy *)
Fixpoint remove_alert_fuel (fuel : nat) (s : string) : string :=
  match fuel with
  | 0 => s
  | S f =>
    match s with
    | EmptyString => EmptyString
    | String a r =>
        if is_ws a then
          let after_ws := drop_while is_ws r in
          (* the whitespace run is greedy: the match is ws+ followed by alert. *)
          match strip_prefix "alert." (lower after_ws) with
          | Some _ => remove_alert_fuel f (drop_while is_ws (substring 6 (String.length after_ws) after_ws))
          | None => String a (remove_alert_fuel f r) end
        else String a (remove_alert_fuel f r) end end.
Definition remove_alert_word (s : string) : string := remove_alert_fuel (S (String.length s)) s.
(* what Server.bidding_phase does with a received call message *)
Definition server_read_bid (msg name : string) : string * option call :=
  let m := if contains "alert" (lower msg) then remove_alert_word msg else msg in (m, parse_bid m name).
(* MessageInterface.parse_card(content, player) *)
Definition parse_card (content : string) (p : seat) : option card :=
  match strip_prefix (lower (formal_name p) ++ " plays ") (lower content) with
  | Some rest =>
      let g := upper (take_while (fun a => negb (Ascii.eqb a LF)) rest) in
      match g with
      | String a (String b _) =>
          match suit_of_str (String a "") with
          | Some su => match rank_of_ascii b with Some r => Some (mkcard r su) | None => None end
          | None => match rank_of_ascii a, suit_of_str (String b "") with Some r, Some su => Some (mkcard r su) | _, _ => None end end
      | _ => None end
  | None => None end.
Fixpoint slist_eqb (a b : list string) : bool :=
  match a, b with [], [] => true | x :: a', y :: b' => String.eqb x y && slist_eqb a' b' | _, _ => false end.
(* PlayerThread._check_message: spaces of the expected text match whitespace runs, case-insensitive, fullmatch *)
Definition check_message (expected received : string) : bool :=
  slist_eqb (map lower (words received)) (map lower (split_char " " expected)).
(* PlayerThread.parse_connection_info (pattern pinned in Gen/Regexes.v); names without a double quote *)
Definition parse_connection_info (content : string) : option (string * seat * nat) :=
  match strip_prefix "connecting """ (lower content) with
  | Some _ =>
      let body := substring 12 (String.length content) content in
      match find_last """ as " (lower body) with
      | Some (pre, _) =>
          let team := substring 0 (String.length pre) body in
          let rest := substring (String.length pre + 5) (String.length body) body in
          match find_last " using protocol version " (lower rest) with
          | Some (seatname, ver) =>
              let digits := take_while is_digit ver in
              match digits with
              | EmptyString => None
              | _ =>
                let nm := substring 0 (String.length seatname) rest in
                (* .capitalize() then convert_formal_name *)
                let cap := match nm with String a r => String (upper_ascii a) (lower r) | EmptyString => EmptyString end in
                match seat_of_formal cap with Some p => Some (team, p, nat_of_digits digits) | None => None end end
          | None => None end
      | None => None end
  | None => None end.
(* Client.parse_team_names (pattern pinned in Gen/Regexes.v); names without a double quote *)
Definition parse_team_names (content : string) : option (string * string) :=
  match strip_prefix "teams : n/s : """ (lower content) with
  | Some _ =>
      let body := substring 15 (String.length content) content in
      match find_first """" body with
      | Some (ns, after) =>
          let after' := match strip_prefix " e/w : """ (lower after) with
                        | Some _ => Some (substring 8 (String.length after) after)
                        | None => match after with
                                  | String _ r => match strip_prefix " e/w : """ (lower r) with
                                                  | Some _ => Some (substring 8 (String.length r) r) | None => None end
                                  | EmptyString => None end end in
          match after' with
          | Some t => match find_last """" t with Some (ew, _) => Some (ns, ew) | None => None end
          | None => None end
      | None => None end
  | None => None end.
(* Client.parse_board (pattern pinned in Gen/Regexes.v) *)
Definition parse_board (content : string) : option (nat * seat * vul) :=
  match strip_prefix "board number " (lower content) with
  | Some _ =>
      let body := substring 13 (String.length content) content in
      let digits := take_while is_digit body in
      match digits with
      | EmptyString => None
      | _ =>
        let r1 := substring (String.length digits) (String.length body) body in
        match strip_prefix ". dealer " (lower r1) with
        | Some _ =>
            let r2 := substring 9 (String.length r1) r1 in
            match find_last " vulnerable." (lower r2) with
            | Some (pre, _) =>
                let mid := substring 0 (String.length pre) r2 in
                match find_last ". " mid with
                | Some (dl, vs) =>
                    let v := if String.eqb vs "Neither" then Some VNone else if String.eqb vs "N/S" then Some VNS
                             else if String.eqb vs "E/W" then Some VEW else if String.eqb vs "Both" then Some VBoth else None in
                    match seat_of_formal dl, v with
                    | Some d, Some v' => Some (nat_of_digits digits, d, v') | _, _ => None end
                | None => None end
            | None => None end
        | None => None end end
  | None => None end.
(* Client.parse_cards + parse_hand (patterns pinned in Gen/Regexes.v) *)
Fixpoint ranks_of_words (l : list string) : option (list rank) :=
  match l with
  | [] => Some []
  | w :: r => if String.eqb w "-" then ranks_of_words r
              else match w with
                   | String a EmptyString => match rank_of_ascii a, ranks_of_words r with Some x, Some xs => Some (x :: xs) | _, _ => None end
                   | _ => None end end.
Definition parse_hand (hs : string) : option (list card) :=
  match strip_prefix "s " (lower hs) with
  | Some _ =>
    let b := substring 2 (String.length hs) hs in
    match find_last ". c " (lower b) with | Some (p3, _) =>
    let c_part := substring (String.length p3 + 4) (String.length b) b in
    let b3 := substring 0 (String.length p3) b in
    match find_last ". d " (lower b3) with | Some (p2, _) =>
    let d_part := substring (String.length p2 + 4) (String.length b3) b3 in
    let b2 := substring 0 (String.length p2) b3 in
    match find_last ". h " (lower b2) with | Some (p1, _) =>
    let h_part := substring (String.length p1 + 4) (String.length b2) b2 in
    let s_part := substring 0 (String.length p1) b2 in
    (* the clubs group ends at the last "." (optionally followed by one whitespace character at the very end) *)
    match find_last "." c_part with | Some (cp, _) =>
      match ranks_of_words (split_char " " s_part), ranks_of_words (split_char " " h_part),
            ranks_of_words (split_char " " d_part), ranks_of_words (split_char " " cp) with
      | Some rs, Some rh, Some rd, Some rc =>
          Some (map (fun r => mkcard r Sp) rs ++ map (fun r => mkcard r He) rh ++ map (fun r => mkcard r Di) rd ++ map (fun r => mkcard r Cl) rc)%list
      | _, _, _, _ => None end
    | None => None end | None => None end | None => None end | None => None end
  | None => None end.
Definition parse_cards_line (content who : string) : option (list card) :=
  match strip_prefix (lower who ++ "'s cards : ") (lower content) with
  | Some _ => parse_hand (substring (String.length who + 11) (String.length content) content)
  | None => None end.

(* ================= framing ================= *)
(* MessageInterface.receive_message on the bytes still to come (after the fix: end of stream raises) *)
Inductive recv_result := RMsg (m : string) (rest : string) | RError.
Fixpoint recv_from (s : string) (acc : string) : recv_result :=
  match s with
  | EmptyString => RError                                       (* recv returned b'' *)
  | String a r =>
      if Ascii.eqb a CR then
        match r with
        | String b r' => if Ascii.eqb b LF then RMsg acc r' else RError       (* 'Received an unexpected letter' *)
        | EmptyString => RError end
      else recv_from r (acc ++ String a "") end.
Definition receive_message (s : string) : recv_result := recv_from s "".
Definition frame (m : string) : string := m ++ String CR (String LF "").      (* send_message *)
Fixpoint recv_all (fuel : nat) (s : string) : list string * bool :=            (* (messages, ended cleanly at a message boundary) *)
  match fuel with
  | 0 => ([], false)
  | S f => match s with
           | EmptyString => ([], true)
           | _ => match receive_message s with
                  | RMsg m rest => let (ms, ok) := recv_all f rest in (m :: ms, ok)
                  | RError => ([], false) end end end.
