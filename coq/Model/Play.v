(* Model of bridge_env/playing_phase.py: PlayingPhase, PlayingPhaseWithHands,
   ObservedPlayingPhase, available_cards.  No proofs here.
   Sets of cards are lists (membership semantics); the history is kept newest-first. *)
From BE Require Export Model.Basics.
Local Open Scope nat_scope.

Record pstate := mkP {
  trump : strain;  declarer : seat;  dummy : seat;
  leader : seat;  pactive : seat;
  trick : list card;                       (* _trick_cards, in the order played *)
  trick_num : nat;                         (* 1-based *)
  rtricks : list (seat * list card);       (* playing_history.history, newest first *)
  used : list card;                        (* used_cards (a set), newest first *)
  taken_ns : nat;  taken_ew : nat
}.
Definition tricks (s : pstate) : list (seat * list card) := rev (rtricks s).
Definition phase_done (s : pstate) : bool := 13 <? trick_num s.     (* has_done() *)
Definition taken (s : pstate) (sd : side) : nat := match sd with NS => taken_ns s | EW => taken_ew s end.

(* PlayingPhase.__init__ : None where it raises (passed out) or asserts (no declarer) *)
Definition init_play (k : contract) : option pstate :=
  match final_bid k, cdeclarer k with
  | Some (_, st), Some d => Some (mkP st d (partner d) (next d) (next d) [] 1 [] [] 0 0)
  | _, _ => None end.

(* calc_highest(suit, cards): index of the first card of maximal rank among those of the suit; None = -1 *)
Fixpoint highest_from (su : suit) (cards : list card) (i : nat) (best : option nat) (hi : nat) : option nat :=
  match cards with
  | [] => best
  | c :: r =>
      if suit_beq (csuit c) su then
        if match best with None => true | Some _ => hi <? rank_val (crank c) end
        then highest_from su r (S i) (Some i) (rank_val (crank c))
        else highest_from su r (S i) best hi
      else highest_from su r (S i) best hi end.
Definition calc_highest (st : strain) (cards : list card) : option nat :=
  match st with NT => None | Tr su => highest_from su cards 0 None 0 end.
(* _set_next_leader: trump first, then the suit of the first card *)
Definition winner_idx (tr : strain) (cards : list card) : nat :=
  match calc_highest tr cards with
  | Some i => i
  | None => match cards with
            | [] => 0
            | c :: _ => match calc_highest (Tr (csuit c)) cards with Some i => i | None => 0 end end end.

(* PlayingPhase.play_card *)
Definition play_card (s : pstate) (c : card) : pstate :=
  let tr := trick s ++ [c] in
  if length tr =? 4 then
    let ld := rot (leader s) (winner_idx (trump s) tr) in
    mkP (trump s) (declarer s) (dummy s) ld ld [] (S (trick_num s))
        ((leader s, tr) :: rtricks s) (c :: used s)
        (match side_of ld with NS => S (taken_ns s) | EW => taken_ns s end)
        (match side_of ld with EW => S (taken_ew s) | NS => taken_ew s end)
  else
    mkP (trump s) (declarer s) (dummy s) (leader s) (next (pactive s)) tr (trick_num s)
        (rtricks s) (c :: used s) (taken_ns s) (taken_ew s).

(* PlayingPhase.available_cards / current_available_cards *)
Definition available (hand : list card) (first : option card) : list card :=
  match first with
  | None => hand
  | Some f => match filter (fun c => suit_beq (csuit c) (csuit f)) hand with
              | [] => hand
              | l => l end end.
Definition current_available (s : pstate) (hand : list card) : list card := available hand (hd_error (trick s)).

(* ---- with hands ---- *)
Inductive presult := POk | PRaises.
Scheme Equality for presult.
Definition has_card (h : list card) (c : card) : bool := existsb (card_beq c) h.
Definition remove_card (h : list card) (c : card) : list card := filter (fun x => negb (card_beq c x)) h.

Record hstate := mkH { hbase : pstate; hands : seat -> list card }.
Definition init_hands (k : contract) (deal : seat -> list card) : option hstate :=
  option_map (fun b => mkH b deal) (init_play k).
(* PlayingPhaseWithHands.play_card_by_player *)
Definition play_by (s : hstate) (c : card) (p : seat) : hstate * presult :=
  if negb (seat_beq p (pactive (hbase s))) then (s, PRaises)
  else if negb (has_card (hands s p) c) then (s, PRaises)
  else (mkH (play_card (hbase s) c)
            (fun q => if seat_beq q p then remove_card (hands s q) c else hands s q), POk).

(* ---- observer: own hand + dummy's hand once set ---- *)
Record ostate := mkO { obase : pstate; ome : seat; ohand : list card; odummy : option (list card) }.
Definition init_obs (k : contract) (me : seat) (hand : list card) : option ostate :=
  option_map (fun b => mkO b me hand None) (init_play k).
Definition set_dummy_hand (s : ostate) (h : list card) : ostate := mkO (obase s) (ome s) (ohand s) (Some h).
(* ObservedPlayingPhase.play_card_by_player *)
Definition obs_play_by (s : ostate) (c : card) (p : seat) : ostate * presult :=
  if negb (seat_beq p (pactive (obase s))) then (s, PRaises)
  else if seat_beq p (ome s) then
    if negb (has_card (ohand s) c) then (s, PRaises)
    else (mkO (play_card (obase s) c) (ome s) (remove_card (ohand s) c) (odummy s), POk)
  else if seat_beq p (dummy (obase s)) then
    match odummy s with
    | None => (s, PRaises)
    | Some dh => if negb (has_card dh c) then (s, PRaises)
                 else (mkO (play_card (obase s) c) (ome s) (ohand s) (Some (remove_card dh c)), POk) end
  else (mkO (play_card (obase s) c) (ome s) (ohand s) (odummy s), POk).
