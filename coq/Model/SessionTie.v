(* Correspondence for the session properties (C08-C11, C13, C20): the final state of the network model under its
   canonical schedule against what the real server and clients did under some schedule. *)
From BE Require Import Model.Session Model.JsonTie Model.CaseLib.
From Coq Require Import ZArith.
Local Open Scope string_scope.
Local Open Scope nat_scope.
Local Open Scope list_scope.

Record observed := mkObs {
  o_ends : list nat;                 (* per thread (main, connection threads, clients): 0 returned 1 raised 2 blocked *)
  o_down : list (list string);       (* per connection: lines the server sent (plus the closed marker) *)
  o_up : list (list string);         (* per connection: lines the client sent *)
  o_log : option (list json)         (* the records of the output file as parsed by json.loads; None = not a JSON document *)
}.
Definition FUEL := 60000.
Definition model_log (n : nat) (s : Kahn.st msg) : option (list json) :=
  match log_events n s with
  | [] => Some []          (* the file was never opened: no log *)
  | LOpen :: rest =>
      match rev rest with
      | LClose :: rrecs =>
          map_opt (fun e => match e with LRec r => Some (record_json r) | _ => None end) (rev rrecs)
      | _ => None end      (* not closed: not a JSON document *)
  | _ => None end.
(* bits: 1 the canonical run did not reach a final state within the fuel; 2 thread ends; 4 lines to clients; 8 lines to server; 16 log *)
Definition tie_session (x : session) (o : observed) : nat :=
  let n := nconn x in
  let '(s, sched, ok) := run_session FUEL x in
  (if ok then 0 else 1) +
  (if list_eqb Nat.eqb (o_ends o) (map proc_code (Kahn.procs msg s)) then 0 else 2) +
  (if list_eqb (list_eqb String.eqb) (o_down o) (map (fun i => lines_of (chan s (tr_down n i))) (seq 0 n)) then 0 else 4) +
  (if list_eqb (list_eqb String.eqb) (o_up o) (map (fun i => lines_of (chan s (tr_up n i))) (seq 0 n)) then 0 else 8) +
  (if opt_eqb (list_eqb json_eqb) (o_log o) (model_log n s) then 0 else 16).
Definition model_steps (x : session) : nat := let '(_, sched, _) := run_session FUEL x in List.length sched.
