(* Helpers for generated case files (coq/Cases): index lists of disagreements. *)
From Coq Require Import List Arith ZArith Bool String Ascii.
Import ListNotations.

Fixpoint mism_from {A B} (eqb : A -> B -> bool) (xs : list A) (ys : list B) (i : nat) : list nat :=
  match xs, ys with
  | [], [] => []
  | x :: xs', y :: ys' => if eqb x y then mism_from eqb xs' ys' (S i) else i :: mism_from eqb xs' ys' (S i)
  | _, _ => [i] end.
Definition mismatches {A B} (eqb : A -> B -> bool) (xs : list A) (ys : list B) : list nat := mism_from eqb xs ys 0.
(* indices i where f (nth i) is false *)
Fixpoint fails_from {A} (f : A -> bool) (xs : list A) (i : nat) : list nat :=
  match xs with [] => [] | x :: r => if f x then fails_from f r (S i) else i :: fails_from f r (S i) end.
Definition fails {A} (f : A -> bool) (xs : list A) : list nat := fails_from f xs 0.

Fixpoint list_eqb {A} (eqb : A -> A -> bool) (a b : list A) : bool :=
  match a, b with [] , [] => true | x :: a', y :: b' => eqb x y && list_eqb eqb a' b' | _, _ => false end.
Definition opt_eqb {A} (eqb : A -> A -> bool) (a b : option A) : bool :=
  match a, b with Some x, Some y => eqb x y | None, None => true | _, _ => false end.
Definition pair_eqb {A B} (ea : A -> A -> bool) (eb : B -> B -> bool) (a b : A * B) : bool :=
  ea (fst a) (fst b) && eb (snd a) (snd b).
(* string from byte codes, for non-printable literals *)
Definition bs (l : list nat) : string := fold_right (fun n s => String (ascii_of_nat n) s) EmptyString l.
