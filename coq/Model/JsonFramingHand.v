(* The literals JsonWriter.open / close / _write_content write around and between the records, as the proofs of Proofs/Json.v
   were written against them.  Gen/JsonFraming.v is regenerated from writer.py on every run; Proofs/JsonPins.v proves, by
   reflexivity, that it equals the definitions below - so a changed literal breaks a proof obligation of C12 / C13 / C17
   without rebuilding the session proofs that only use the framing. *)
From BE Require Import Model.Json Model.CaseLib.
Local Open Scope string_scope.
Definition json_framing : framing :=
  mkFraming (fun tag => "{"""%string ++ tag ++ (bs [34;58;32;91;10])) (bs [44;10]) "]}"%string (bs [10;93;125]).
Definition tag_logs : string := "logs"%string.
Definition tag_settings : string := "board_settings"%string.
