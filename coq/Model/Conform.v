(* Conformance of scripted clients, decided by playing the boards sequentially with the model functions
   (auction, play with hands, wire parsers): every scripted call is understood by the table manager and by the other
   clients as the scripted value and is accepted by the auction; every scripted card is understood and is held by the
   seat that must play.  Executable: the checks evaluate it for every session they exercise. *)
From BE Require Export Model.Session.
Local Open Scope string_scope.
Local Open Scope nat_scope.
Local Open Scope list_scope.

Definition said_calls := seat -> list (string * call).
Definition said_cards := seat -> list (string * card).
Definition pop {A} (f : seat -> list A) (p : seat) : seat -> list A := fun q => if seat_beq q p then tl (f q) else f q.

(* the auction: each seat in turn says its next scripted call *)
Fixpoint seq_calls (fuel : nat) (s : astate) (said : said_calls) : option astate :=
  match fuel with
  | 0 => None
  | S f =>
    match active s with
    | None => Some s
    | Some a =>
      match said a with
      | [] => None
      | (m, c) :: _ =>
          match server_read_bid m (formal_name a) with
          | (m', Some c') =>
              if call_beq c c' && match parse_bid m' (formal_name a) with Some c'' => call_beq c c'' | None => false end
              then match take_bid s c with
                   | (s', Ongoing) | (s', Finished) => seq_calls f s' (pop said a)
                   | _ => None end
              else None
          | _ => None end end end end.
(* the play: the seat on turn (declarer for dummy) says its next scripted card *)
Fixpoint seq_cards (fuel : nat) (hs : hstate) (said : said_cards) : option hstate :=
  match fuel with
  | 0 => Some hs
  | S f =>
    let b := hbase hs in
    let a := pactive b in
    let who := if seat_beq a (dummy b) then declarer b else a in
    match said who with
    | [] => None
    | (m, c) :: _ =>
        match parse_card m a with
        | Some c' => if card_beq c c'
                     then match play_by hs c a with
                          | (hs', POk) => seq_cards f hs' (pop said who)
                          | _ => None end
                     else None
        | None => None end end end.
Definition conform_board (b : board) (sc : seat -> cscript) : bool :=
  match seq_calls 400 (Auction.init (b_dealer b) (b_vul b)) (fun p => sc_calls (sc p)) with
  | None => false
  | Some s =>
      match contract_of s with
      | None => false
      | Some k =>
          if is_passed_out k then true
          else match init_hands k (b_deal b) with
               | None => false
               | Some hs0 => match seq_cards 52 hs0 (fun p => sc_cards (sc p)) with Some _ => true | None => false end end end end.
(* a session of four clients arriving North, East, South, West with per-seat, per-board scripts *)
Definition nth_script (l : list cscript) (j : nat) : cscript := nth j l (mkScript [] []).
Definition conf_session (boards : list board) (ns ew : string) (scripts : seat -> list cscript) : session :=
  mkSession boards
    [mkArr North ns 18; mkArr East ew 18; mkArr South ns 18; mkArr West ew 18]
    [scripts North; scripts East; scripts South; scripts West] None.
Definition conforming (boards : list board) (scripts : seat -> list cscript) : bool :=
  forallb (fun p => length (scripts p) =? length boards) all_seats &&
  forallb (fun '(j, b) => conform_board b (fun p => nth_script (scripts p) j)) (combine (seq 0 (length boards)) boards).

(* ---- what the main thread logs for a conforming board (the record built in Session.boards_loop), as a pure function ---- *)
Definition model_record (names : seat -> string) (b : board) (sc : seat -> cscript) : option logrec :=
  match seq_calls 400 (Auction.init (b_dealer b) (b_vul b)) (fun p => sc_calls (sc p)) with
  | None => None
  | Some s =>
      match contract_of s with
      | None => None
      | Some k =>
          if is_passed_out k then
            Some (mkLog names (b_id b) (b_dealer b) (b_deal b) (hist s) k None None "IMP" 0%Z 0%Z (b_dda b))
          else
            match init_hands k (b_deal b) with
            | None => None
            | Some hs0 =>
                match seq_cards 52 hs0 (fun p => sc_cards (sc p)) with
                | None => None
                | Some hs =>
                    let t := Z.of_nat (taken (hbase hs) (side_of (declarer (hbase hs)))) in
                    match calc_score k t with
                    | None => None
                    | Some score =>
                        let (sns, sew) := scores_of k score in
                        Some (mkLog names (b_id b) (b_dealer b) (b_deal b) (hist s) k (Some (tricks (hbase hs))) (Some t) "IMP" sns sew (b_dda b))
                    end end end end end.
