(* Generic semantics of a network of deterministic sequential processes over FIFO channels,
   write-once cells and one cyclic barrier (DESIGN.md 2.7).  A process is a resumption tree;
   [step t s] lets thread t perform its next synchronisation operation, if enabled.  No proofs here. *)
From Coq Require Export List Arith Bool.
Export ListNotations.

Fixpoint upd {A} (l : list A) (i : nat) (x : A) : list A :=
  match l, i with
  | [], _ => []
  | _ :: t, 0 => x :: t
  | h :: t, S i' => h :: upd t i' x
  end.

Section Net.
  Variable msg : Type.
  Variable parties : nat.            (* number of threads that use the barrier *)

  Inductive proc :=
  | Ret                               (* finished normally *)
  | Fail                              (* raised: never finishes, never steps *)
  | Get (c : nat) (k : msg -> proc)   (* blocking read of channel c *)
  | Put (c : nat) (m : msg) (p : proc)
  | Bar (p : proc)                    (* arrive at the barrier ... *)
  | BarWait (n : nat) (p : proc)      (* ... and leave once [parties] threads have arrived n times *)
  | WriteCell (x : nat) (v : msg) (p : proc)
  | ReadCell (x : nat) (k : msg -> proc)   (* enabled once the cell is written *)
  | Tau (p : proc).                   (* a scheduling point without synchronisation (sleep) *)

  Record st := mk { procs : list proc; chans : list (list msg); cells : list (option msg); barr : list nat }.

  Definition released (n : nat) (b : list nat) : bool :=
    parties <=? length (filter (fun a => n <=? a) b).

  Definition step (t : nat) (s : st) : option st :=
    match nth_error (procs s) t with
    | Some (Get c k) =>
        match nth_error (chans s) c with
        | Some (m :: r) => Some (mk (upd (procs s) t (k m)) (upd (chans s) c r) (cells s) (barr s))
        | _ => None end
    | Some (Put c m p) =>
        match nth_error (chans s) c with
        | Some q => Some (mk (upd (procs s) t p) (upd (chans s) c (q ++ [m])) (cells s) (barr s))
        | None => None end
    | Some (Bar p) =>
        match nth_error (barr s) t with
        | Some a => Some (mk (upd (procs s) t (BarWait (S a) p)) (chans s) (cells s) (upd (barr s) t (S a)))
        | None => None end
    | Some (BarWait n p) =>
        if released n (barr s) then Some (mk (upd (procs s) t p) (chans s) (cells s) (barr s)) else None
    | Some (WriteCell x v p) =>
        match nth_error (cells s) x with
        | Some None => Some (mk (upd (procs s) t p) (chans s) (upd (cells s) x (Some v)) (barr s))
        | _ => None end
    | Some (ReadCell x k) =>
        match nth_error (cells s) x with
        | Some (Some v) => Some (mk (upd (procs s) t (k v)) (chans s) (cells s) (barr s))
        | _ => None end
    | Some (Tau p) => Some (mk (upd (procs s) t p) (chans s) (cells s) (barr s))
    | _ => None
    end.

  Fixpoint run (l : list nat) (s : st) : option st :=
    match l with
    | [] => Some s
    | t :: l' => match step t s with Some s' => run l' s' | None => None end end.

  Definition final (s : st) : Prop := forall t, step t s = None.            (* no thread can move *)
  Definition all_done (s : st) : Prop := Forall (fun p => p = Ret) (procs s).

  (* executable: which threads are enabled; a round-robin driver with fuel *)
  Definition enabled (s : st) (t : nat) : bool := match step t s with Some _ => true | None => false end.
  Definition finalb (s : st) : bool := forallb (fun t => negb (enabled s t)) (seq 0 (length (procs s))).
  Definition is_ret (p : proc) : bool := match p with Ret => true | _ => false end.
  Definition all_doneb (s : st) : bool := forallb is_ret (procs s).

  (* static ownership: who may read / write each channel, who may write each cell *)
  Variables (reader writer cwriter : nat -> nat).
  Inductive wf (t : nat) : proc -> Prop :=
  | wf_Ret : wf t Ret
  | wf_Fail : wf t Fail
  | wf_Get c k : reader c = t -> (forall m, wf t (k m)) -> wf t (Get c k)
  | wf_Put c m p : writer c = t -> wf t p -> wf t (Put c m p)
  | wf_Bar p : wf t p -> wf t (Bar p)
  | wf_BarWait n p : wf t p -> wf t (BarWait n p)
  | wf_Write x v p : cwriter x = t -> wf t p -> wf t (WriteCell x v p)
  | wf_Read x k : (forall v, wf t (k v)) -> wf t (ReadCell x k)
  | wf_Tau p : wf t p -> wf t (Tau p).
  Definition wf_state (s : st) : Prop :=
    (forall t p, nth_error (procs s) t = Some p -> wf t p) /\ length (barr s) = length (procs s).
End Net.

Arguments Ret {msg}.
Arguments Fail {msg}.
Arguments Get {msg}.
Arguments Put {msg}.
Arguments Bar {msg}.
Arguments BarWait {msg}.
Arguments WriteCell {msg}.
Arguments ReadCell {msg}.
Arguments Tau {msg}.
