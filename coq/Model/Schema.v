(* The subset of JSON-Schema draft-07 used by the two shipped schema files, and validation against it. No proofs here. *)
From BE Require Export Model.Json.
From Coq Require Import ZArith.
Local Open Scope string_scope.
Local Open Scope list_scope.

Inductive jtype := TyString | TyInteger | TyNumber | TyObject | TyArray | TyNull | TyBoolean.
(* types = [] means "any type"; keywords other than type/properties/required/items do not occur (the translator fails closed) *)
Inductive schema := Schema (types : list jtype) (props : list (string * schema)) (required : list string) (items : option schema).

Definition has_type (t : jtype) (j : json) : bool :=
  match t, j with
  | TyString, JStr _ | TyInteger, JNum _ | TyNumber, JNum _ | TyObject, JObj _ | TyArray, JArr _ | TyNull, JNull | TyBoolean, JBool _ => true
  | _, _ => false end.
Fixpoint validates (s : schema) (j : json) : bool :=
  match s with
  | Schema types props required items =>
      (match types with [] => true | _ => existsb (fun t => has_type t j) types end) &&
      match j with
      | JObj members =>
          forallb (fun k => match lookup k members with Some _ => true | None => false end) required &&
          (fix check_props (ps : list (string * schema)) : bool :=
             match ps with
             | [] => true
             | (k, sk) :: r => (match lookup k members with Some v => validates sk v | None => true end) && check_props r end) props
      | JArr l =>
          match items with
          | None => true
          | Some si => (fix all (l : list json) : bool := match l with [] => true | x :: r => validates si x && all r end) l end
      | _ => true end
  end.
