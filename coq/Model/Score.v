(* Model of bridge_env/score.py; every number is a constant of Model/ScoreConstsHand.v, pinned to the numbers regenerated
   from the source on every run by Proofs/ScoreConstsPin.v.  No proofs here. *)
From BE Require Export Model.Basics.
From BE Require Export Model.ScoreConstsHand.
Local Open Scope Z_scope.

Definition is_minor (s : strain) : bool := (strain_val s <=? 2)%nat.             (* value <= 2 *)
Definition is_major (s : strain) : bool := ((2 <? strain_val s) && (strain_val s <=? 4))%nat.
Definition zlevel (l : level) : Z := Z.of_nat (level_val l).

(* tuple[i] with a non-negative index; None = IndexError *)
Definition tuple_get (t : list Z) (i : Z) : option Z :=
  if i <? 0 then None else nth_error t (Z.to_nat i).

(* calc_bid_score(bid, x, xx, vul, taken_trick_num) for a real bid; None where Python raises *)
Definition calc_bid_score (l : level) (s : strain) (x xx vul : bool) (taken : Z) : option Z :=
  let lv := zlevel l in
  if taken <? lv + 6 then
    let down_n := lv + 6 - taken in
    if xx then tuple_get (if vul then k_down_xx_vul else k_down_xx) (down_n - 1)
    else if x then tuple_get (if vul then k_down_x_vul else k_down_x) (down_n - 1)
    else tuple_get (if vul then k_down_vul else k_down) (down_n - 1)
  else
    let over := taken - lv - 6 in
    let '(score, per) :=
      if is_minor s then (k_minor * lv, k_minor)
      else if is_major s then (k_major * lv, k_major)
      else (k_major * lv + k_nt, k_major) in
    let score := if xx then score * 4 else if x then score * 2 else score in
    let score :=
      if 100 <=? score then
        let score := score + (if vul then k_game_vul else k_game) in
        if 6 <=? lv then
          let score := score + (if vul then k_small_slam_vul else k_small_slam) in
          if lv =? 7 then score + (if vul then k_grand_slam_vul else k_grand_slam) else score
        else score
      else score in
    let score := score + k_make in
    let '(score, per) :=
      if x || xx then
        let score := score + k_make_x in
        if xx then (score + k_make_xx, if vul then k_overtrick_xx_vul else k_overtrick_xx)
        else (score, if vul then k_overtrick_x_vul else k_overtrick_x)
      else (score, per) in
    Some (score + per * over).

(* calc_score(contract, taken_tricks) *)
Definition calc_score (k : contract) (taken : Z) : option Z :=
  match final_bid k with
  | None => Some 0
  | Some (l, s) =>
      match contract_is_vul k with
      | None => None
      | Some v => calc_bid_score l s (cx k) (cxx k) v taken end
  end.

(* point_difference_to_imps: the while loop scans the thresholds while imps < 24 *)
Fixpoint imps_scan (a : Z) (ths : list Z) (fuel : nat) : Z :=
  match fuel with
  | O => 0
  | S f => match ths with
           | [] => 0     (* unreachable while the tuple has >= 24 entries: IndexError otherwise *)
           | t :: r => if a <? t then 0 else 1 + imps_scan a r f end end.
Definition point_difference_to_imps (d : Z) : Z :=
  let n := imps_scan (Z.abs d) k_imps_list 24 in
  if 0 <=? d then n else - n.
Definition score_to_imp (a b : Z) : Z := point_difference_to_imps (a + b).
