(* The constants of bridge_env/score.py as the model was written against them (the duplicate scoring table, Law 77, and the
   IMP scale).  Model/Score.v uses these; Gen/ScoreConsts.v is regenerated from the source on every run and
   Proofs/ScoreConstsPin.v proves, by reflexivity, that every regenerated constant equals the one below - so a changed number
   in score.py breaks a proof obligation of C07 / C16 / C08 without rebuilding the models that only use the scoring function. *)
From Coq Require Import List ZArith String.
From BE Require Import Model.CaseLib.
Import ListNotations.
Local Open Scope string_scope.

Local Open Scope Z_scope.
Definition k_minor : Z := 20.
Definition k_major : Z := 30.
Definition k_nt : Z := 10.
Definition k_make : Z := 50.
Definition k_make_x : Z := 50.
Definition k_make_xx : Z := 50.
Definition k_game : Z := 250.
Definition k_game_vul : Z := 450.
Definition k_small_slam : Z := 500.
Definition k_small_slam_vul : Z := 750.
Definition k_grand_slam : Z := 500.
Definition k_grand_slam_vul : Z := 750.
Definition k_overtrick_x : Z := 100.
Definition k_overtrick_x_vul : Z := 200.
Definition k_overtrick_xx : Z := 200.
Definition k_overtrick_xx_vul : Z := 400.
Definition k_down : list Z := [-50; -100; -150; -200; -250; -300; -350; -400; -450; -500; -550; -600; -650].
Definition k_down_vul : list Z := [-100; -200; -300; -400; -500; -600; -700; -800; -900; -1000; -1100; -1200; -1300].
Definition k_down_x : list Z := [-100; -300; -500; -800; -1100; -1400; -1700; -2000; -2300; -2600; -2900; -3200; -3500].
Definition k_down_x_vul : list Z := [-200; -500; -800; -1100; -1400; -1700; -2000; -2300; -2600; -2900; -3200; -3500; -3800].
Definition k_down_xx : list Z := [-200; -600; -1000; -1600; -2200; -2800; -3400; -4000; -4600; -5200; -5800; -6400; -7000].
Definition k_down_xx_vul : list Z := [-400; -1000; -1600; -2200; -2800; -3400; -4000; -4600; -5200; -5800; -6400; -7000; -7600].
Definition k_imps_list : list Z := [20; 50; 90; 130; 170; 220; 270; 320; 370; 430; 500; 600; 750; 900; 1100; 1300; 1500; 1750; 2000; 2250; 2500; 3000; 3500; 4000].
