(* Model of data_handler/pbn_handler: PbnParser (parse_stream / extract_content / parse_board /
   parse_board_settings / parse_all) and PbnWriter (write_line / write_tag_pair / write_board_result / write_header).
   No proofs here.  The file is a list of lines as delivered by iteration over the stream (terminators included).
   Comment syntax is outside the model: a line containing "; " or "{ " or "}" makes the model answer None
   (not modelled); the properties quantify over the PBN tag/section syntax only. *)
From BE Require Export Model.Basics Model.Strings Model.Hands.
Local Open Scope string_scope.
Local Open Scope nat_scope.
Local Open Scope list_scope.
Local Infix "+++" := String.append (right associativity, at level 60).

(* ---- lines of a text: str.splitlines(keepends=True) for "\n" terminators (a "\r" stays in the line) ---- *)
Fixpoint lines_aux (s : string) (cur : string) : list string :=
  match s with
  | EmptyString => match cur with EmptyString => [] | _ => [cur] end
  | String a r => if Ascii.eqb a LF then (cur +++ String a "") :: lines_aux r "" else lines_aux r (cur +++ String a "") end.
Definition lines (s : string) : list string := lines_aux s "".

(* REPLACE_PATTERN fullmatch: a non-empty line of blanks, tabs, CR, LF only *)
Definition pbn_ws (a : ascii) : bool := let n := nat_of_ascii a in (n =? 32) || (n =? 9) || (n =? 13) || (n =? 10).
Definition blank_line (l : string) : bool := negb (String.eqb l "") && sforall pbn_ws l.
Definition has_comment_syntax (l : string) : bool := contains "; " l || contains "{ " l || contains "}" l.

(* ---- TAG_PATTERN under findall: [ ws* Name ws+ "value" ws* ]  with Name = [A-Z][a-zA-Z]+ ---- *)
(* try to match a tag pair at the start of s (which begins just after "["): (name, value, rest) *)
Definition match_tag (s : string) : option (string * string * string) :=
  let s1 := drop_while pbn_ws s in
  let name := take_while is_alpha s1 in
  match name with
  | String a (String _ _) =>
      if is_upper a then
        let s2 := substring (String.length name) (String.length s1) s1 in
        let s3 := drop_while pbn_ws s2 in
        if String.length s3 <? String.length s2 then                (* at least one whitespace character *)
          match s3 with
          | String q s4 =>
              if Ascii.eqb q """" then
                let value := take_while (fun c => negb (Ascii.eqb c """")) s4 in
                let s5 := substring (String.length value) (String.length s4) s4 in
                match s5 with
                | String q2 s6 =>                                   (* the closing quote *)
                    let s7 := drop_while pbn_ws s6 in
                    match s7 with
                    | String b rest => if Ascii.eqb b "]" then Some (name, value, rest) else None
                    | EmptyString => None end
                | EmptyString => None end
              else None
          | EmptyString => None end
        else None
      else None
  | _ => None end.
Fixpoint find_tags (fuel : nat) (s : string) : list (string * string) :=
  match fuel with
  | 0 => []
  | S f =>
    match s with
    | EmptyString => []
    | String a r =>
        if Ascii.eqb a "[" then
          match match_tag r with
          | Some (n, v, rest) => (n, v) :: find_tags f rest
          | None => find_tags f r end
        else find_tags f r end end.
(* parse_board: first occurrence of a tag name wins; insertion order kept *)
Fixpoint first_wins (l : list (string * string)) (seen : list string) : list (string * string) :=
  match l with
  | [] => []
  | (n, v) :: r => if existsb (String.eqb n) seen then first_wins r seen else (n, v) :: first_wins r (n :: seen) end.
Definition parse_board (buffer : list string) : list (string * string) :=
  let s := sconcat buffer in first_wins (find_tags (S (String.length s)) s) [].

(* parse_stream: games are ended by blank lines; '%' lines are skipped; None = comment syntax met (not modelled) *)
Fixpoint parse_stream (ls : list string) (buffer : list string) : option (list (list (string * string))) :=
  match ls with
  | [] => Some (match buffer with [] => [] | _ => [parse_board buffer] end)
  | l :: r =>
      if blank_line l then
        match buffer with
        | [] => parse_stream r []
        | _ => option_map (cons (parse_board buffer)) (parse_stream r []) end
      else if starts_with "%" l then parse_stream r buffer
      else if has_comment_syntax l then None
      else parse_stream r (buffer ++ [l]) end.
Definition parse_all (text : string) : option (list (list (string * string))) := parse_stream (lines text) [].

Fixpoint tag_lookup (k : string) (g : list (string * string)) : option string :=
  match g with [] => None | (n, v) :: r => if String.eqb n k then Some v else tag_lookup k r end.
Record psetting := mkPS { ps_board_id : string; ps_dealer : seat; ps_deal : deal; ps_vul : vul }.
(* parse_board_settings on one game; None = raises (missing tag, bad deal, bad dealer, bad vulnerability) *)
Definition setting_of_game (g : list (string * string)) : option psetting :=
  match tag_lookup "Deal" g, tag_lookup "Dealer" g, tag_lookup "Vulnerable" g, tag_lookup "Board" g with
  | Some dl, Some d, Some v, Some b =>
      match convert_pbn dl, seat_of_str d, vul_of_str v with
      | Some dl', Some d', Some v' => Some (mkPS b d' dl' v')
      | _, _, _ => None end
  | _, _, _, _ => None end.
Fixpoint map_opt {A B} (f : A -> option B) (l : list A) : option (list B) :=
  match l with [] => Some [] | x :: r => match f x, map_opt f r with Some y, Some ys => Some (y :: ys) | _, _ => None end end.
(* outer None = not modelled; inner None = the parser raises *)
Definition parse_board_settings (text : string) : option (option (list psetting)) :=
  option_map (map_opt setting_of_game) (parse_all text).

(* ================= writer ================= *)
(* write_line: the text plus "\n", cut into pieces of at most 255 characters, each piece ending in "\n" *)
Fixpoint write_line_fuel (fuel : nat) (s : string) : list string :=
  match fuel with
  | 0 => [s]
  | S f => if 255 <? String.length s then (substring 0 254 s +++ String LF "") :: write_line_fuel f (substring 254 (String.length s) s)
           else [s] end.
Definition ends_with_lf (s : string) : bool := match str_rev s with String a _ => Ascii.eqb a LF | EmptyString => false end.
Definition write_line (s : string) : list string :=
  let s' := if ends_with_lf s then s else s +++ String LF "" in write_line_fuel (String.length s') s'.
Definition write_tag_pair (tag content : string) : list string := write_line ("[" +++ tag +++ " """ +++ content +++ """]").
Definition two_digits (n : nat) : string := (if n <? 10 then "0" else "") +++ string_of_nat n.
Definition four_digits (n : nat) : string :=
  (if n <? 10 then "000" else if n <? 100 then "00" else if n <? 1000 then "0" else "") +++ string_of_nat n.
Record pbn_result := mkResult {
  r_event : string; r_site : string; r_date : nat * nat * nat; r_board : nat; r_players : seat -> string;
  r_dealer : seat; r_deal : deal; r_scoring : string; r_contract : contract; r_taken : option nat }.
(* the fifteen mandatory tags with the written values *)
Definition tags15 (x : pbn_result) : option (list (string * string)) :=
  match to_pbn (r_deal x) (r_dealer x) with
  | None => None
  | Some dl =>
    let k := r_contract x in
    let '(y, m, d) := r_date x in
    Some [("Event", r_event x); ("Site", r_site x); ("Date", four_digits y +++ "." +++ two_digits m +++ "." +++ two_digits d);
          ("Board", string_of_nat (r_board x)); ("West", r_players x West); ("North", r_players x North);
          ("East", r_players x East); ("South", r_players x South); ("Dealer", seat_str (r_dealer x));
          ("Vulnerable", vul_pbn (cvul k)); ("Deal", dl); ("Scoring", r_scoring x);
          ("Declarer", if is_passed_out k then "" else match cdeclarer k with Some p => seat_str p | None => "None" end);
          ("Contract", if is_passed_out k then "Pass" else contract_str k);
          ("Result", if is_passed_out k then "" else match r_taken x with Some t => string_of_nat t | None => "None" end)] end.
(* write_board_result: the tag pairs, then the empty line that ends the game; None = an assertion fails *)
Definition write_board_result (x : pbn_result) : option (list string) :=
  if negb (0 <? r_board x) then None
  else if negb (Bool.eqb (is_passed_out (r_contract x)) (match r_taken x with None => true | Some _ => false end)) then None
  else match tags15 x with
       | None => None
       | Some ts => Some (flat_map (fun '(n, v) => write_tag_pair n v) ts ++ [String LF ""]) end.
Definition write_header : list string := write_line "% PBN 2.1" ++ write_line "% EXPORT".
Definition write_file (header : bool) (rs : list pbn_result) : option string :=
  option_map (fun ls => sconcat ((if header then write_header else []) ++ concat ls)) (map_opt write_board_result rs).
