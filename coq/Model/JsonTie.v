(* Correspondence for C12 / C17(JSON): Model/Json.v against recorded behaviour of the JSON writer and parser. *)
From BE Require Import Model.Json Model.Schema Model.CaseLib.
From Coq Require Import ZArith.
Local Open Scope string_scope.
Local Open Scope nat_scope.
Local Open Scope list_scope.

Fixpoint json_eqb (a b : json) : bool :=
  match a, b with
  | JNull, JNull => true
  | JBool x, JBool y => Bool.eqb x y
  | JNum x, JNum y => Z.eqb x y
  | JStr x, JStr y => String.eqb x y
  | JArr l, JArr m => (fix go (l m : list json) : bool :=
                         match l, m with [], [] => true | x :: l', y :: m' => json_eqb x y && go l' m' | _, _ => false end) l m
  | JObj l, JObj m => (fix go (l m : list (string * json)) : bool :=
                         match l, m with [], [] => true
                         | (k, x) :: l', (k', y) :: m' => String.eqb k k' && json_eqb x y && go l' m' | _, _ => false end) l m
  | _, _ => false end.
Fixpoint insert_sorted (x : nat) (l : list nat) : list nat :=
  match l with [] => [x] | y :: r => if x <=? y then x :: l else y :: insert_sorted x r end.
Definition sort_nat (l : list nat) : list nat := fold_right insert_sorted [] l.
Fixpoint nodup_nat (l : list nat) : list nat :=
  match l with [] => [] | x :: r => if existsb (Nat.eqb x) r then nodup_nat r else x :: nodup_nat r end.
Definition jn (n : nat) : json := JNum (Z.of_nat n).
Definition jopt {A} (f : A -> json) (o : option A) : json := match o with None => JNull | Some x => f x end.
Definition jhand (h : hand) : json := JArr (map jn (nodup_nat (sort_nat (map card_idx h)))).
Definition jdeal (d : deal) : json := JArr (map (fun p => jhand (d p)) all_seats).
Definition jdda (t : dda_table) : json :=
  JArr (map (fun '(p, row) => JArr [jn (seat_idx p); JArr (map (fun '(s, n) => JArr [jn (strain_val s - 1); JNum n]) row)]) t).
Definition status_code (k : contract) : nat := match cstatus k with Undoubled => 0 | Doubled => 1 | Redoubled => 2 end.
Definition jcontract (k : contract) : json :=
  JArr [jopt (fun '(l, s) => jn (call_idx (Bid l s))) (final_bid k); jn (status_code k); jn (vul_idx (cvul k)); jopt (fun d => jn (seat_idx d)) (cdeclarer k)].
(* the normal form printed by drivers/jsonlog.py log_norm / setting_norm *)
Definition norm_log (r : logrec) : json :=
  JObj [("board_id", JStr (l_board_id r)); ("hands", jdeal (l_deal r)); ("dealer", jn (seat_idx (l_dealer r)));
        ("vul", jn (vul_idx (cvul (l_contract r)))); ("declarer", jopt (fun d => jn (seat_idx d)) (cdeclarer (l_contract r)));
        ("contract", jcontract (l_contract r)); ("taken", jopt JNum (l_taken r));
        ("players", JArr (map (fun p => JArr [jn (seat_idx p); JStr (l_players r p)]) all_seats));
        ("bids", JArr (map (fun c => jn (call_idx c)) (l_bids r)));
        ("play", jopt (fun ts => JArr (map (fun '(ld, cs) => JArr [jn (seat_idx ld); JArr (map (fun c => jn (card_idx c)) cs)]) ts)) (l_play r));
        ("dda", jopt jdda (l_dda r)); ("score_type", JStr (l_scoring r));
        ("scores", JArr [JArr [jn 0; JNum (l_score_ns r)]; JArr [jn 1; JNum (l_score_ew r)]])].
Definition norm_setting (s : setting) : json :=
  JObj [("board_id", JStr (s_board_id s)); ("hands", jdeal (s_deal s)); ("dealer", jn (seat_idx (s_dealer s)));
        ("vul", jn (vul_idx (s_vul s))); ("dda", jopt jdda (s_dda s))].
Definition dfn (dl : list (list nat)) : deal := fun p => map cn (nth (seat_idx p) dl []).
Definition pfn (l : list string) : seat -> string := fun p => nth (seat_idx p) l "".

(* one log case: the records written, the document json.loads returned, what parse_board_logs / parse_board_settings returned (normal forms) *)
Definition t12_case (fr : framing) (k : list logrec * option json * option (list json) * option (list json)) : nat :=
  let '(rs, doc, logs, sts) := k in
  let mdoc := match written_tokens fr "logs" (map record_json rs) with Some ts => parse_doc ts | None => None end in
  (if opt_eqb json_eqb doc mdoc then 0 else 1) +
  (if opt_eqb (list_eqb json_eqb) logs (match mdoc with Some d => option_map (map norm_log) (parse_board_logs d) | None => None end) then 0 else 2) +
  (if opt_eqb (list_eqb json_eqb) sts (match mdoc with Some d => option_map (map norm_setting) (parse_board_settings d) | None => None end) then 0 else 4).
Definition t17_case (fr : framing) (k : list setting * option json * option (list json)) : nat :=
  let '(ss, doc, sts) := k in
  let mdoc := match written_tokens fr "board_settings" (map setting_json ss) with Some ts => parse_doc ts | None => None end in
  (if opt_eqb json_eqb doc mdoc then 0 else 1) +
  (if opt_eqb (list_eqb json_eqb) sts (match mdoc with Some d => option_map (map norm_setting) (parse_board_settings d) | None => None end) then 0 else 4).
(* schema validity of the real document, by the model of validation on the generated schema *)
Definition t12_schema (sc : schema) (doc : option json) : bool := match doc with Some d => validates sc d | None => false end.
