(* Model of bridge_env/bidding_phase.py (BiddingPhase).  No proofs here.
   The history is kept newest-first (rhist); [hist] is the public, chronological view. *)
From BE Require Export Model.Basics.
Local Open Scope nat_scope.

Inductive outcome := Raises | Illegal | Ongoing | Finished.
Scheme Equality for outcome.

Record astate := mkA {
  dealer : seat;  avul : vul;
  active : option seat;                       (* __active_player ; None = has_done() *)
  last_bidder : option seat;                  (* __last_bidder *)
  last_bid : option (level * strain);         (* __last_bid *)
  called_x : bool;  called_xx : bool;
  rhist : list call;                          (* __bid_history, newest first *)
  rphist : seat -> list call;                 (* __players_bid_history, newest first *)
  decl_tab : side -> strain -> option seat;   (* __declarer_check *)
  avail : list bool                           (* __available_bid, 38 slots *)
}.

Definition hist (s : astate) : list call := rev (rhist s).
Definition phist (s : astate) (p : seat) : list call := rev (rphist s p).
Definition has_done (s : astate) : bool := match active s with None => true | Some _ => false end.

Definition init (d : seat) (v : vul) : astate :=
  mkA d v (Some d) None None false false [] (fun _ => []) (fun _ _ => None)
      (repeat true 36 ++ [false; false]).          (* np.ones(38); [-2:] = 0 *)

Fixpoint zero_prefix (n : nat) (v : list bool) : list bool :=   (* v[:n] = 0 *)
  match n, v with
  | S n', _ :: r => false :: zero_prefix n' r
  | _, _ => v end.
Fixpoint set_nth (i : nat) (b : bool) (v : list bool) : list bool :=
  match i, v with
  | 0, _ :: r => b :: r
  | S i', x :: r => x :: set_nth i' b r
  | _, [] => [] end.

Definition push_call (s : astate) (p : seat) (c : call) (act : option seat) : astate :=
  mkA (dealer s) (avul s) act (last_bidder s) (last_bid s) (called_x s) (called_xx s)
      (c :: rhist s) (fun q => if seat_beq q p then c :: rphist s q else rphist s q) (decl_tab s) (avail s).

Definition take_bid (s : astate) (c : call) : astate * outcome :=
  match active s with
  | None => (s, Raises)                                         (* 'Bidding phase has already ended.' *)
  | Some p =>
    if negb (nth (call_idx c) (avail s) false) then (s, Illegal)
    else
      let finishing :=
        match c with
        | Pass => (3 <=? length (rhist s)) &&
                  match rhist s with Pass :: Pass :: _ => true | _ => false end
        | _ => false end in
      if finishing then (push_call s p c None, Finished)
      else
        let s1 :=
          match c with
          | Pass => s
          | Dbl => mkA (dealer s) (avul s) (active s) (last_bidder s) (last_bid s) true (called_xx s)
                       (rhist s) (rphist s) (decl_tab s) (avail s)
          | Rdbl => mkA (dealer s) (avul s) (active s) (last_bidder s) (last_bid s) (called_x s) true
                        (rhist s) (rphist s) (decl_tab s) (avail s)
          | Bid l st =>
              let tab := decl_tab s in
              let tab' := match tab (side_of p) st with
                          | None => fun sd st' => if side_beq sd (side_of p) && strain_beq st' st then Some p else tab sd st'
                          | Some _ => tab end in
              mkA (dealer s) (avul s) (active s) (Some p) (Some (l, st)) false false
                  (rhist s) (rphist s) tab' (zero_prefix (call_idx c + 1) (avail s))
          end in
        let s2 := push_call s1 p c (Some (next p)) in
        let s3 :=
          match last_bidder s2 with
          | None => s2
          | Some lb =>
              let np := next p in
              let okx := negb (called_x s2) && negb (called_xx s2) && negb (same_side np lb) in
              let okxx := called_x s2 && negb (called_xx s2) && same_side np lb in
              mkA (dealer s2) (avul s2) (active s2) (last_bidder s2) (last_bid s2) (called_x s2) (called_xx s2)
                  (rhist s2) (rphist s2) (decl_tab s2) (set_nth 37 okxx (set_nth 36 okx (avail s2)))
          end in
        (s3, Ongoing)
  end.

(* BiddingPhase.contract(); the outer option is "None is returned" *)
Definition contract_of (s : astate) : option contract :=
  match active s with
  | Some _ => None
  | None =>
      match last_bid s, last_bidder s with
      | None, _ => Some (mkcontract None false false (avul s) None)
      | Some (l, st), Some lb =>
          Some (mkcontract (Some (l, st)) (called_x s) (called_xx s) (avul s) (decl_tab s (side_of lb) st))
      | Some _, None => None               (* assert self.__last_bidder is not None *)
      end
  end.

(* the state after offering a list of calls, legal or not (a refused call changes nothing) *)
Definition offer (s : astate) (c : call) : astate := fst (take_bid s c).
Definition reach (d : seat) (v : vul) (offers : list call) : astate := fold_left offer offers (init d v).
