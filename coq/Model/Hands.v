(* Model of bridge_env/hands.py (to_pbn, convert_pbn, to_binary, convert_binary, generate_random_hands)
   and of the JSON deal encoding (writer.convert_deal, parser.hands_parser).  No proofs here.
   A hand is a list of cards read as a set. *)
From BE Require Export Model.Basics.
Local Open Scope string_scope.
Local Open Scope nat_scope.

Definition hand := list card.
Definition deal := seat -> hand.
Definition has_card (h : hand) (c : card) : bool := existsb (card_beq c) h.
Definition ranks_desc : list rank := rev all_ranks.                 (* A K Q J T 9 ... 2 *)
Definition suits_pbn : list suit := [Sp; He; Di; Cl].

Fixpoint join (sep : string) (l : list string) : string :=
  match l with [] => "" | [x] => x | x :: r => x ++ sep ++ join sep r end.
(* ranks of one suit, high to low: sorted(hand, reverse=True) filtered by suit *)
Definition suit_field (h : hand) (su : suit) : string :=
  join "" (map rank_str (filter (fun r => has_card h (mkcard r su)) ranks_desc)).
(* Hands._convert_hand_to_pbn ; None = the assertion len(hand) == 13 fails *)
Definition hand_to_pbn (h : hand) : option string :=
  match h with
  | [] => Some "-"
  | _ => if length h =? 13 then Some (join "." (map (suit_field h) suits_pbn)) else None end.
(* Hands.to_pbn(dealer) *)
Definition to_pbn (d : deal) (first : seat) : option string :=
  match hand_to_pbn (d first), hand_to_pbn (d (next first)), hand_to_pbn (d (next (next first))), hand_to_pbn (d (next (next (next first)))) with
  | Some a, Some b, Some c, Some e => Some (seat_str first ++ ":" ++ a ++ " " ++ b ++ " " ++ c ++ " " ++ e)
  | _, _, _, _ => None end.

(* ---- convert_pbn ---- *)
Definition is_rank_char (a : ascii) : bool := match rank_of_ascii a with Some _ => true | None => false end.
Definition in_hand_class (a : ascii) : bool := is_rank_char a || Ascii.eqb a "."%char.     (* [2-9TJQKA\.] *)
Fixpoint take_n (n : nat) (s : string) : option (string * string) :=
  match n with
  | 0 => Some ("", s)
  | S n' => match s with
            | EmptyString => None
            | String a r => match take_n n' r with Some (x, y) => Some (String a x, y) | None => None end end end.
Fixpoint str_forall (f : ascii -> bool) (s : string) : bool :=
  match s with EmptyString => true | String a r => f a && str_forall f r end.
(* one hand field of DEAL_PATTERN:  [2-9TJQKA\.]{16} | -  *)
Definition take_hand_field (s : string) : option (string * string) :=
  match take_n 16 s with
  | Some (f, r) => if str_forall in_hand_class f then Some (f, r)
                   else match s with String "-"%char r' => Some ("-", r') | _ => None end
  | None => match s with String "-"%char r' => Some ("-", r') | _ => None end end.
Definition expect (a : ascii) (s : string) : option string :=
  match s with String b r => if Ascii.eqb a b then Some r else None | EmptyString => None end.
(* split at every occurrence of a character *)
Fixpoint split_on (a : ascii) (s : string) : list string :=
  match s with
  | EmptyString => [""]
  | String b r => if Ascii.eqb a b then "" :: split_on a r
                  else match split_on a r with x :: xs => String b x :: xs | [] => [String b ""] end end.
Fixpoint ranks_of (s : string) : option (list rank) :=
  match s with
  | EmptyString => Some []
  | String a r => match rank_of_ascii a, ranks_of r with Some x, Some xs => Some (x :: xs) | _, _ => None end end.
(* Hands._hand_parser on a field accepted by DEAL_PATTERN.  Modelled for fields with exactly three dots
   (what to_pbn writes); for other 16-character fields the regex backtracks through its '.' wildcards and
   the model answers None (not modelled). *)
Definition hand_parser (f : string) : option hand :=
  if String.eqb f "-" then Some []
  else match split_on "."%char f with
       | [s; h; d; c] =>
           match ranks_of s, ranks_of h, ranks_of d, ranks_of c with
           | Some rs, Some rh, Some rd, Some rc =>
               Some (map (fun r => mkcard r Sp) rs ++ map (fun r => mkcard r He) rh ++
                     map (fun r => mkcard r Di) rd ++ map (fun r => mkcard r Cl) rc)%list
           | _, _, _, _ => None end
       | _ => None end.
(* Hands.convert_pbn: re.match(DEAL_PATTERN) is a prefix match; text after the fourth hand is ignored *)
Definition convert_pbn (s : string) : option deal :=
  match s with
  | String a r0 =>
    match seat_of_str (String a ""), expect ":"%char r0 with
    | Some first, Some r1 =>
      match take_hand_field r1 with | Some (f1, r2) =>
      match expect " "%char r2 with | Some r3 =>
      match take_hand_field r3 with | Some (f2, r4) =>
      match expect " "%char r4 with | Some r5 =>
      match take_hand_field r5 with | Some (f3, r6) =>
      match expect " "%char r6 with | Some r7 =>
      match take_hand_field r7 with | Some (f4, _) =>
        match hand_parser f1, hand_parser f2, hand_parser f3, hand_parser f4 with
        | Some h1, Some h2, Some h3, Some h4 =>
            Some (fun p => if seat_beq p first then h1 else if seat_beq p (next first) then h2
                           else if seat_beq p (next (next first)) then h3 else h4)
        | _, _, _, _ => None end
      | None => None end | None => None end | None => None end | None => None end | None => None end
      | None => None end | None => None end
    | _, _ => None end
  | EmptyString => None end.

(* ---- binary vectors ---- *)
Definition to_binary (h : hand) : list nat := map (fun c => if has_card h c then 1 else 0) all_cards.
(* convert_binary: slot i goes to the first of N, E, S, W whose vector has a 1 there *)
Definition convert_binary (vn ve vs vw : list nat) : deal :=
  let pick (me : list nat) (before : list (list nat)) :=
    map snd (filter (fun ic => (nth (fst ic) me 0 =? 1) && forallb (fun v => negb (nth (fst ic) v 0 =? 1)) before)
                    (combine (seq 0 52) all_cards)) in
  fun p => match p with
           | North => pick vn [] | East => pick ve [vn] | South => pick vs [vn; ve] | West => pick vw [vn; ve; vs] end.

(* ---- JSON deal: sorted(hand) as card texts; parsed back with str_to_card ---- *)
Definition sorted_hand (h : hand) : list card := filter (has_card h) all_cards.      (* ascending card index *)
Definition deal_to_json (h : hand) : list string := map card_str (sorted_hand h).
Fixpoint json_to_hand (l : list string) : option hand :=
  match l with
  | [] => Some []
  | s :: r => match card_of_str s, json_to_hand r with Some c, Some cs => Some (c :: cs) | _, _ => None end end.

(* ---- the random dealer: the pack in the code's order, shuffled, cut into four ---- *)
Definition pack_order : list card := flat_map (fun r => map (fun s => mkcard r s) all_suits) all_ranks.
Definition deal_of_shuffle (l : list card) : deal :=
  fun p => match p with
           | North => firstn 13 l | East => firstn 13 (skipn 13 l)
           | South => firstn 13 (skipn 26 l) | West => firstn 13 (skipn 39 l) end.
