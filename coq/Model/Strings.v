(* String helpers shared by the wire / PBN / JSON models.  Strings are byte strings. No proofs here. *)
From Coq Require Export String Ascii Arith Bool List.
Export ListNotations.
Local Open Scope string_scope.
Local Open Scope nat_scope.

Definition is_upper (a : ascii) : bool := let n := nat_of_ascii a in (65 <=? n) && (n <=? 90).
Definition is_lower (a : ascii) : bool := let n := nat_of_ascii a in (97 <=? n) && (n <=? 122).
Definition is_digit (a : ascii) : bool := let n := nat_of_ascii a in (48 <=? n) && (n <=? 57).
Definition is_alpha (a : ascii) : bool := is_upper a || is_lower a.
(* \s for ASCII text: space \t \n \v \f \r  (and FS GS RS US, which Python's str \s also matches) *)
Definition is_ws (a : ascii) : bool := let n := nat_of_ascii a in ((9 <=? n) && (n <=? 13)) || (n =? 32) || ((28 <=? n) && (n <=? 31)).
Definition lower_ascii (a : ascii) : ascii := if is_upper a then ascii_of_nat (nat_of_ascii a + 32) else a.
Definition upper_ascii (a : ascii) : ascii := if is_lower a then ascii_of_nat (nat_of_ascii a - 32) else a.
Fixpoint smap (f : ascii -> ascii) (s : string) : string :=
  match s with EmptyString => EmptyString | String a r => String (f a) (smap f r) end.
Definition lower (s : string) : string := smap lower_ascii s.
Definition upper (s : string) : string := smap upper_ascii s.
Definition ieqb (a b : string) : bool := String.eqb (lower a) (lower b).      (* ASCII case-insensitive equality *)

Fixpoint strip_prefix (p s : string) : option string :=        (* s = p ++ r  ->  Some r *)
  match p, s with
  | EmptyString, _ => Some s
  | String a p', String b s' => if Ascii.eqb a b then strip_prefix p' s' else None
  | _, EmptyString => None end.
Definition starts_with (p s : string) : bool := match strip_prefix p s with Some _ => true | None => false end.
(* first occurrence of pat in s: (before, after) *)
Fixpoint find_first (pat s : string) : option (string * string) :=
  match strip_prefix pat s with
  | Some r => Some ("", r)
  | None => match s with
            | EmptyString => None
            | String a s' => match find_first pat s' with Some (x, y) => Some (String a x, y) | None => None end end end.
(* last occurrence *)
Fixpoint find_last (pat s : string) : option (string * string) :=
  match s with
  | EmptyString => match strip_prefix pat s with Some r => Some ("", r) | None => None end
  | String a s' => match find_last pat s' with
                   | Some (x, y) => Some (String a x, y)
                   | None => match strip_prefix pat s with Some r => Some ("", r) | None => None end end end.
Definition contains (pat s : string) : bool := match find_first pat s with Some _ => true | None => false end.
Fixpoint drop_while (f : ascii -> bool) (s : string) : string :=
  match s with String a r => if f a then drop_while f r else s | EmptyString => EmptyString end.
Fixpoint take_while (f : ascii -> bool) (s : string) : string :=
  match s with String a r => if f a then String a (take_while f r) else EmptyString | EmptyString => EmptyString end.
Fixpoint sforall (f : ascii -> bool) (s : string) : bool :=
  match s with EmptyString => true | String a r => f a && sforall f r end.
Fixpoint sexists (f : ascii -> bool) (s : string) : bool :=
  match s with EmptyString => false | String a r => f a || sexists f r end.
Fixpoint chars (s : string) : list ascii := match s with EmptyString => [] | String a r => a :: chars r end.
Fixpoint of_chars (l : list ascii) : string := match l with [] => EmptyString | a :: r => String a (of_chars r) end.
Fixpoint sconcat (l : list string) : string := match l with [] => "" | x :: r => x ++ sconcat r end.
Fixpoint sjoin (sep : string) (l : list string) : string :=
  match l with [] => "" | [x] => x | x :: r => x ++ sep ++ sjoin sep r end.
Fixpoint split_char (a : ascii) (s : string) : list string :=          (* str.split(a) *)
  match s with
  | EmptyString => [""]
  | String b r => if Ascii.eqb a b then "" :: split_char a r
                  else match split_char a r with x :: xs => String b x :: xs | [] => [String b ""] end end.
(* words separated by runs of whitespace; None if the text starts or ends with whitespace or is empty *)
Fixpoint words_aux (s : string) (cur : string) (in_ws : bool) : list string :=
  match s with
  | EmptyString => [cur]
  | String a r => if is_ws a then (if in_ws then words_aux r cur true else cur :: words_aux r "" true)
                  else words_aux r (cur ++ String a "") false end.
Definition words (s : string) : list string := words_aux s "" false.
Definition nat_of_digits (s : string) : nat :=
  fold_left (fun acc a => 10 * acc + (nat_of_ascii a - 48)) (chars s) 0.
Fixpoint digits_fuel (fuel n : nat) (acc : string) : string :=
  match fuel with
  | 0 => acc
  | S f => let acc' := String (ascii_of_nat (48 + n mod 10)) acc in
           if n / 10 =? 0 then acc' else digits_fuel f (n / 10) acc' end.
Definition string_of_nat (n : nat) : string := digits_fuel (S n) n "".       (* str(n) *)
Definition CR : ascii := ascii_of_nat 13.
Definition LF : ascii := ascii_of_nat 10.
