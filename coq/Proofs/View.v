(* Facts about the sequential reference view_board / view_spec of Spec/SessionSpec.v (property C10):
   what the reference says a seat is sent really is what C10 describes.
   Part 1: helpers.  Part 2: decomposition of view_board.  Part 3: origin of every line.
   Part 4: the theorems of notes/tasks/view_statements.txt (as given or with suffix _fixed) and cleaner companions. *)
From BE Require Import Spec.SessionSpec Model.Wire.
From Coq Require Import Lia.
Local Open Scope string_scope.
Local Open Scope nat_scope.
Local Open Scope list_scope.

Definition is_cards_line (who : string) (l : string) : Prop := exists h, l = cards_line who h.
Definition names_cards (l : string) : Prop := exists who h, l = cards_line who h.
Definition plain_messages (o : outcome) : Prop :=
  (forall who m c, In (who, m, c) (oc_calls o) -> ~ names_cards (relay_text m who)) /\
  (forall a who m c, In (a, who, m, c) (oc_plays o) -> ~ names_cards m).
Definition count_occ_str (x : string) (l : list string) : nat := length (filter (String.eqb x) l).

(* ================= Part 1: helpers ================= *)
Lemma seat_beq_eq : forall a b, seat_beq a b = true <-> a = b.
Proof. destruct a, b; simpl; split; intro H; try reflexivity; discriminate. Qed.
Lemma seat_beq_refl : forall a, seat_beq a a = true.
Proof. destruct a; reflexivity. Qed.
Lemma seat_beq_neq : forall a b, seat_beq a b = false <-> a <> b.
Proof. destruct a, b; simpl; split; intro H; try reflexivity; try discriminate; try (exfalso; apply H; reflexivity). Qed.

(* a line that names cards contains an apostrophe *)
Fixpoint has_apos (s : string) : bool :=
  match s with EmptyString => false | String a r => Ascii.eqb a "'"%char || has_apos r end.
Lemma has_apos_app : forall a b, has_apos (a ++ b)%string = has_apos a || has_apos b.
Proof. induction a; intro b; simpl; [reflexivity|]. rewrite IHa. apply orb_assoc. Qed.
Lemma names_cards_apos : forall l, names_cards l -> has_apos l = true.
Proof.
  intros l (who & h & ->). unfold cards_line. rewrite has_apos_app, has_apos_app.
  replace (has_apos "'s cards : ") with true by reflexivity. simpl. apply orb_true_r.
Qed.
Lemma no_apos_not_names : forall l, has_apos l = false -> ~ names_cards l.
Proof. intros l H Hn. apply names_cards_apos in Hn. rewrite Hn in H. discriminate. Qed.
Lemma digit_not_apos : forall k, k < 10 -> Ascii.eqb (ascii_of_nat (48 + k)) "'"%char = false.
Proof. intros k H. do 10 (destruct k as [|k]; [reflexivity|]). lia. Qed.
Lemma has_apos_digits : forall fuel n acc, has_apos acc = false -> has_apos (digits_fuel fuel n acc) = false.
Proof.
  induction fuel; intros n acc H; cbn [digits_fuel]; [exact H|].
  assert (H' : has_apos (String (ascii_of_nat (48 + n mod 10)) acc) = false).
  { cbn [has_apos]. rewrite digit_not_apos, H; [reflexivity|]. apply Nat.mod_upper_bound. discriminate. }
  cbv zeta. destruct (n / 10 =? 0); [exact H'|]. apply IHfuel. exact H'.
Qed.
Lemma header_no_apos : forall n d v, has_apos (board_header n d v) = false.
Proof.
  intros. unfold board_header. rewrite !has_apos_app. unfold string_of_nat.
  rewrite has_apos_digits by reflexivity. destruct d, v; reflexivity.
Qed.
Lemma lead_no_apos : forall p, has_apos (formal_name p ++ " to lead")%string = false.
Proof. destruct p; reflexivity. Qed.

(* the last character *)
Fixpoint last_is (c : ascii) (s : string) : bool :=
  match s with
  | EmptyString => false
  | String a r => match r with EmptyString => Ascii.eqb a c | _ => last_is c r end end.
Lemma last_is_app : forall c a b, b <> EmptyString -> last_is c (a ++ b)%string = last_is c b.
Proof.
  induction a; intros b Hb; [reflexivity|].
  change (String a a0 ++ b)%string with (String a (a0 ++ b)%string). cbn [last_is].
  destruct (a0 ++ b)%string eqn:E.
  - destruct a0; simpl in E; [contradiction|discriminate].
  - rewrite <- E. apply IHa. exact Hb.
Qed.
Lemma last_true_ne : forall c b, last_is c b = true -> b <> EmptyString.
Proof. intros c b H E. subst. discriminate. Qed.
Lemma last_is_app_true : forall c a b, last_is c b = true -> last_is c (a ++ b)%string = true.
Proof. intros c a b H. rewrite last_is_app; [exact H|]. eapply last_true_ne; eauto. Qed.
Lemma cards_line_ends_dot : forall who h, last_is "."%char (cards_line who h) = true.
Proof.
  intros. unfold cards_line, hand_to_str. do 10 apply last_is_app_true. reflexivity.
Qed.
Lemma names_cards_ends_dot : forall l, names_cards l -> last_is "."%char l = true.
Proof. intros l (who & h & ->). apply cards_line_ends_dot. Qed.

(* counting *)
Lemma count_app : forall x l1 l2, count_occ_str x (l1 ++ l2) = count_occ_str x l1 + count_occ_str x l2.
Proof. intros. unfold count_occ_str. rewrite filter_app, app_length. reflexivity. Qed.
Lemma count_notin : forall x l, ~ In x l -> count_occ_str x l = 0.
Proof.
  intros x l. unfold count_occ_str. induction l as [|a l IH]; intro H; [reflexivity|]. simpl.
  destruct (String.eqb x a) eqn:E.
  - apply String.eqb_eq in E. subst. exfalso. apply H. left. reflexivity.
  - apply IH. intro Hin. apply H. right. exact Hin.
Qed.
Lemma count_single : forall x, count_occ_str x [x] = 1.
Proof. intro x. unfold count_occ_str. simpl. rewrite String.eqb_refl. reflexivity. Qed.

(* ================= Part 2: decomposition of view_board ================= *)
Definition auction_part (o : outcome) (p : seat) : list string :=
  flat_map (fun '(who, m, _) => if seat_beq who p then [] else [relay_text m who]) (oc_calls o).
(* the prompt before card number i (active seat a) *)
Definition lead_prompt (decl p : seat) (i : nat) (a : seat) : list string :=
  if i mod 4 =? 0 then
    (if seat_beq a p && negb (seat_beq p (partner decl)) then [(formal_name p ++ " to lead")%string]
     else if seat_beq a (partner decl) && seat_beq p decl then ["Dummy to lead"] else [])
  else [].
Definition card_relay (p who : seat) (m : string) : list string := if seat_beq who p then [] else [m].
Definition dummy_show (b : sboard) (decl p : seat) (i : nat) : list string :=
  if (i =? 0) && negb (seat_beq p (partner decl)) then [cards_line "Dummy" (sb_deal b (partner decl))] else [].
Definition play_item (b : sboard) (decl p : seat) (x : nat * (seat * seat * string * card)) : list string :=
  let '(i, (a, who, m, _)) := x in lead_prompt decl p i a ++ card_relay p who m ++ dummy_show b decl p i.
Definition later_item (decl p : seat) (x : nat * (seat * seat * string * card)) : list string :=
  let '(i, (a, who, m, _)) := x in lead_prompt decl p i a ++ card_relay p who m.
Definition play_part (b : sboard) (o : outcome) (p : seat) : list string :=
  match cdeclarer (oc_contract o) with
  | None => []
  | Some decl => flat_map (play_item b decl p) (combine (seq 0 (length (oc_plays o))) (oc_plays o)) end.
Definition board_prefix (number : nat) (b : sboard) (p : seat) : list string :=
  ["Start of board"; board_header number (sb_dealer b) (sb_vul b); cards_line (formal_name p) (sb_deal b p)].

Theorem view_board_decomp : forall number b o p,
  view_board number b o p = board_prefix number b p ++ auction_part o p ++ play_part b o p.
Proof. reflexivity. Qed.

Lemma play_part_nil : forall b o p, oc_plays o = [] -> play_part b o p = [].
Proof. intros b o p H. unfold play_part. rewrite H. destruct (cdeclarer (oc_contract o)); reflexivity. Qed.
Lemma play_part_cons : forall b o p decl a who m c rest,
  cdeclarer (oc_contract o) = Some decl -> oc_plays o = (a, who, m, c) :: rest ->
  play_part b o p = lead_prompt decl p 0 a ++ card_relay p who m ++ dummy_show b decl p 0 ++
                    flat_map (play_item b decl p) (combine (seq 1 (length rest)) rest).
Proof.
  intros b o p decl a who m c rest Hd Hp. unfold play_part. rewrite Hd, Hp.
  cbn [length seq combine flat_map play_item]. rewrite <- !app_assoc. reflexivity.
Qed.
Lemma later_no_dummy : forall b decl p l s, 1 <= s ->
  flat_map (play_item b decl p) (combine (seq s (length l)) l) = flat_map (later_item decl p) (combine (seq s (length l)) l).
Proof.
  intros b decl p. induction l as [|[[[a who] m] c] l IH]; intros s Hs; [reflexivity|].
  cbn [length seq combine flat_map play_item later_item].
  rewrite IH by lia. f_equal. unfold dummy_show. destruct s; [lia|]. simpl. rewrite app_nil_r. reflexivity.
Qed.

(* the calls part in closed form: the calls of the other seats, in order *)
Theorem auction_part_closed : forall o p,
  auction_part o p = map (fun '(who, m, _) => relay_text m who) (filter (fun '(who, _, _) => negb (seat_beq who p)) (oc_calls o)).
Proof.
  intros o p. unfold auction_part. induction (oc_calls o) as [|[[who m] c] l IH]; [reflexivity|].
  cbn [flat_map filter]. destruct (seat_beq who p); simpl; rewrite IH; reflexivity.
Qed.

(* ================= Part 3: where every line of view_board comes from ================= *)
Inductive line_origin (number : nat) (b : sboard) (o : outcome) (p : seat) (l : string) : Prop :=
| O_start : l = "Start of board" -> line_origin number b o p l
| O_header : l = board_header number (sb_dealer b) (sb_vul b) -> line_origin number b o p l
| O_own : l = cards_line (formal_name p) (sb_deal b p) -> line_origin number b o p l
| O_call : forall who m c, In (who, m, c) (oc_calls o) -> who <> p -> l = relay_text m who -> line_origin number b o p l
| O_lead : forall decl who m c, cdeclarer (oc_contract o) = Some decl -> p <> partner decl ->
    In (p, who, m, c) (oc_plays o) -> l = (formal_name p ++ " to lead")%string -> line_origin number b o p l
| O_dummy_lead : forall decl who m c, cdeclarer (oc_contract o) = Some decl -> p = decl ->
    In (partner decl, who, m, c) (oc_plays o) -> l = "Dummy to lead" -> line_origin number b o p l
| O_card : forall decl a who m c, cdeclarer (oc_contract o) = Some decl ->
    In (a, who, m, c) (oc_plays o) -> who <> p -> l = m -> line_origin number b o p l
| O_dummy : forall decl, cdeclarer (oc_contract o) = Some decl -> p <> partner decl -> oc_plays o <> [] ->
    l = cards_line "Dummy" (sb_deal b (partner decl)) -> line_origin number b o p l.

Lemma in_lead_prompt : forall decl p i a l, In l (lead_prompt decl p i a) ->
  (a = p /\ p <> partner decl /\ l = (formal_name p ++ " to lead")%string) \/
  (a = partner decl /\ p = decl /\ l = "Dummy to lead").
Proof.
  intros decl p i a l H. unfold lead_prompt in H. destruct (i mod 4 =? 0); [|destruct H].
  destruct (seat_beq a p && negb (seat_beq p (partner decl))) eqn:E1.
  - destruct H as [<-|[]]. apply andb_prop in E1. destruct E1 as [E1 E2]. left.
    apply seat_beq_eq in E1. apply negb_true_iff in E2. apply seat_beq_neq in E2. auto.
  - destruct (seat_beq a (partner decl) && seat_beq p decl) eqn:E2; [|destruct H].
    destruct H as [<-|[]]. apply andb_prop in E2. destruct E2 as [E2 E3]. right.
    apply seat_beq_eq in E2. apply seat_beq_eq in E3. auto.
Qed.
Lemma lead_prompt_no_apos : forall decl p i a l, In l (lead_prompt decl p i a) -> has_apos l = false.
Proof.
  intros decl p i a l H. apply in_lead_prompt in H. destruct H as [(_ & _ & ->)|(_ & _ & ->)]; [apply lead_no_apos|reflexivity].
Qed.
Lemma in_card_relay : forall p who m l, In l (card_relay p who m) -> who <> p /\ l = m.
Proof.
  intros p who m l H. unfold card_relay in H. destruct (seat_beq who p) eqn:E; [destruct H|].
  destruct H as [<-|[]]. apply seat_beq_neq in E. auto.
Qed.
Lemma in_dummy_show : forall b decl p i l, In l (dummy_show b decl p i) ->
  i = 0 /\ p <> partner decl /\ l = cards_line "Dummy" (sb_deal b (partner decl)).
Proof.
  intros b decl p i l H. unfold dummy_show in H. destruct ((i =? 0) && negb (seat_beq p (partner decl))) eqn:E; [|destruct H].
  destruct H as [<-|[]]. apply andb_prop in E. destruct E as [E1 E2].
  apply Nat.eqb_eq in E1. apply negb_true_iff in E2. apply seat_beq_neq in E2. auto.
Qed.

Theorem view_board_origin : forall number b o p l, In l (view_board number b o p) -> line_origin number b o p l.
Proof.
  intros number b o p l H. rewrite view_board_decomp in H. apply in_app_or in H. destruct H as [H|H].
  - destruct H as [H|[H|[H|[]]]]; subst l; [apply O_start|apply O_header|apply O_own]; reflexivity.
  - apply in_app_or in H. destruct H as [H|H].
    + unfold auction_part in H. apply in_flat_map in H. destruct H as ([[who m] c] & Hin & Hl).
      destruct (seat_beq who p) eqn:E; [destruct Hl|]. destruct Hl as [<-|[]].
      eapply O_call; eauto. apply seat_beq_neq. exact E.
    + unfold play_part in H. destruct (cdeclarer (oc_contract o)) as [decl|] eqn:Ed; [|destruct H].
      apply in_flat_map in H. destruct H as ([i [[[a who] m] c]] & Hin & Hl). apply in_combine_r in Hin.
      assert (Hne : oc_plays o <> []) by (intro E; rewrite E in Hin; destruct Hin).
      unfold play_item in Hl. apply in_app_or in Hl. destruct Hl as [Hl|Hl].
      * apply in_lead_prompt in Hl. destruct Hl as [(-> & Hp & ->)|(-> & Hp & ->)].
        -- eapply O_lead; eauto.
        -- eapply O_dummy_lead; eauto.
      * apply in_app_or in Hl. destruct Hl as [Hl|Hl].
        -- apply in_card_relay in Hl. destruct Hl as [Hw ->]. eapply O_card; eauto.
        -- apply in_dummy_show in Hl. destruct Hl as (_ & Hp & ->). eapply O_dummy; eauto.
Qed.

(* ================= Part 4: the theorems ================= *)
(* ---- 1. lines that name cards ---- *)
(* The statement view_board_cards_lines of the task file has no hypothesis on the texts sent by the clients and is false:
   a relayed text may itself look like a cards line.  Refutation below, then the nearest true statement. *)
Definition cx_board : sboard := mkSB "1" North VNone (fun _ => []) None.
Definition cx_text : string := "Zed's cards : S -. H -. D -. C -.".
Definition cx_outcome : outcome := mkOut [(North, cx_text, Pass)] (mkcontract None false false VNone None) [] None.
Theorem view_board_cards_lines_counterexample :
  ~ (forall number b o p l,
       In l (view_board number b o p) -> names_cards l ->
       l = cards_line (formal_name p) (sb_deal b p) \/
       (exists decl, cdeclarer (oc_contract o) = Some decl /\ p <> partner decl /\ l = cards_line "Dummy" (sb_deal b (partner decl)))).
Proof.
  intro H. specialize (H 1 cx_board cx_outcome East cx_text).
  destruct H as [H|(decl & Hd & _)].
  - vm_compute. right. right. right. left. reflexivity.
  - exists "Zed", []. reflexivity.
  - vm_compute in H. discriminate H.
  - simpl in Hd. discriminate Hd.
Qed.

Theorem view_board_cards_lines_fixed : forall number b o p l,
  In l (view_board number b o p) -> names_cards l ->
  l = cards_line (formal_name p) (sb_deal b p) \/
  (exists decl, cdeclarer (oc_contract o) = Some decl /\ p <> partner decl /\ oc_plays o <> [] /\
                l = cards_line "Dummy" (sb_deal b (partner decl))) \/
  (exists who m c, In (who, m, c) (oc_calls o) /\ who <> p /\ l = relay_text m who) \/
  (exists a who m c, In (a, who, m, c) (oc_plays o) /\ who <> p /\ l = m).
Proof.
  intros number b o p l Hin Hn. apply view_board_origin in Hin.
  destruct Hin as [E|E|E|who m c Hc Hw E|decl who m c Hd Hp Hc E|decl who m c Hd Hp Hc E|decl a who m c Hd Hc Hw E|decl Hd Hp Hne E].
  - subst. apply names_cards_apos in Hn. discriminate Hn.
  - subst. apply names_cards_apos in Hn. rewrite header_no_apos in Hn. discriminate Hn.
  - left. exact E.
  - right. right. left. exists who, m, c. auto.
  - subst. apply names_cards_apos in Hn. rewrite lead_no_apos in Hn. discriminate Hn.
  - subst l. apply names_cards_apos in Hn. discriminate Hn.
  - right. right. right. exists a, who, m, c. auto.
  - right. left. exists decl. auto.
Qed.

Theorem view_board_cards_lines_plain : forall number b o p l, plain_messages o ->
  In l (view_board number b o p) -> names_cards l ->
  l = cards_line (formal_name p) (sb_deal b p) \/
  (exists decl, cdeclarer (oc_contract o) = Some decl /\ p <> partner decl /\ l = cards_line "Dummy" (sb_deal b (partner decl))).
Proof.
  intros number b o p l [Hc Hp] Hin Hn.
  destruct (view_board_cards_lines_fixed _ _ _ _ _ Hin Hn) as [H|[(decl & Hd & Hne & _ & E)|[(who & m & c & Hi & _ & E)|(a & who & m & c & Hi & _ & E)]]].
  - left. exact H.
  - right. exists decl. auto.
  - subst l. exfalso. eapply Hc; eauto.
  - subst l. exfalso. eapply Hp; eauto.
Qed.

(* ---- 2. Dummy's cards ---- *)
Lemma dummy_line_not_own : forall p h h', cards_line "Dummy" h <> cards_line (formal_name p) h'.
Proof. intros p h h' H. unfold cards_line in H. destruct p; cbn [formal_name append] in H; discriminate H. Qed.

(* cleaner and stronger than the statement of the task file: no line naming Dummy's cards at all, whatever the hand *)
Theorem dummy_never_sees_any_dummy_line : forall number b o decl h, plain_messages o ->
  cdeclarer (oc_contract o) = Some decl ->
  ~ In (cards_line "Dummy" h) (view_board number b o (partner decl)).
Proof.
  intros number b o decl h Hpl Hd Hin.
  apply view_board_cards_lines_plain in Hin; [|exact Hpl|exists "Dummy", h; reflexivity].
  destruct Hin as [H|(d & Hd' & Hne & _)].
  - eapply dummy_line_not_own; eauto.
  - rewrite Hd in Hd'. injection Hd' as <-. apply Hne. reflexivity.
Qed.
(* as given (the hypothesis on formal_name and the second disjunct are superfluous: the first disjunct always holds) *)
Theorem dummy_never_sees_dummy_line : forall number b o decl, plain_messages o -> cdeclarer (oc_contract o) = Some decl ->
  formal_name (partner decl) <> "Dummy"%string ->
  ~ In (cards_line "Dummy" (sb_deal b (partner decl))) (view_board number b o (partner decl)) \/
  cards_line "Dummy" (sb_deal b (partner decl)) = cards_line (formal_name (partner decl)) (sb_deal b (partner decl)).
Proof. intros number b o decl Hpl Hd _. left. apply dummy_never_sees_any_dummy_line; assumption. Qed.

Theorem others_see_dummy_once : forall number b o decl p, plain_messages o -> cdeclarer (oc_contract o) = Some decl ->
  p <> partner decl -> oc_plays o <> [] ->
  cards_line "Dummy" (sb_deal b (partner decl)) <> cards_line (formal_name p) (sb_deal b p) ->
  count_occ_str (cards_line "Dummy" (sb_deal b (partner decl))) (view_board number b o p) = 1.
Proof.
  intros number b o decl p [Hc Hpl] Hd Hp Hne Hown.
  destruct (oc_plays o) as [|[[[a who] m] c] rest] eqn:Eo; [contradiction|].
  set (D := cards_line "Dummy" (sb_deal b (partner decl))) in *.
  assert (HD : names_cards D) by (exists "Dummy", (sb_deal b (partner decl)); reflexivity).
  assert (HA : has_apos D = true) by (apply names_cards_apos; exact HD).
  rewrite view_board_decomp, (play_part_cons b o p decl a who m c rest Hd Eo), (later_no_dummy b decl p rest 1 (le_n 1)).
  assert (Hs : dummy_show b decl p 0 = [D]).
  { unfold dummy_show. apply seat_beq_neq in Hp. rewrite Hp. reflexivity. }
  rewrite Hs, !count_app, count_single.
  rewrite (count_notin D (board_prefix number b p)), (count_notin D (auction_part o p)),
          (count_notin D (lead_prompt decl p 0 a)), (count_notin D (card_relay p who m)),
          (count_notin D (flat_map _ _)); [reflexivity| | | | |].
  - intro H. apply in_flat_map in H. destruct H as ([i [[[a' who'] m'] c']] & Hi & Hl). apply in_combine_r in Hi.
    unfold later_item in Hl. apply in_app_or in Hl. destruct Hl as [Hl|Hl].
    + apply lead_prompt_no_apos in Hl. rewrite HA in Hl. discriminate Hl.
    + apply in_card_relay in Hl. destruct Hl as [_ E]. apply (Hpl a' who' m' c'); [right; exact Hi|]. rewrite <- E. exact HD.
  - intro H. apply in_card_relay in H. destruct H as [_ E]. apply (Hpl a who m c); [left; reflexivity|]. rewrite <- E. exact HD.
  - intro H. apply lead_prompt_no_apos in H. rewrite HA in H. discriminate H.
  - intro H. unfold auction_part in H. apply in_flat_map in H. destruct H as ([[w m'] c'] & Hi & Hl).
    destruct (seat_beq w p); [destruct Hl|]. destruct Hl as [E|[]]. apply (Hc w m' c' Hi). rewrite E. exact HD.
  - intros [H|[H|[H|[]]]].
    + rewrite <- H in HA. discriminate HA.
    + rewrite <- H, header_no_apos in HA. discriminate HA.
    + apply Hown. symmetry. exact H.
Qed.
(* the same without the superfluous last hypothesis *)
Theorem others_see_dummy_exactly_once : forall number b o decl p, plain_messages o -> cdeclarer (oc_contract o) = Some decl ->
  p <> partner decl -> oc_plays o <> [] ->
  count_occ_str (cards_line "Dummy" (sb_deal b (partner decl))) (view_board number b o p) = 1.
Proof. intros. apply others_see_dummy_once with (decl := decl); auto. apply dummy_line_not_own. Qed.

(* ... and it comes right after the first card: explicit shape of the whole board for a seat other than dummy *)
Theorem dummy_line_right_after_first_card : forall number b o decl p a who m c rest,
  cdeclarer (oc_contract o) = Some decl -> p <> partner decl -> oc_plays o = (a, who, m, c) :: rest ->
  view_board number b o p =
    (board_prefix number b p ++ auction_part o p ++ lead_prompt decl p 0 a ++ card_relay p who m) ++
    cards_line "Dummy" (sb_deal b (partner decl)) ::
    flat_map (later_item decl p) (combine (seq 1 (length rest)) rest).
Proof.
  intros number b o decl p a who m c rest Hd Hp Eo.
  rewrite view_board_decomp, (play_part_cons b o p decl a who m c rest Hd Eo), (later_no_dummy b decl p rest 1 (le_n 1)).
  assert (Hs : dummy_show b decl p 0 = [cards_line "Dummy" (sb_deal b (partner decl))]).
  { unfold dummy_show. apply seat_beq_neq in Hp. rewrite Hp. reflexivity. }
  rewrite Hs, <- !app_assoc. reflexivity.
Qed.

Theorem no_dummy_line_without_play : forall number b o p l, plain_messages o -> oc_plays o = [] ->
  In l (view_board number b o p) -> names_cards l -> l = cards_line (formal_name p) (sb_deal b p).
Proof.
  intros number b o p l Hpl Ho Hin Hn.
  destruct (view_board_cards_lines_fixed _ _ _ _ _ Hin Hn) as [H|[(decl & _ & _ & Hne & _)|[(who & m & c & Hi & _ & E)|(a & who & m & c & Hi & _ & _)]]].
  - exact H.
  - contradiction.
  - subst l. exfalso. destruct Hpl as [Hc _]. eapply Hc; eauto.
  - rewrite Ho in Hi. destruct Hi.
Qed.

(* ---- 3. relaying of calls and cards ---- *)
Theorem calls_relayed_to_others : forall number b o p,
  exists pre post, view_board number b o p = pre ++ flat_map (fun '(who, m, _) => if seat_beq who p then [] else [relay_text m who]) (oc_calls o) ++ post.
Proof. intros. exists (board_prefix number b p), (play_part b o p). reflexivity. Qed.
(* the informative form: what stands before and after, and the relayed calls are those of the other seats, in order *)
Theorem calls_relayed_in_order : forall number b o p,
  view_board number b o p =
    board_prefix number b p ++
    map (fun '(who, m, _) => relay_text m who) (filter (fun '(who, _, _) => negb (seat_beq who p)) (oc_calls o)) ++
    play_part b o p.
Proof. intros. rewrite view_board_decomp, auction_part_closed. reflexivity. Qed.
Theorem own_calls_not_relayed : forall (number : nat) (b : sboard) o p who m c,
  In (who, m, c) (oc_calls o) -> who = p ->
  forall l, In l (flat_map (fun '(who, m, _) => if seat_beq who p then [] else [relay_text m who]) [(who, m, c)]) -> False.
Proof.
  intros number b o p who m c _ -> l H. cbn [flat_map] in H. rewrite seat_beq_refl in H. destruct H.
Qed.

(* cards: what remains of the play part once the table manager's own lines (lead prompts, Dummy's cards) are removed
   is exactly the texts of the cards for which another seat spoke, in order *)
Definition table_lines (b : sboard) (decl : seat) : list string :=
  ["North to lead"; "East to lead"; "South to lead"; "West to lead"; "Dummy to lead"; cards_line "Dummy" (sb_deal b (partner decl))].
Definition is_table_line (b : sboard) (decl : seat) (l : string) : bool := existsb (String.eqb l) (table_lines b decl).
Lemma filter_lead_prompt : forall b decl p i a,
  filter (fun l => negb (is_table_line b decl l)) (lead_prompt decl p i a) = [].
Proof.
  intros. unfold lead_prompt. destruct (i mod 4 =? 0); [|reflexivity].
  destruct (seat_beq a p && negb (seat_beq p (partner decl))).
  - destruct p; reflexivity.
  - destruct (seat_beq a (partner decl) && seat_beq p decl); reflexivity.
Qed.
Lemma filter_dummy_show : forall b decl p i,
  filter (fun l => negb (is_table_line b decl l)) (dummy_show b decl p i) = [].
Proof.
  intros. unfold dummy_show. destruct ((i =? 0) && negb (seat_beq p (partner decl))); [|reflexivity].
  cbn [filter]. unfold is_table_line, table_lines. cbn [existsb]. rewrite String.eqb_refl, !orb_true_r. reflexivity.
Qed.
Lemma cards_relayed_aux : forall b decl p l s,
  (forall a who m c, In (a, who, m, c) l -> is_table_line b decl m = false) ->
  filter (fun x => negb (is_table_line b decl x)) (flat_map (play_item b decl p) (combine (seq s (length l)) l)) =
  map (fun '(_, _, m, _) => m) (filter (fun '(_, who, _, _) => negb (seat_beq who p)) l).
Proof.
  intros b decl p. induction l as [|[[[a who] m] c] l IH]; intros s H; [reflexivity|].
  cbn [length seq combine flat_map play_item]. rewrite !filter_app, filter_lead_prompt, filter_dummy_show, app_nil_r.
  rewrite IH by (intros; eapply H; right; eauto).
  cbn [filter app]. unfold card_relay. destruct (seat_beq who p); [reflexivity|].
  cbn [filter negb]. rewrite (H a who m c) by (left; reflexivity). reflexivity.
Qed.
Theorem cards_relayed_to_others : forall b o p decl,
  cdeclarer (oc_contract o) = Some decl ->
  (forall a who m c, In (a, who, m, c) (oc_plays o) -> is_table_line b decl m = false) ->
  filter (fun l => negb (is_table_line b decl l)) (play_part b o p) =
  map (fun '(_, _, m, _) => m) (filter (fun '(_, who, _, _) => negb (seat_beq who p)) (oc_plays o)).
Proof. intros b o p decl Hd H. unfold play_part. rewrite Hd. apply cards_relayed_aux. exact H. Qed.
(* membership form: the text of a card is in the play part for every seat other than the one who spoke for it;
   and a text in the play part of the speaker that is not a table line is the text of some other card *)
Theorem card_reaches_the_others : forall number b o p decl a who m c,
  cdeclarer (oc_contract o) = Some decl -> In (a, who, m, c) (oc_plays o) -> who <> p -> In m (view_board number b o p).
Proof.
  intros number b o p decl a who m c Hd Hin Hw. rewrite view_board_decomp. apply in_or_app. right. apply in_or_app. right.
  unfold play_part. rewrite Hd. generalize 0. revert Hin. induction (oc_plays o) as [|x l IH]; intros Hin s; [destruct Hin|].
  cbn [length seq combine flat_map]. apply in_or_app. destruct Hin as [->|Hin].
  - left. unfold play_item. apply in_or_app. right. apply in_or_app. left. unfold card_relay.
    apply seat_beq_neq in Hw. rewrite Hw. left. reflexivity.
  - right. apply IH. exact Hin.
Qed.
Theorem call_reaches_the_others : forall number b o p who m c,
  In (who, m, c) (oc_calls o) -> who <> p -> In (relay_text m who) (view_board number b o p).
Proof.
  intros number b o p who m c Hin Hw. rewrite view_board_decomp. apply in_or_app. right. apply in_or_app. left.
  unfold auction_part. apply in_flat_map. exists (who, m, c). split; [exact Hin|].
  apply seat_beq_neq in Hw. rewrite Hw. left. reflexivity.
Qed.

(* ---- 4. the start of a board ---- *)
Theorem board_starts_with_header : forall number b o p,
  exists rest, view_board number b o p =
    "Start of board"%string :: board_header number (sb_dealer b) (sb_vul b) :: cards_line (formal_name p) (sb_deal b p) :: rest.
Proof. intros. exists (auction_part o p ++ play_part b o p). reflexivity. Qed.

(* ---- 5. lead prompts ---- *)
Theorem lead_prompts_only_for_the_leader : forall number b o p q,
  In (formal_name q ++ " to lead")%string (view_board number b o p) -> plain_messages o ->
  (forall a who m c, In (a, who, m, c) (oc_plays o) -> m <> (formal_name q ++ " to lead")%string) ->
  (forall who m c, In (who, m, c) (oc_calls o) -> relay_text m who <> (formal_name q ++ " to lead")%string) ->
  q = p.
Proof.
  intros number b o p q Hin _ Hpl Hc. apply view_board_origin in Hin.
  destruct Hin as [E|E|E|who m c Hi Hw E|decl who m c Hd Hp Hi E|decl who m c Hd Hp Hi E|decl a who m c Hd Hi Hw E|decl Hd Hp Hne E].
  - destruct q; discriminate E.
  - unfold board_header in E. destruct q; cbn [formal_name append] in E; discriminate E.
  - unfold cards_line in E. destruct p, q; cbn [formal_name append] in E; discriminate E.
  - exfalso. eapply Hc; eauto.
  - destruct p, q; cbn [formal_name append] in E; try reflexivity; discriminate E.
  - destruct q; discriminate E.
  - exfalso. eapply Hpl; eauto.
  - unfold cards_line in E. destruct q; cbn [formal_name append] in E; discriminate E.
Qed.
(* the prompt for p is sent only when p is not dummy and p itself is the active seat of some card *)
Theorem lead_prompt_only_when_leading : forall number b o p,
  In (formal_name p ++ " to lead")%string (view_board number b o p) ->
  (forall a who m c, In (a, who, m, c) (oc_plays o) -> m <> (formal_name p ++ " to lead")%string) ->
  (forall who m c, In (who, m, c) (oc_calls o) -> relay_text m who <> (formal_name p ++ " to lead")%string) ->
  exists decl who m c, cdeclarer (oc_contract o) = Some decl /\ p <> partner decl /\ In (p, who, m, c) (oc_plays o).
Proof.
  intros number b o p Hin Hpl Hc. apply view_board_origin in Hin.
  destruct Hin as [E|E|E|who m c Hi Hw E|decl who m c Hd Hp Hi E|decl who m c Hd Hp Hi E|decl a who m c Hd Hi Hw E|decl Hd Hp Hne E].
  - destruct p; discriminate E.
  - unfold board_header in E. destruct p; cbn [formal_name append] in E; discriminate E.
  - unfold cards_line in E. destruct p; cbn [formal_name append] in E; discriminate E.
  - exfalso. eapply Hc; eauto.
  - exists decl, who, m, c. auto.
  - destruct p; discriminate E.
  - exfalso. eapply Hpl; eauto.
  - unfold cards_line in E. destruct p; cbn [formal_name append] in E; discriminate E.
Qed.
Theorem dummy_lead_prompt_only_for_declarer : forall number b o p,
  In "Dummy to lead"%string (view_board number b o p) ->
  (forall a who m c, In (a, who, m, c) (oc_plays o) -> m <> "Dummy to lead"%string) ->
  (forall who m c, In (who, m, c) (oc_calls o) -> relay_text m who <> "Dummy to lead"%string) ->
  cdeclarer (oc_contract o) = Some p /\ exists who m c, In (partner p, who, m, c) (oc_plays o).
Proof.
  intros number b o p Hin Hpl Hc. apply view_board_origin in Hin.
  destruct Hin as [E|E|E|who m c Hi Hw E|decl who m c Hd Hp Hi E|decl who m c Hd Hp Hi E|decl a who m c Hd Hi Hw E|decl Hd Hp Hne E].
  - discriminate E.
  - unfold board_header in E. cbn [append] in E. discriminate E.
  - unfold cards_line in E. destruct p; cbn [formal_name append] in E; discriminate E.
  - exfalso. eapply Hc; eauto.
  - destruct p; discriminate E.
  - subst p. split; [exact Hd|]. exists who, m, c. exact Hi.
  - exfalso. eapply Hpl; eauto.
  - unfold cards_line in E. cbn [append] in E. discriminate E.
Qed.

(* ---- the whole session (view_spec): item 1 for everything a seated connection is sent ---- *)
Lemma in_view_boards : forall bs number p l, In l (view_boards number bs p) ->
  exists k b o, In (b, o) bs /\ In l (view_board k b o p).
Proof.
  induction bs as [|[b o] bs IH]; intros number p l H; [destruct H|].
  cbn [view_boards] in H. apply in_app_or in H. destruct H as [H|H].
  - exists number, b, o. split; [left; reflexivity|exact H].
  - destruct (IH _ _ _ H) as (k & b' & o' & Hi & Hl). exists k, b', o'. split; [right; exact Hi|exact Hl].
Qed.
Lemma seated_line_not_cards : forall p team, ~ names_cards (seated_line p team).
Proof.
  intros p team H. apply names_cards_ends_dot in H. unfold seated_line in H.
  rewrite last_is_app in H.
  - rewrite last_is_app in H.
    + rewrite last_is_app in H; [discriminate H|discriminate].
    + destruct team; discriminate.
  - discriminate.
Qed.
Lemma teams_line_not_cards : forall ns ew, ~ names_cards (teams_line ns ew).
Proof.
  intros ns ew H. apply names_cards_ends_dot in H. unfold teams_line in H.
  rewrite last_is_app in H.
  - rewrite last_is_app in H.
    + rewrite last_is_app in H.
      * rewrite last_is_app in H; [discriminate H|discriminate].
      * destruct ew; discriminate.
    + discriminate.
  - destruct ns; discriminate.
Qed.
Theorem view_spec_cards_lines : forall team ns ew bs p l,
  (forall b o, In (b, o) bs -> plain_messages o) ->
  In l (view_spec team ns ew bs p) -> names_cards l ->
  exists b o, In (b, o) bs /\
    (l = cards_line (formal_name p) (sb_deal b p) \/
     (exists decl, cdeclarer (oc_contract o) = Some decl /\ p <> partner decl /\ l = cards_line "Dummy" (sb_deal b (partner decl)))).
Proof.
  intros team ns ew bs p l Hpl Hin Hn. unfold view_spec in Hin.
  apply in_app_or in Hin. destruct Hin as [[H|[H|[]]]|Hin].
  - subst l. exfalso. eapply seated_line_not_cards; eauto.
  - subst l. exfalso. eapply teams_line_not_cards; eauto.
  - apply in_app_or in Hin. destruct Hin as [Hin|[H|[]]].
    + destruct (in_view_boards _ _ _ _ Hin) as (k & b & o & Hi & Hl). exists b, o. split; [exact Hi|].
      eapply view_board_cards_lines_plain; eauto.
    + subst l. apply names_cards_apos in Hn. discriminate Hn.
Qed.

Print Assumptions view_board_decomp.
Print Assumptions auction_part_closed.
Print Assumptions view_board_origin.
Print Assumptions view_board_cards_lines_counterexample.
Print Assumptions view_board_cards_lines_fixed.
Print Assumptions view_board_cards_lines_plain.
Print Assumptions dummy_never_sees_any_dummy_line.
Print Assumptions dummy_never_sees_dummy_line.
Print Assumptions others_see_dummy_once.
Print Assumptions others_see_dummy_exactly_once.
Print Assumptions dummy_line_right_after_first_card.
Print Assumptions no_dummy_line_without_play.
Print Assumptions calls_relayed_to_others.
Print Assumptions calls_relayed_in_order.
Print Assumptions own_calls_not_relayed.
Print Assumptions cards_relayed_to_others.
Print Assumptions card_reaches_the_others.
Print Assumptions call_reaches_the_others.
Print Assumptions board_starts_with_header.
Print Assumptions lead_prompts_only_for_the_leader.
Print Assumptions lead_prompt_only_when_leading.
Print Assumptions dummy_lead_prompt_only_for_declarer.
Print Assumptions view_spec_cards_lines.
