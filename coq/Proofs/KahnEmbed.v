(* A generic EMBEDDING lemma for the process networks of Model/Kahn.v.
   A (small) network N is embedded in a (large) network N' by three injective renamings: [sg] of parties (it also moves the
   barrier counters, which are indexed by party), [rh] of channels and [kp] of cells.  [sim p p']: the process tree p' is p with
   every channel / cell name renamed (an inductive relation rather than an equation between terms, because process trees contain
   Coq functions [msg -> proc] and no extensionality principle is assumed); [ren p] is the canonical renamed tree and [sim p (ren p)].
   [corr s s']: every party t of N has its renamed process at party [sg t] of N', every channel c of N has the same contents as
   channel [rh c] of N', the same for cells and barrier counters, and at every barrier generation at least as many parties of N'
   as of N have arrived.  Nothing is asked of the other parties, channels, cells of N' (they may be finished, blocked, anything).
   [embed_step] / [embed_run]: every step (run) of N is matched by the step of party [sg t] (the run [map sg l]) of N', the
   correspondence is kept and everything of N' outside the image of the renamings is left exactly as it was ([frame]).
   Standard library only; closed under the global context. *)
From BE Require Import Model.Kahn Proofs.Kahn.
From Coq Require Import Lia.

Lemma nth_upd_lt {A} (l : list A) i x : i < length l -> nth_error (upd l i x) i = Some x.
Proof.
  intros H. destruct (nth_error l i) as [y|] eqn:E; [exact (nth_upd_same l i x y E)|].
  apply nth_error_None in E. lia.
Qed.

(* how many parties have arrived at least n times *)
Definition cnt (n : nat) (b : list nat) : nat := length (filter (fun a => n <=? a) b).
Lemma cnt_arrive n : forall b t a, nth_error b t = Some a ->
  cnt n (upd b t (S a)) = cnt n b + (if n =? S a then 1 else 0).
Proof.
  unfold cnt. induction b as [|h b IH]; intros t a H; [destruct t; discriminate H|].
  destruct t as [|t]; cbn [nth_error upd filter] in *.
  - injection H as ->. destruct (Nat.leb_spec n a), (Nat.leb_spec n (S a)), (Nat.eqb_spec n (S a)); cbn [length]; lia.
  - destruct (n <=? h); cbn [length]; rewrite (IH t a H); lia.
Qed.
Lemma cnt_zero b : cnt 0 b = length b.
Proof. unfold cnt. induction b as [|h b IH]; [reflexivity|]. cbn [filter]. change (0 <=? h) with true. cbn [length]. f_equal. exact IH. Qed.

Section Embed.
  Variable msg : Type.
  Variable parties : nat.
  Variables sg rh kp : nat -> nat.          (* parties, channels, cells of N  ->  those of N' *)
  Variables np nc nx : nat.                 (* bounds on the numbers of parties, channels, cells of N *)
  Hypothesis sg_inj : forall a b, a < np -> b < np -> sg a = sg b -> a = b.
  Hypothesis rh_inj : forall a b, a < nc -> b < nc -> rh a = rh b -> a = b.
  Hypothesis kp_inj : forall a b, a < nx -> b < nx -> kp a = kp b -> a = b.

  Local Notation proc := (Kahn.proc msg).
  Local Notation st := (Kahn.st msg).
  Local Notation step := (Kahn.step msg parties).
  Local Notation run := (Kahn.run msg parties).
  Local Notation procs := (Kahn.procs msg).
  Local Notation chans := (Kahn.chans msg).
  Local Notation cells := (Kahn.cells msg).
  Local Notation barr := (Kahn.barr msg).

  (* ---------- renaming of a process tree ---------- *)
  Inductive sim : proc -> proc -> Prop :=
  | sim_Ret : sim Ret Ret
  | sim_Fail : sim Fail Fail
  | sim_Get c k k' : (forall m, sim (k m) (k' m)) -> sim (Get c k) (Get (rh c) k')
  | sim_Put c m p p' : sim p p' -> sim (Put c m p) (Put (rh c) m p')
  | sim_Bar p p' : sim p p' -> sim (Bar p) (Bar p')
  | sim_BarWait n p p' : sim p p' -> sim (BarWait n p) (BarWait n p')
  | sim_Write x v p p' : sim p p' -> sim (WriteCell x v p) (WriteCell (kp x) v p')
  | sim_Read x k k' : (forall v, sim (k v) (k' v)) -> sim (ReadCell x k) (ReadCell (kp x) k')
  | sim_Tau p p' : sim p p' -> sim (Tau p) (Tau p').

  Fixpoint ren (p : proc) : proc :=
    match p with
    | Ret => Ret
    | Fail => Fail
    | Get c k => Get (rh c) (fun m => ren (k m))
    | Put c m q => Put (rh c) m (ren q)
    | Bar q => Bar (ren q)
    | BarWait n q => BarWait n (ren q)
    | WriteCell x v q => WriteCell (kp x) v (ren q)
    | ReadCell x k => ReadCell (kp x) (fun v => ren (k v))
    | Tau q => Tau (ren q)
    end.
  Lemma sim_ren : forall p, sim p (ren p).
  Proof. induction p; cbn [ren]; constructor; auto. Qed.

  (* the forms used when the renamed names are not syntactically [rh c] *)
  Lemma sim_Get' c c' k k' : rh c = c' -> (forall m, sim (k m) (k' m)) -> sim (Get c k) (Get c' k').
  Proof. intros <-. apply sim_Get. Qed.
  Lemma sim_Put' c c' m p p' : rh c = c' -> sim p p' -> sim (Put c m p) (Put c' m p').
  Proof. intros <-. apply sim_Put. Qed.

  Lemma sim_Ret_inv p' : sim Ret p' -> p' = Ret.
  Proof. intros H. inversion H. reflexivity. Qed.
  Lemma sim_Fail_inv p' : sim Fail p' -> p' = Fail.
  Proof. intros H. inversion H. reflexivity. Qed.

  (* ---------- correspondence of states; the frame ---------- *)
  Definition corr (s s' : st) : Prop :=
    (length (procs s) <= np /\ length (barr s) <= np /\ length (chans s) <= nc /\ length (cells s) <= nx) /\
    (forall t p, nth_error (procs s) t = Some p -> exists p', nth_error (procs s') (sg t) = Some p' /\ sim p p') /\
    (forall c q, nth_error (chans s) c = Some q -> nth_error (chans s') (rh c) = Some q) /\
    (forall x v, nth_error (cells s) x = Some v -> nth_error (cells s') (kp x) = Some v) /\
    (forall t a, nth_error (barr s) t = Some a -> nth_error (barr s') (sg t) = Some a) /\
    (forall n, cnt n (barr s) <= cnt n (barr s')).

  (* what is outside the image of the renamings is untouched *)
  Definition out_sg (t' : nat) : Prop := forall t, t < np -> sg t <> t'.
  Definition out_rh (c' : nat) : Prop := forall c, c < nc -> rh c <> c'.
  Definition out_kp (x' : nat) : Prop := forall x, x < nx -> kp x <> x'.
  Definition frame (s0 s1 : st) : Prop :=
    (length (procs s1) = length (procs s0) /\ length (chans s1) = length (chans s0) /\
     length (cells s1) = length (cells s0) /\ length (barr s1) = length (barr s0)) /\
    (forall t', out_sg t' -> nth_error (procs s1) t' = nth_error (procs s0) t') /\
    (forall c', out_rh c' -> nth_error (chans s1) c' = nth_error (chans s0) c') /\
    (forall x', out_kp x' -> nth_error (cells s1) x' = nth_error (cells s0) x') /\
    (forall t', out_sg t' -> nth_error (barr s1) t' = nth_error (barr s0) t').

  Lemma frame_refl s : frame s s.
  Proof. repeat split. Qed.
  Lemma frame_trans s0 s1 s2 : frame s0 s1 -> frame s1 s2 -> frame s0 s2.
  Proof.
    intros ((A1 & A2 & A3 & A4) & B1 & B2 & B3 & B4) ((C1 & C2 & C3 & C4) & D1 & D2 & D3 & D4).
    split; [repeat split; congruence|].
    split; [intros t' H; rewrite (D1 t' H); exact (B1 t' H)|].
    split; [intros t' H; rewrite (D2 t' H); exact (B2 t' H)|].
    split; [intros t' H; rewrite (D3 t' H); exact (B3 t' H)|].
    intros t' H; rewrite (D4 t' H); exact (B4 t' H).
  Qed.

  Lemma lt_of_some {A} (l : list A) i x k : nth_error l i = Some x -> length l <= k -> i < k.
  Proof. intros H L. assert (i < length l) by (apply nth_error_Some; congruence). lia. Qed.

  (* look-ups in an updated list, on both sides of the correspondence *)
  Lemma upd_procs_corr (ps ps' : list proc) t p0 q q' :
    length ps <= np -> nth_error ps t = Some p0 ->
    (forall u p, nth_error ps u = Some p -> exists p', nth_error ps' (sg u) = Some p' /\ sim p p') ->
    sim q q' ->
    forall u p, nth_error (upd ps t q) u = Some p -> exists p', nth_error (upd ps' (sg t) q') (sg u) = Some p' /\ sim p p'.
  Proof.
    intros L E H Sq u p Hu. destruct (H t p0 E) as (p0' & E' & _).
    destruct (Nat.eq_dec t u) as [<-|N].
    - rewrite (nth_upd_same _ _ _ _ E) in Hu. injection Hu as <-.
      exists q'. split; [exact (nth_upd_same _ _ _ _ E')|exact Sq].
    - rewrite nth_upd_other in Hu by exact N. destruct (H u p Hu) as (p' & Hp' & Sp). exists p'. split; [|exact Sp].
      rewrite nth_upd_other; [exact Hp'|]. intros Eq. apply N. apply sg_inj; [exact (lt_of_some _ _ _ _ E L)|exact (lt_of_some _ _ _ _ Hu L)|exact Eq].
  Qed.
  Lemma upd_list_corr {A} (f : nat -> nat) (k : nat) (l l' : list A) i x0 y :
    (forall a b, a < k -> b < k -> f a = f b -> a = b) ->
    length l <= k -> nth_error l i = Some x0 ->
    (forall j x, nth_error l j = Some x -> nth_error l' (f j) = Some x) ->
    forall j x, nth_error (upd l i y) j = Some x -> nth_error (upd l' (f i) y) (f j) = Some x.
  Proof.
    intros Inj L E H j x Hj. pose proof (H i x0 E) as E'.
    destruct (Nat.eq_dec i j) as [<-|N].
    - rewrite (nth_upd_same _ _ _ _ E) in Hj. injection Hj as <-. exact (nth_upd_same _ _ _ _ E').
    - rewrite nth_upd_other in Hj by exact N. rewrite nth_upd_other; [exact (H j x Hj)|].
      intros Eq. apply N. apply Inj; [exact (lt_of_some _ _ _ _ E L)|exact (lt_of_some _ _ _ _ Hj L)|exact Eq].
  Qed.
  Lemma upd_out {A} (f : nat -> nat) (k : nat) (l' : list A) i y t' : i < k ->
    (forall t, t < k -> f t <> t') -> nth_error (upd l' (f i) y) t' = nth_error l' t'.
  Proof. intros Hi H. apply nth_upd_other. apply H. exact Hi. Qed.

  Ltac dm H :=
    match type of H with
    | match ?x with _ => _ end = Some _ => let E := fresh "E" in destruct x eqn:E; try discriminate H
    end.

  (* ---------- one step ---------- *)
  Theorem embed_step : forall t s s1 s', step t s = Some s1 -> corr s s' ->
    exists s1', step (sg t) s' = Some s1' /\ corr s1 s1' /\ frame s' s1'.
  Proof.
    intros t [ps ch ce ba] s1 [ps' ch' ce' ba'] H ((Lp & Lb & Lc & Lx) & HP & HC & HX & HB & HR).
    unfold Kahn.step in *. cbn [Kahn.procs Kahn.chans Kahn.cells Kahn.barr] in *.
    destruct (nth_error ps t) as [p|] eqn:P; [|discriminate].
    destruct (HP t p P) as (p' & P' & Sm). rewrite P'.
    pose proof (lt_of_some _ _ _ _ P Lp) as Ht.
    destruct Sm; try discriminate H.
    - (* Get *)
      destruct (nth_error ch c) as [[|m r]|] eqn:C; try discriminate H. injection H as <-.
      rewrite (HC c _ C). eexists. split; [reflexivity|].
      pose proof (lt_of_some _ _ _ _ C Lc) as Hc. split.
      + split; [cbn [Kahn.procs Kahn.chans Kahn.cells Kahn.barr]; rewrite !upd_length; auto|].
        cbn [Kahn.procs Kahn.chans Kahn.cells Kahn.barr].
        split; [exact (upd_procs_corr ps ps' t _ _ _ Lp P HP (H0 m))|].
        split; [exact (upd_list_corr rh nc ch ch' c _ r rh_inj Lc C HC)|auto].
      + split; [cbn [Kahn.procs Kahn.chans Kahn.cells Kahn.barr]; rewrite !upd_length; auto|].
        cbn [Kahn.procs Kahn.chans Kahn.cells Kahn.barr].
        split; [intros t' Ho; exact (upd_out sg np ps' t _ t' Ht Ho)|].
        split; [intros c' Ho; exact (upd_out rh nc ch' c _ c' Hc Ho)|auto].
    - (* Put *)
      destruct (nth_error ch c) as [q|] eqn:C; try discriminate H. injection H as <-.
      rewrite (HC c _ C). eexists. split; [reflexivity|].
      pose proof (lt_of_some _ _ _ _ C Lc) as Hc. split.
      + split; [cbn [Kahn.procs Kahn.chans Kahn.cells Kahn.barr]; rewrite !upd_length; auto|].
        cbn [Kahn.procs Kahn.chans Kahn.cells Kahn.barr].
        split; [exact (upd_procs_corr ps ps' t _ _ _ Lp P HP Sm)|].
        split; [exact (upd_list_corr rh nc ch ch' c _ (q ++ [m]) rh_inj Lc C HC)|auto].
      + split; [cbn [Kahn.procs Kahn.chans Kahn.cells Kahn.barr]; rewrite !upd_length; auto|].
        cbn [Kahn.procs Kahn.chans Kahn.cells Kahn.barr].
        split; [intros t' Ho; exact (upd_out sg np ps' t _ t' Ht Ho)|].
        split; [intros c' Ho; exact (upd_out rh nc ch' c _ c' Hc Ho)|auto].
    - (* Bar *)
      destruct (nth_error ba t) as [a|] eqn:B; try discriminate H. injection H as <-.
      rewrite (HB t a B). eexists. split; [reflexivity|]. split.
      + split; [cbn [Kahn.procs Kahn.chans Kahn.cells Kahn.barr]; rewrite !upd_length; auto|].
        cbn [Kahn.procs Kahn.chans Kahn.cells Kahn.barr].
        split; [exact (upd_procs_corr ps ps' t _ _ _ Lp P HP (sim_BarWait (S a) _ _ Sm))|].
        split; [exact HC|]. split; [exact HX|].
        split; [exact (upd_list_corr sg np ba ba' t _ (S a) sg_inj Lb B HB)|].
        intros n. rewrite (cnt_arrive n ba t a B), (cnt_arrive n ba' (sg t) a (HB t a B)). specialize (HR n). lia.
      + split; [cbn [Kahn.procs Kahn.chans Kahn.cells Kahn.barr]; rewrite !upd_length; auto|].
        cbn [Kahn.procs Kahn.chans Kahn.cells Kahn.barr].
        split; [intros t' Ho; exact (upd_out sg np ps' t _ t' Ht Ho)|].
        split; [auto|]. split; [auto|].
        intros t' Ho; exact (upd_out sg np ba' t _ t' Ht Ho).
    - (* BarWait *)
      destruct (Kahn.released parties n ba) eqn:R; try discriminate H. injection H as <-.
      assert (R' : Kahn.released parties n ba' = true).
      { unfold Kahn.released in *. apply Nat.leb_le in R. apply Nat.leb_le. specialize (HR n). unfold cnt in HR. lia. }
      rewrite R'. eexists. split; [reflexivity|]. split.
      + split; [cbn [Kahn.procs Kahn.chans Kahn.cells Kahn.barr]; rewrite !upd_length; auto|].
        cbn [Kahn.procs Kahn.chans Kahn.cells Kahn.barr].
        split; [exact (upd_procs_corr ps ps' t _ _ _ Lp P HP Sm)|auto].
      + split; [cbn [Kahn.procs Kahn.chans Kahn.cells Kahn.barr]; rewrite !upd_length; auto|].
        cbn [Kahn.procs Kahn.chans Kahn.cells Kahn.barr].
        split; [intros t' Ho; exact (upd_out sg np ps' t _ t' Ht Ho)|auto].
    - (* WriteCell *)
      destruct (nth_error ce x) as [[|]|] eqn:X; try discriminate H. injection H as <-.
      rewrite (HX x _ X). eexists. split; [reflexivity|].
      pose proof (lt_of_some _ _ _ _ X Lx) as Hx. split.
      + split; [cbn [Kahn.procs Kahn.chans Kahn.cells Kahn.barr]; rewrite !upd_length; auto|].
        cbn [Kahn.procs Kahn.chans Kahn.cells Kahn.barr].
        split; [exact (upd_procs_corr ps ps' t _ _ _ Lp P HP Sm)|].
        split; [exact HC|].
        split; [exact (upd_list_corr kp nx ce ce' x _ (Some v) kp_inj Lx X HX)|auto].
      + split; [cbn [Kahn.procs Kahn.chans Kahn.cells Kahn.barr]; rewrite !upd_length; auto|].
        cbn [Kahn.procs Kahn.chans Kahn.cells Kahn.barr].
        split; [intros t' Ho; exact (upd_out sg np ps' t _ t' Ht Ho)|].
        split; [auto|].
        split; [intros x' Ho; exact (upd_out kp nx ce' x _ x' Hx Ho)|auto].
    - (* ReadCell *)
      destruct (nth_error ce x) as [[v|]|] eqn:X; try discriminate H. injection H as <-.
      rewrite (HX x _ X). eexists. split; [reflexivity|]. split.
      + split; [cbn [Kahn.procs Kahn.chans Kahn.cells Kahn.barr]; rewrite !upd_length; auto|].
        cbn [Kahn.procs Kahn.chans Kahn.cells Kahn.barr].
        split; [exact (upd_procs_corr ps ps' t _ _ _ Lp P HP (H0 v))|auto].
      + split; [cbn [Kahn.procs Kahn.chans Kahn.cells Kahn.barr]; rewrite !upd_length; auto|].
        cbn [Kahn.procs Kahn.chans Kahn.cells Kahn.barr].
        split; [intros t' Ho; exact (upd_out sg np ps' t _ t' Ht Ho)|auto].
    - (* Tau *)
      injection H as <-. eexists. split; [reflexivity|]. split.
      + split; [cbn [Kahn.procs Kahn.chans Kahn.cells Kahn.barr]; rewrite !upd_length; auto|].
        cbn [Kahn.procs Kahn.chans Kahn.cells Kahn.barr].
        split; [exact (upd_procs_corr ps ps' t _ _ _ Lp P HP Sm)|auto].
      + split; [cbn [Kahn.procs Kahn.chans Kahn.cells Kahn.barr]; rewrite !upd_length; auto|].
        cbn [Kahn.procs Kahn.chans Kahn.cells Kahn.barr].
        split; [intros t' Ho; exact (upd_out sg np ps' t _ t' Ht Ho)|auto].
  Qed.

  (* ---------- runs ---------- *)
  Theorem embed_run : forall l s f s', run l s = Some f -> corr s s' ->
    exists f', run (map sg l) s' = Some f' /\ corr f f' /\ frame s' f'.
  Proof.
    induction l as [|t l IH]; intros s f s' H C; cbn [Kahn.run map] in *.
    - injection H as <-. exists s'. split; [reflexivity|]. split; [exact C|apply frame_refl].
    - destruct (step t s) as [s1|] eqn:E; [|discriminate].
      destruct (embed_step t s s1 s' E C) as (s1' & E' & C1 & F1).
      destruct (IH s1 f s1' H C1) as (f' & R' & Cf & Ff).
      exists f'. rewrite E'. split; [exact R'|]. split; [exact Cf|exact (frame_trans _ _ _ F1 Ff)].
  Qed.

  Corollary embed_run_length : forall l s f s', run l s = Some f -> corr s s' ->
    exists l' f', length l' = length l /\ run l' s' = Some f' /\ corr f f' /\ frame s' f'.
  Proof.
    intros l s f s' H C. destruct (embed_run l s f s' H C) as (f' & R & Cf & Ff).
    exists (map sg l), f'. rewrite map_length. auto.
  Qed.

  (* ---------- parties that can never move again ----------
     A party of N' that is finished, has raised, or waits on an empty channel outside the image of the channel renaming stays
     exactly so along every lifted run (the frame leaves its process and that channel alone). *)
  Definition parked (s : st) (t' : nat) : Prop :=
    match nth_error (procs s) t' with
    | None | Some Ret | Some Fail => True
    | Some (Get c' _) => out_rh c' /\ nth_error (chans s) c' = Some []
    | _ => False end.
  Lemma parked_stuck s t' : parked s t' -> step t' s = None.
  Proof.
    unfold parked, Kahn.step. destruct (nth_error (procs s) t') as [[]|]; try tauto.
    intros [_ ->]. reflexivity.
  Qed.
  Lemma parked_frame s0 s1 t' : out_sg t' -> frame s0 s1 -> parked s0 t' -> parked s1 t'.
  Proof.
    intros Ho (_ & F1 & F2 & _) H. unfold parked in *. rewrite (F1 t' Ho).
    destruct (nth_error (procs s0) t') as [[]|]; try tauto.
    destruct H as [Hc E]. rewrite (F2 c Hc). auto.
  Qed.
End Embed.

Print Assumptions embed_step.
Print Assumptions embed_run.
Print Assumptions embed_run_length.
Print Assumptions sim_ren.
Print Assumptions parked_frame.
