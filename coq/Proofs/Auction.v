(* Proofs about the auction model (Model/Auction.v) against the Laws (Spec/Laws.v).
   Method: one invariant [Inv] relating every cached field of the state to a function of
   the reversed history [rhist]; preserved by [offer]; lifted to [reach]. *)
From BE Require Import Model.Auction Spec.Laws.
From Coq Require Import Lia.
Local Open Scope nat_scope.

(* ------------------------------------------------------------------ *)
(* Part 1: small facts on seats, sides, strains                         *)
(* ------------------------------------------------------------------ *)

Lemma side_beq_refl : forall a, side_beq a a = true.
Proof. destruct a; reflexivity. Qed.
Lemma side_beq_sym : forall a b, side_beq a b = side_beq b a.
Proof. destruct a, b; reflexivity. Qed.
Lemma side_beq_true : forall a b, side_beq a b = true -> a = b.
Proof. destruct a, b; simpl; congruence. Qed.
Lemma strain_beq_sym : forall a b, strain_beq a b = strain_beq b a.
Proof. destruct a as [[]|], b as [[]|]; reflexivity. Qed.
Lemma strain_beq_true : forall a b, strain_beq a b = true -> a = b.
Proof. destruct a as [[]|], b as [[]|]; simpl; congruence. Qed.
Lemma strain_beq_refl : forall a, strain_beq a a = true.
Proof. destruct a as [[]|]; reflexivity. Qed.
Lemma seat_beq_refl : forall a, seat_beq a a = true.
Proof. destruct a; reflexivity. Qed.

Lemma rot_S : forall d n, rot d (S n) = next (rot d n).
Proof. reflexivity. Qed.

(* ------------------------------------------------------------------ *)
(* Part 2: the specification restated on the reversed history           *)
(* ------------------------------------------------------------------ *)

Definition ended_r (rh : list call) : bool :=
  match rh with
  | [Pass; Pass; Pass; Pass] => true
  | Pass :: Pass :: Pass :: c :: _ => negb (call_beq c Pass)
  | _ => false end.

Lemma ended_rev : forall rh, ended (rev rh) = ended_r rh.
Proof. intros; unfold ended; rewrite rev_involutive; reflexivity. Qed.

Definition legalD (d : seat) (rh : list call) (me : seat) : bool :=
  match skip_passes rh with Bid _ _ :: r => opponents (rot d (length r)) me | _ => false end.
Definition legalR (d : seat) (rh : list call) (me : seat) : bool :=
  match skip_passes rh with Dbl :: r => opponents (rot d (length r)) me | _ => false end.

Lemma legal_rev : forall d rh c, legal d (rev rh) c =
  match c with
  | Pass => true
  | Bid l s => match last_bid_r rh with None => true | Some (_, b') => outranks (l, s) b' end
  | Dbl => legalD d rh (rot d (length rh))
  | Rdbl => legalR d rh (rot d (length rh)) end.
Proof.
  intros; unfold legal, last_bid_of, last_nonpass, caller, legalD, legalR.
  rewrite rev_involutive, rev_length.
  destruct c; try reflexivity; destruct (skip_passes rh) as [|[] ?]; reflexivity.
Qed.

(* the calls made after (newer than) the last bid *)
Fixpoint recent (rh : list call) : list call :=
  match rh with [] => [] | Bid _ _ :: _ => [] | c :: r => c :: recent r end.
Definition cxr (rh : list call) : bool := existsb (call_beq Dbl) (recent rh).
Definition cxxr (rh : list call) : bool := existsb (call_beq Rdbl) (recent rh).

(* every call of the history was legal when made, and the auction had not ended before it *)
Fixpoint wf (d : seat) (rh : list call) : Prop :=
  match rh with
  | [] => True
  | c :: r => legal d (rev r) c = true /\ ended_r r = false /\ wf d r end.

(* ------------------------------------------------------------------ *)
(* Part 3: the model's transition, restructured                         *)
(* ------------------------------------------------------------------ *)

Definition fin (s : astate) (c : call) : bool :=
  match c with
  | Pass => (3 <=? length (rhist s)) &&
            match rhist s with Pass :: Pass :: _ => true | _ => false end
  | _ => false end.

Definition upd (s : astate) (p : seat) (c : call) : astate :=
  match c with
  | Pass => s
  | Dbl => mkA (dealer s) (avul s) (active s) (last_bidder s) (last_bid s) true (called_xx s)
               (rhist s) (rphist s) (decl_tab s) (avail s)
  | Rdbl => mkA (dealer s) (avul s) (active s) (last_bidder s) (last_bid s) (called_x s) true
                (rhist s) (rphist s) (decl_tab s) (avail s)
  | Bid l st =>
      let tab := decl_tab s in
      let tab' := match tab (side_of p) st with
                  | None => fun sd st' => if side_beq sd (side_of p) && strain_beq st' st then Some p else tab sd st'
                  | Some _ => tab end in
      mkA (dealer s) (avul s) (active s) (Some p) (Some (l, st)) false false
          (rhist s) (rphist s) tab' (zero_prefix (call_idx c + 1) (avail s))
  end.

Definition fixx (s2 : astate) (np : seat) : astate :=
  match last_bidder s2 with
  | None => s2
  | Some lb =>
      let okx := negb (called_x s2) && negb (called_xx s2) && negb (same_side np lb) in
      let okxx := called_x s2 && negb (called_xx s2) && same_side np lb in
      mkA (dealer s2) (avul s2) (active s2) (last_bidder s2) (last_bid s2) (called_x s2) (called_xx s2)
          (rhist s2) (rphist s2) (decl_tab s2) (set_nth 37 okxx (set_nth 36 okx (avail s2)))
  end.

Definition step (s : astate) (p : seat) (c : call) : astate :=
  fixx (push_call (upd s p c) p c (Some (next p))) (next p).

Lemma take_bid_eq : forall s c, take_bid s c =
  match active s with
  | None => (s, Raises)
  | Some p =>
      if negb (nth (call_idx c) (avail s) false) then (s, Illegal)
      else if fin s c then (push_call s p c None, Finished)
      else (step s p c, Ongoing)
  end.
Proof. reflexivity. Qed.

(* fields of the state after an accepted, non-finishing call *)
Lemma step_rhist : forall s p c, rhist (step s p c) = c :: rhist s.
Proof. intros; unfold step, fixx, push_call, upd; destruct c; cbn; destruct (last_bidder s); reflexivity. Qed.
Lemma step_active : forall s p c, active (step s p c) = Some (next p).
Proof. intros; unfold step, fixx, push_call, upd; destruct c; cbn; destruct (last_bidder s); reflexivity. Qed.
Lemma step_dealer : forall s p c, dealer (step s p c) = dealer s.
Proof. intros; unfold step, fixx, push_call, upd; destruct c; cbn; destruct (last_bidder s); reflexivity. Qed.
Lemma step_avul : forall s p c, avul (step s p c) = avul s.
Proof. intros; unfold step, fixx, push_call, upd; destruct c; cbn; destruct (last_bidder s); reflexivity. Qed.
Lemma step_last_bid : forall s p c, last_bid (step s p c) =
  match c with Bid l st => Some (l, st) | _ => last_bid s end.
Proof. intros; unfold step, fixx, push_call, upd; destruct c; cbn; destruct (last_bidder s); reflexivity. Qed.
Lemma step_last_bidder : forall s p c, last_bidder (step s p c) =
  match c with Bid _ _ => Some p | _ => last_bidder s end.
Proof. intros; unfold step, fixx, push_call, upd; destruct c; cbn; destruct (last_bidder s); reflexivity. Qed.
Lemma step_called_x : forall s p c, called_x (step s p c) =
  match c with Bid _ _ => false | Dbl => true | _ => called_x s end.
Proof. intros; unfold step, fixx, push_call, upd; destruct c; cbn; destruct (last_bidder s); reflexivity. Qed.
Lemma step_called_xx : forall s p c, called_xx (step s p c) =
  match c with Bid _ _ => false | Rdbl => true | _ => called_xx s end.
Proof. intros; unfold step, fixx, push_call, upd; destruct c; cbn; destruct (last_bidder s); reflexivity. Qed.
Lemma step_rphist : forall s p c q, rphist (step s p c) q =
  if seat_beq q p then c :: rphist s q else rphist s q.
Proof. intros; unfold step, fixx, push_call, upd; destruct c; cbn; destruct (last_bidder s); reflexivity. Qed.
Lemma step_decl_tab : forall s p c, decl_tab (step s p c) =
  match c with
  | Bid _ st => match decl_tab s (side_of p) st with
                | None => fun sd st' => if side_beq sd (side_of p) && strain_beq st' st then Some p else decl_tab s sd st'
                | Some _ => decl_tab s end
  | _ => decl_tab s end.
Proof. intros; unfold step, fixx, push_call, upd; destruct c; cbn; destruct (last_bidder s); reflexivity. Qed.
Lemma step_avail : forall s p c, avail (step s p c) =
  let av1 := match c with Bid _ _ => zero_prefix (call_idx c + 1) (avail s) | _ => avail s end in
  match last_bidder (step s p c) with
  | None => av1
  | Some lb =>
      set_nth 37 (called_x (step s p c) && negb (called_xx (step s p c)) && same_side (next p) lb)
        (set_nth 36 (negb (called_x (step s p c)) && negb (called_xx (step s p c)) && negb (same_side (next p) lb)) av1)
  end.
Proof. intros; unfold step, fixx, push_call, upd; destruct c; cbn -[call_idx Nat.add set_nth zero_prefix]; destruct (last_bidder s); reflexivity. Qed.

(* ------------------------------------------------------------------ *)
(* Part 4: list helpers for the availability vector                     *)
(* ------------------------------------------------------------------ *)

Lemma nth_zero_prefix : forall k v i,
  nth i (zero_prefix k v) false = if i <? k then false else nth i v false.
Proof.
  induction k; intros v i.
  - destruct v; reflexivity.
  - destruct v as [|x v].
    + cbn [zero_prefix nth]. destruct i; destruct (_ <? _); reflexivity.
    + destruct i; [reflexivity|]. cbn [zero_prefix nth]. rewrite IHk. reflexivity.
Qed.

Lemma length_zero_prefix : forall k v, length (zero_prefix k v) = length v.
Proof. induction k; destruct v; cbn [zero_prefix length]; auto. Qed.

Lemma length_set_nth : forall j b v, length (set_nth j b v) = length v.
Proof. induction j; destruct v; cbn [set_nth length]; auto. Qed.

Lemma nth_set_nth : forall j b v i,
  nth i (set_nth j b v) false = if (i =? j) && (j <? length v) then b else nth i v false.
Proof.
  induction j; intros b v i.
  - destruct v; destruct i; reflexivity.
  - destruct v as [|x v].
    + cbn [set_nth nth length]. rewrite andb_false_r. reflexivity.
    + destruct i; [reflexivity|]. cbn [set_nth nth length]. rewrite IHj. reflexivity.
Qed.

Lemma call_idx_bid_lt : forall l s, call_idx (Bid l s) < 35.
Proof. destruct l, s as [[]|]; cbn; lia. Qed.

Lemma call_idx_lt : forall c, call_idx c < 38.
Proof. destruct c; [pose proof (call_idx_bid_lt l s); lia | cbn; lia ..]. Qed.

Lemma outranks_idx : forall l s l' s',
  outranks (l, s) (l', s') = (call_idx (Bid l' s') <? call_idx (Bid l s)).
Proof. destruct l, s as [[]|], l', s' as [[]|]; reflexivity. Qed.

(* ------------------------------------------------------------------ *)
(* Part 5: doubles and redoubles in terms of the flags                  *)
(* ------------------------------------------------------------------ *)

Lemma opp_same_side : forall a b, opponents a b = negb (same_side b a).
Proof. intros; unfold opponents, same_side. rewrite side_beq_sym. reflexivity. Qed.

Lemma cxr_pass : forall r, cxr (Pass :: r) = cxr r.
Proof. reflexivity. Qed.
Lemma cxxr_pass : forall r, cxxr (Pass :: r) = cxxr r.
Proof. reflexivity. Qed.
Lemma cxr_dbl : forall r, cxr (Dbl :: r) = true.
Proof. reflexivity. Qed.
Lemma cxxr_dbl : forall r, cxxr (Dbl :: r) = cxxr r.
Proof. reflexivity. Qed.
Lemma cxr_rdbl : forall r, cxr (Rdbl :: r) = cxr r.
Proof. reflexivity. Qed.
Lemma cxxr_rdbl : forall r, cxxr (Rdbl :: r) = true.
Proof. reflexivity. Qed.
Lemma cxr_bid : forall l s r, cxr (Bid l s :: r) = false.
Proof. reflexivity. Qed.
Lemma cxxr_bid : forall l s r, cxxr (Bid l s :: r) = false.
Proof. reflexivity. Qed.

Lemma legalD_spec : forall d rh me i b, last_bid_r rh = Some (i, b) ->
  legalD d rh me = negb (cxr rh) && negb (cxxr rh) && opponents (rot d i) me.
Proof.
  induction rh as [|c r IH]; intros me i b H; [discriminate|].
  destruct c.
  - cbn [last_bid_r] in H. inversion H; subst. reflexivity.
  - cbn [last_bid_r] in H. rewrite cxr_pass, cxxr_pass. rewrite <- (IH me i b H). reflexivity.
  - rewrite cxr_dbl. reflexivity.
  - rewrite cxxr_rdbl. unfold legalD; cbn [skip_passes]. rewrite andb_false_r. reflexivity.
Qed.

Lemma legalD_none : forall d rh me, last_bid_r rh = None -> legalD d rh me = false.
Proof.
  induction rh as [|c r IH]; intros me H; [reflexivity|].
  destruct c; cbn [last_bid_r] in H; try discriminate; try reflexivity.
  rewrite <- (IH me H). reflexivity.
Qed.

Lemma wf_nobid_allpass : forall d rh, wf d rh -> last_bid_r rh = None -> skip_passes rh = [].
Proof.
  induction rh as [|c r IH]; intros W H; [reflexivity|].
  destruct W as (L & E & W). specialize (IH W).
  destruct c; cbn [last_bid_r] in H; try discriminate.
  - cbn [skip_passes]. auto.
  - rewrite legal_rev in L. rewrite legalD_none in L by assumption. discriminate.
  - rewrite legal_rev in L. unfold legalR in L. rewrite (IH H) in L. discriminate.
Qed.

Lemma legalR_none : forall d rh me, wf d rh -> last_bid_r rh = None -> legalR d rh me = false.
Proof. intros d rh me W H. unfold legalR. rewrite (wf_nobid_allpass d rh W H). reflexivity. Qed.

Lemma side_flip : forall a b c, opponents a b = true -> opponents b c = same_side c a.
Proof.
  intros a b c. unfold opponents, same_side.
  destruct (side_of a), (side_of b), (side_of c); cbn; congruence.
Qed.

Lemma legalR_spec : forall d rh me i b, wf d rh -> last_bid_r rh = Some (i, b) ->
  legalR d rh me = cxr rh && negb (cxxr rh) && same_side me (rot d i).
Proof.
  induction rh as [|c r IH]; intros me i b W H; [discriminate|].
  destruct W as (L & E & W).
  destruct c; cbn [last_bid_r] in H.
  - reflexivity.
  - rewrite cxr_pass, cxxr_pass. rewrite <- (IH me i b W H). reflexivity.
  - rewrite cxr_dbl, cxxr_dbl. rewrite legal_rev in L.
    rewrite (legalD_spec d r _ i b H) in L.
    apply andb_prop in L. destruct L as [L1 L2]. apply andb_prop in L1. destruct L1 as [_ L1].
    rewrite L1. unfold legalR; cbn [skip_passes andb].
    apply side_flip. exact L2.
  - rewrite cxxr_rdbl. unfold legalR; cbn [skip_passes negb]. rewrite andb_false_r. reflexivity.
Qed.

(* the availability vector as a function of the history *)
Definition aspec (d : seat) (rh : list call) (i : nat) : bool :=
  if i <? 35 then
    match last_bid_r rh with None => true | Some (_, (l, s)) => call_idx (Bid l s) <? i end
  else if i =? 35 then true
  else match last_bid_r rh with
       | None => false
       | Some (j, _) =>
           if i =? 36 then negb (cxr rh) && negb (cxxr rh) && negb (same_side (rot d (length rh)) (rot d j))
           else cxr rh && negb (cxxr rh) && same_side (rot d (length rh)) (rot d j)
       end.

Lemma aspec_legal : forall d rh c, wf d rh -> aspec d rh (call_idx c) = legal d (rev rh) c.
Proof.
  intros d rh c W. rewrite legal_rev. unfold aspec. destruct c.
  - pose proof (call_idx_bid_lt l s) as B. apply Nat.ltb_lt in B. rewrite B.
    destruct (last_bid_r rh) as [[j [l' s']]|]; [|reflexivity].
    rewrite outranks_idx. reflexivity.
  - reflexivity.
  - cbn [call_idx Nat.ltb Nat.leb Nat.eqb].
    destruct (last_bid_r rh) as [[j b]|] eqn:H.
    + rewrite (legalD_spec d rh _ j b H). rewrite opp_same_side. reflexivity.
    + rewrite legalD_none by assumption. reflexivity.
  - cbn [call_idx Nat.ltb Nat.leb Nat.eqb].
    destruct (last_bid_r rh) as [[j b]|] eqn:H.
    + rewrite (legalR_spec d rh _ j b W H). reflexivity.
    + rewrite legalR_none by assumption. reflexivity.
Qed.

(* ------------------------------------------------------------------ *)
(* Part 6: personal histories, first namer, end of auction              *)
(* ------------------------------------------------------------------ *)

Lemma seat_beq_sym : forall a b, seat_beq a b = seat_beq b a.
Proof. destruct a, b; reflexivity. Qed.

Lemma pick_from_snoc : forall d p h c i,
  pick_from d p (h ++ [c]) i =
  pick_from d p h i ++ (if seat_beq (caller d (i + length h)) p then [c] else []).
Proof.
  induction h as [|x r IH]; intros c i.
  - cbn [app pick_from length]. rewrite Nat.add_0_r. destruct (seat_beq _ _); reflexivity.
  - cbn [app pick_from length]. rewrite IH. rewrite Nat.add_succ_r. cbn [Nat.add].
    destruct (seat_beq (caller d i) p); reflexivity.
Qed.

Lemma pick_cons_r : forall d q rh c,
  rev (pick d q (rev (c :: rh))) =
  if seat_beq q (rot d (length rh)) then c :: rev (pick d q (rev rh)) else rev (pick d q (rev rh)).
Proof.
  intros. unfold pick. cbn [rev]. rewrite pick_from_snoc. cbn [Nat.add]. rewrite rev_length.
  unfold caller. rewrite (seat_beq_sym q). destruct (seat_beq _ _).
  - rewrite rev_unit. reflexivity.
  - rewrite app_nil_r. reflexivity.
Qed.

Definition names (c : call) (st : strain) : bool :=
  match c with Bid _ s' => strain_beq s' st | _ => false end.

Lemma first_namer_from_snoc : forall d sd st h c j,
  first_namer_from d sd st (h ++ [c]) j =
  match first_namer_from d sd st h j with
  | Some x => Some x
  | None => if side_beq (side_of (caller d (j + length h))) sd && names c st
            then Some (caller d (j + length h)) else None end.
Proof.
  induction h as [|x r IH]; intros c j.
  - cbn [app first_namer_from length]. rewrite Nat.add_0_r. reflexivity.
  - cbn [app first_namer_from length]. rewrite IH. rewrite Nat.add_succ_r. cbn [Nat.add].
    destruct (_ && _); reflexivity.
Qed.

Lemma first_namer_cons_r : forall d sd st rh c,
  first_namer d sd st (rev (c :: rh)) =
  match first_namer d sd st (rev rh) with
  | Some x => Some x
  | None => if side_beq (side_of (rot d (length rh))) sd && names c st
            then Some (rot d (length rh)) else None end.
Proof.
  intros. unfold first_namer. cbn [rev]. rewrite first_namer_from_snoc. cbn [Nat.add].
  rewrite rev_length. reflexivity.
Qed.

Definition finc (rh : list call) : bool :=
  (3 <=? length rh) && match rh with Pass :: Pass :: _ => true | _ => false end.

Lemma no4 : forall d rest, wf d (Pass :: Pass :: Pass :: Pass :: rest) ->
  ended_r (Pass :: Pass :: Pass :: Pass :: rest) = false -> False.
Proof.
  induction rest as [|z rest IH]; intros W E.
  - discriminate.
  - destruct W as (_ & E' & W').
    destruct z; try discriminate E'. exact (IH W' E').
Qed.

Lemma finc_ended : forall d rh, wf d rh -> ended_r rh = false -> finc rh = ended_r (Pass :: rh).
Proof.
  intros d rh W E.
  destruct rh as [|[] [|[] [|x rest]]]; try reflexivity.
  destruct x; try reflexivity.
  destruct rest as [|y rest]; [reflexivity|].
  exfalso. destruct y; try discriminate E. exact (no4 d rest W E).
Qed.

Lemma ended_cons_pass : forall c rh, ended_r (c :: rh) = true -> c = Pass.
Proof. intros c rh H. destruct c; try discriminate. reflexivity. Qed.

(* ------------------------------------------------------------------ *)
(* Part 7: the invariant                                                *)
(* ------------------------------------------------------------------ *)

Record Inv (d : seat) (v : vul) (s : astate) : Prop := mkInv {
  I_dealer : dealer s = d;
  I_vul : avul s = v;
  I_wf : wf d (rhist s);
  I_active : active s = if ended_r (rhist s) then None else Some (rot d (length (rhist s)));
  I_lb : last_bid s = option_map snd (last_bid_r (rhist s));
  I_lbr : last_bidder s = option_map (fun x => rot d (fst x)) (last_bid_r (rhist s));
  I_cx : called_x s = cxr (rhist s);
  I_cxx : called_xx s = cxxr (rhist s);
  I_avlen : length (avail s) = 38;
  I_av : ended_r (rhist s) = false -> forall i, i < 38 -> nth i (avail s) false = aspec d (rhist s) i;
  I_tab : forall sd st, decl_tab s sd st = first_namer d sd st (rev (rhist s));
  I_ph : forall q, rphist s q = rev (pick d q (rev (rhist s)))
}.

Lemma Inv_init : forall d v, Inv d v (init d v).
Proof.
  intros d v. constructor; try reflexivity; try exact I.
  intros _ i Hi. cbn [init avail rhist].
    do 38 (destruct i as [|i]; [reflexivity|]). lia.
Qed.

Lemma Inv_active_some : forall d v s p, Inv d v s -> active s = Some p ->
  ended_r (rhist s) = false /\ p = rot d (length (rhist s)).
Proof.
  intros d v s p I H. rewrite (I_active d v s I) in H.
  destruct (ended_r (rhist s)); [discriminate|]. inversion H. auto.
Qed.

Lemma Inv_avail_legal : forall d v s c, Inv d v s -> active s <> None ->
  nth (call_idx c) (avail s) false = legal d (rev (rhist s)) c.
Proof.
  intros d v s c I H.
  destruct (active s) as [p|] eqn:A; [|congruence].
  destruct (Inv_active_some d v s p I A) as [E _].
  rewrite (I_av d v s I E _ (call_idx_lt c)).
  apply aspec_legal. exact (I_wf d v s I).
Qed.

Lemma aspec_nonbid : forall d rh c i, is_bid c = false -> i < 36 -> aspec d (c :: rh) i = aspec d rh i.
Proof.
  intros d rh c i B Hi. unfold aspec.
  assert (last_bid_r (c :: rh) = last_bid_r rh) as -> by (destruct c; [discriminate|reflexivity..]).
  destruct (i <? 35) eqn:H1; [reflexivity|].
  apply Nat.ltb_ge in H1. assert (i = 35) by lia. subst i. reflexivity.
Qed.

Lemma fin_finc : forall s, fin s Pass = finc (rhist s).
Proof. reflexivity. Qed.

Lemma Inv_finish : forall d v s p c, Inv d v s -> active s = Some p ->
  nth (call_idx c) (avail s) false = true -> fin s c = true ->
  Inv d v (push_call s p c None).
Proof.
  intros d v s p c I A L F.
  destruct (Inv_active_some d v s p I A) as [E Hp].
  assert (c = Pass) by (destruct c; try discriminate F; reflexivity). subst c.
  rewrite fin_finc in F. rewrite (finc_ended d _ (I_wf d v s I) E) in F.
  constructor; cbn [push_call dealer avul active last_bid last_bidder called_x called_xx rhist rphist decl_tab avail].
  - apply (I_dealer d v s I).
  - apply (I_vul d v s I).
  - cbn [wf]. split; [|split; [exact E | exact (I_wf d v s I)]].
    rewrite legal_rev. reflexivity.
  - rewrite F. reflexivity.
  - apply (I_lb d v s I).
  - apply (I_lbr d v s I).
  - apply (I_cx d v s I).
  - apply (I_cxx d v s I).
  - apply (I_avlen d v s I).
  - intros E'. congruence.
  - intros sd st. rewrite first_namer_cons_r. rewrite <- (I_tab d v s I).
    cbn [names]. rewrite andb_false_r. destruct (decl_tab s sd st); reflexivity.
  - intros q. rewrite pick_cons_r. rewrite <- (I_ph d v s I). rewrite Hp. reflexivity.
Qed.

Lemma ended_step : forall d s c, wf d (rhist s) -> ended_r (rhist s) = false ->
  fin s c = false -> ended_r (c :: rhist s) = false.
Proof.
  intros d s c W E F. destruct c; try reflexivity.
  rewrite fin_finc in F. rewrite <- (finc_ended d _ W E). exact F.
Qed.

Lemma Inv_step : forall d v s p c, Inv d v s -> active s = Some p ->
  nth (call_idx c) (avail s) false = true -> fin s c = false ->
  Inv d v (step s p c).
Proof.
  intros d v s p c I A L F.
  destruct (Inv_active_some d v s p I A) as [E Hp].
  assert (LG : legal d (rev (rhist s)) c = true).
  { rewrite <- (Inv_avail_legal d v s c I); [exact L | congruence]. }
  pose proof (ended_step d s c (I_wf d v s I) E F) as E2.
  constructor.
  - rewrite step_dealer. apply (I_dealer d v s I).
  - rewrite step_avul. apply (I_vul d v s I).
  - rewrite step_rhist. cbn [wf]. split; [exact LG | split; [exact E | exact (I_wf d v s I)]].
  - rewrite step_active, step_rhist, E2. cbn [length rot]. rewrite Hp. reflexivity.
  - rewrite step_last_bid, step_rhist. destruct c; cbn [last_bid_r option_map snd]; try apply (I_lb d v s I). reflexivity.
  - rewrite step_last_bidder, step_rhist. destruct c; cbn [last_bid_r option_map fst]; try apply (I_lbr d v s I).
    rewrite Hp. reflexivity.
  - rewrite step_called_x, step_rhist. destruct c; try reflexivity; apply (I_cx d v s I).
  - rewrite step_called_xx, step_rhist. destruct c; try reflexivity; apply (I_cxx d v s I).
  - rewrite step_avail. cbv zeta. destruct (last_bidder (step s p c)); rewrite ?length_set_nth;
      destruct c; rewrite ?length_zero_prefix; apply (I_avlen d v s I).
  - intros _ i Hi. rewrite step_avail, step_rhist. cbv zeta.
    rewrite step_last_bidder, step_called_x, step_called_xx.
    pose proof (I_avlen d v s I) as AL.
    pose proof (I_av d v s I E) as AV.
    destruct c as [l st| | |].
    + rewrite !nth_set_nth, !length_set_nth, length_zero_prefix, nth_zero_prefix, AL.
      change (37 <? 38) with true. change (36 <? 38) with true. rewrite !andb_true_r.
      pose proof (call_idx_bid_lt l st) as K.
      assert (i = 37 \/ i = 36 \/ i = 35 \/ i < 35) as [->|[->|[->|Hlt]]] by lia.
      * reflexivity.
      * rewrite Hp. reflexivity.
      * change (35 =? 37) with false. change (35 =? 36) with false. cbv iota.
        destruct (35 <? call_idx (Bid l st) + 1) eqn:Q; [apply Nat.ltb_lt in Q; lia|].
        rewrite AV by lia. reflexivity.
      * replace (i =? 37) with false by (symmetry; apply Nat.eqb_neq; lia).
        replace (i =? 36) with false by (symmetry; apply Nat.eqb_neq; lia).
        rewrite AV by lia. unfold aspec. cbn [last_bid_r].
        replace (i <? 35) with true by (symmetry; apply Nat.ltb_lt; lia).
        rewrite legal_rev in LG.
        destruct (i <? call_idx (Bid l st) + 1) eqn:Q.
        -- apply Nat.ltb_lt in Q. symmetry. apply Nat.ltb_ge. lia.
        -- apply Nat.ltb_ge in Q.
           replace (call_idx (Bid l st) <? i) with true by (symmetry; apply Nat.ltb_lt; lia).
           destruct (last_bid_r (rhist s)) as [[j [l' s']]|]; [|reflexivity].
           rewrite outranks_idx in LG. apply Nat.ltb_lt in LG. apply Nat.ltb_lt. lia.
    + rewrite (I_lbr d v s I), (I_cx d v s I), (I_cxx d v s I).
      destruct (last_bid_r (rhist s)) as [[j b]|] eqn:LB; cbn [option_map fst].
      * rewrite !nth_set_nth, !length_set_nth, AL.
        change (37 <? 38) with true. change (36 <? 38) with true. rewrite !andb_true_r.
        assert (i = 37 \/ i = 36 \/ i < 36) as [->|[->|Hlt]] by lia.
        -- unfold aspec. cbn [Nat.ltb Nat.leb Nat.eqb last_bid_r]. rewrite LB, Hp. reflexivity.
        -- unfold aspec. cbn [Nat.ltb Nat.leb Nat.eqb last_bid_r]. rewrite LB, Hp. reflexivity.
        -- replace (i =? 37) with false by (symmetry; apply Nat.eqb_neq; lia).
           replace (i =? 36) with false by (symmetry; apply Nat.eqb_neq; lia).
           rewrite aspec_nonbid by (auto; lia). apply AV; lia.
      * rewrite AV by lia. unfold aspec. cbn [last_bid_r]. rewrite LB. reflexivity.
    + rewrite (I_lbr d v s I), (I_cxx d v s I).
      destruct (last_bid_r (rhist s)) as [[j b]|] eqn:LB; cbn [option_map fst].
      * rewrite !nth_set_nth, !length_set_nth, AL.
        change (37 <? 38) with true. change (36 <? 38) with true. rewrite !andb_true_r.
        assert (i = 37 \/ i = 36 \/ i < 36) as [->|[->|Hlt]] by lia.
        -- unfold aspec. cbn [Nat.ltb Nat.leb Nat.eqb last_bid_r]. rewrite LB, Hp. reflexivity.
        -- unfold aspec. cbn [Nat.ltb Nat.leb Nat.eqb last_bid_r]. rewrite LB, Hp. reflexivity.
        -- replace (i =? 37) with false by (symmetry; apply Nat.eqb_neq; lia).
           replace (i =? 36) with false by (symmetry; apply Nat.eqb_neq; lia).
           rewrite aspec_nonbid by (auto; lia). apply AV; lia.
      * rewrite AV by lia. unfold aspec. cbn [last_bid_r]. rewrite LB. reflexivity.
    + rewrite (I_lbr d v s I), (I_cx d v s I).
      destruct (last_bid_r (rhist s)) as [[j b]|] eqn:LB; cbn [option_map fst].
      * rewrite !nth_set_nth, !length_set_nth, AL.
        change (37 <? 38) with true. change (36 <? 38) with true. rewrite !andb_true_r.
        assert (i = 37 \/ i = 36 \/ i < 36) as [->|[->|Hlt]] by lia.
        -- unfold aspec. cbn [Nat.ltb Nat.leb Nat.eqb last_bid_r]. rewrite LB, Hp. reflexivity.
        -- unfold aspec. cbn [Nat.ltb Nat.leb Nat.eqb last_bid_r]. rewrite LB, Hp. reflexivity.
        -- replace (i =? 37) with false by (symmetry; apply Nat.eqb_neq; lia).
           replace (i =? 36) with false by (symmetry; apply Nat.eqb_neq; lia).
           rewrite aspec_nonbid by (auto; lia). apply AV; lia.
      * rewrite AV by lia. unfold aspec. cbn [last_bid_r]. rewrite LB. reflexivity.
  - intros sd st'. rewrite step_decl_tab, step_rhist, first_namer_cons_r, <- (I_tab d v s I).
    rewrite <- Hp. destruct c as [l st| | |];
      try (cbn [names]; rewrite andb_false_r; destruct (decl_tab s sd st'); reflexivity).
    cbn [names].
    destruct (decl_tab s (side_of p) st) eqn:T.
    + destruct (decl_tab s sd st') eqn:T2; [reflexivity|].
      destruct (side_beq (side_of p) sd && strain_beq st st') eqn:Q; [|reflexivity].
      apply andb_prop in Q. destruct Q as [Q1 Q2].
      apply side_beq_true in Q1. apply strain_beq_true in Q2. subst. congruence.
    + rewrite (side_beq_sym sd), (strain_beq_sym st').
      destruct (side_beq (side_of p) sd && strain_beq st st') eqn:Q.
      * apply andb_prop in Q. destruct Q as [Q1 Q2].
        apply side_beq_true in Q1. apply strain_beq_true in Q2. subst. rewrite T. reflexivity.
      * destruct (decl_tab s sd st'); reflexivity.
  - intros q. rewrite step_rphist, step_rhist, pick_cons_r, <- (I_ph d v s I), Hp. reflexivity.
Qed.

(* ------------------------------------------------------------------ *)
(* Part 8: reachable states satisfy the invariant                       *)
(* ------------------------------------------------------------------ *)

Lemma Inv_offer : forall d v s c, Inv d v s -> Inv d v (offer s c).
Proof.
  intros d v s c I. unfold offer. rewrite take_bid_eq.
  destruct (active s) as [p|] eqn:A; [|exact I].
  destruct (nth (call_idx c) (avail s) false) eqn:L; cbn [negb]; [|exact I].
  destruct (fin s c) eqn:F; cbn [fst].
  - apply Inv_finish; assumption.
  - apply Inv_step; assumption.
Qed.

Lemma Inv_fold : forall d v offers s, Inv d v s -> Inv d v (fold_left offer offers s).
Proof.
  induction offers as [|c r IH]; intros s I; [exact I|].
  cbn [fold_left]. apply IH. apply Inv_offer. exact I.
Qed.

Lemma Inv_reach : forall d v offers, Inv d v (reach d v offers).
Proof. intros. unfold reach. apply Inv_fold. apply Inv_init. Qed.

(* ------------------------------------------------------------------ *)
(* Part 9: the listed statements                                        *)
(* ------------------------------------------------------------------ *)

(* ---- C01 ---- *)
Lemma vector_is_legal_set : forall d v offers c,
  active (reach d v offers) <> None ->
  nth (call_idx c) (avail (reach d v offers)) false = legal d (hist (reach d v offers)) c.
Proof. intros d v offers c H. unfold hist. apply (Inv_avail_legal d v); [apply Inv_reach | exact H]. Qed.

Lemma outcome_cases : forall s c,
  snd (take_bid s c) =
  match active s with
  | None => Raises
  | Some _ => if nth (call_idx c) (avail s) false then (if fin s c then Finished else Ongoing) else Illegal
  end.
Proof.
  intros. rewrite take_bid_eq. destruct (active s); [|reflexivity].
  destruct (nth _ _ _); cbn [negb]; [|reflexivity]. destruct (fin s c); reflexivity.
Qed.

Lemma accept_iff_legal : forall d v offers c,
  active (reach d v offers) <> None ->
  (snd (take_bid (reach d v offers) c) = Ongoing \/ snd (take_bid (reach d v offers) c) = Finished)
  <-> legal d (hist (reach d v offers)) c = true.
Proof.
  intros d v offers c H. rewrite <- (vector_is_legal_set d v offers c H).
  rewrite outcome_cases. destruct (active (reach d v offers)); [|congruence].
  destruct (nth _ _ _).
  - destruct (fin _ _); split; auto.
  - split; [intros [?|?]; discriminate | discriminate].
Qed.

Lemma illegal_iff_not_legal : forall d v offers c,
  active (reach d v offers) <> None ->
  snd (take_bid (reach d v offers) c) = Illegal <-> legal d (hist (reach d v offers)) c = false.
Proof.
  intros d v offers c H. rewrite <- (vector_is_legal_set d v offers c H).
  rewrite outcome_cases. destruct (active (reach d v offers)); [|congruence].
  destruct (nth _ _ _).
  - destruct (fin _ _); split; discriminate.
  - split; reflexivity.
Qed.

Lemma rejected_is_noop : forall s c, snd (take_bid s c) = Illegal -> fst (take_bid s c) = s.
Proof.
  intros s c. rewrite take_bid_eq. destruct (active s); [|reflexivity].
  destruct (nth _ _ _); cbn [negb]; [|reflexivity].
  destruct (fin s c); cbn [snd]; intros H; discriminate H.
Qed.

Lemma accepted_appends : forall s c,
  snd (take_bid s c) = Ongoing \/ snd (take_bid s c) = Finished ->
  hist (fst (take_bid s c)) = hist s ++ [c].
Proof.
  intros s c. rewrite take_bid_eq. destruct (active s); [|cbn [snd]; intros [?|?]; discriminate].
  destruct (nth _ _ _); cbn [negb]; [|cbn [snd]; intros [?|?]; discriminate].
  destruct (fin s c); cbn [fst]; intros _; unfold hist.
  - reflexivity.
  - rewrite step_rhist. reflexivity.
Qed.

Lemma avail_length : forall d v offers, length (avail (reach d v offers)) = 38.
Proof. intros. apply (I_avlen d v). apply Inv_reach. Qed.

(* ---- C02 ---- *)
Lemma turn : forall d v offers,
  active (reach d v offers) =
  if ended (hist (reach d v offers)) then None else Some (caller d (length (hist (reach d v offers)))).
Proof.
  intros. unfold hist, caller. rewrite ended_rev, rev_length.
  apply (I_active d v). apply Inv_reach.
Qed.

Lemma personal_histories : forall d v offers p,
  phist (reach d v offers) p = pick d p (hist (reach d v offers)).
Proof.
  intros. unfold phist, hist. rewrite (I_ph d v _ (Inv_reach d v offers)).
  apply rev_involutive.
Qed.

Lemma wf_app_not_ended : forall d a b, wf d (a ++ b) -> a <> [] -> ended_r b = false.
Proof.
  induction a as [|x a IH]; intros b W N; [congruence|].
  cbn [app wf] in W. destruct W as (_ & E & W).
  destruct a as [|y a]; [exact E|]. apply IH; [exact W | discriminate].
Qed.

Lemma no_proper_prefix_ended : forall d v offers pre suf,
  hist (reach d v offers) = pre ++ suf -> suf <> [] -> ended pre = false.
Proof.
  intros d v offers pre suf H N.
  pose proof (I_wf d v _ (Inv_reach d v offers)) as W.
  unfold hist in H. apply (f_equal (@rev call)) in H.
  rewrite rev_involutive, rev_app_distr in H. rewrite H in W.
  rewrite <- (rev_involutive pre). rewrite ended_rev.
  apply (wf_app_not_ended d (rev suf)); [exact W|].
  intro Q. apply N. rewrite <- (rev_involutive suf), Q. reflexivity.
Qed.

Lemma after_end : forall s c, active s = None -> take_bid s c = (s, Raises).
Proof. intros s c H. rewrite take_bid_eq, H. reflexivity. Qed.

Lemma ended_snoc : forall rh c, ended (rev rh ++ [c]) = ended_r (c :: rh).
Proof. intros. rewrite <- ended_rev. reflexivity. Qed.

Lemma finished_iff_ended : forall d v offers c,
  snd (take_bid (reach d v offers) c) = Finished <->
  (active (reach d v offers) <> None /\ legal d (hist (reach d v offers)) c = true /\
   ended (hist (reach d v offers) ++ [c]) = true).
Proof.
  intros d v offers c.
  pose proof (Inv_reach d v offers) as I. set (s := reach d v offers) in *.
  rewrite outcome_cases. unfold hist. rewrite ended_snoc.
  destruct (active s) as [p|] eqn:A.
  2:{ split; [discriminate | intros (N & _); congruence]. }
  rewrite <- (Inv_avail_legal d v s c I) by congruence.
  destruct (Inv_active_some d v s p I A) as [E Hp].
  destruct (nth _ _ _).
  2:{ split; [discriminate | intros (_ & Q & _); discriminate]. }
  destruct (fin s c) eqn:F.
  - split; [intros _|reflexivity]. split; [discriminate|split; [reflexivity|]].
    assert (c = Pass) by (destruct c; try discriminate F; reflexivity). subst c.
    rewrite fin_finc in F. rewrite <- (finc_ended d _ (I_wf d v s I) E). exact F.
  - split; [discriminate|]. intros (_ & _ & Q). exfalso.
    rewrite (ended_step d s c (I_wf d v s I) E F) in Q. discriminate.
Qed.

(* ---- C03 ---- *)
Lemma recent_split : forall rh i b, last_bid_r rh = Some (i, b) ->
  skipn (S i) (rev rh) = rev (recent rh).
Proof.
  induction rh as [|c r IH]; intros i b H; [discriminate|].
  assert (G : forall x, is_bid x = false -> last_bid_r r = Some (i, b) ->
              skipn (S i) (rev r ++ [x]) = rev (recent r) ++ [x]).
  { intros x _ H'. rewrite <- (IH i b H').
    assert (S i <= length (rev r)).
    { rewrite rev_length. clear - H'. revert i b H'. induction r as [|y r IHr]; intros i b H; [discriminate|].
      destruct y; cbn [last_bid_r] in H; cbn [length];
        try (specialize (IHr i b H); lia). inversion H. lia. }
    rewrite skipn_app. replace (S i - length (rev r)) with 0 by lia. reflexivity. }
  destruct c; cbn [last_bid_r] in H; cbn [rev recent].
  - inversion H; subst. rewrite skipn_app, rev_length.
    replace (S (length r) - length r) with 1 by lia.
    rewrite skipn_all2 by (rewrite rev_length; lia). reflexivity.
  - apply G; auto.
  - apply G; auto.
  - apply G; auto.
Qed.

Lemma existsb_rev : forall (f : call -> bool) l, existsb f (rev l) = existsb f l.
Proof.
  intros f l. induction l as [|x l IH]; [reflexivity|].
  cbn [rev existsb]. rewrite existsb_app, IH. cbn [existsb]. rewrite orb_false_r. apply orb_comm.
Qed.

Lemma contract_at_end : forall d v offers,
  active (reach d v offers) = None ->
  contract_of (reach d v offers) = Some (contract_spec d v (hist (reach d v offers))).
Proof.
  intros d v offers A.
  pose proof (Inv_reach d v offers) as I. set (s := reach d v offers) in *.
  unfold contract_of, contract_spec, hist, last_bid_of. rewrite A, rev_involutive.
  rewrite (I_lb d v s I), (I_lbr d v s I), (I_vul d v s I).
  destruct (last_bid_r (rhist s)) as [[i [l st]]|] eqn:LB; cbn [option_map fst snd]; [|reflexivity].
  rewrite (recent_split _ _ _ LB), !existsb_rev.
  rewrite (I_cx d v s I), (I_cxx d v s I), (I_tab d v s I). reflexivity.
Qed.

Lemma no_contract_before_end : forall d v offers,
  active (reach d v offers) <> None -> contract_of (reach d v offers) = None.
Proof.
  intros d v offers H. unfold contract_of. destruct (active (reach d v offers)); congruence.
Qed.

Lemma redouble_is_of_own_sides_bid : forall d v offers,
  let s := reach d v offers in
  active s <> None -> legal d (hist s) Rdbl = true ->
  exists i b, last_bid_of (hist s) = Some (i, b) /\ opponents (caller d i) (caller d (length (hist s))) = false.
Proof.
  intros d v offers s A L.
  pose proof (Inv_reach d v offers) as I. fold s in I.
  unfold hist in *. unfold last_bid_of, caller. rewrite rev_involutive, rev_length.
  rewrite legal_rev in L.
  destruct (last_bid_r (rhist s)) as [[i b]|] eqn:LB.
  - exists i, b. split; [reflexivity|].
    rewrite (legalR_spec d _ _ i b (I_wf d v s I) LB) in L.
    apply andb_prop in L. destruct L as [_ L].
    rewrite opp_same_side, L. reflexivity.
  - rewrite (legalR_none d _ _ (I_wf d v s I) LB) in L. discriminate.
Qed.

(* ------------------------------------------------------------------ *)
(* Part 10: the length bound                                            *)
(* ------------------------------------------------------------------ *)

Fixpoint tp (rh : list call) : nat := match rh with Pass :: r => S (tp r) | _ => 0 end.
Definition b2n (b : bool) : nat := if b then 1 else 0.

Lemma length_recent : forall rh i b, last_bid_r rh = Some (i, b) ->
  length rh = S i + length (recent rh).
Proof.
  induction rh as [|c r IH]; intros i b H; [discriminate|].
  destruct c; cbn [last_bid_r] in H; cbn [recent length];
    try (rewrite (IH i b H); lia).
  inversion H. lia.
Qed.

Lemma tp_le2 : forall d rh i b, wf d rh -> last_bid_r rh = Some (i, b) ->
  ended_r rh = false -> tp rh <= 2.
Proof.
  intros d rh i b W H E.
  destruct rh as [|[] [|[] [|[] rest]]]; cbn [tp]; try lia.
  destruct rest as [|y rest]; [discriminate H|].
  exfalso. destruct y; try discriminate E. exact (no4 d rest W E).
Qed.

Lemma allpass_le3 : forall d r, wf d r -> skip_passes r = [] -> ended_r r = false -> length r <= 3.
Proof.
  intros d r W S E.
  destruct r as [|[] [|[] [|[] [|y rest]]]]; cbn [length]; try lia; try discriminate S; try discriminate E.
  exfalso. destruct y; try discriminate E. exact (no4 d rest W E).
Qed.

Lemma recent_bound : forall d rh, wf d rh ->
  length (recent rh) <= 3 * (b2n (cxr rh) + b2n (cxxr rh)) + tp rh.
Proof.
  induction rh as [|c r IH]; intros W; [cbn; lia|].
  destruct W as (L & E & W). specialize (IH W).
  destruct c.
  - cbn; lia.
  - rewrite cxr_pass, cxxr_pass. cbn [recent length tp]. lia.
  - rewrite cxr_dbl, cxxr_dbl. cbn [recent length tp b2n].
    rewrite legal_rev in L.
    destruct (last_bid_r r) as [[i b]|] eqn:LB; [|rewrite legalD_none in L by assumption; discriminate].
    rewrite (legalD_spec d r _ i b LB) in L.
    apply andb_prop in L. destruct L as [L _]. apply andb_prop in L. destruct L as [L1 L2].
    apply negb_true_iff in L1. apply negb_true_iff in L2. rewrite L1, L2 in IH. cbn [b2n] in *.
    pose proof (tp_le2 d r i b W LB E). lia.
  - rewrite cxr_rdbl, cxxr_rdbl. cbn [recent length tp b2n].
    rewrite legal_rev in L.
    destruct (last_bid_r r) as [[i b]|] eqn:LB; [|rewrite legalR_none in L by assumption; discriminate].
    rewrite (legalR_spec d r _ i b W LB) in L.
    apply andb_prop in L. destruct L as [L _]. apply andb_prop in L. destruct L as [L1 L2].
    apply negb_true_iff in L2. rewrite L1, L2 in *. cbn [b2n] in *.
    pose proof (tp_le2 d r i b W LB E). lia.
Qed.

Lemma b2n_le1 : forall b, b2n b <= 1.
Proof. destruct b; cbn; lia. Qed.

Lemma bid_position_bound : forall d rh i l s, wf d rh -> last_bid_r rh = Some (i, (l, s)) ->
  i <= 3 + 9 * call_idx (Bid l s).
Proof.
  induction rh as [|c r IH]; intros i l s W H; [discriminate|].
  pose proof W as (L & E & W').
  destruct c as [l0 s0| | |]; cbn [last_bid_r] in H; try (exact (IH i l s W' H)).
  inversion H; subst. clear H.
  rewrite legal_rev in L.
  destruct (last_bid_r r) as [[j [l' s']]|] eqn:LB.
  - rewrite outranks_idx in L. apply Nat.ltb_lt in L.
    pose proof (IH j l' s' W' eq_refl) as B.
    rewrite (length_recent r j _ LB).
    pose proof (recent_bound d r W').
    pose proof (tp_le2 d r j _ W' LB E).
    pose proof (b2n_le1 (cxr r)). pose proof (b2n_le1 (cxxr r)). lia.
  - pose proof (allpass_le3 d r W' (wf_nobid_allpass d r W' LB) E). lia.
Qed.

Lemma wf_length : forall d rh, wf d rh -> length rh <= 319.
Proof.
  intros d rh W.
  destruct (last_bid_r rh) as [[i [l s]]|] eqn:LB.
  - rewrite (length_recent rh i _ LB).
    pose proof (bid_position_bound d rh i l s W LB).
    pose proof (call_idx_bid_lt l s).
    pose proof (recent_bound d rh W).
    pose proof (b2n_le1 (cxr rh)). pose proof (b2n_le1 (cxxr rh)).
    assert (tp rh <= 3).
    { destruct rh as [|c r]; [cbn; lia|]. destruct W as (_ & E & W').
      destruct c; cbn [tp]; try lia. cbn [last_bid_r] in LB.
      pose proof (tp_le2 d r i _ W' LB E). lia. }
    lia.
  - destruct rh as [|c r]; [cbn; lia|]. destruct W as (_ & E & W').
    assert (last_bid_r r = None) by (destruct c; cbn [last_bid_r] in LB; [discriminate|assumption..]).
    pose proof (allpass_le3 d r W' (wf_nobid_allpass d r W' H) E). cbn [length]. lia.
Qed.

Lemma length_bound : forall d v offers, length (hist (reach d v offers)) <= 319.
Proof.
  intros. unfold hist. rewrite rev_length.
  apply (wf_length d). apply (I_wf d v). apply Inv_reach.
Qed.

(* ------------------------------------------------------------------ *)
(* Part 11: non-vacuity examples                                        *)
(* ------------------------------------------------------------------ *)

(* outcomes of offering a list of calls one by one *)
Fixpoint run (s : astate) (l : list call) : list outcome :=
  match l with
  | [] => []
  | c :: r => snd (take_bid s c) :: run (fst (take_bid s c)) r end.

Example ex_redoubled_contract :
  contract_of (reach North VNS [Bid L1 NT; Dbl; Rdbl; Pass; Pass; Pass]) =
  Some (mkcontract (Some (L1, NT)) true true VNS (Some North))
  /\ run (init North VNS) [Bid L1 NT; Dbl; Rdbl; Pass; Pass; Pass] =
     [Ongoing; Ongoing; Ongoing; Ongoing; Ongoing; Finished].
Proof. vm_compute; split; reflexivity. Qed.

Example ex_declarer_is_first_namer :
  contract_of (reach East VNone [Pass; Bid L1 (Tr He); Pass; Bid L2 (Tr He); Pass; Bid L4 (Tr He); Dbl; Pass; Pass; Pass]) =
  Some (mkcontract (Some (L4, Tr He)) true false VNone (Some South)).
Proof. vm_compute; reflexivity. Qed.

Example ex_passed_out :
  contract_of (reach South VBoth [Pass; Pass; Pass; Pass]) = Some (mkcontract None false false VBoth None)
  /\ run (init South VBoth) [Pass; Pass; Pass; Pass; Pass] = [Ongoing; Ongoing; Ongoing; Finished; Raises].
Proof. vm_compute; split; reflexivity. Qed.

Example ex_refusals :
  run (init West VNone) [Dbl; Rdbl; Bid L2 (Tr Cl); Bid L1 NT; Bid L2 (Tr Cl); Rdbl; Pass; Dbl; Pass; Dbl; Dbl; Rdbl; Rdbl] =
  [Illegal; Illegal; Ongoing; Illegal; Illegal; Illegal; Ongoing; Illegal; Ongoing; Ongoing; Illegal; Ongoing; Illegal].
Proof. vm_compute; reflexivity. Qed.

Definition full_round (c : call) : list call := [c; Pass; Pass; Dbl; Pass; Pass; Rdbl; Pass; Pass].
Definition longest : list call := [Pass; Pass; Pass] ++ flat_map full_round all_bids ++ [Pass].

Example ex_longest_accepted :
  length longest = 319
  /\ run (init North VNone) longest = repeat Ongoing 318 ++ [Finished]
  /\ length (hist (reach North VNone longest)) = 319
  /\ hist (reach North VNone longest) = longest
  /\ contract_of (reach North VNone longest) = Some (mkcontract (Some (L7, NT)) true true VNone (Some West)).
Proof. vm_compute; repeat split; reflexivity. Qed.

(* ------------------------------------------------------------------ *)
Print Assumptions vector_is_legal_set.
Print Assumptions accept_iff_legal.
Print Assumptions illegal_iff_not_legal.
Print Assumptions rejected_is_noop.
Print Assumptions accepted_appends.
Print Assumptions avail_length.
Print Assumptions turn.
Print Assumptions personal_histories.
Print Assumptions no_proper_prefix_ended.
Print Assumptions after_end.
Print Assumptions finished_iff_ended.
Print Assumptions length_bound.
Print Assumptions contract_at_end.
Print Assumptions no_contract_before_end.
Print Assumptions redouble_is_of_own_sides_bid.
Print Assumptions ex_longest_accepted.
