(* Proofs about the auction model (Model/Auction.v) against the Laws (Spec/Laws.v).
   Method: one invariant [Inv] relating every cached field of the state to a function of
   the reversed history [rhist]; preserved by [offer]; lifted to [reach]. *)
From BE Require Import Model.Auction Spec.Laws.
From Coq Require Import Lia.
Local Open Scope nat_scope.

(* ------------------------------------------------------------------ *)
(* Part 1: small facts on seats, sides, strains                         *)
(* ------------------------------------------------------------------ *)

Lemma side_beq_refl : forall a, side_beq a a = true.
Proof. destruct a; reflexivity. Qed.
Lemma side_beq_sym : forall a b, side_beq a b = side_beq b a.
Proof. destruct a, b; reflexivity. Qed.
Lemma side_beq_true : forall a b, side_beq a b = true -> a = b.
Proof. destruct a, b; simpl; congruence. Qed.
Lemma strain_beq_sym : forall a b, strain_beq a b = strain_beq b a.
Proof. destruct a as [[]|], b as [[]|]; reflexivity. Qed.
Lemma strain_beq_true : forall a b, strain_beq a b = true -> a = b.
Proof. destruct a as [[]|], b as [[]|]; simpl; congruence. Qed.
Lemma strain_beq_refl : forall a, strain_beq a a = true.
Proof. destruct a as [[]|]; reflexivity. Qed.
Lemma seat_beq_refl : forall a, seat_beq a a = true.
Proof. destruct a; reflexivity. Qed.

Lemma rot_S : forall d n, rot d (S n) = next (rot d n).
Proof. reflexivity. Qed.

(* ------------------------------------------------------------------ *)
(* Part 2: the specification restated on the reversed history           *)
(* ------------------------------------------------------------------ *)

Definition ended_r (rh : list call) : bool :=
  match rh with
  | [Pass; Pass; Pass; Pass] => true
  | Pass :: Pass :: Pass :: c :: _ => negb (call_beq c Pass)
  | _ => false end.

Lemma ended_rev : forall rh, ended (rev rh) = ended_r rh.
Proof. intros; unfold ended; rewrite rev_involutive; reflexivity. Qed.

Definition legalD (d : seat) (rh : list call) (me : seat) : bool :=
  match skip_passes rh with Bid _ _ :: r => opponents (rot d (length r)) me | _ => false end.
Definition legalR (d : seat) (rh : list call) (me : seat) : bool :=
  match skip_passes rh with Dbl :: r => opponents (rot d (length r)) me | _ => false end.

Lemma legal_rev : forall d rh c, legal d (rev rh) c =
  match c with
  | Pass => true
  | Bid l s => match last_bid_r rh with None => true | Some (_, b') => outranks (l, s) b' end
  | Dbl => legalD d rh (rot d (length rh))
  | Rdbl => legalR d rh (rot d (length rh)) end.
Proof.
  intros; unfold legal, last_bid_of, last_nonpass, caller, legalD, legalR.
  rewrite rev_involutive, rev_length.
  destruct c; try reflexivity; destruct (skip_passes rh) as [|[] ?]; reflexivity.
Qed.

(* the calls made after (newer than) the last bid *)
Fixpoint recent (rh : list call) : list call :=
  match rh with [] => [] | Bid _ _ :: _ => [] | c :: r => c :: recent r end.
Definition cxr (rh : list call) : bool := existsb (call_beq Dbl) (recent rh).
Definition cxxr (rh : list call) : bool := existsb (call_beq Rdbl) (recent rh).

(* every call of the history was legal when made, and the auction had not ended before it *)
Fixpoint wf (d : seat) (rh : list call) : Prop :=
  match rh with
  | [] => True
  | c :: r => legal d (rev r) c = true /\ ended_r r = false /\ wf d r end.

(* ------------------------------------------------------------------ *)
(* Part 3: the model's transition, restructured                         *)
(* ------------------------------------------------------------------ *)

Definition fin (s : astate) (c : call) : bool :=
  match c with
  | Pass => (3 <=? length (rhist s)) &&
            match rhist s with Pass :: Pass :: _ => true | _ => false end
  | _ => false end.

Definition upd (s : astate) (p : seat) (c : call) : astate :=
  match c with
  | Pass => s
  | Dbl => mkA (dealer s) (avul s) (active s) (last_bidder s) (last_bid s) true (called_xx s)
               (rhist s) (rphist s) (decl_tab s) (avail s)
  | Rdbl => mkA (dealer s) (avul s) (active s) (last_bidder s) (last_bid s) (called_x s) true
                (rhist s) (rphist s) (decl_tab s) (avail s)
  | Bid l st =>
      let tab := decl_tab s in
      let tab' := match tab (side_of p) st with
                  | None => fun sd st' => if side_beq sd (side_of p) && strain_beq st' st then Some p else tab sd st'
                  | Some _ => tab end in
      mkA (dealer s) (avul s) (active s) (Some p) (Some (l, st)) false false
          (rhist s) (rphist s) tab' (zero_prefix (call_idx c + 1) (avail s))
  end.

Definition fixx (s2 : astate) (np : seat) : astate :=
  match last_bidder s2 with
  | None => s2
  | Some lb =>
      let okx := negb (called_x s2) && negb (called_xx s2) && negb (same_side np lb) in
      let okxx := called_x s2 && negb (called_xx s2) && same_side np lb in
      mkA (dealer s2) (avul s2) (active s2) (last_bidder s2) (last_bid s2) (called_x s2) (called_xx s2)
          (rhist s2) (rphist s2) (decl_tab s2) (set_nth 37 okxx (set_nth 36 okx (avail s2)))
  end.

Definition step (s : astate) (p : seat) (c : call) : astate :=
  fixx (push_call (upd s p c) p c (Some (next p))) (next p).

Lemma take_bid_eq : forall s c, take_bid s c =
  match active s with
  | None => (s, Raises)
  | Some p =>
      if negb (nth (call_idx c) (avail s) false) then (s, Illegal)
      else if fin s c then (push_call s p c None, Finished)
      else (step s p c, Ongoing)
  end.
Proof. reflexivity. Qed.

(* fields of the state after an accepted, non-finishing call *)
Lemma step_rhist : forall s p c, rhist (step s p c) = c :: rhist s.
Proof. intros; unfold step, fixx, push_call, upd; destruct c; cbn; destruct (last_bidder s); reflexivity. Qed.
Lemma step_active : forall s p c, active (step s p c) = Some (next p).
Proof. intros; unfold step, fixx, push_call, upd; destruct c; cbn; destruct (last_bidder s); reflexivity. Qed.
Lemma step_dealer : forall s p c, dealer (step s p c) = dealer s.
Proof. intros; unfold step, fixx, push_call, upd; destruct c; cbn; destruct (last_bidder s); reflexivity. Qed.
Lemma step_avul : forall s p c, avul (step s p c) = avul s.
Proof. intros; unfold step, fixx, push_call, upd; destruct c; cbn; destruct (last_bidder s); reflexivity. Qed.
Lemma step_last_bid : forall s p c, last_bid (step s p c) =
  match c with Bid l st => Some (l, st) | _ => last_bid s end.
Proof. intros; unfold step, fixx, push_call, upd; destruct c; cbn; destruct (last_bidder s); reflexivity. Qed.
Lemma step_last_bidder : forall s p c, last_bidder (step s p c) =
  match c with Bid _ _ => Some p | _ => last_bidder s end.
Proof. intros; unfold step, fixx, push_call, upd; destruct c; cbn; destruct (last_bidder s); reflexivity. Qed.
Lemma step_called_x : forall s p c, called_x (step s p c) =
  match c with Bid _ _ => false | Dbl => true | _ => called_x s end.
Proof. intros; unfold step, fixx, push_call, upd; destruct c; cbn; destruct (last_bidder s); reflexivity. Qed.
Lemma step_called_xx : forall s p c, called_xx (step s p c) =
  match c with Bid _ _ => false | Rdbl => true | _ => called_xx s end.
Proof. intros; unfold step, fixx, push_call, upd; destruct c; cbn; destruct (last_bidder s); reflexivity. Qed.
Lemma step_rphist : forall s p c q, rphist (step s p c) q =
  if seat_beq q p then c :: rphist s q else rphist s q.
Proof. intros; unfold step, fixx, push_call, upd; destruct c; cbn; destruct (last_bidder s); reflexivity. Qed.
Lemma step_decl_tab : forall s p c, decl_tab (step s p c) =
  match c with
  | Bid _ st => match decl_tab s (side_of p) st with
                | None => fun sd st' => if side_beq sd (side_of p) && strain_beq st' st then Some p else decl_tab s sd st'
                | Some _ => decl_tab s end
  | _ => decl_tab s end.
Proof. intros; unfold step, fixx, push_call, upd; destruct c; cbn; destruct (last_bidder s); reflexivity. Qed.
Lemma step_avail : forall s p c, avail (step s p c) =
  let av1 := match c with Bid _ _ => zero_prefix (call_idx c + 1) (avail s) | _ => avail s end in
  match last_bidder (step s p c) with
  | None => av1
  | Some lb =>
      set_nth 37 (called_x (step s p c) && negb (called_xx (step s p c)) && same_side (next p) lb)
        (set_nth 36 (negb (called_x (step s p c)) && negb (called_xx (step s p c)) && negb (same_side (next p) lb)) av1)
  end.
Proof. intros; unfold step, fixx, push_call, upd; destruct c; cbn -[call_idx Nat.add set_nth zero_prefix]; destruct (last_bidder s); reflexivity. Qed.

(* ------------------------------------------------------------------ *)
(* Part 4: list helpers for the availability vector                     *)
(* ------------------------------------------------------------------ *)

Lemma nth_zero_prefix : forall k v i,
  nth i (zero_prefix k v) false = if i <? k then false else nth i v false.
Proof.
  induction k; intros v i.
  - destruct v; reflexivity.
  - destruct v as [|x v].
    + cbn [zero_prefix nth]. destruct i; destruct (_ <? _); reflexivity.
    + destruct i; [reflexivity|]. cbn [zero_prefix nth]. rewrite IHk. reflexivity.
Qed.

Lemma length_zero_prefix : forall k v, length (zero_prefix k v) = length v.
Proof. induction k; destruct v; cbn [zero_prefix length]; auto. Qed.

Lemma length_set_nth : forall j b v, length (set_nth j b v) = length v.
Proof. induction j; destruct v; cbn [set_nth length]; auto. Qed.

Lemma nth_set_nth : forall j b v i,
  nth i (set_nth j b v) false = if (i =? j) && (j <? length v) then b else nth i v false.
Proof.
  induction j; intros b v i.
  - destruct v; destruct i; reflexivity.
  - destruct v as [|x v].
    + cbn [set_nth nth length]. rewrite andb_false_r. reflexivity.
    + destruct i; [reflexivity|]. cbn [set_nth nth length]. rewrite IHj. reflexivity.
Qed.

Lemma call_idx_bid_lt : forall l s, call_idx (Bid l s) < 35.
Proof. destruct l, s as [[]|]; cbn; lia. Qed.

Lemma call_idx_lt : forall c, call_idx c < 38.
Proof. destruct c; [pose proof (call_idx_bid_lt l s); lia | cbn; lia ..]. Qed.

Lemma outranks_idx : forall l s l' s',
  outranks (l, s) (l', s') = (call_idx (Bid l' s') <? call_idx (Bid l s)).
Proof. destruct l, s as [[]|], l', s' as [[]|]; reflexivity. Qed.

(* ------------------------------------------------------------------ *)
(* Part 5: doubles and redoubles in terms of the flags                  *)
(* ------------------------------------------------------------------ *)

Lemma opp_same_side : forall a b, opponents a b = negb (same_side b a).
Proof. intros; unfold opponents, same_side. rewrite side_beq_sym. reflexivity. Qed.

Lemma cxr_pass : forall r, cxr (Pass :: r) = cxr r.
Proof. reflexivity. Qed.
Lemma cxxr_pass : forall r, cxxr (Pass :: r) = cxxr r.
Proof. reflexivity. Qed.
Lemma cxr_dbl : forall r, cxr (Dbl :: r) = true.
Proof. reflexivity. Qed.
Lemma cxxr_dbl : forall r, cxxr (Dbl :: r) = cxxr r.
Proof. reflexivity. Qed.
Lemma cxr_rdbl : forall r, cxr (Rdbl :: r) = cxr r.
Proof. reflexivity. Qed.
Lemma cxxr_rdbl : forall r, cxxr (Rdbl :: r) = true.
Proof. reflexivity. Qed.
Lemma cxr_bid : forall l s r, cxr (Bid l s :: r) = false.
Proof. reflexivity. Qed.
Lemma cxxr_bid : forall l s r, cxxr (Bid l s :: r) = false.
Proof. reflexivity. Qed.

Lemma legalD_spec : forall d rh me i b, last_bid_r rh = Some (i, b) ->
  legalD d rh me = negb (cxr rh) && negb (cxxr rh) && opponents (rot d i) me.
Proof.
  induction rh as [|c r IH]; intros me i b H; [discriminate|].
  destruct c.
  - cbn [last_bid_r] in H. inversion H; subst. reflexivity.
  - cbn [last_bid_r] in H. rewrite cxr_pass, cxxr_pass. rewrite <- (IH me i b H). reflexivity.
  - rewrite cxr_dbl. reflexivity.
  - rewrite cxxr_rdbl. unfold legalD; cbn [skip_passes]. rewrite andb_false_r. reflexivity.
Qed.

Lemma legalD_none : forall d rh me, last_bid_r rh = None -> legalD d rh me = false.
Proof.
  induction rh as [|c r IH]; intros me H; [reflexivity|].
  destruct c; cbn [last_bid_r] in H; try discriminate; try reflexivity.
  rewrite <- (IH me H). reflexivity.
Qed.

Lemma wf_nobid_allpass : forall d rh, wf d rh -> last_bid_r rh = None -> skip_passes rh = [].
Proof.
  induction rh as [|c r IH]; intros W H; [reflexivity|].
  destruct W as (L & E & W). specialize (IH W).
  destruct c; cbn [last_bid_r] in H; try discriminate.
  - cbn [skip_passes]. auto.
  - rewrite legal_rev in L. rewrite legalD_none in L by assumption. discriminate.
  - rewrite legal_rev in L. unfold legalR in L. rewrite (IH H) in L. discriminate.
Qed.

Lemma legalR_none : forall d rh me, wf d rh -> last_bid_r rh = None -> legalR d rh me = false.
Proof. intros d rh me W H. unfold legalR. rewrite (wf_nobid_allpass d rh W H). reflexivity. Qed.

Lemma side_flip : forall a b c, opponents a b = true -> opponents b c = same_side c a.
Proof.
  intros a b c. unfold opponents, same_side.
  destruct (side_of a), (side_of b), (side_of c); cbn; congruence.
Qed.

Lemma legalR_spec : forall d rh me i b, wf d rh -> last_bid_r rh = Some (i, b) ->
  legalR d rh me = cxr rh && negb (cxxr rh) && same_side me (rot d i).
Proof.
  induction rh as [|c r IH]; intros me i b W H; [discriminate|].
  destruct W as (L & E & W).
  destruct c; cbn [last_bid_r] in H.
  - reflexivity.
  - rewrite cxr_pass, cxxr_pass. rewrite <- (IH me i b W H). reflexivity.
  - rewrite cxr_dbl, cxxr_dbl. rewrite legal_rev in L.
    rewrite (legalD_spec d r _ i b H) in L.
    apply andb_prop in L. destruct L as [L1 L2]. apply andb_prop in L1. destruct L1 as [_ L1].
    rewrite L1. unfold legalR; cbn [skip_passes andb].
    apply side_flip. exact L2.
  - rewrite cxxr_rdbl. unfold legalR; cbn [skip_passes negb]. rewrite andb_false_r. reflexivity.
Qed.

(* the availability vector as a function of the history *)
Definition aspec (d : seat) (rh : list call) (i : nat) : bool :=
  if i <? 35 then
    match last_bid_r rh with None => true | Some (_, (l, s)) => call_idx (Bid l s) <? i end
  else if i =? 35 then true
  else match last_bid_r rh with
       | None => false
       | Some (j, _) =>
           if i =? 36 then negb (cxr rh) && negb (cxxr rh) && negb (same_side (rot d (length rh)) (rot d j))
           else cxr rh && negb (cxxr rh) && same_side (rot d (length rh)) (rot d j)
       end.

Lemma aspec_legal : forall d rh c, wf d rh -> aspec d rh (call_idx c) = legal d (rev rh) c.
Proof.
  intros d rh c W. rewrite legal_rev. unfold aspec. destruct c.
  - pose proof (call_idx_bid_lt l s) as B. apply Nat.ltb_lt in B. rewrite B.
    destruct (last_bid_r rh) as [[j [l' s']]|]; [|reflexivity].
    rewrite outranks_idx. reflexivity.
  - reflexivity.
  - cbn [call_idx Nat.ltb Nat.leb Nat.eqb].
    destruct (last_bid_r rh) as [[j b]|] eqn:H.
    + rewrite (legalD_spec d rh _ j b H). rewrite opp_same_side. reflexivity.
    + rewrite legalD_none by assumption. reflexivity.
  - cbn [call_idx Nat.ltb Nat.leb Nat.eqb].
    destruct (last_bid_r rh) as [[j b]|] eqn:H.
    + rewrite (legalR_spec d rh _ j b W H). reflexivity.
    + rewrite legalR_none by assumption. reflexivity.
Qed.
