(* The functions GENERATED from the text of bridge_env/score.py (Gen/ScoreFns.v, harness/gen_score.py)
   equal the hand-written model of Model/Score.v - for all arguments, all integers.
   A change of the code of score.py changes Gen/ScoreFns.v and breaks one of these proofs
   (or the translator refuses the source). *)
From BE Require Import Model.Score Gen.ScoreConsts Gen.ScoreFns.
From Coq Require Import Lia.
Local Open Scope Z_scope.

(* The translator emits Python's indexing (a negative index counts from the end); the model's tuple_get
   has no such case.  They agree wherever the index is non-negative. *)
Lemma py_get_nonneg t i : 0 <= i -> py_get t i = tuple_get t i.
Proof.
  intros H. unfold py_get. destruct (i <? 0) eqn:E; [apply Z.ltb_lt in E; lia | reflexivity].
Qed.

(* Both sides are by now the same term, syntactically (up to bound names).  Checking that first makes a
   changed translation fail at once instead of sending the conversion test into a long search. *)
(* The generated functions mention the constants regenerated from the source (Gen/ScoreConsts.v), the model those of
   Model/ScoreConstsHand.v: both are unfolded to their numerals first, so a changed number shows up as two different literals. *)
Ltac consts := cbv delta [BE.Gen.ScoreConsts.k_minor BE.Model.ScoreConstsHand.k_minor BE.Gen.ScoreConsts.k_major BE.Model.ScoreConstsHand.k_major BE.Gen.ScoreConsts.k_nt BE.Model.ScoreConstsHand.k_nt BE.Gen.ScoreConsts.k_make BE.Model.ScoreConstsHand.k_make BE.Gen.ScoreConsts.k_make_x BE.Model.ScoreConstsHand.k_make_x BE.Gen.ScoreConsts.k_make_xx BE.Model.ScoreConstsHand.k_make_xx BE.Gen.ScoreConsts.k_game BE.Model.ScoreConstsHand.k_game BE.Gen.ScoreConsts.k_game_vul BE.Model.ScoreConstsHand.k_game_vul BE.Gen.ScoreConsts.k_small_slam BE.Model.ScoreConstsHand.k_small_slam BE.Gen.ScoreConsts.k_small_slam_vul BE.Model.ScoreConstsHand.k_small_slam_vul BE.Gen.ScoreConsts.k_grand_slam BE.Model.ScoreConstsHand.k_grand_slam BE.Gen.ScoreConsts.k_grand_slam_vul BE.Model.ScoreConstsHand.k_grand_slam_vul BE.Gen.ScoreConsts.k_overtrick_x BE.Model.ScoreConstsHand.k_overtrick_x BE.Gen.ScoreConsts.k_overtrick_x_vul BE.Model.ScoreConstsHand.k_overtrick_x_vul BE.Gen.ScoreConsts.k_overtrick_xx BE.Model.ScoreConstsHand.k_overtrick_xx BE.Gen.ScoreConsts.k_overtrick_xx_vul BE.Model.ScoreConstsHand.k_overtrick_xx_vul BE.Gen.ScoreConsts.k_down BE.Model.ScoreConstsHand.k_down BE.Gen.ScoreConsts.k_down_vul BE.Model.ScoreConstsHand.k_down_vul BE.Gen.ScoreConsts.k_down_x BE.Model.ScoreConstsHand.k_down_x BE.Gen.ScoreConsts.k_down_x_vul BE.Model.ScoreConstsHand.k_down_x_vul BE.Gen.ScoreConsts.k_down_xx BE.Model.ScoreConstsHand.k_down_xx BE.Gen.ScoreConsts.k_down_xx_vul BE.Model.ScoreConstsHand.k_down_xx_vul BE.Gen.ScoreConsts.k_imps_list BE.Model.ScoreConstsHand.k_imps_list].
Ltac same := consts; lazymatch goal with |- ?a = ?b => constr_eq a b end; reflexivity.

(* point_difference_to_imps, score_to_imp: the same term up to let-expansion *)
Theorem g_imps_eq : forall d, g_point_difference_to_imps d = point_difference_to_imps d.
Proof. intros d. unfold g_point_difference_to_imps, point_difference_to_imps. cbv zeta. same. Qed.

Theorem g_score_to_imp_eq : forall a b, g_score_to_imp a b = score_to_imp a b.
Proof. intros a b. unfold g_score_to_imp, score_to_imp. rewrite g_imps_eq. same. Qed.

(* calc_bid_score.  Made contracts: the same term once the three flags are known and the lets expanded.  Defeated contracts:
   in that branch taken < level + 6, hence the index down_n - 1 is non-negative and py_get is tuple_get. *)
Theorem g_calc_bid_score_eq : forall l s x xx vul t,
  g_calc_bid_score l s x xx vul t = calc_bid_score l s x xx vul t.
Proof.
  intros l s x xx vul t. unfold g_calc_bid_score, calc_bid_score. cbv zeta.
  destruct (t <? zlevel l + 6) eqn:E.
  - apply Z.ltb_lt in E. rewrite !py_get_nonneg by lia.
    destruct x, xx, vul; cbv beta iota zeta delta [orb]; same.
  - destruct x, xx, vul; cbv beta iota zeta delta [orb]; same.
Qed.

(* calc_score: passed out / a real final bid whose vulnerability is or is not determined *)
Theorem g_calc_score_eq : forall k t, g_calc_score k t = calc_score k t.
Proof.
  intros k t. unfold g_calc_score, calc_score, is_passed_out.
  destruct (final_bid k) as [[l s]|]; [|reflexivity].
  destruct (contract_is_vul k) as [v|]; [apply g_calc_bid_score_eq | reflexivity].
Qed.

(* non-vacuity: the generated functions compute the familiar values *)
Example g_3NT_making : g_calc_score (mkcontract (Some (L3, NT)) false false VNone (Some South)) 9 = Some 400.
Proof. reflexivity. Qed.
Example g_7NTxx_vul_down_13 : g_calc_bid_score L7 NT true true true 0 = Some (-7600).
Proof. reflexivity. Qed.
Example g_unknown_declarer_raises : g_calc_score (mkcontract (Some (L1, NT)) false false VNS None) 7 = None.
Proof. reflexivity. Qed.
Example g_imps_values : map g_point_difference_to_imps [0; 10; 20; -20; 420; 430; -3990; 4000; 100000] = [0; 0; 1; -1; 9; 10; -23; 24; 24].
Proof. reflexivity. Qed.

Print Assumptions g_imps_eq.
Print Assumptions g_score_to_imp_eq.
Print Assumptions g_calc_bid_score_eq.
Print Assumptions g_calc_score_eq.
