(* C13 for EVERY list of connection requests that fills the table: the abandoned-session theorems of Proofs/SessionAbort.v (four
   clients arriving North, East, South, West) lifted to any number n of requests, any seats, teams, versions, in any order -
   exactly as Proofs/SessionArrivals.v lifted the conforming-session theorem.
   Hypotheses: no operator interrupt is armed, the team names have no double quote, the requests fill the table
   ([all_seated (seat_requests reqs empty_table)]), the scripts of the four SEATED connections ([seated_scripts]: connection
   [conn_map reqs p] sits at p) have one entry per board, conform on the boards before board index a, and board a goes wrong in one
   of SessionAbort's four ways ([board_goes_wrong]: unreadable call, refused call, unreadable card, refused card, after any
   number of conforming calls / cards).
   [abandoned_session_any_arrivals]: with recs the model records of exactly the boards before board a (team names of the final table),
     - some schedule drives the initial state to a state in which main has raised (process Fail) and the log is
       LOpen, the records recs, LClose; in that state every request that was turned away is still in SessionAdmission's
       [turned_view] and every request that came too late is still in [waiting_view];
     - no schedule can avoid it: from every reachable state such a state can still be reached;
     - in EVERY reachable state in which main has ended, and in every state in which no party can move, main has raised, the log
       is that very list and the file content parses to exactly those records (Proofs/C13Cor.v).
   [abandoned_session_any_arrivals_bounded]: there is ONE final state, main has raised there with that file, every schedule is
   bounded and every maximal schedule ends there (no_infinite_schedule and the confluence theorems of Proofs/Session.v).
   [abandoned_session_any_arrivals_interrupted]: with the operator interrupt armed as well (any k): one final state, main has ended,
   the file holds a prefix of recs.
   [abort_every_schedule_n], [abort_stays_reachable_n], [abort_bounded_n]: SessionAbort's abort_log_every_schedule /
   aborted_file_parses / abort_bounded for ANY session (no restriction to four connections).
   [AbortArrivalsExample]: the premises are satisfiable (SessionAdmission's eight requests, two boards, the second goes wrong).
   Method.  Part 1 re-derives SessionAbort's aborting run from the state at the START OF BOARD 1 of the 4-connection network
   ([StartSt], where SessionConform's startup_general stops), for arbitrary seat names and transcripts, from SessionAbort's phase
   lemmas (loop_prefix, board_deal, auction_prefix, round_unparseable, round_illegal, board_to_play, play_upto): [upto_auction_start],
   [fault_from_auction], [abort_from_start].  Part 2: SessionAdmission's seating_phase brings the n-connection network to the start
   of board 1; SessionArrivals' start_corr gives the correspondence with [StartSt]; KahnEmbed's embed_run lifts the aborting run;
   main (party 0) and the log channel are in the image of the renamings, so main's process and the log are read off the lifted
   state ([raised_corr]); loc_frame says the other connections are untouched.  Part 3: SessionAbort's raised_in_every_schedule,
   raise_stays_reachable, ended_bounded, interrupt_generic and C13Cor's aborted_log_parses are generic in the session.
   Proofs take a few seconds; nearly all of the compile time is spent in Print Assumptions.
   Standard library only; closed under the global context. *)
From BE Require Import Model.Session Model.Conform Proofs.Kahn Proofs.Session Proofs.Wire Proofs.SessionPassOut Proofs.SessionConform
  Proofs.SessionAdmission Proofs.KahnEmbed Proofs.SessionRename Proofs.SessionArrivals Proofs.SessionAbort.
From BE Require Proofs.Play Proofs.Auction.
From BE Require Import Model.Json Model.JsonFramingHand Proofs.C13Cor.
From Coq Require Import Lia ZArith.
Local Open Scope string_scope.
Local Open Scope nat_scope.
Local Open Scope list_scope.

(* ===================================================================== part 1: the 4-connection network, from the start of board 1 *)
Definition StartSt (names : seat -> string) (boards : list board) (scr : seat -> list cscript)
    (T0 T1 T2 T3 T4 T5 T6 T7 : list msg) : Kahn.st msg :=
  QS (boards_loop 4 CN names boards 1)
     (t_boards 4 0 (S (length boards)) North) (t_boards 4 1 (S (length boards)) East)
     (t_boards 4 2 (S (length boards)) South) (t_boards 4 3 (S (length boards)) West)
     (crecv 0 (fun s => c_boards 4 0 North (S (length boards)) s (scr North)))
     (crecv 1 (fun s => c_boards 4 1 East (S (length boards)) s (scr East)))
     (crecv 2 (fun s => c_boards 4 2 South (S (length boards)) s (scr South)))
     (crecv 3 (fun s => c_boards 4 3 West (S (length boards)) s (scr West)))
     [MLog LOpen] T0 T1 T2 T3 T4 T5 T6 T7 1.

Lemma upto_auction_split_start : forall pre bd post names scripts T0 T1 T2 T3 T4 T5 T6 T7 (F : Kahn.st msg -> Prop),
  (forall p, length (scripts p) = length (pre ++ bd :: post)) ->
  forallb (fun '(i, b) => conform_board b (fun p => nth_script (scripts p) i)) (combine (seq 0 (length pre)) pre) = true ->
  (forall recs k ft fc s0 s1 s2 s3 h0 h1 h2 h3 U0 U1 U2 U3 U4 U5 U6 U7 b,
     map Some recs = recs_from names scripts 0 pre ->
     same_cards h0 (b_deal bd North) -> same_cards h1 (b_deal bd East) ->
     same_cards h2 (b_deal bd South) -> same_cards h3 (b_deal bd West) ->
     reach (BidSt 400 (Auction.init (b_dealer bd) (b_vul bd)) (fun p => sc_calls (nth_script (scripts p) (length pre)))
              (KMb bd post k names)
              (KTb 0 ft North) (KTb 1 ft East) (KTb 2 ft South) (KTb 3 ft West)
              (KCb 0 North fc (nth_script (scripts North) (length pre)) s0 h0)
              (KCb 1 East fc (nth_script (scripts East) (length pre)) s1 h1)
              (KCb 2 South fc (nth_script (scripts South) (length pre)) s2 h2)
              (KCb 3 West fc (nth_script (scripts West) (length pre)) s3 h3)
              ([MLog LOpen] ++ map recmsg recs) U0 U1 U2 U3 U4 U5 U6 U7 b) F) ->
  reach (StartSt names (pre ++ bd :: post) scripts T0 T1 T2 T3 T4 T5 T6 T7) F.
Proof.
  intros pre bd post names scripts T0 T1 T2 T3 T4 T5 T6 T7 F Hlen HC HF.
  unfold StartSt.
  apply (loop_prefix pre (bd :: post) ltac:(discriminate) 0 scripts 1 names); [exact Hlen|exact HC|reflexivity|reflexivity|reflexivity|reflexivity|].
  intros recs a' k' K0 K1 K2 K3 T0' T1' T2' T3' T4' T5' T6' T7' b' Ha' Hk' Hrecs HK0 HK1 HK2 HK3.
  cbn [plus] in Ha'. subst a'.
  assert (Hsk : forall p, skipn (length pre) (scripts p) = nth_script (scripts p) (length pre) :: skipn (S (length pre)) (scripts p)).
  { intros p. apply skipn_nth. rewrite (Hlen p), app_length. cbn [length]. lia. }
  rewrite Hsk in HK0, HK1, HK2, HK3.
  destruct (hand_roundtrip (formal_name North) (b_deal bd North)) as (h0 & Hh0 & Hs0); [simpl; tauto|].
  destruct (hand_roundtrip (formal_name East) (b_deal bd East)) as (h1 & Hh1 & Hs1); [simpl; tauto|].
  destruct (hand_roundtrip (formal_name South) (b_deal bd South)) as (h2 & Hh2 & Hs2); [simpl; tauto|].
  destruct (hand_roundtrip (formal_name West) (b_deal bd West)) as (h3 & Hh3 & Hs3); [simpl; tauto|].
  apply (board_deal bd post k' names (length (bd :: post)) (length (bd :: post)) (fun p => nth_script (scripts p) (length pre))
           (skipn (S (length pre)) (scripts North)) (skipn (S (length pre)) (scripts East))
           (skipn (S (length pre)) (scripts South)) (skipn (S (length pre)) (scripts West))
           h0 h1 h2 h3 K0 K1 K2 K3 _ T0' T1' T2' T3' T4' T5' T6' T7' b' F HK0 HK1 HK2 HK3 Hh0 Hh1 Hh2 Hh3).
  intros U1 U3 U5 U7. apply HF; assumption.
Qed.

Lemma upto_auction_start : forall boards a bd names scripts T0 T1 T2 T3 T4 T5 T6 T7 (F : Kahn.st msg -> Prop),
  (forall p, length (scripts p) = length boards) ->
  nth_error boards a = Some bd ->
  forallb (fun '(i, b) => conform_board b (fun p => nth_script (scripts p) i)) (combine (seq 0 a) (firstn a boards)) = true ->
  (forall recs post k ft fc s0 s1 s2 s3 h0 h1 h2 h3 U0 U1 U2 U3 U4 U5 U6 U7 b,
     map Some recs = recs_from names scripts 0 (firstn a boards) ->
     same_cards h0 (b_deal bd North) -> same_cards h1 (b_deal bd East) ->
     same_cards h2 (b_deal bd South) -> same_cards h3 (b_deal bd West) ->
     reach (BidSt 400 (Auction.init (b_dealer bd) (b_vul bd)) (fun p => sc_calls (nth_script (scripts p) a))
              (KMb bd post k names)
              (KTb 0 ft North) (KTb 1 ft East) (KTb 2 ft South) (KTb 3 ft West)
              (KCb 0 North fc (nth_script (scripts North) a) s0 h0)
              (KCb 1 East fc (nth_script (scripts East) a) s1 h1)
              (KCb 2 South fc (nth_script (scripts South) a) s2 h2)
              (KCb 3 West fc (nth_script (scripts West) a) s3 h3)
              ([MLog LOpen] ++ map recmsg recs) U0 U1 U2 U3 U4 U5 U6 U7 b) F) ->
  reach (StartSt names boards scripts T0 T1 T2 T3 T4 T5 T6 T7) F.
Proof.
  intros boards a bd names scripts T0 T1 T2 T3 T4 T5 T6 T7 F Hlen Hnth HC HF.
  destruct (split_at_nth boards a bd Hnth) as [Hsplit Hla].
  revert Hlen HC HF. generalize (firstn a boards) (skipn (S a) boards) Hsplit Hla. clear Hsplit Hla Hnth.
  intros pre post -> <- Hlen HC HF.
  apply upto_auction_split_start; try assumption.
  intros recs k ft fc s0 s1 s2 s3 h0 h1 h2 h3 U0 U1 U2 U3 U4 U5 U6 U7 b Hrecs Hs0 Hs1 Hs2 Hs3.
  apply HF; assumption.
Qed.

(* ---------- from the start of the auction of the board that goes wrong to the abort, for each of the four faults ---------- *)
Lemma fault_from_auction : forall bd sc post k names ft fc s0 s1 s2 s3 h0 h1 h2 h3 L T0 T1 T2 T3 T4 T5 T6 T7 b,
  same_cards h0 (b_deal bd North) -> same_cards h1 (b_deal bd East) ->
  same_cards h2 (b_deal bd South) -> same_cards h3 (b_deal bd West) ->
  board_goes_wrong bd sc ->
  reach (BidSt 400 (Auction.init (b_dealer bd) (b_vul bd)) (fun p => sc_calls (sc p))
              (KMb bd post k names)
              (KTb 0 ft North) (KTb 1 ft East) (KTb 2 ft South) (KTb 3 ft West)
              (KCb 0 North fc (sc North) s0 h0) (KCb 1 East fc (sc East) s1 h1)
              (KCb 2 South fc (sc South) s2 h2) (KCb 3 West fc (sc West) s3 h3)
              L T0 T1 T2 T3 T4 T5 T6 T7 b) (Raised (L ++ [MLog LClose])).
Proof.
  intros bd sc post k names ft fc s0 s1 s2 s3 h0 h1 h2 h3 L T0 T1 T2 T3 T4 T5 T6 T7 b Hs0 Hs1 Hs2 Hs3 (j & Hw).
  assert (PlayCase : forall hs p m c, j < 52 -> next_card bd sc j = Some (hs, p, m, c) ->
            snd (play_by hs c p) = POk -> bad_card hs p m ->
            reach (BidSt 400 (Auction.init (b_dealer bd) (b_vul bd)) (fun p => sc_calls (sc p))
              (KMb bd post k names)
              (KTb 0 ft North) (KTb 1 ft East) (KTb 2 ft South) (KTb 3 ft West)
              (KCb 0 North fc (sc North) s0 h0) (KCb 1 East fc (sc East) s1 h1)
              (KCb 2 South fc (sc South) s2 h2) (KCb 3 West fc (sc West) s3 h3)
              L T0 T1 T2 T3 T4 T5 T6 T7 b) (Raised (L ++ [MLog LClose]))).
  { intros hs p m c Hj Hnc Hok Hbad.
    unfold next_card in Hnc.
    destruct (seq_calls 400 _ _) as [sfin|] eqn:Hsc; [|discriminate].
    destruct (contract_of sfin) as [kk|] eqn:Hk; [|discriminate].
    destruct (is_passed_out kk) eqn:Hpo; [discriminate|].
    destruct (init_hands kk (b_deal bd)) as [hs0|] eqn:Hih; [|discriminate].
    destruct (cards_prefix j hs0 _) as [[hs' said]|] eqn:Hpre; [|discriminate].
    cbv zeta in Hnc.
    destruct (said _) as [|[m' c'] r] eqn:Hc; [discriminate|].
    injection Hnc as E1 E2 E3 E4. subst hs' m' c'.
    apply (auction_general 400 _ _ sfin Hsc).
    intros f' calls' U1 U3 U5 U7 Hact.
    apply (board_to_play bd post k names ft fc sc s0 s1 s2 s3 h0 h1 h2 h3 f' sfin kk hs0 calls'
             _ _ _ _ _ _ _ _ _ _ _ Hact Hk Hpo Hih).
    intros d b0 K V0 V1 V2 V3 V4 V5 V6 V7 Ehs0 Hb0 Hdc Hdm Hle Hpa. subst hs0.
    destruct (cards_prefix_static _ _ _ _ _ Hpre) as [Sdc Sdm]. cbn [hbase] in Sdc, Sdm. rewrite Hdc in Sdc. rewrite Hdm in Sdm.
    rewrite Sdc, Sdm, E2 in Hc.
    change (if seat_beq p (partner d) then d else p) with (speaker p d) in Hc.
    subst p.
    destruct (play_by hs c (pactive (hbase hs))) as [hsx o] eqn:Hpb. cbn [snd] in Hok. subst o.
    replace 52 with (j + S (51 - j)) by lia.
    assert (Hos : forall q, obase (mkO b0 q (match q with North => h0 | East => h1 | South => h2 | West => h3 end) None) = b0 /\
                            ome (mkO b0 q (match q with North => h0 | East => h1 | South => h2 | West => h3 end) None) = q /\
                            odummy (mkO b0 q (match q with North => h0 | East => h1 | South => h2 | West => h3 end) None) = None /\
                            same_cards (ohand (mkO b0 q (match q with North => h0 | East => h1 | South => h2 | West => h3 end) None)) (b_deal bd q)).
    { intros q. repeat split; try reflexivity; destruct q; cbn; first [apply Hs0 | apply Hs1 | apply Hs2 | apply Hs3]. }
    eapply (play_upto kk d b0 (b_deal bd) _ j (51 - j) hs said hsx m c r _ North K _ _ _ _ _ _ _ _ _ _ _ _ _ _ _ _ _ _ _
              Hb0 Hdc Hdm Hle Hpa Hos Hpre Hc Hpb Hbad).
    intros st HR. exact HR. }
  destruct Hw as [Hfault|[Hfault|[Hfault|Hfault]]].
  - unfold auction_unparseable_at, next_call in Hfault.
    destruct (calls_prefix j _ _) as [[s said]|] eqn:Hpre; [|discriminate].
    destruct (active s) as [p|] eqn:Ha; [|discriminate].
    destruct (said p) as [|[m c] r] eqn:Hc; [discriminate|].
    destruct (server_read_bid m (formal_name p)) as [m' oc] eqn:Hs. cbn [snd] in Hfault.
    destruct oc as [c'|]; [discriminate|].
    pose proof (calls_prefix_bound _ _ _ _ _ _ Hpre) as Hj.
    replace 400 with (j + S (399 - j)) by lia. generalize (399 - j). intros f.
    apply (auction_prefix j (S f) _ _ s said Hpre).
    intros U0 U1 U2 U3 U4 U5 U6 U7.
    apply (round_unparseable p s f said m m' c r _ _ _ _ _ _ _ _ _ _ _ _ _ _ _ _ _ _ _ _ Ha Hc Hs).
    intros st HR. exact HR.
  - unfold auction_illegal_at, next_call in Hfault.
    destruct (calls_prefix j _ _) as [[s said]|] eqn:Hpre; [|discriminate].
    destruct (active s) as [p|] eqn:Ha; [|discriminate].
    destruct (said p) as [|[m c] r] eqn:Hc; [discriminate|].
    destruct (server_read_bid m (formal_name p)) as [m' oc] eqn:Hs. cbn [snd] in Hfault.
    destruct oc as [c'|]; [|discriminate].
    destruct (take_bid s c') as [s' o] eqn:Ht. cbn [snd] in Hfault.
    destruct o; try discriminate.
    pose proof (calls_prefix_bound _ _ _ _ _ _ Hpre) as Hj.
    replace 400 with (j + S (399 - j)) by lia. generalize (399 - j). intros f.
    apply (auction_prefix j (S f) _ _ s said Hpre).
    intros U0 U1 U2 U3 U4 U5 U6 U7.
    apply (round_illegal p s s' f said m m' c c' r _ _ _ _ _ _ _ _ _ _ _ _ _ _ _ _ _ _ _ _ Ha Hc Hs Ht).
    intros st HR. exact HR.
  - unfold play_unparseable_at in Hfault. apply andb_true_iff in Hfault. destruct Hfault as [Hj Hfault]. apply Nat.ltb_lt in Hj.
    destruct (next_card bd _ j) as [[[[hs p] m] c]|] eqn:Hnc; [|discriminate].
    destruct (snd (play_by hs c p)) eqn:Hok; [|discriminate].
    destruct (parse_card m p) as [c'|] eqn:Hpc; [discriminate|].
    exact (PlayCase hs p m c Hj eq_refl Hok (or_introl Hpc)).
  - unfold play_refused_at in Hfault. apply andb_true_iff in Hfault. destruct Hfault as [Hj Hfault]. apply Nat.ltb_lt in Hj.
    destruct (next_card bd _ j) as [[[[hs p] m] c]|] eqn:Hnc; [|discriminate].
    destruct (snd (play_by hs c p)) eqn:Hok; [|discriminate].
    destruct (parse_card m p) as [c'|] eqn:Hpc; [|discriminate].
    destruct (play_by hs c' p) as [hs' o] eqn:Hpb'. cbn [snd] in Hfault. destruct o; [discriminate|].
    apply (PlayCase hs p m c Hj eq_refl Hok).
    right. exists c', hs'. split; assumption.
Qed.

Lemma abort_from_start : forall boards names scripts a bd T0 T1 T2 T3 T4 T5 T6 T7,
  (forall p, length (scripts p) = length boards) ->
  nth_error boards a = Some bd ->
  forallb (fun '(i, b) => conform_board b (fun p => nth_script (scripts p) i)) (combine (seq 0 a) (firstn a boards)) = true ->
  board_goes_wrong bd (fun p => nth_script (scripts p) a) ->
  reach (StartSt names boards scripts T0 T1 T2 T3 T4 T5 T6 T7)
    (fun f => exists recs, Raised (([MLog LOpen] ++ map recmsg recs) ++ [MLog LClose]) f /\
                           map Some recs = recs_from names scripts 0 (firstn a boards)).
Proof.
  intros boards names scripts a bd T0 T1 T2 T3 T4 T5 T6 T7 Hlen Hnth HC Hw.
  apply (upto_auction_start boards a bd names scripts T0 T1 T2 T3 T4 T5 T6 T7 _ Hlen Hnth HC).
  intros recs post k ft fc s0 s1 s2 s3 h0 h1 h2 h3 U0 U1 U2 U3 U4 U5 U6 U7 b Hrecs Hs0 Hs1 Hs2 Hs3.
  destruct (fault_from_auction bd (fun p => nth_script (scripts p) a) post k names ft fc s0 s1 s2 s3 h0 h1 h2 h3
              ([MLog LOpen] ++ map recmsg recs) U0 U1 U2 U3 U4 U5 U6 U7 b Hs0 Hs1 Hs2 Hs3 Hw) as (l & f & Hr & HR).
  exists l, f. split; [exact Hr|]. exists recs. split; [exact HR|exact Hrecs].
Qed.

(* ===================================================================== part 2: the n-connection network *)
Definition aborted_with_n (n : nat) (recs : list logrec) (f : Kahn.st msg) : Prop :=
  pr f 0 = Some Fail /\ log_events n f = LOpen :: map LRec recs ++ [LClose].

Lemma aborted_with_4 recs f : aborted_with_n 4 recs f <-> aborted_with recs f.
Proof. split; intros H; exact H. Qed.

(* what the correspondence says about a state of the 4-connection network in which main has raised *)
Lemma raised_corr n pi L f0 f' :
  length (Kahn.chans msg f0) = 26 -> Raised L f0 ->
  corr msg (sgm n pi) (rhm n pi) idc 9 26 0 f0 f' ->
  pr f' 0 = Some Fail /\ chn f' (ch_log n) = Some L.
Proof.
  intros Len [Hfail Hlog] (_ & HP & HC & _).
  split.
  - destruct (HP 0 Fail Hfail) as (p' & E' & Sm). apply sim_Fail_inv in Sm. subst p'. exact E'.
  - apply (HC 16 L). change (ch_log 4) with 16 in Hlog. rewrite <- Hlog. unfold chan. apply nth_error_nth'. rewrite Len. lia.
Qed.

(* ---------- some schedule makes main raise, whatever the arrivals ---------- *)
Lemma abandoned_run_any_arrivals : forall (x : session) a bd,
  let reqs := s_arrivals x in
  let n := nconn x in
  let T := seat_requests reqs empty_table in
  s_interrupt x = None -> wf_requests reqs -> all_seated T = true ->
  (forall p, length (seated_scripts x p) = length (s_boards x)) ->
  nth_error (s_boards x) a = Some bd ->
  forallb (fun '(i, b) => conform_board b (fun p => nth_script (seated_scripts x p) i))
          (combine (seq 0 a) (firstn a (s_boards x))) = true ->
  board_goes_wrong bd (fun p => nth_script (seated_scripts x p) a) ->
  exists l f recs, srun l (init_state x) = Some f /\ aborted_with_n n recs f /\
    map Some recs = recs_from (names_of T) (seated_scripts x) 0 (firstn a (s_boards x)) /\
    (* the requests that were turned away or came too late are as the seating phase left them *)
    (forall j r, nth_error reqs j = Some r ->
       (forall e, j < looked_at reqs empty_table ->
                  admission_error (table_before reqs j) (a_team r) (a_seat r) (a_version r) = Some e ->
                  loc n f j = turned_view r e) /\
       (looked_at reqs empty_table <= j -> loc n f j = waiting_view n (length (s_boards x)) j r (script_of x j))).
Proof.
  intros x a bd reqs n T Hint Hwf AS Hlen Hnth HC Hw.
  set (nb := length (s_boards x)) in *.
  set (scr := seated_scripts x) in *. set (boards := s_boards x) in *.
  set (pi := conn_map reqs).
  (* the four seats *)
  destruct (table_seats_first_acceptable reqs AS North) as (jN & aN & HjN & HsN & LN & EN & TN & CN_ & UN).
  destruct (table_seats_first_acceptable reqs AS East) as (jE & aE & HjE & HsE & LE & EE & TE & CE_ & UE).
  destruct (table_seats_first_acceptable reqs AS South) as (jS & aS & HjS & HsS & LS & ES & TS & CS_ & US).
  destruct (table_seats_first_acceptable reqs AS West) as (jW & aW & HjW & HsW & LW & EW_ & TW & CW_ & UW).
  fold pi in CN_, CE_, CS_, CW_.
  assert (BN : jN < n) by (apply nth_error_Some; fold reqs; congruence).
  assert (BE_ : jE < n) by (apply nth_error_Some; fold reqs; congruence).
  assert (BS : jS < n) by (apply nth_error_Some; fold reqs; congruence).
  assert (BW : jW < n) by (apply nth_error_Some; fold reqs; congruence).
  assert (DNE : jN <> jE) by (intros ->; congruence).
  assert (DNS : jN <> jS) by (intros ->; congruence).
  assert (DNW : jN <> jW) by (intros ->; congruence).
  assert (DES : jE <> jS) by (intros ->; congruence).
  assert (DEW : jE <> jW) by (intros ->; congruence).
  assert (DSW : jS <> jW) by (intros ->; congruence).
  assert (pi_lt : forall p, pi p < n) by (intros []; congruence).
  assert (pi_inj : forall p q, pi p = pi q -> p = q).
  { intros [] []; rewrite ?CN_, ?CE_, ?CS_, ?CW_; intros E; try reflexivity; exfalso; congruence. }
  (* admission and seating, in the n-connection network *)
  destruct (seating_phase x Hwf AS) as (l1 & s1 & Hr1 & Hm & Hl & Hsh).
  fold reqs n nb T boards in Hm, Hl, Hsh. rewrite Hint in Hm. cbn [wrap_open] in Hm. fold pi in Hm.
  pose proof (proj1 (proj2 (Hl jN aN HjN)) LN EN) as VN.
  pose proof (proj1 (proj2 (Hl jE aE HjE)) LE EE) as VE.
  pose proof (proj1 (proj2 (Hl jS aS HjS)) LS ES) as VS.
  pose proof (proj1 (proj2 (Hl jW aW HjW)) LW EW_) as VW.
  rewrite <- CN_ in VN. rewrite <- CE_ in VE. rewrite <- CS_ in VS. rewrite <- CW_ in VW.
  unfold started_view in VN, VE, VS, VW. rewrite HsN in VN. rewrite HsE in VE. rewrite HsS in VS. rewrite HsW in VW.
  change (script_of x (pi North)) with (scr North) in VN. change (script_of x (pi East)) with (scr East) in VE.
  change (script_of x (pi South)) with (scr South) in VS. change (script_of x (pi West)) with (scr West) in VW.
  rewrite (Hlen North) in VN. rewrite (Hlen East) in VE. rewrite (Hlen South) in VS. rewrite (Hlen West) in VW.
  set (ns := names_of T North) in *. set (ew := names_of T East) in *.
  set (T0 := [MS (seated_line North (a_team aN)); MS (teams_line ns ew)]).
  set (T2 := [MS (seated_line East (a_team aE)); MS (teams_line ns ew)]).
  set (T4 := [MS (seated_line South (a_team aS)); MS (teams_line ns ew)]).
  set (T6 := [MS (seated_line West (a_team aW)); MS (teams_line ns ew)]).
  match type of VN with _ = mkView _ _ _ _ _ _ _ (Some ?u) _ _ => set (T1 := u) in * end.
  match type of VE with _ = mkView _ _ _ _ _ _ _ (Some ?u) _ _ => set (T3 := u) in * end.
  match type of VS with _ = mkView _ _ _ _ _ _ _ (Some ?u) _ _ => set (T5 := u) in * end.
  match type of VW with _ = mkView _ _ _ _ _ _ _ (Some ?u) _ _ => set (T7 := u) in * end.
  (* the boards up to the abort, in the 4-connection network *)
  destruct (abort_from_start boards (names_of T) scr a bd T0 T1 T2 T3 T4 T5 T6 T7 Hlen Hnth HC Hw)
    as (l2 & f0 & Hr2 & recs & HR & Hrecs).
  (* the correspondence at the start of board 1, the lifted run *)
  assert (C1 : corr msg (sgm n pi) (rhm n pi) idc 9 26 0 (StartSt (names_of T) boards scr T0 T1 T2 T3 T4 T5 T6 T7) s1).
  { unfold StartSt. fold nb.
    eapply (start_corr n pi pi_lt pi_inj); [exact Hsh|exact Hm| |exact VN|exact VE|exact VS|exact VW| | | | | | | | ].
    - apply sim_boards_loop; [intros []; reflexivity|intros []; reflexivity|reflexivity].
    - apply sim_t_boards; reflexivity.
    - apply sim_t_boards; reflexivity.
    - apply sim_t_boards; reflexivity.
    - apply sim_t_boards; reflexivity.
    - apply sim_crecv; [reflexivity|]. intros s. apply sim_c_boards; reflexivity.
    - apply sim_crecv; [reflexivity|]. intros s. apply sim_c_boards; reflexivity.
    - apply sim_crecv; [reflexivity|]. intros s. apply sim_c_boards; reflexivity.
    - apply sim_crecv; [reflexivity|]. intros s. apply sim_c_boards; reflexivity. }
  destruct (embed_run msg PARTIES (sgm n pi) (rhm n pi) idc 9 26 0 (sgm_inj n pi pi_lt pi_inj) (rhm_inj n pi pi_lt pi_inj)
              ltac:(intros u v Hu; lia) l2 _ _ s1 Hr2 C1) as (f & Hr3 & Cf & Ff).
  assert (Len0 : length (Kahn.chans msg f0) = 26) by (rewrite (run_chans_len l2 _ f0 Hr2); reflexivity).
  destruct (raised_corr n pi _ f0 f Len0 HR Cf) as (Fm & Flog).
  assert (Hrun : srun (l1 ++ map (sgm n pi) l2) (init_state x) = Some f).
  { unfold srun in *. rewrite run_app, Hr1. exact Hr3. }
  exists (l1 ++ map (sgm n pi) l2), f, recs.
  split; [exact Hrun|]. split; [|split; [exact Hrecs|]].
  - split; [exact Fm|]. unfold log_events. rewrite (chan_of_chn _ _ _ Flog), <- app_assoc. apply log_flat.
  - intros j r Hj. assert (Bj : j < n) by (apply nth_error_Some; fold reqs; congruence).
    destruct (Hl j r Hj) as (Hb & _ & Hd).
    split.
    + intros e L E. rewrite (loc_frame n pi pi_lt pi_inj s1 f j Ff Bj); [exact (Hb e L E)|].
      intros [] Ep; rewrite ?CN_, ?CE_, ?CS_, ?CW_ in Ep; subst j; congruence.
    + intros L. rewrite (loc_frame n pi pi_lt pi_inj s1 f j Ff Bj); [exact (Hd L)|].
      intros [] Ep; rewrite ?CN_, ?CE_, ?CS_, ?CW_ in Ep; subst j; lia.
Qed.

(* ===================================================================== part 3: every schedule; the file parses; one final state *)
(* from ONE schedule that makes main raise with the records recs in the file to EVERY schedule, for any session *)
Theorem abort_every_schedule_n : forall x l f recs,
  srun l (init_state x) = Some f -> aborted_with_n (nconn x) recs f ->
  forall l' s', srun l' (init_state x) = Some s' -> main_ended s' \/ sfinal s' ->
    aborted_with_n (nconn x) recs s' /\
    exists ts, written_tokens json_framing tag_logs (map record_json recs) = Some ts /\
               parse_doc ts = Some (JObj [(tag_logs, JArr (map record_json recs))]).
Proof.
  intros x l f recs Hrun [Hfail Hlog] l' s' Hrun' Hend.
  destruct (raised_in_every_schedule x l f Hrun Hfail l' s' Hrun' Hend) as [H1 H2].
  rewrite Hlog in H2.
  split; [split; [exact H1|exact H2]|].
  destruct (aborted_log_parses x l' s' Hrun' (or_intror H1)) as (recs' & ts & E1 & E2 & E3).
  { rewrite H2. discriminate. }
  rewrite H2 in E1. injection E1 as E1. apply map_LRec_inj in E1. subst recs'.
  exists ts. split; assumption.
Qed.

(* no schedule can avoid the abort *)
Theorem abort_stays_reachable_n : forall x l f recs,
  srun l (init_state x) = Some f -> aborted_with_n (nconn x) recs f ->
  forall l' s', srun l' (init_state x) = Some s' -> exists m' j, srun m' s' = Some j /\ aborted_with_n (nconn x) recs j.
Proof.
  intros x l f recs Hrun [Hfail Hlog] l' s' Hrun'.
  destruct (raise_stays_reachable x l f Hrun Hfail l' s' Hrun') as (m' & j & Hm' & Hf' & Hl').
  exists m', j. split; [exact Hm'|]. split; [exact Hf'|rewrite Hl'; exact Hlog].
Qed.

(* one final state, every schedule bounded, every maximal schedule ends there *)
Theorem abort_bounded_n : forall x l f recs,
  srun l (init_state x) = Some f -> aborted_with_n (nconn x) recs f ->
  exists fin bound, sfinal fin /\ aborted_with_n (nconn x) recs fin /\
    forall l' s', srun l' (init_state x) = Some s' -> length l' <= bound /\ (sfinal s' -> s' = fin).
Proof.
  intros x l f recs Hrun [Hfail Hlog].
  destruct (ended_bounded x l f Hrun (or_intror Hfail)) as (fin & bound & H1 & H2 & H3 & H4).
  exists fin, bound. split; [exact H1|]. split; [|exact H4].
  split; [unfold pr; rewrite H2; exact Hfail|rewrite H3; exact Hlog].
Qed.

Lemma map_Some_inj {A} : forall (r1 r2 : list A), map Some r1 = map Some r2 -> r1 = r2.
Proof.
  induction r1 as [|u r1 IH]; intros [|v r2] H; cbn [map] in H; try discriminate; [reflexivity|].
  injection H as -> H. f_equal. apply IH. exact H.
Qed.

(* ===================================================================== the theorems *)
Theorem abandoned_session_any_arrivals : forall (x : session) a bd,
  let reqs := s_arrivals x in
  let n := nconn x in
  let T := seat_requests reqs empty_table in
  s_interrupt x = None -> wf_requests reqs -> all_seated T = true ->
  (forall p, length (seated_scripts x p) = length (s_boards x)) ->
  nth_error (s_boards x) a = Some bd ->
  forallb (fun '(i, b) => conform_board b (fun p => nth_script (seated_scripts x p) i))
          (combine (seq 0 a) (firstn a (s_boards x))) = true ->
  board_goes_wrong bd (fun p => nth_script (seated_scripts x p) a) ->
  exists recs, map Some recs = recs_from (names_of T) (seated_scripts x) 0 (firstn a (s_boards x)) /\
    (* some schedule makes the main thread raise; the requests turned away or too late are as the seating phase left them *)
    (exists l f, srun l (init_state x) = Some f /\ pr f 0 = Some Fail /\
                 log_events n f = LOpen :: map LRec recs ++ [LClose] /\
                 (forall j r, nth_error reqs j = Some r ->
                    (forall e, j < looked_at reqs empty_table ->
                               admission_error (table_before reqs j) (a_team r) (a_seat r) (a_version r) = Some e ->
                               loc n f j = turned_view r e) /\
                    (looked_at reqs empty_table <= j -> loc n f j = waiting_view n (length (s_boards x)) j r (script_of x j)))) /\
    (* no schedule can avoid it *)
    (forall l' s', srun l' (init_state x) = Some s' ->
       exists m' f, srun m' s' = Some f /\ pr f 0 = Some Fail /\ log_events n f = LOpen :: map LRec recs ++ [LClose]) /\
    (* whenever the main thread has ended, or nothing can move, it has raised and the file is complete, holds recs and parses to them *)
    (forall l' s', srun l' (init_state x) = Some s' -> main_ended s' \/ sfinal s' ->
       pr s' 0 = Some Fail /\ log_events n s' = LOpen :: map LRec recs ++ [LClose] /\
       exists ts, written_tokens json_framing tag_logs (map record_json recs) = Some ts /\
                  parse_doc ts = Some (JObj [(tag_logs, JArr (map record_json recs))])).
Proof.
  intros x a bd reqs n T Hint Hwf AS Hlen Hnth HC Hw.
  destruct (abandoned_run_any_arrivals x a bd Hint Hwf AS Hlen Hnth HC Hw) as (l & f & recs & Hrun & Hab & Hrecs & Hoth).
  fold reqs n T in Hab, Hrecs, Hoth.
  exists recs. split; [exact Hrecs|]. split; [|split].
  - exists l, f. destruct Hab as [A B]. auto.
  - intros l' s' Hrun'. destruct (abort_stays_reachable_n x l f recs Hrun Hab l' s' Hrun') as (m' & j & Hm' & A & B).
    exists m', j. auto.
  - intros l' s' Hrun' Hend. destruct (abort_every_schedule_n x l f recs Hrun Hab l' s' Hrun' Hend) as ([A B] & P).
    auto.
Qed.

Theorem abandoned_session_any_arrivals_bounded : forall (x : session) a bd,
  let reqs := s_arrivals x in
  let n := nconn x in
  let T := seat_requests reqs empty_table in
  s_interrupt x = None -> wf_requests reqs -> all_seated T = true ->
  (forall p, length (seated_scripts x p) = length (s_boards x)) ->
  nth_error (s_boards x) a = Some bd ->
  forallb (fun '(i, b) => conform_board b (fun p => nth_script (seated_scripts x p) i))
          (combine (seq 0 a) (firstn a (s_boards x))) = true ->
  board_goes_wrong bd (fun p => nth_script (seated_scripts x p) a) ->
  exists recs fin bound, map Some recs = recs_from (names_of T) (seated_scripts x) 0 (firstn a (s_boards x)) /\
    sfinal fin /\ pr fin 0 = Some Fail /\ log_events n fin = LOpen :: map LRec recs ++ [LClose] /\
    (exists ts, written_tokens json_framing tag_logs (map record_json recs) = Some ts /\
                parse_doc ts = Some (JObj [(tag_logs, JArr (map record_json recs))])) /\
    forall l' s', srun l' (init_state x) = Some s' -> length l' <= bound /\ (sfinal s' -> s' = fin).
Proof.
  intros x a bd reqs n T Hint Hwf AS Hlen Hnth HC Hw.
  destruct (abandoned_run_any_arrivals x a bd Hint Hwf AS Hlen Hnth HC Hw) as (l & f & recs & Hrun & Hab & Hrecs & _).
  fold reqs n T in Hab, Hrecs.
  destruct (abort_bounded_n x l f recs Hrun Hab) as (fin & bound & H1 & [H2 H3] & H4).
  destruct (every_run_extends_to_a_final_state (init_state x)) as (m & fin' & Hm & Hfin').
  pose proof (proj2 (H4 m fin' Hm) Hfin') as E. subst fin'.
  destruct (abort_every_schedule_n x l f recs Hrun Hab m fin Hm (or_intror H1)) as (_ & P).
  exists recs, fin, bound. auto 10.
Qed.

(* the interrupt armed as well: whichever comes first, the file holds a prefix of the records of the boards finished before the fault *)
Theorem abandoned_session_any_arrivals_interrupted : forall (x : session) a bd k,
  let reqs := s_arrivals x in
  let n := nconn x in
  let T := seat_requests reqs empty_table in
  s_interrupt x = None -> wf_requests reqs -> all_seated T = true ->
  (forall p, length (seated_scripts x p) = length (s_boards x)) ->
  nth_error (s_boards x) a = Some bd ->
  forallb (fun '(i, b) => conform_board b (fun p => nth_script (seated_scripts x p) i))
          (combine (seq 0 a) (firstn a (s_boards x))) = true ->
  board_goes_wrong bd (fun p => nth_script (seated_scripts x p) a) ->
  exists recs cnt fin bound, map Some recs = recs_from (names_of T) (seated_scripts x) 0 (firstn a (s_boards x)) /\
    sfinal fin /\ main_ended fin /\ log_events n fin = LOpen :: map LRec (firstn cnt recs) ++ [LClose] /\
    forall l' s', srun l' (init_state (with_interrupt x k)) = Some s' -> length l' <= bound /\ (sfinal s' -> s' = fin).
Proof.
  intros x a bd k reqs n T Hint Hwf AS Hlen Hnth HC Hw.
  destruct (abandoned_run_any_arrivals x a bd Hint Hwf AS Hlen Hnth HC Hw) as (l & f & recs & Hrun & [Hfail Hlog] & Hrecs & _).
  fold reqs n T in Hlog, Hrecs.
  destruct (interrupt_generic x k l f recs Hint Hrun (or_intror Hfail) Hlog) as (li & fi & cnt & Hruni & Hendi & Hlogi).
  destruct (ended_bounded _ li fi Hruni Hendi) as (fin & bound & H1 & H2 & H3 & H4).
  exists recs, cnt, fin, bound. split; [exact Hrecs|]. split; [exact H1|]. split.
  - unfold main_ended in *. rewrite H2. exact Hendi.
  - split; [|exact H4]. change (nconn (with_interrupt x k)) with (nconn x) in H3. fold n in H3. rewrite H3. exact Hlogi.
Qed.

(* ===================================================================== non-vacuity *)
(* SessionAdmission's eight requests (three turned away, one too late; North, East, South, West are connections 1, 4, 5, 6);
   two boards: the first is passed out, on the second East (the dealer) says something that is not a call *)
Module AbortArrivalsExample.
  Import AbortExample.
  Definition x : session :=
    mkSession boards reqs8 [[]; scripts North; []; []; scripts East; scripts South; scripts West; []] None.
  Example hyp_lengths : forall p, length (seated_scripts x p) = length (s_boards x).
  Proof. intros []; reflexivity. Qed.
  Example hyp_conform :
    forallb (fun '(i, b) => conform_board b (fun p => nth_script (seated_scripts x p) i))
            (combine (seq 0 1) (firstn 1 (s_boards x))) = true.
  Proof. vm_compute. reflexivity. Qed.
  Example hyp_wrong : board_goes_wrong (mkBoard "2" East VNS dl None) (fun p => nth_script (seated_scripts x p) 1).
  Proof. exists 0. left. vm_compute. reflexivity. Qed.
  Example every_schedule :
    exists recs fin bound,
      map Some recs = recs_from (names_of (seat_requests reqs8 empty_table)) (seated_scripts x) 0 (firstn 1 boards) /\
      sfinal fin /\ pr fin 0 = Some Fail /\ log_events 8 fin = LOpen :: map LRec recs ++ [LClose] /\
      (exists ts, written_tokens json_framing tag_logs (map record_json recs) = Some ts /\
                  parse_doc ts = Some (JObj [(tag_logs, JArr (map record_json recs))])) /\
      forall l' s', srun l' (init_state x) = Some s' -> length l' <= bound /\ (sfinal s' -> s' = fin).
  Proof.
    destruct premises_satisfiable as (Hwf & Hfull & _).
    exact (abandoned_session_any_arrivals_bounded x 1 _ eq_refl Hwf Hfull hyp_lengths eq_refl hyp_conform hyp_wrong).
  Qed.
  (* the one record in the file is the passed-out board 1, with the team names of the final table *)
  Example one_record : exists r,
    recs_from (names_of (seat_requests reqs8 empty_table)) (seated_scripts x) 0 (firstn 1 boards) = [Some r] /\
    l_board_id r = "1" /\ l_play r = None.
  Proof. vm_compute. eexists. split; [reflexivity|split; reflexivity]. Qed.
End AbortArrivalsExample.

Print Assumptions upto_auction_start.
Print Assumptions fault_from_auction.
Print Assumptions abort_from_start.
Print Assumptions abandoned_run_any_arrivals.
Print Assumptions abort_every_schedule_n.
Print Assumptions abort_stays_reachable_n.
Print Assumptions abort_bounded_n.
Print Assumptions abandoned_session_any_arrivals.
Print Assumptions abandoned_session_any_arrivals_bounded.
Print Assumptions abandoned_session_any_arrivals_interrupted.
Print Assumptions AbortArrivalsExample.every_schedule.
Print Assumptions AbortArrivalsExample.one_record.
