(* Pin: every constant regenerated from bridge_env/score.py on this run (Gen/ScoreConsts.v) is the one of the model
   (Model/ScoreConstsHand.v). *)
From Coq Require Import List ZArith.
Import ListNotations.
From BE Require Gen.ScoreConsts Model.ScoreConstsHand.
Local Open Scope Z_scope.
Lemma pin_k_minor : Gen.ScoreConsts.k_minor = Model.ScoreConstsHand.k_minor.
Proof. reflexivity. Qed.
Lemma pin_k_major : Gen.ScoreConsts.k_major = Model.ScoreConstsHand.k_major.
Proof. reflexivity. Qed.
Lemma pin_k_nt : Gen.ScoreConsts.k_nt = Model.ScoreConstsHand.k_nt.
Proof. reflexivity. Qed.
Lemma pin_k_make : Gen.ScoreConsts.k_make = Model.ScoreConstsHand.k_make.
Proof. reflexivity. Qed.
Lemma pin_k_make_x : Gen.ScoreConsts.k_make_x = Model.ScoreConstsHand.k_make_x.
Proof. reflexivity. Qed.
Lemma pin_k_make_xx : Gen.ScoreConsts.k_make_xx = Model.ScoreConstsHand.k_make_xx.
Proof. reflexivity. Qed.
Lemma pin_k_game : Gen.ScoreConsts.k_game = Model.ScoreConstsHand.k_game.
Proof. reflexivity. Qed.
Lemma pin_k_game_vul : Gen.ScoreConsts.k_game_vul = Model.ScoreConstsHand.k_game_vul.
Proof. reflexivity. Qed.
Lemma pin_k_small_slam : Gen.ScoreConsts.k_small_slam = Model.ScoreConstsHand.k_small_slam.
Proof. reflexivity. Qed.
Lemma pin_k_small_slam_vul : Gen.ScoreConsts.k_small_slam_vul = Model.ScoreConstsHand.k_small_slam_vul.
Proof. reflexivity. Qed.
Lemma pin_k_grand_slam : Gen.ScoreConsts.k_grand_slam = Model.ScoreConstsHand.k_grand_slam.
Proof. reflexivity. Qed.
Lemma pin_k_grand_slam_vul : Gen.ScoreConsts.k_grand_slam_vul = Model.ScoreConstsHand.k_grand_slam_vul.
Proof. reflexivity. Qed.
Lemma pin_k_overtrick_x : Gen.ScoreConsts.k_overtrick_x = Model.ScoreConstsHand.k_overtrick_x.
Proof. reflexivity. Qed.
Lemma pin_k_overtrick_x_vul : Gen.ScoreConsts.k_overtrick_x_vul = Model.ScoreConstsHand.k_overtrick_x_vul.
Proof. reflexivity. Qed.
Lemma pin_k_overtrick_xx : Gen.ScoreConsts.k_overtrick_xx = Model.ScoreConstsHand.k_overtrick_xx.
Proof. reflexivity. Qed.
Lemma pin_k_overtrick_xx_vul : Gen.ScoreConsts.k_overtrick_xx_vul = Model.ScoreConstsHand.k_overtrick_xx_vul.
Proof. reflexivity. Qed.
Lemma pin_k_down : Gen.ScoreConsts.k_down = Model.ScoreConstsHand.k_down.
Proof. reflexivity. Qed.
Lemma pin_k_down_vul : Gen.ScoreConsts.k_down_vul = Model.ScoreConstsHand.k_down_vul.
Proof. reflexivity. Qed.
Lemma pin_k_down_x : Gen.ScoreConsts.k_down_x = Model.ScoreConstsHand.k_down_x.
Proof. reflexivity. Qed.
Lemma pin_k_down_x_vul : Gen.ScoreConsts.k_down_x_vul = Model.ScoreConstsHand.k_down_x_vul.
Proof. reflexivity. Qed.
Lemma pin_k_down_xx : Gen.ScoreConsts.k_down_xx = Model.ScoreConstsHand.k_down_xx.
Proof. reflexivity. Qed.
Lemma pin_k_down_xx_vul : Gen.ScoreConsts.k_down_xx_vul = Model.ScoreConstsHand.k_down_xx_vul.
Proof. reflexivity. Qed.
Lemma pin_k_imps_list : Gen.ScoreConsts.k_imps_list = Model.ScoreConstsHand.k_imps_list.
Proof. reflexivity. Qed.

Theorem score_constants_pinned :
  Gen.ScoreConsts.k_minor = Model.ScoreConstsHand.k_minor /\
  Gen.ScoreConsts.k_major = Model.ScoreConstsHand.k_major /\
  Gen.ScoreConsts.k_nt = Model.ScoreConstsHand.k_nt /\
  Gen.ScoreConsts.k_make = Model.ScoreConstsHand.k_make /\
  Gen.ScoreConsts.k_make_x = Model.ScoreConstsHand.k_make_x /\
  Gen.ScoreConsts.k_make_xx = Model.ScoreConstsHand.k_make_xx /\
  Gen.ScoreConsts.k_game = Model.ScoreConstsHand.k_game /\
  Gen.ScoreConsts.k_game_vul = Model.ScoreConstsHand.k_game_vul /\
  Gen.ScoreConsts.k_small_slam = Model.ScoreConstsHand.k_small_slam /\
  Gen.ScoreConsts.k_small_slam_vul = Model.ScoreConstsHand.k_small_slam_vul /\
  Gen.ScoreConsts.k_grand_slam = Model.ScoreConstsHand.k_grand_slam /\
  Gen.ScoreConsts.k_grand_slam_vul = Model.ScoreConstsHand.k_grand_slam_vul /\
  Gen.ScoreConsts.k_overtrick_x = Model.ScoreConstsHand.k_overtrick_x /\
  Gen.ScoreConsts.k_overtrick_x_vul = Model.ScoreConstsHand.k_overtrick_x_vul /\
  Gen.ScoreConsts.k_overtrick_xx = Model.ScoreConstsHand.k_overtrick_xx /\
  Gen.ScoreConsts.k_overtrick_xx_vul = Model.ScoreConstsHand.k_overtrick_xx_vul /\
  Gen.ScoreConsts.k_down = Model.ScoreConstsHand.k_down /\
  Gen.ScoreConsts.k_down_vul = Model.ScoreConstsHand.k_down_vul /\
  Gen.ScoreConsts.k_down_x = Model.ScoreConstsHand.k_down_x /\
  Gen.ScoreConsts.k_down_x_vul = Model.ScoreConstsHand.k_down_x_vul /\
  Gen.ScoreConsts.k_down_xx = Model.ScoreConstsHand.k_down_xx /\
  Gen.ScoreConsts.k_down_xx_vul = Model.ScoreConstsHand.k_down_xx_vul /\
  Gen.ScoreConsts.k_imps_list = Model.ScoreConstsHand.k_imps_list.
Proof. repeat split; reflexivity. Qed.
Print Assumptions score_constants_pinned.
