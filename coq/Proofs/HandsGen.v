(* The functions GENERATED from the text of class Hands (bridge_env/hands.py) by harness/gen_hands.py (Gen/HandsFns.v)
   equal the hand-written model Model/Hands.v - for ALL arguments.  Where the two work on different representations the
   exact relation is stated:
     - the object is the record py_hands (one field per attribute); the model's deal is the function deal_of s.
     - __getitem__: never raises on a Player (the final `raise KeyError` is dead): g_getitem s p = Some (deal_of s p).
     - _convert_hand_to_pbn = hand_to_pbn, to_pbn = to_pbn: equal as they are, None (the assertion fails) included.
       The code tests `len(hand) == 0`, the model matches on the list; the code filters the descending sorted hand by suit
       and maps Card.rank_int_to_str (which can raise: it never does on the rank of a card), the model filters the
       descending ranks by membership: the same list (ranks_of_sorted).
     - to_binary: the dict Player -> vector is the list of its four items in the order of the Enum; each vector is the
       model's to_binary of that hand; `binary[int(card)] = 1` never raises (int(card) < 52).  Holds for every list of
       cards, so for every iteration order of the set.
     - convert_binary: for a dict that has the four keys and vectors of at least 52 entries (otherwise the code raises
       KeyError / IndexError, the model is total) the result holds, seat by seat, the model's cards, newest first
       (`S.add(c)` is `c :: S`): the reverse of the model's list, which is in ascending index.  The `elif` chain is the
       model's "first of N, E, S, W".
     - generate_random_hands: the comprehension is the model's pack_order (by computation); for EVERY function `shuffle`
       the four slices are the model's deal_of_shuffle of the shuffled pack.  That the result is a deal when the shuffle
       is a permutation is the model's lemma dealer_deals_a_deal (Proofs/Hands.v), restated here for the generated code.
   A change of the code of hands.py changes Gen/HandsFns.v and breaks one of these proofs (or the translator refuses). *)
From BE Require Import Model.Hands Gen.HandsFns.
From Coq Require Import Lia Permutation.
Local Open Scope string_scope.
Local Open Scope nat_scope.
Local Open Scope list_scope.
Local Infix "+++" := String.append (right associativity, at level 60).

(* the model's view of the object *)
Definition deal_of (s : py_hands) : deal :=
  fun p => match p with North => h_north s | East => h_east s | South => h_south s | West => h_west s end.
Definition hands_of (d : deal) : py_hands := mkHands (d North) (d East) (d South) (d West).

Lemma deal_of_hands_of d p : deal_of (hands_of d) p = d p.
Proof. destruct p; reflexivity. Qed.
Lemma hands_of_deal_of s : hands_of (deal_of s) = s.
Proof. destruct s; reflexivity. Qed.

(* ------------------------------------------------------------------ the prelude's loops, one step at a time *)
Lemma py_for_nil {A S : Type} (body : A -> S -> option S) st : py_for body [] st = Some st.
Proof. reflexivity. Qed.
Lemma py_for_cons {A S : Type} (body : A -> S -> option S) x r st :
  py_for body (x :: r) st = match body x st with None => None | Some st' => py_for body r st' end.
Proof. reflexivity. Qed.

(* a comprehension none of whose elements raises is a flat_map *)
Lemma py_comp_total {A B : Type} (f : A -> option (list B)) (g : A -> list B) l :
  (forall x, In x l -> f x = Some (g x)) -> py_comp f l = Some (flat_map g l).
Proof.
  induction l as [|x r IH]; intros H; [reflexivity|].
  cbn [py_comp flat_map]. rewrite (H x (or_introl eq_refl)), IH; [reflexivity|].
  intros y Hy. apply H. right. exact Hy.
Qed.

(* ------------------------------------------------------------------ the pinned facts the generated file states *)
Lemma player_names_are_seat_str : forall p, py_dict_get seat_beq p py_player_names = Some (seat_str p).
Proof. intros []; reflexivity. Qed.
Lemma player_members_are_all_seats : py_Player_members = all_seats.
Proof. reflexivity. Qed.
Lemma suit_members_are_all_strains : py_Suit_members = all_strains.
Proof. reflexivity. Qed.
Lemma to_pbn_default_dealer_is_north : g_to_pbn_default_dealer = North.
Proof. reflexivity. Qed.

(* Card.rank_int_to_str never raises on the rank of a card; Card(r, s) never raises on a rank and a suit *)
Lemma rank_int_to_str_of_rank r : py_rank_int_to_str (rank_val r) = Some (rank_str r).
Proof. destruct r; reflexivity. Qed.
Lemma py_card_of_rank r su : py_card (rank_val r) (Tr su) = Some (mkcard r su).
Proof. destruct r; reflexivity. Qed.

(* ------------------------------------------------------------------ __getitem__ and __init__ *)
Theorem getitem_gen : forall s p, g_getitem s p = Some (deal_of s p).
Proof. intros s []; reflexivity. Qed.

Theorem init_gen : forall n e s w, g_init n e s w = mkHands n e s w.
Proof. reflexivity. Qed.

Theorem to_dict_gen : forall s,
  g_to_dict s = Some [(North, h_north s); (East, h_east s); (South, h_south s); (West, h_west s)].
Proof. reflexivity. Qed.

(* ------------------------------------------------------------------ _convert_hand_to_pbn *)
Lemma filter_rev' {A : Type} (f : A -> bool) l : filter f (rev l) = rev (filter f l).
Proof.
  induction l as [|a l IH]; [reflexivity|].
  cbn [rev filter]. rewrite filter_app, IH. cbn [filter]. destruct (f a); [reflexivity | apply app_nil_r].
Qed.
Lemma filter_comm {A : Type} (f g : A -> bool) l : filter f (filter g l) = filter g (filter f l).
Proof.
  induction l as [|a l IH]; [reflexivity|].
  cbn [filter]. destruct (g a) eqn:Eg, (f a) eqn:Ef; cbn [filter]; rewrite ?Eg, ?Ef, IH; reflexivity.
Qed.
Lemma ranks_of_filter (P : card -> bool) su l :
  map crank (filter P (map (fun r => mkcard r su) l)) = filter (fun r => P (mkcard r su)) l.
Proof.
  induction l as [|r l IH]; [reflexivity|].
  cbn [map filter]. destruct (P (mkcard r su)); cbn [map]; rewrite IH; reflexivity.
Qed.
(* the cards of one suit, highest first *)
Lemma suit_of_pack_desc su :
  filter (fun c => suit_beq (csuit c) su) (rev all_cards) = map (fun r => mkcard r su) ranks_desc.
Proof. destruct su; vm_compute; reflexivity. Qed.

(* sorted(hand, reverse=True) filtered by suit, as ranks = the descending ranks filtered by membership *)
Lemma ranks_of_sorted h su :
  map crank (filter (fun c => suit_beq (csuit c) su) (rev (sorted_hand h)))
  = filter (fun r => has_card h (mkcard r su)) ranks_desc.
Proof.
  unfold sorted_hand. rewrite <- filter_rev', filter_comm, suit_of_pack_desc. apply ranks_of_filter.
Qed.

Lemma flat_map_pick {A B : Type} (t : A -> bool) (f : A -> B) l :
  flat_map (fun x => if t x then [f x] else []) l = map f (filter t l).
Proof.
  induction l as [|a l IH]; [reflexivity|].
  cbn [flat_map filter]. destruct (t a); cbn [map app]; rewrite IH; reflexivity.
Qed.

(* the comprehension of the loop body: the ranks of one suit as texts *)
Lemma comp_suit_field h su :
  py_comp (fun v_card => if strain_beq (Tr (csuit v_card)) (Tr su)
                         then match py_rank_int_to_str (rank_val (crank v_card)) with None => None | Some x => Some [x] end
                         else Some [])
          (rev (sorted_hand h))
  = Some (map rank_str (filter (fun r => has_card h (mkcard r su)) ranks_desc)).
Proof.
  rewrite (py_comp_total _ (fun c => if suit_beq (csuit c) su then [rank_str (crank c)] else [])).
  - rewrite (flat_map_pick (fun c => suit_beq (csuit c) su) (fun c => rank_str (crank c))).
    rewrite <- (map_map crank rank_str), ranks_of_sorted. reflexivity.
  - intros c _. cbn [strain_beq]. change (strain_beq (Tr (csuit c)) (Tr su)) with (suit_beq (csuit c) su).
    rewrite rank_int_to_str_of_rank. destruct (suit_beq (csuit c) su); reflexivity.
Qed.

Theorem convert_hand_to_pbn_gen : forall h, g_convert_hand_to_pbn h = hand_to_pbn h.
Proof.
  intros h. unfold g_convert_hand_to_pbn, hand_to_pbn.
  destruct h as [|c t]; [reflexivity|].
  change (length (c :: t) =? 0) with false. cbv iota.
  destruct (length (c :: t) =? 13); [|reflexivity].
  cbv zeta.
  do 4 (rewrite py_for_cons; cbv beta; rewrite comp_suit_field; cbv beta iota zeta).
  rewrite py_for_nil. cbn [app]. reflexivity.
Qed.

(* ------------------------------------------------------------------ to_pbn *)
Theorem to_pbn_gen : forall s dealer, g_to_pbn s dealer = to_pbn (deal_of s) dealer.
Proof.
  intros s dealer. unfold g_to_pbn, to_pbn. cbv zeta.
  change (seq 0 4) with [0; 1; 2; 3].
  rewrite py_for_cons. cbv beta iota. rewrite getitem_gen, convert_hand_to_pbn_gen.
  destruct (hand_to_pbn (deal_of s dealer)) as [a|]; [|reflexivity].
  rewrite py_for_cons. cbv beta iota. rewrite getitem_gen, convert_hand_to_pbn_gen.
  destruct (hand_to_pbn (deal_of s (next dealer))) as [b|]; [|reflexivity].
  rewrite py_for_cons. cbv beta iota. rewrite getitem_gen, convert_hand_to_pbn_gen.
  destruct (hand_to_pbn (deal_of s (next (next dealer)))) as [c|]; [|reflexivity].
  rewrite py_for_cons. cbv beta iota. rewrite getitem_gen, convert_hand_to_pbn_gen.
  destruct (hand_to_pbn (deal_of s (next (next (next dealer))))) as [e|]; [|reflexivity].
  rewrite py_for_nil. cbn [app nth_error]. reflexivity.
Qed.

Corollary to_pbn_gen_deal : forall d dealer, g_to_pbn (hands_of d) dealer = to_pbn d dealer.
Proof.
  intros d dealer. rewrite to_pbn_gen. unfold to_pbn. rewrite !deal_of_hands_of. reflexivity.
Qed.

(* ------------------------------------------------------------------ to_binary *)
(* binary[int(card)] = 1 on a vector indexed like the pack: never an IndexError; only that card's slot changes *)
Lemma set_bit (g : card -> nat) a :
  py_list_set (card_idx a) 1 (map g all_cards) = Some (map (fun c => if card_beq c a then 1 else g c) all_cards).
Proof. destruct a as [[] []]; vm_compute; reflexivity. Qed.

Lemma zeros_are_a_map : repeat 0 52 = map (fun _ : card => 0) all_cards.
Proof. vm_compute. reflexivity. Qed.

Lemma bits_loop h : forall g : card -> nat,
  py_for (fun v_card v_binary => match py_list_set (card_idx v_card) 1 v_binary with None => None | Some x => Some x end)
         h (map g all_cards)
  = Some (map (fun c => if has_card h c then 1 else g c) all_cards).
Proof.
  induction h as [|a h IH]; intros g.
  - reflexivity.
  - rewrite py_for_cons, set_bit, IH. f_equal. apply map_ext. intros c.
    unfold has_card. cbn [existsb]. destruct (card_beq c a), (existsb (card_beq c) h); reflexivity.
Qed.

Lemma bits_of_hand h :
  py_for (fun v_card v_binary => match py_list_set (card_idx v_card) 1 v_binary with None => None | Some x => Some x end)
         h (repeat 0 52)
  = Some (to_binary h).
Proof. rewrite zeros_are_a_map, bits_loop. reflexivity. Qed.

Theorem to_binary_gen : forall s,
  g_to_binary s = Some [(North, to_binary (h_north s)); (East, to_binary (h_east s));
                        (South, to_binary (h_south s)); (West, to_binary (h_west s))].
Proof.
  intros s. unfold g_to_binary, py_Player_members. cbv zeta.
  do 4 (rewrite py_for_cons; cbv beta zeta; rewrite getitem_gen; cbv beta iota; rewrite bits_of_hand; cbv beta iota).
  rewrite py_for_nil. reflexivity.
Qed.

(* ------------------------------------------------------------------ convert_binary *)
Lemma card_of_idx_cn i : i < 52 -> card_of_idx i = Some (cn i).
Proof.
  intros H. assert (forallb (fun i => match card_of_idx i with Some _ => true | None => false end) (seq 0 52) = true) as K
    by (vm_compute; reflexivity).
  rewrite forallb_forall in K. specialize (K i). unfold cn.
  destruct (card_of_idx i); [reflexivity|]. discriminate K. apply in_seq. lia.
Qed.

Lemma pack_by_index : combine (seq 0 52) all_cards = map (fun i => (i, cn i)) (seq 0 52).
Proof. vm_compute. reflexivity. Qed.

Lemma pick_by_index (P : nat -> bool) :
  map snd (filter (fun ic : nat * card => P (fst ic)) (combine (seq 0 52) all_cards)) = map cn (filter P (seq 0 52)).
Proof.
  rewrite pack_by_index. induction (seq 0 52) as [|i l IH]; [reflexivity|].
  cbn [map filter fst]. destruct (P i); cbn [map snd]; rewrite IH; reflexivity.
Qed.

Section ConvertBinary.
  Variables vn ve vs vw : list nat.
  Let bit (v : list nat) (i : nat) : bool := nth i v 0 =? 1.
  (* the model's four selections, on indices *)
  Let PN i := bit vn i && forallb (fun v => negb (bit v i)) [].
  Let PE i := bit ve i && forallb (fun v => negb (bit v i)) [vn].
  Let PS i := bit vs i && forallb (fun v => negb (bit v i)) [vn; ve].
  Let PW i := bit vw i && forallb (fun v => negb (bit v i)) [vn; ve; vs].

  Lemma model_convert_binary p :
    convert_binary vn ve vs vw p
    = map cn (filter match p with North => PN | East => PE | South => PS | West => PW end (seq 0 52)).
  Proof. destruct p; unfold convert_binary; [exact (pick_by_index PN) | exact (pick_by_index PE) | exact (pick_by_index PS) | exact (pick_by_index PW)]. Qed.

  Let state := (list card * list card * list card * list card)%type.
  Variable body : nat -> state -> option state.
  (* one iteration: the card goes to the first of N, E, S, W whose vector has a 1 in that slot *)
  Hypothesis body_step : forall i n e s w, i < 52 ->
    body i (n, e, s, w) = Some (if bit vn i then (cn i :: n, e, s, w)
                                else if bit ve i then (n, cn i :: e, s, w)
                                else if bit vs i then (n, e, cn i :: s, w)
                                else if bit vw i then (n, e, s, cn i :: w) else (n, e, s, w)).

  Lemma convert_loop : forall l, (forall i, In i l -> i < 52) -> forall n e s w,
    py_for body l (n, e, s, w)
    = Some (rev (map cn (filter PN l)) ++ n, rev (map cn (filter PE l)) ++ e,
            rev (map cn (filter PS l)) ++ s, rev (map cn (filter PW l)) ++ w).
  Proof.
    induction l as [|i l IH]; intros Hl n e s w; [reflexivity|].
    rewrite py_for_cons, body_step by (apply Hl; left; reflexivity).
    assert (forall j, In j l -> j < 52) as Hl' by (intros j Hj; apply Hl; right; exact Hj).
    cbn [filter]. unfold PN, PE, PS, PW. cbn [forallb].
    destruct (bit vn i), (bit ve i), (bit vs i), (bit vw i); cbn [andb negb map rev];
      rewrite (IH Hl'); unfold PN, PE, PS, PW; cbn [forallb]; rewrite <- ?app_assoc; reflexivity.
  Qed.
End ConvertBinary.

Theorem convert_binary_gen : forall b vn ve vs vw,
  py_dict_get seat_beq North b = Some vn -> py_dict_get seat_beq East b = Some ve ->
  py_dict_get seat_beq South b = Some vs -> py_dict_get seat_beq West b = Some vw ->
  52 <= length vn -> 52 <= length ve -> 52 <= length vs -> 52 <= length vw ->
  g_convert_binary b = Some (mkHands (rev (convert_binary vn ve vs vw North)) (rev (convert_binary vn ve vs vw East))
                                     (rev (convert_binary vn ve vs vw South)) (rev (convert_binary vn ve vs vw West))).
Proof.
  intros b vn ve vs vw HN HE HS HW Ln Le Ls Lw.
  unfold g_convert_binary. cbv zeta. rewrite HN, HE, HS, HW.
  rewrite (convert_loop vn ve vs vw).
  - cbv iota beta. rewrite !app_nil_r, !model_convert_binary. cbv beta iota zeta delta [g_init].
    match goal with |- ?a = ?c => constr_eq a c end. reflexivity.
  - intros i n e s w Hi. cbv beta iota.
    rewrite (nth_error_nth' vn 0), (nth_error_nth' ve 0), (nth_error_nth' vs 0), (nth_error_nth' vw 0) by lia.
    rewrite (card_of_idx_cn i Hi).
    destruct (nth i vn 0 =? 1); [reflexivity|].
    destruct (nth i ve 0 =? 1); [reflexivity|].
    destruct (nth i vs 0 =? 1); [reflexivity|].
    destruct (nth i vw 0 =? 1); reflexivity.
  - intros i Hi. apply in_seq in Hi. lia.
Qed.

(* the same, through the model's view of the object *)
Corollary convert_binary_gen_deal : forall b vn ve vs vw,
  py_dict_get seat_beq North b = Some vn -> py_dict_get seat_beq East b = Some ve ->
  py_dict_get seat_beq South b = Some vs -> py_dict_get seat_beq West b = Some vw ->
  52 <= length vn -> 52 <= length ve -> 52 <= length vs -> 52 <= length vw ->
  exists s, g_convert_binary b = Some s /\ forall p, deal_of s p = rev (convert_binary vn ve vs vw p).
Proof.
  intros b vn ve vs vw HN HE HS HW Ln Le Ls Lw. eexists. split.
  - apply (convert_binary_gen b vn ve vs vw); assumption.
  - intros []; reflexivity.
Qed.

(* where the model is silent: a missing key is a KeyError *)
Lemma convert_binary_gen_keyerror : forall b, py_dict_get seat_beq North b = None -> g_convert_binary b = None.
Proof. intros b H. unfold g_convert_binary. cbv zeta. change (seq 0 52) with (0 :: seq 1 51). rewrite py_for_cons. cbv beta iota. rewrite H. reflexivity. Qed.

(* the vectors the generated to_binary writes are read back by the generated convert_binary as the model says *)
Theorem binary_gen_roundtrip : forall s, exists b s',
  g_to_binary s = Some b /\ g_convert_binary b = Some s' /\
  forall p, deal_of s' p = rev (convert_binary (to_binary (h_north s)) (to_binary (h_east s))
                                               (to_binary (h_south s)) (to_binary (h_west s)) p).
Proof.
  intros s. eexists. rewrite to_binary_gen.
  destruct (convert_binary_gen_deal [(North, to_binary (h_north s)); (East, to_binary (h_east s));
                                     (South, to_binary (h_south s)); (West, to_binary (h_west s))]
              (to_binary (h_north s)) (to_binary (h_east s)) (to_binary (h_south s)) (to_binary (h_west s)))
    as [s' [E H]]; try reflexivity; try (unfold to_binary; rewrite map_length; vm_compute; lia).
  exists s'. split; [reflexivity|]. split; assumption.
Qed.

(* ------------------------------------------------------------------ generate_random_hands *)
Theorem generate_random_hands_gen : forall shuffle : list card -> list card,
  g_generate_random_hands shuffle = Some (hands_of (deal_of_shuffle (shuffle pack_order))).
Proof.
  intros shuffle. unfold g_generate_random_hands.
  match goal with |- match ?c with _ => _ end = _ => assert (c = Some pack_order) as -> by (vm_compute; reflexivity) end.
  cbv beta iota zeta. reflexivity.
Qed.

Corollary generate_random_hands_gen_deal : forall (shuffle : list card -> list card), exists s,
  g_generate_random_hands shuffle = Some s /\ forall p, deal_of s p = deal_of_shuffle (shuffle pack_order) p.
Proof. intros shuffle. eexists. split; [apply generate_random_hands_gen|]. intros p. apply deal_of_hands_of. Qed.

(* ------------------------------------------------------------------ non-vacuity examples *)
(* North holds the spades, East the hearts, South the diamonds, West the clubs *)
Definition ex_hands : py_hands := mkHands (map cn (seq 39 13)) (map cn (seq 26 13)) (map cn (seq 13 13)) (map cn (seq 0 13)).

Example ex_gen_to_pbn :
  g_to_pbn ex_hands East = Some "E:.AKQJT98765432.. ..AKQJT98765432. ...AKQJT98765432 AKQJT98765432..." /\
  g_to_pbn (mkHands [] (map cn (seq 0 12)) [] []) North = None /\            (* twelve cards: the assertion fails *)
  g_to_pbn (mkHands [] (h_east ex_hands) [] []) West = Some "W:- - .AKQJT98765432.. -".
Proof. repeat split; vm_compute; reflexivity. Qed.

Example ex_gen_binary :
  match g_to_binary ex_hands with
  | Some b => match g_convert_binary b with
              | Some s' => forallb (fun p => forallb (has_card (deal_of ex_hands p)) (deal_of s' p) &&
                                             forallb (has_card (deal_of s' p)) (deal_of ex_hands p)) all_seats
              | None => false end
  | None => false end = true /\
  (* a card flagged for two seats goes to the first; a vector that is too short is an IndexError *)
  option_map h_east (g_convert_binary [(North, repeat 1 52); (East, repeat 1 52); (South, repeat 0 52); (West, repeat 0 52)]) = Some [] /\
  g_convert_binary [(North, repeat 0 51); (East, repeat 0 52); (South, repeat 0 52); (West, repeat 0 52)] = None /\
  g_convert_binary [(North, repeat 0 52); (East, repeat 0 52); (South, repeat 0 52)] = None.
Proof. repeat split; vm_compute; reflexivity. Qed.

Example ex_gen_dealer :
  option_map (fun s => map card_idx (h_north s)) (g_generate_random_hands (fun l => l))
    = Some [0; 13; 26; 39; 1; 14; 27; 40; 2; 15; 28; 41; 3] /\
  option_map (fun s => map card_idx (h_west s)) (g_generate_random_hands (@rev card))
    = Some [3; 41; 28; 15; 2; 40; 27; 14; 1; 39; 26; 13; 0].
Proof. split; vm_compute; reflexivity. Qed.

(* ------------------------------------------------------------------ the model's lemmas (Proofs/Hands.v), for the generated code *)
From BE Require Import Proofs.Hands.

(* what the generated to_pbn writes, the model of convert_pbn reads back as the same deal *)
Corollary generated_pbn_roundtrip : forall s dealer t, pbn_deal (deal_of s) -> g_to_pbn s dealer = Some t ->
  exists d', convert_pbn t = Some d' /\ same_deal (deal_of s) d'.
Proof. intros s dealer t Hd H. rewrite to_pbn_gen in H. exact (pbn_roundtrip (deal_of s) dealer t Hd H). Qed.

Corollary generated_to_pbn_defined : forall s dealer, pbn_deal (deal_of s) -> exists t, g_to_pbn s dealer = Some t.
Proof. intros s dealer Hd. rewrite to_pbn_gen. apply to_pbn_defined. exact Hd. Qed.

(* the generated binary encoding followed by the generated decoding gives the same deal back *)
Corollary generated_binary_roundtrip : forall s, disjoint (deal_of s) -> exists b s',
  g_to_binary s = Some b /\ g_convert_binary b = Some s' /\ same_deal (deal_of s) (deal_of s').
Proof.
  intros s Hd. destruct (binary_gen_roundtrip s) as [b [s' [E1 [E2 H]]]]. exists b, s'. split; [exact E1|]. split; [exact E2|].
  intros p c. rewrite H, <- in_rev. exact (binary_roundtrip (deal_of s) Hd p c).
Qed.

(* the generated dealer deals a deal whenever the shuffle permutes the pack *)
Corollary generated_dealer_deals_a_deal : forall shuffle : list card -> list card,
  Permutation pack_order (shuffle pack_order) -> exists s, g_generate_random_hands shuffle = Some s /\
    (forall p, length (deal_of s p) = 13 /\ NoDup (deal_of s p)) /\ disjoint (deal_of s) /\ (forall c, exists p, In c (deal_of s p)).
Proof.
  intros shuffle HP. destruct (generate_random_hands_gen_deal shuffle) as [s [E H]]. exists s. split; [exact E|].
  destruct (dealer_deals_a_deal _ HP) as [A [B C]]. split; [|split].
  - intros p. rewrite H. apply A.
  - intros p q c Hpq. rewrite !H. apply B. exact Hpq.
  - intros c. destruct (C c) as [p Hp]. exists p. rewrite H. exact Hp.
Qed.


Print Assumptions getitem_gen.
Print Assumptions init_gen.
Print Assumptions to_dict_gen.
Print Assumptions convert_hand_to_pbn_gen.
Print Assumptions to_pbn_gen.
Print Assumptions to_pbn_gen_deal.
Print Assumptions to_binary_gen.
Print Assumptions convert_binary_gen.
Print Assumptions convert_binary_gen_deal.
Print Assumptions convert_binary_gen_keyerror.
Print Assumptions binary_gen_roundtrip.
Print Assumptions generate_random_hands_gen.
Print Assumptions generate_random_hands_gen_deal.
Print Assumptions player_names_are_seat_str.
Print Assumptions player_members_are_all_seats.
Print Assumptions suit_members_are_all_strains.
Print Assumptions to_pbn_default_dealer_is_north.
Print Assumptions generated_pbn_roundtrip.
Print Assumptions generated_to_pbn_defined.
Print Assumptions generated_binary_roundtrip.
Print Assumptions generated_dealer_deals_a_deal.
