(* The property theorems of C07 and C16 restated for the functions REGENERATED from score.py on every run
   (Gen/ScoreFns.v, written by harness/gen_score.py), through the equalities of Proofs/ScoreGen.v. *)
From BE Require Import Model.Score Spec.Duplicate Gen.ScoreFns Proofs.ScoreGen Proofs.C07 Proofs.C16.
Local Open Scope Z_scope.

Theorem g_all_contracts : forall l s x xx v d t, 0 <= t <= 13 ->
  g_calc_score (mkcontract (Some (l, s)) x xx v (Some d)) t
  = Some (dup_score (zlevel l) s (status_of x xx) (declarer_vulnerable d v) t).
Proof. intros. rewrite g_calc_score_eq. apply all_contracts; assumption. Qed.
Theorem g_all_bid_scores : forall l s x xx vb t, 0 <= t <= 13 ->
  g_calc_bid_score l s x xx vb t = Some (dup_score (zlevel l) s (status_of x xx) vb t).
Proof. intros. rewrite g_calc_bid_score_eq. apply all_bid_scores; assumption. Qed.
Theorem g_passed_out_zero : forall x xx v d t, g_calc_score (mkcontract None x xx v d) t = Some 0.
Proof. intros. rewrite g_calc_score_eq. apply passed_out_zero. Qed.
Theorem g_imps_official : forall d, g_point_difference_to_imps d = official_imps d.
Proof. intros. rewrite g_imps_eq. apply imps_official. Qed.
Theorem g_two_scores : forall a b, g_score_to_imp a b = official_imps (a + b).
Proof. intros. rewrite g_score_to_imp_eq. apply two_scores. Qed.
Theorem g_imps_range : forall d, -24 <= g_point_difference_to_imps d <= 24.
Proof. intros. rewrite g_imps_eq. apply imps_range. Qed.
Theorem g_imps_monotone : forall d e, d <= e -> g_point_difference_to_imps d <= g_point_difference_to_imps e.
Proof. intros. rewrite !g_imps_eq. apply imps_monotone; assumption. Qed.
Theorem g_imps_odd : forall d, g_point_difference_to_imps (- d) = - g_point_difference_to_imps d.
Proof. intros. rewrite !g_imps_eq. apply imps_odd. Qed.
