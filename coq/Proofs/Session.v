(* Static channel ownership of the session network of Model/Session.v, for every session input, and its
   consequences through the confluence theory of Proofs/Kahn.v; soundness of the canonical scheduler.
   Standard library only; closed under the global context. *)
From BE Require Import Model.Session Proofs.Kahn.
From BE Require Proofs.Auction.
From Coq Require Import Lia.

Definition rd (x : session) : nat -> nat := reader_of (nconn x).
Definition wr (x : session) : nat -> nat := writer_of (nconn x).
Definition cw : nat -> nat := fun _ => 0.
Definition srun := Kahn.run msg PARTIES.
Definition sfinal := Kahn.final msg PARTIES.

(* ---------- channel arithmetic ---------- *)
Lemma mod4 i r : r < 4 -> (4 * i + r) mod 4 = r.
Proof.
  intros H. rewrite (Nat.add_comm (4 * i) r), (Nat.mul_comm 4 i), Nat.mod_add by lia.
  apply Nat.mod_small; exact H.
Qed.
Lemma div4 i r : r < 4 -> (4 * i + r) / 4 = i.
Proof.
  intros H. rewrite (Nat.add_comm (4 * i) r), (Nat.mul_comm 4 i), Nat.div_add by lia.
  rewrite Nat.div_small by exact H. reflexivity.
Qed.

Ltac low_chan i n r :=
  match goal with
  | |- context[?c <? 4 * n] =>
      replace c with (4 * i + r) by lia;
      destruct (Nat.ltb_spec (4 * i + r) (4 * n)); [|lia];
      rewrite mod4, ?div4 by lia; reflexivity
  end.

Lemma rd_up n i : i < n -> reader_of n (ch_up i) = S i.
Proof. intros H. unfold reader_of, ch_up. low_chan i n 0. Qed.
Lemma rd_down n i : i < n -> reader_of n (ch_down i) = S (n + i).
Proof. intros H. unfold reader_of, ch_down. low_chan i n 1. Qed.
Lemma rd_q n i : i < n -> reader_of n (ch_q i) = S i.
Proof. intros H. unfold reader_of, ch_q. low_chan i n 2. Qed.
Lemma rd_r n i : i < n -> reader_of n (ch_r i) = 0.
Proof. intros H. unfold reader_of, ch_r. low_chan i n 3. Qed.
Lemma wr_up n i : i < n -> writer_of n (ch_up i) = S (n + i).
Proof. intros H. unfold writer_of, ch_up. low_chan i n 0. Qed.
Lemma wr_down n i : i < n -> writer_of n (ch_down i) = S i.
Proof. intros H. unfold writer_of, ch_down. low_chan i n 1. Qed.
Lemma wr_q n i : i < n -> writer_of n (ch_q i) = 0.
Proof. intros H. unfold writer_of, ch_q. low_chan i n 2. Qed.
Lemma wr_r n i : i < n -> writer_of n (ch_r i) = S i.
Proof. intros H. unfold writer_of, ch_r. low_chan i n 3. Qed.

Lemma rd_never n : reader_of n (ch_never n) = 0.
Proof.
  unfold reader_of, ch_never.
  destruct (Nat.ltb_spec (4 * n + 1) (4 * n)); [lia|].
  rewrite Nat.eqb_refl. reflexivity.
Qed.
Lemma wr_log n : writer_of n (ch_log n) = 0.
Proof.
  unfold writer_of, ch_log.
  destruct (Nat.ltb_spec (4 * n) (4 * n)); [lia|].
  rewrite Nat.eqb_refl. reflexivity.
Qed.
Lemma wr_trdown n i : writer_of n (tr_down n i) = S i.
Proof.
  unfold writer_of, tr_down.
  destruct (Nat.ltb_spec (4 * n + 2 + 2 * i) (4 * n)); [lia|].
  destruct (Nat.eqb_spec (4 * n + 2 + 2 * i) (4 * n)); [lia|].
  destruct (Nat.eqb_spec (4 * n + 2 + 2 * i) (4 * n + 1)); [lia|].
  replace (4 * n + 2 + 2 * i - (4 * n + 2)) with (i * 2) by lia.
  rewrite Nat.mod_mul, Nat.div_mul by lia. reflexivity.
Qed.
Lemma wr_trup n i : writer_of n (tr_up n i) = S (n + i).
Proof.
  unfold writer_of, tr_up.
  destruct (Nat.ltb_spec (4 * n + 3 + 2 * i) (4 * n)); [lia|].
  destruct (Nat.eqb_spec (4 * n + 3 + 2 * i) (4 * n)); [lia|].
  destruct (Nat.eqb_spec (4 * n + 3 + 2 * i) (4 * n + 1)); [lia|].
  replace (4 * n + 3 + 2 * i - (4 * n + 2)) with (1 + i * 2) by lia.
  rewrite Nat.mod_add, Nat.div_add by lia. reflexivity.
Qed.

(* ---------- generic ownership lemmas and the syntax-directed tactic ---------- *)
Notation WF n := (Kahn.wf msg (reader_of n) (writer_of n) cw).

Lemma wf_sget n t f c : reader_of n c = t -> (forall s, WF n t (f s)) -> WF n t (sget f c).
Proof. intros H Hf. unfold sget. apply wf_Get; [exact H|]. intros []; auto; apply wf_Fail. Qed.

Lemma wf_fold n t {A} (g : A -> proc -> proc) base l :
  (forall p acc, WF n t acc -> WF n t (g p acc)) -> WF n t base -> WF n t (fold_right g base l).
Proof. intros Hg Hb. induction l; cbn [fold_right]; auto. Qed.

Ltac own :=
  solve [ first [ apply rd_up | apply rd_down | apply rd_q | apply rd_r | apply rd_never
                | apply wr_up | apply wr_down | apply wr_q | apply wr_r | apply wr_log
                | apply wr_trdown | apply wr_trup ]; auto ].

(* one syntax-directed pass; [extra] handles the named sub-processes of the family at hand *)
Ltac wfgo extra :=
  repeat match goal with
  | |- Kahn.wf _ _ _ _ _ Ret => apply wf_Ret
  | |- Kahn.wf _ _ _ _ _ Fail => apply wf_Fail
  | |- Kahn.wf _ _ _ _ _ (Bar _) => apply wf_Bar
  | |- Kahn.wf _ _ _ _ _ (Tau _) => apply wf_Tau
  | |- Kahn.wf _ _ _ _ _ (Put _ _ _) => apply wf_Put; [ own | ]
  | |- Kahn.wf _ _ _ _ _ (Get _ _) => apply wf_Get; [ own | intro ]
  | |- Kahn.wf _ _ _ _ _ (sget _ _) => apply wf_sget; [ own | intro ]
  | |- Kahn.wf _ _ _ _ _ (fold_right _ _ _) => apply wf_fold; [ intros ? ? ? | ]
  | |- Kahn.wf _ _ _ _ _ (match ?x with _ => _ end) => destruct x
  | |- Kahn.wf _ _ _ _ _ ((match ?x with _ => _ end) _) => destruct x
  | |- Kahn.wf _ _ _ _ _ _ => assumption
  | |- Kahn.wf _ _ _ _ _ _ => progress cbv beta zeta
  | |- Kahn.wf _ _ _ _ _ _ => extra
  end.

(* ---------- main thread (thread 0) ---------- *)
Section MainWF.
  Variable n : nat.
  Variable conn : seat -> nat.
  Hypothesis Hconn : forall p, conn p < n.

  Ltac main_extra :=
    idtac; match goal with
    | |- Kahn.wf _ _ _ _ _ (put_all _ _ _) => unfold put_all
    | |- Kahn.wf _ _ _ _ _ (put_others _ _ _ _) => unfold put_others
    | |- Kahn.wf _ _ _ _ _ (abort _) => unfold abort
    | |- Kahn.wf _ _ _ _ _ (logp _ _ _) => unfold logp
    | |- Kahn.wf _ _ _ _ _ (put_null_pair _ _ _) => unfold put_null_pair
    | |- Kahn.wf _ _ _ _ _ (join_all _) => unfold join_all
    | |- Kahn.wf _ _ _ _ _ (mget _ _ _) => unfold mget
    end.

  Lemma wf_bidding : forall fuel s k, (forall s', WF n 0 (k s')) -> WF n 0 (bidding n conn fuel s k).
  Proof.
    induction fuel as [|f IH]; intros s k Hk; cbn [bidding]; [apply wf_Fail|].
    wfgo ltac:(first [ main_extra | apply Hk | apply IH; exact Hk ]).
  Qed.

  Lemma wf_playing : forall fuel i hs orig k, (forall hs', WF n 0 (k hs')) -> WF n 0 (playing n conn fuel i hs orig k).
  Proof.
    induction fuel as [|f IH]; intros i hs orig k Hk; cbn [playing]; [apply Hk|].
    wfgo ltac:(first [ main_extra | apply Hk | apply IH; exact Hk ]).
  Qed.

  Lemma wf_boards_loop names : forall bs number, WF n 0 (boards_loop n conn names bs number).
  Proof.
    induction bs as [|bd rest IH]; intros number; cbn [boards_loop].
    - wfgo main_extra.
    - wfgo ltac:(first [ main_extra | apply IH | apply wf_bidding; intro | apply wf_playing; intro ]).
  Qed.
End MainWF.

Lemma all_seated_some t : all_seated t = true -> forall p, t p <> None.
Proof.
  unfold all_seated, all_seats. cbn [forallb]. intros H p.
  destruct (t North) eqn:E1; [|discriminate]. destruct (t East) eqn:E2; [|discriminate].
  destruct (t South) eqn:E3; [|discriminate]. destruct (t West) eqn:E4; [|discriminate].
  destruct p; congruence.
Qed.

Lemma admission_eq n arrivals t conn k :
  admission n arrivals t conn k =
  if all_seated t then k t conn
  else match arrivals with
       | [] => Get (ch_never n) (fun _ => Fail)
       | i :: rest =>
           Put (ch_q i) (MTable t)
             (Get (ch_r i) (fun v =>
                Tau (match v with
                     | MVerdict (Some (p, team)) =>
                         admission n rest (tset t p team) (fun q => if seat_beq q p then i else conn q) k
                     | MVerdict None => admission n rest t conn k
                     | _ => Fail end))) end.
Proof. destruct arrivals; reflexivity. Qed.

Lemma main_proc_eq n boards :
  main_proc n boards =
  admission n (seq 0 n) (fun _ => None) (fun _ => 0) (fun t conn =>
    let names := fun p => match t p with Some s => s | None => "None"%string end in
    fold_right (fun p acc => Put (ch_q (conn p)) (MTable t) acc)
      (Bar (Put (ch_log n) (MLog LOpen) (boards_loop n conn names boards 1))) all_seats).
Proof. reflexivity. Qed.

Lemma wf_admission n : forall arrivals t conn k,
  (forall i, In i arrivals -> i < n) ->
  (forall p, t p <> None -> conn p < n) ->
  (forall t' conn', (forall p, conn' p < n) -> WF n 0 (k t' conn')) ->
  WF n 0 (admission n arrivals t conn k).
Proof.
  induction arrivals as [|i rest IH]; intros t conn k Ha Hinv Hk; rewrite admission_eq;
    destruct (all_seated t) eqn:E;
    try (apply Hk; intros p; apply Hinv; apply all_seated_some; exact E).
  - wfgo fail.
  - assert (Hi : i < n) by (apply Ha; left; reflexivity).
    assert (Ha' : forall j, In j rest -> j < n) by (intros j Hj; apply Ha; right; exact Hj).
    apply wf_Put; [own|]. apply wf_Get; [own|]. intros v. apply wf_Tau.
    destruct v as [ | |[[p team]|]| | ]; try apply wf_Fail.
    + apply IH; [exact Ha'| |exact Hk].
      intros q. unfold tset. destruct (seat_beq q p); [intros _; exact Hi|apply Hinv].
    + apply IH; assumption.
Qed.

Lemma wf_main n boards : WF n 0 (main_proc n boards).
Proof.
  rewrite main_proc_eq. apply wf_admission.
  - intros i Hi. apply in_seq in Hi. lia.
  - intros p H. congruence.
  - intros t conn Hc. wfgo ltac:(apply wf_boards_loop; exact Hc).
Qed.

Lemma wf_interrupt_at n : forall p, WF n 0 p -> forall opened k, WF n 0 (interrupt_at n opened k p).
Proof.
  induction 1; intros opened k0; cbn [interrupt_at]; try (constructor; auto; fail).
  destruct opened; [destruct k0|].
  - apply wf_Put; [apply wr_log|apply wf_Fail].
  - apply wf_Get; [assumption|]. intros m. auto.
  - apply wf_Get; [assumption|]. intros m. auto.
Qed.

(* ---------- connection thread i (thread 1+i) ---------- *)
Section ConnWF.
  Variable n i : nat.
  Hypothesis Hi : i < n.
  Local Notation T := (S i).

  Ltac conn_extra :=
    idtac; match goal with
    | |- Kahn.wf _ _ _ _ _ (send _ _ _ _) => unfold send
    | |- Kahn.wf _ _ _ _ _ (handle_error _ _ _ _) => unfold handle_error
    | |- Kahn.wf _ _ _ _ _ (expect _ _ _ _ _) => unfold expect
    | |- Kahn.wf _ _ _ _ _ (forward_q _ _ _) => unfold forward_q
    | |- Kahn.wf _ _ _ _ _ (to_main _ _ _) => unfold to_main
    end.

  Lemma wf_t_bidding : forall fuel me k, WF n T k -> WF n T (t_bidding n i fuel me k).
  Proof.
    induction fuel as [|f IH]; intros me k Hk; cbn [t_bidding]; [apply wf_Fail|].
    wfgo ltac:(first [ conn_extra | apply IH; exact Hk ]).
  Qed.

  Lemma wf_t_playing : forall fuel j me decl a0 k, WF n T k -> WF n T (t_playing n i fuel j me decl a0 k).
  Proof.
    induction fuel as [|f IH]; intros j me decl a0 k Hk; cbn [t_playing]; [exact Hk|].
    wfgo ltac:(first [ conn_extra | apply IH; exact Hk ]).
  Qed.

  Lemma wf_t_boards : forall fuel me, WF n T (t_boards n i fuel me).
  Proof.
    induction fuel as [|f IH]; intros me; cbn [t_boards]; [apply wf_Fail|].
    wfgo ltac:(first [ conn_extra | apply IH | apply wf_t_bidding | apply wf_t_playing ]).
  Qed.

  Lemma wf_seated nb p team : WF n T (seated n i nb p team).
  Proof. unfold seated. wfgo ltac:(first [ conn_extra | apply wf_t_boards ]). Qed.

  Lemma wf_conn_proc nb : WF n T (conn_proc n i nb).
  Proof. unfold conn_proc. wfgo ltac:(first [ conn_extra | apply wf_seated ]). Qed.
End ConnWF.

(* ---------- client i (thread 1+n+i) ---------- *)
Section ClientWF.
  Variable n i : nat.
  Hypothesis Hi : i < n.
  Variable me : seat.
  Local Notation T := (S (n + i)).

  Ltac client_extra :=
    idtac; match goal with
    | |- Kahn.wf _ _ _ _ _ (csend _ _ _ _) => unfold csend
    | |- Kahn.wf _ _ _ _ _ (crecv _ _) => unfold crecv
    end.

  Lemma wf_c_bidding : forall fuel s calls k, (forall s' c', WF n T (k s' c')) -> WF n T (c_bidding n i me fuel s calls k).
  Proof.
    induction fuel as [|f IH]; intros s calls k Hk; cbn [c_bidding]; [apply wf_Fail|].
    wfgo ltac:(first [ client_extra | apply Hk | apply IH; exact Hk ]).
  Qed.

  Lemma wf_c_playing : forall fuel j o ho cards k, (forall o' c', WF n T (k o' c')) -> WF n T (c_playing n i me fuel j o ho cards k).
  Proof.
    induction fuel as [|f IH]; intros j o ho cards k Hk; cbn [c_playing]; [apply Hk|].
    wfgo ltac:(first [ client_extra | apply Hk | apply IH; exact Hk ]).
  Qed.

  Lemma wf_c_boards : forall fuel first scripts, WF n T (c_boards n i me fuel first scripts).
  Proof.
    induction fuel as [|f IH]; intros first scripts; cbn [c_boards]; [apply wf_Fail|].
    wfgo ltac:(first [ client_extra | apply IH | apply wf_c_bidding; intros ? ? | apply wf_c_playing; intros ? ? ]).
  Qed.

  Lemma wf_client_proc team version scripts : WF n T (client_proc n i me team version scripts).
  Proof. unfold client_proc. wfgo ltac:(first [ client_extra | apply wf_c_boards ]). Qed.
End ClientWF.

(* ---------- the initial state ---------- *)
Lemma nth_error_seq a n i : i < n -> nth_error (seq a n) i = Some (a + i).
Proof.
  revert a i. induction n as [|n IH]; intros a i H; [lia|].
  destruct i as [|i]; cbn [seq nth_error]; [f_equal; lia|].
  rewrite IH by lia. f_equal; lia.
Qed.

Lemma nth_error_combine {A B} (l1 : list A) (l2 : list B) j a b :
  nth_error (combine l1 l2) j = Some (a, b) -> nth_error l1 j = Some a /\ nth_error l2 j = Some b.
Proof.
  revert l2 j. induction l1 as [|x l1 IH]; intros l2 j H; destruct l2 as [|y l2]; cbn [combine] in H;
    try (destruct j; discriminate H).
  destruct j as [|j]; cbn [nth_error] in *; [inversion H; auto|apply IH; exact H].
Qed.

Theorem session_wf : forall x, wf_state msg (rd x) (wr x) cw (init_state x).
Proof.
  intros x. unfold rd, wr, wf_state, init_state. cbv zeta. cbn [procs barr].
  set (n := nconn x). split.
  - intros t p H. destruct t as [|t]; cbn [nth_error] in H.
    + injection H as <-. destruct (s_interrupt x); [apply wf_interrupt_at|]; apply wf_main.
    + destruct (Nat.lt_ge_cases t n) as [L|G].
      * rewrite nth_error_app1 in H by (rewrite map_length, seq_length; exact L).
        rewrite nth_error_map, nth_error_seq in H by exact L. cbn [option_map plus] in H.
        injection H as <-. apply wf_conn_proc; exact L.
      * rewrite nth_error_app2 in H by (rewrite map_length, seq_length; exact G).
        rewrite map_length, seq_length, nth_error_map in H.
        destruct (nth_error _ (t - n)) as [[j [a sc]]|] eqn:E; [|discriminate H].
        cbn [option_map] in H. injection H as <-.
        apply nth_error_combine in E. destruct E as [E _].
        assert (Lj : t - n < n).
        { assert (N : nth_error (seq 0 n) (t - n) <> None) by congruence.
          apply nth_error_Some in N. rewrite seq_length in N. exact N. }
        rewrite nth_error_seq in E by exact Lj. cbn [plus] in E. injection E as <-.
        replace (S t) with (S (n + (t - n))) by lia.
        apply wf_client_proc; exact Lj.
  - rewrite repeat_length. cbn [length].
    rewrite app_length, !map_length, !combine_length, seq_length, app_length, repeat_length.
    fold (nconn x). fold n. lia.
Qed.

(* ---------- confluence of the session network ---------- *)
Theorem session_any_run_extends : forall x l f l' s',
  srun l (init_state x) = Some f -> sfinal f -> srun l' (init_state x) = Some s' ->
  exists l'', srun l'' s' = Some f /\ length l' + length l'' = length l.
Proof. intros x l f l' s' H1 H2 H3. exact (any_run_extends _ _ _ _ _ l' l _ f s' (session_wf x) H1 H2 H3). Qed.

Theorem session_maximal_runs_agree : forall x l f l' s',
  srun l (init_state x) = Some f -> sfinal f -> srun l' (init_state x) = Some s' -> sfinal s' ->
  s' = f /\ length l' = length l.
Proof. intros x l f l' s' H1 H2 H3 H4. exact (maximal_runs_agree _ _ _ _ _ l l' _ f s' (session_wf x) H1 H2 H3 H4). Qed.

Theorem session_no_run_is_longer : forall x l f l' s',
  srun l (init_state x) = Some f -> sfinal f -> srun l' (init_state x) = Some s' -> length l' <= length l.
Proof. intros x l f l' s' H1 H2 H3. exact (no_run_is_longer _ _ _ _ _ l l' _ f s' (session_wf x) H1 H2 H3). Qed.

(* ---------- the canonical scheduler ---------- *)
Lemma drive_sound s0 : forall fuel s t idle acc s' acc',
  drive fuel s t idle acc = (s', acc', true) ->
  srun (rev acc) s0 = Some s ->
  srun (rev acc') s0 = Some s' /\ Kahn.finalb msg PARTIES s' = true.
Proof.
  induction fuel as [|f IH]; intros s t idle acc s' acc' H R; cbn [drive] in H; [discriminate H|].
  destruct (length (procs msg s) <=? idle).
  - injection H as <- <- Hf. split; assumption.
  - destruct (step msg PARTIES t s) as [s1|] eqn:E.
    + eapply IH; [exact H|]. cbn [rev]. unfold srun. rewrite run_app. fold srun. rewrite R.
      unfold srun. cbn [run]. rewrite E. reflexivity.
    + eapply IH; [exact H|exact R].
Qed.

Theorem canonical_run_sound : forall fuel x s sched,
  run_session fuel x = (s, sched, true) -> srun sched (init_state x) = Some s /\ sfinal s.
Proof.
  intros fuel x s sched H. unfold run_session in H.
  destruct (drive fuel (init_state x) 0 0 []) as [[s1 sch] ok] eqn:E.
  injection H as -> <- ->.
  apply (drive_sound (init_state x)) in E; [|reflexivity].
  destruct E as [R F]. split; [exact R|].
  apply finalb_final; [|exact F].
  exact (proj2 (wf_run _ _ _ _ _ _ _ _ (session_wf x) R)).
Qed.

Theorem every_schedule_reaches_canonical : forall fuel x s sched,
  run_session fuel x = (s, sched, true) ->
  forall l' s', srun l' (init_state x) = Some s' ->
    (exists l'', srun l'' s' = Some s /\ length l' + length l'' = length sched) /\ (sfinal s' -> s' = s).
Proof.
  intros fuel x s sched H l' s' R'.
  destruct (canonical_run_sound fuel x s sched H) as [R F]. split.
  - exact (session_any_run_extends x sched s l' s' R F R').
  - intros F'. exact (proj1 (session_maximal_runs_agree x sched s l' s' R F R' F')).
Qed.

(* ===================================================================== second batch *)

(* ---------- C13: the output file ---------- *)
Definition main_ended (s : Kahn.st msg) : Prop := nth_error (Kahn.procs msg s) 0 = Some Ret \/ nth_error (Kahn.procs msg s) 0 = Some Fail.
Definition complete_log (es : list logev) : Prop :=
  es = [] \/ exists recs, es = LOpen :: map LRec recs ++ [LClose].
Definition log_prefix (es : list logev) : Prop :=
  es = [] \/ exists recs, es = LOpen :: map LRec recs \/ es = LOpen :: map LRec recs ++ [LClose].

(* what one step of a thread does to its own process and to the channels *)
Inductive event := ESil | EGet (c : nat) (m : msg) | EPut (c : nat) (m : msg).
Inductive trans : proc -> event -> proc -> Prop :=
| t_bar a p : trans (Bar p) ESil (BarWait a p)
| t_barwait a p : trans (BarWait a p) ESil p
| t_write x v p : trans (WriteCell x v p) ESil p
| t_read x k v : trans (ReadCell x k) ESil (k v)
| t_tau p : trans (Tau p) ESil p
| t_get c k m : trans (Get c k) (EGet c m) (k m)
| t_put c m p : trans (Put c m p) (EPut c m) p.
Definition eff (ev : event) (s s' : Kahn.st msg) : Prop :=
  match ev with
  | ESil => forall c, chan s' c = chan s c
  | EGet c m => chan s c = m :: chan s' c /\ forall c', c' <> c -> chan s' c' = chan s c'
  | EPut c m => chan s' c = chan s c ++ [m] /\ forall c', c' <> c -> chan s' c' = chan s c'
  end.

Lemma nth_upd_same' {A} (l : list A) c x d q : nth_error l c = Some q -> nth c (upd l c x) d = x.
Proof. intros H. apply nth_error_nth. eapply nth_upd_same; eauto. Qed.
Lemma nth_upd_other' {A} (l : list A) c c' x d : c' <> c -> nth c' (upd l c x) d = nth c' l d.
Proof. revert c c'; induction l; destruct c, c'; cbn; intros; auto; congruence. Qed.

Lemma step_cases t s s' : Kahn.step msg PARTIES t s = Some s' ->
  exists p p' ev, nth_error (procs msg s) t = Some p /\ procs msg s' = upd (procs msg s) t p' /\ trans p ev p' /\ eff ev s s'.
Proof.
  intros H. unfold Kahn.step in H.
  destruct (nth_error (procs msg s) t) as [p|] eqn:E; [|discriminate].
  destruct p; try discriminate.
  - destruct (nth_error (chans msg s) c) as [[|m r]|] eqn:C; try discriminate. injection H as <-.
    exists (Get c k), (k m), (EGet c m). repeat split; [constructor| |].
    + unfold chan; cbn [chans]. rewrite (nth_upd_same' _ _ _ _ _ C). apply nth_error_nth. exact C.
    + intros c' Hc. unfold chan; cbn [chans]. apply nth_upd_other'. exact Hc.
  - destruct (nth_error (chans msg s) c) as [q|] eqn:C; try discriminate. injection H as <-.
    exists (Put c m p), p, (EPut c m). repeat split; [constructor| |].
    + unfold chan; cbn [chans]. rewrite (nth_upd_same' _ _ _ _ _ C). f_equal. symmetry. apply nth_error_nth. exact C.
    + intros c' Hc. unfold chan; cbn [chans]. apply nth_upd_other'. exact Hc.
  - destruct (nth_error (barr msg s) t) as [a|]; try discriminate. injection H as <-.
    exists (Bar p), (BarWait (S a) p), ESil. repeat split. constructor.
  - destruct (released PARTIES n (barr msg s)); try discriminate. injection H as <-.
    exists (BarWait n p), p, ESil. repeat split. constructor.
  - destruct (nth_error (cells msg s) x) as [[|]|]; try discriminate. injection H as <-.
    exists (WriteCell x v p), p, ESil. repeat split. constructor.
  - destruct (nth_error (cells msg s) x) as [[v|]|]; try discriminate. injection H as <-.
    exists (ReadCell x k), (k v), ESil. repeat split. constructor.
  - injection H as <-. exists (Tau p), p, ESil. repeat split. constructor.
Qed.

(* a thread only touches the channels it owns *)
Lemma frame n t s s' c :
  wf_state msg (reader_of n) (writer_of n) cw s -> Kahn.step msg PARTIES t s = Some s' ->
  reader_of n c <> t -> writer_of n c <> t -> chan s' c = chan s c.
Proof.
  intros [W _] H Hr Hw. destruct (step_cases _ _ _ H) as (p & p' & ev & E & _ & T & F).
  pose proof (W _ _ E) as Wp.
  destruct T; cbn [eff] in F; auto; inversion Wp; subst; destruct F as [_ F]; apply F; congruence.
Qed.

(* ---------- the shape of main's log writes, along every path and for every message delivered ---------- *)
Inductive phase := PNew | POpen | PClosed.
Definition ph_next (ph : phase) (e : logev) : option phase :=
  match ph, e with
  | PNew, LOpen => Some POpen
  | POpen, LRec _ => Some POpen
  | POpen, LClose => Some PClosed
  | _, _ => None end.
Definition phase_log (ph : phase) (es : list logev) : Prop :=
  match ph with
  | PNew => es = []
  | POpen => exists recs, es = LOpen :: map LRec recs
  | PClosed => exists recs, es = LOpen :: map LRec recs ++ [LClose] end.
Definition notlog (m : msg) : Prop := match m with MLog _ => False | _ => True end.

Section LogShape.
  Variable n : nat.
  Inductive logok : phase -> proc -> Prop :=
  | lo_Ret ph : ph <> POpen -> logok ph Ret
  | lo_Fail ph : ph <> POpen -> logok ph Fail
  | lo_Get ph c k : c <> ch_log n -> (forall m, logok ph (k m)) -> logok ph (Get c k)
  | lo_PutLog ph ph' e p : ph_next ph e = Some ph' -> logok ph' p -> logok ph (Put (ch_log n) (MLog e) p)
  | lo_Put ph c m p : c <> ch_log n -> notlog m -> logok ph p -> logok ph (Put c m p)
  | lo_Bar ph p : logok ph p -> logok ph (Bar p)
  | lo_BarWait ph a p : logok ph p -> logok ph (BarWait a p)
  | lo_Write ph x v p : logok ph p -> logok ph (WriteCell x v p)
  | lo_Read ph x k : (forall v, logok ph (k v)) -> logok ph (ReadCell x k)
  | lo_Tau ph p : logok ph p -> logok ph (Tau p).

  Lemma phase_log_next ph e ph' es : ph_next ph e = Some ph' -> phase_log ph es -> phase_log ph' (es ++ [e]).
  Proof.
    destruct ph, e; cbn; intros H; inversion H; subst; cbn.
    - intros ->. exists []. reflexivity.
    - intros [recs ->]. exists (recs ++ [r]). rewrite map_app. reflexivity.
    - intros [recs ->]. exists recs. reflexivity.
  Qed.

  Lemma log_events_app s s' m : chan s' (ch_log n) = chan s (ch_log n) ++ [m] ->
    log_events n s' = log_events n s ++ match m with MLog e => [e] | _ => [] end.
  Proof. intros H. unfold log_events. rewrite H, flat_map_app. cbn [flat_map]. rewrite app_nil_r. reflexivity. Qed.

  Lemma log_events_same s s' : chan s' (ch_log n) = chan s (ch_log n) -> log_events n s' = log_events n s.
  Proof. intros H. unfold log_events. rewrite H. reflexivity. Qed.

  (* one step of main keeps the file content in phase with what main still has to do *)
  Lemma logok_trans ph p ev p' s s' :
    logok ph p -> trans p ev p' -> eff ev s s' -> phase_log ph (log_events n s) ->
    exists ph', logok ph' p' /\ phase_log ph' (log_events n s').
  Proof.
    intros L T F P.
    destruct T; cbn [eff] in F; inversion L; subst;
      try (exists ph; rewrite (log_events_same s s') by apply F; split; [auto; constructor; auto|exact P]; fail).
    - exists ph. destruct F as [_ F]. rewrite (log_events_same s s') by (apply F; congruence). auto.
    - exists ph'. split; [assumption|]. destruct F as [F _].
      rewrite (log_events_app _ _ _ F). eapply phase_log_next; eassumption.
    - exists ph. destruct F as [_ F]. rewrite (log_events_same s s') by (apply F; congruence). auto.
  Qed.
End LogShape.

(* ---------- main's process has that shape ---------- *)
Lemma lo_fold n ph {A} (g : A -> proc -> proc) base l :
  (forall p acc, logok n ph acc -> logok n ph (g p acc)) -> logok n ph base -> logok n ph (fold_right g base l).
Proof. intros Hg Hb. induction l; cbn [fold_right]; auto. Qed.

Ltac ne_log := solve [ unfold ch_q, ch_r, ch_never, ch_log; lia ].
Ltac lgo extra :=
  repeat match goal with
  | |- logok _ _ Ret => apply lo_Ret; discriminate
  | |- logok _ _ Fail => apply lo_Fail; discriminate
  | |- logok _ _ (Bar _) => apply lo_Bar
  | |- logok _ _ (Tau _) => apply lo_Tau
  | |- logok _ _ (Put (ch_log _) (MLog _) _) => eapply lo_PutLog; [ reflexivity | ]
  | |- logok _ _ (Put _ _ _) => apply lo_Put; [ ne_log | exact I | ]
  | |- logok _ _ (Get _ _) => apply lo_Get; [ ne_log | intro ]
  | |- logok _ _ (fold_right _ _ _) => apply lo_fold; [ intros ? ? ? | ]
  | |- logok _ _ (match ?x with _ => _ end) => destruct x eqn:?
  | |- logok _ _ ((match ?x with _ => _ end) _) => destruct x eqn:?
  | |- logok _ _ _ => assumption
  | |- logok _ _ _ => progress cbv beta zeta
  | |- logok _ _ _ => extra
  end.

(* an accepted call lengthens the auction, which is bounded (Proofs/Auction.v): the fuel of [bidding] never runs out *)
Lemma bid_accept d v s c s' r : Proofs.Auction.Inv d v s -> take_bid s c = (s', r) -> r <> Illegal -> r <> Raises ->
  Proofs.Auction.Inv d v s' /\ length (rhist s') = S (length (rhist s)).
Proof.
  intros HI T N1 N2. split.
  - replace s' with (offer s c) by (unfold offer; rewrite T; reflexivity). apply Proofs.Auction.Inv_offer. exact HI.
  - rewrite Proofs.Auction.take_bid_eq in T. destruct (active s); [|inversion T; congruence].
    destruct (negb _); [inversion T; congruence|].
    destruct (Proofs.Auction.fin s c); inversion T; subst; [reflexivity|].
    rewrite Proofs.Auction.step_rhist. reflexivity.
Qed.

Section MainLog.
  Variable n : nat.
  Variable conn : seat -> nat.

  Ltac main_unfold :=
    idtac; match goal with
    | |- logok _ _ (put_all _ _ _) => unfold put_all
    | |- logok _ _ (put_others _ _ _ _) => unfold put_others
    | |- logok _ _ (abort _) => unfold abort
    | |- logok _ _ (logp _ _ _) => unfold logp
    | |- logok _ _ (put_null_pair _ _ _) => unfold put_null_pair
    | |- logok _ _ (join_all _) => unfold join_all
    | |- logok _ _ (mget _ _ _) => unfold mget
    end.

  Lemma lo_bidding d v : forall fuel s k, Proofs.Auction.Inv d v s -> 320 <= length (rhist s) + fuel ->
    (forall s', logok n POpen (k s')) -> logok n POpen (bidding n conn fuel s k).
  Proof.
    induction fuel as [|f IH]; intros s k HI HF Hk.
    - exfalso. pose proof (Proofs.Auction.wf_length d _ (Proofs.Auction.I_wf d v s HI)). lia.
    - cbn [bidding].
      lgo ltac:(first [ main_unfold | apply Hk
        | match goal with
          | T : take_bid s ?c = (?s', ?r) |- logok _ _ (bidding _ _ _ ?s' _) =>
              destruct (bid_accept d v s c s' r HI T ltac:(congruence) ltac:(congruence)) as [HI' HL];
              apply IH; [exact HI' | lia | exact Hk]
          end ]).
  Qed.

  Lemma lo_playing : forall fuel i hs orig k, (forall hs', logok n POpen (k hs')) -> logok n POpen (playing n conn fuel i hs orig k).
  Proof.
    induction fuel as [|f IH]; intros i hs orig k Hk; cbn [playing]; [apply Hk|].
    lgo ltac:(first [ main_unfold | apply Hk | apply IH; exact Hk ]).
  Qed.

  Lemma lo_boards_loop names : forall bs number, logok n POpen (boards_loop n conn names bs number).
  Proof.
    induction bs as [|bd rest IH]; intros number; cbn [boards_loop].
    - lgo main_unfold.
    - lgo ltac:(first [ main_unfold | apply IH
                      | eapply lo_bidding; [ apply Proofs.Auction.Inv_init | apply Nat.leb_le; reflexivity | intro ]
                      | apply lo_playing; intro ]).
  Qed.
End MainLog.

Lemma lo_admission n : forall arrivals t conn k,
  (forall t' conn', logok n PNew (k t' conn')) -> logok n PNew (admission n arrivals t conn k).
Proof.
  induction arrivals as [|i rest IH]; intros t conn k Hk; rewrite admission_eq;
    (destruct (all_seated t); [apply Hk|]).
  - lgo fail.
  - lgo ltac:(apply IH; exact Hk).
Qed.

Lemma lo_main n boards : logok n PNew (main_proc n boards).
Proof.
  rewrite main_proc_eq. apply lo_admission. intros t conn.
  lgo ltac:(apply lo_boards_loop).
Qed.

Lemma lo_interrupt n : forall ph p, logok n ph p -> forall opened k, (opened = true <-> ph = POpen) ->
  logok n ph (interrupt_at n opened k p).
Proof.
  induction 1; intros opened k0 Hop; cbn [interrupt_at]; try (constructor; auto; fail).
  - destruct opened; [destruct k0|]; try (apply lo_Get; auto; fail).
    assert (ph = POpen) as -> by (apply Hop; reflexivity).
    eapply lo_PutLog; [reflexivity|]. apply lo_Fail. discriminate.
  - eapply lo_PutLog; [eassumption|]. apply IHlogok.
    destruct ph, e; cbn in H; inversion H; subst; try tauto; split; congruence.
  - apply lo_Put; auto. apply IHlogok. destruct m; cbn in H0; try contradiction; exact Hop.
Qed.

(* ---------- the invariant along runs ---------- *)
Lemma rd_log n : reader_of n (ch_log n) = 1 + 2 * n.
Proof.
  unfold reader_of, ch_log.
  destruct (Nat.ltb_spec (4 * n) (4 * n)); [lia|].
  destruct (Nat.eqb_spec (4 * n) (4 * n + 1)); [lia|]. reflexivity.
Qed.

Definition LI (n : nat) (s : Kahn.st msg) : Prop :=
  wf_state msg (reader_of n) (writer_of n) cw s /\ length (procs msg s) = 1 + 2 * n /\
  exists ph M, nth_error (procs msg s) 0 = Some M /\ logok n ph M /\ phase_log ph (log_events n s).

Lemma LI_step n t s s' : LI n s -> Kahn.step msg PARTIES t s = Some s' -> LI n s'.
Proof.
  intros (W & Len & ph & M & E & L & P) H.
  destruct (step_cases _ _ _ H) as (p & p' & ev & Ep & Eprocs & T & F).
  split; [eapply wf_step; eassumption|]. split; [rewrite Eprocs, upd_length; exact Len|].
  destruct t as [|t].
  - rewrite E in Ep. injection Ep as <-.
    destruct (logok_trans n ph M ev p' s s' L T F P) as (ph' & L' & P').
    exists ph', p'. split; [|auto]. rewrite Eprocs. eapply nth_upd_same. exact E.
  - exists ph, M. split; [rewrite Eprocs, nth_upd_other by discriminate; exact E|]. split; [exact L|].
    rewrite (log_events_same n s s'); [exact P|].
    apply (frame n (S t) s s' _ W H).
    + rewrite rd_log. assert (N : nth_error (procs msg s) (S t) <> None) by congruence.
      apply nth_error_Some in N. lia.
    + rewrite wr_log. discriminate.
Qed.

Lemma LI_run n : forall l s s', LI n s -> srun l s = Some s' -> LI n s'.
Proof.
  induction l as [|t l IH]; intros s s' I H; cbn in H.
  - injection H as <-. exact I.
  - destruct (Kahn.step msg PARTIES t s) as [s1|] eqn:E; [|discriminate].
    eapply IH; [|exact H]. eapply LI_step; eassumption.
Qed.

Lemma nth_repeat_nil {A} k c : nth c (repeat (@nil A) k) [] = [].
Proof. revert c; induction k; destruct c; cbn; auto. Qed.

Lemma LI_init x : LI (nconn x) (init_state x).
Proof.
  pose proof (session_wf x) as W. split; [exact W|]. split.
  - destruct W as [_ W]. rewrite <- W. unfold init_state. cbv zeta. cbn [barr]. apply repeat_length.
  - exists PNew. eexists. split; [unfold init_state; cbv zeta; cbn [procs nth_error]; reflexivity|]. split.
    + destruct (s_interrupt x); [apply lo_interrupt; [apply lo_main|split; discriminate]|apply lo_main].
    + unfold phase_log, log_events, chan, init_state. cbv zeta. cbn [chans]. rewrite nth_repeat_nil. reflexivity.
Qed.

Theorem log_always_wellformed : forall x l s, srun l (init_state x) = Some s -> log_prefix (log_events (nconn x) s).
Proof.
  intros x l s H. destruct (LI_run _ _ _ _ (LI_init x) H) as (_ & _ & ph & M & _ & _ & P).
  unfold log_prefix. destruct ph; cbn in P.
  - left; exact P.
  - right. destruct P as [recs P]. exists recs. left; exact P.
  - right. destruct P as [recs P]. exists recs. right; exact P.
Qed.

Theorem log_complete_when_main_ends : forall x l s,
  srun l (init_state x) = Some s -> main_ended s -> complete_log (log_events (nconn x) s).
Proof.
  intros x l s H ME. destruct (LI_run _ _ _ _ (LI_init x) H) as (_ & _ & ph & M & E & L & P).
  assert (N : ph <> POpen).
  { destruct ME as [ME|ME]; rewrite E in ME; injection ME as ->; inversion L; assumption. }
  unfold complete_log. destruct ph; cbn in P; [left; exact P|congruence|right; exact P].
Qed.


(* ---------- C20: admission as a function of the table ---------- *)
Definition acceptable_eventually (reqs : list arrival) : Prop :=
  forall p, exists pre a post, reqs = pre ++ a :: post /\ a_seat a = p /\ a_version a = 18 /\
    (forall b, In b (pre ++ a :: post) -> a_version b = 18 -> side_of (a_seat b) = side_of p -> a_team b = a_team a).

Lemma seat_beq_eq : forall a b, seat_beq a b = true -> a = b.
Proof. intros [] []; cbn; congruence. Qed.
Lemma seat_beq_same : forall a, seat_beq a a = true.
Proof. intros []; reflexivity. Qed.

Lemma rejected_iff : forall tbl team p ver,
  admission_error tbl team p ver <> None <->
  (ver <> 18 \/ tbl p <> None \/ (exists t', tbl (partner p) = Some t' /\ t' <> team)).
Proof.
  intros tbl team p ver. unfold admission_error.
  destruct (Nat.eqb_spec ver 18) as [->|Hv]; cbn [negb].
  - destruct (tbl p) as [x|].
    + split; [intros _; right; left; discriminate|intros _; discriminate].
    + destruct (tbl (partner p)) as [t'|].
      * destruct (String.eqb_spec t' team) as [->|Ht]; cbn [negb].
        -- split; [congruence|]. intros [H|[H|(u & Hu & Hne)]]; try congruence.
        -- split; [|intros _; discriminate]. intros _. right; right. exists t'. auto.
      * split; [congruence|]. intros [H|[H|(u & Hu & _)]]; congruence.
  - split; [intros _; left; exact Hv|intros _; discriminate].
Qed.

Lemma accepted_facts : forall tbl team p ver, admission_error tbl team p ver = None ->
  ver = 18 /\ tbl p = None /\ (forall t', tbl (partner p) = Some t' -> t' = team).
Proof.
  intros tbl team p ver H.
  destruct (Nat.eq_dec ver 18) as [Hv|Hv].
  2:{ exfalso. apply (proj2 (rejected_iff tbl team p ver)); auto. }
  split; [exact Hv|]. split.
  - destruct (tbl p) eqn:E; [|reflexivity]. exfalso.
    apply (proj2 (rejected_iff tbl team p ver)); [|exact H]. right; left. congruence.
  - intros t' Ht. destruct (String.eqb_spec t' team) as [e|ne]; [exact e|]. exfalso.
    apply (proj2 (rejected_iff tbl team p ver)); [|exact H]. right; right. exists t'. auto.
Qed.

Lemma seated_keeps_seats : forall reqs tbl p t, tbl p = Some t -> seat_requests reqs tbl p = Some t.
Proof.
  induction reqs as [|a r IH]; intros tbl p t H; cbn [seat_requests]; [exact H|].
  destruct (all_seated tbl); [exact H|].
  destruct (admission_error tbl (a_team a) (a_seat a) (a_version a)) eqn:E; [apply IH; exact H|].
  apply IH. unfold tset. destruct (seat_beq p (a_seat a)) eqn:B; [|exact H].
  apply seat_beq_eq in B. subst p. apply accepted_facts in E. destruct E as (_ & E & _). congruence.
Qed.

Lemma partners_share : forall reqs tbl,
  (forall p t t', tbl p = Some t -> tbl (partner p) = Some t' -> t = t') ->
  forall p t t', seat_requests reqs tbl p = Some t -> seat_requests reqs tbl (partner p) = Some t' -> t = t'.
Proof.
  induction reqs as [|a r IH]; intros tbl C; cbn [seat_requests]; [exact C|].
  destruct (all_seated tbl); [exact C|].
  destruct (admission_error tbl (a_team a) (a_seat a) (a_version a)) eqn:E; [apply IH; exact C|].
  apply IH. apply accepted_facts in E. destruct E as (_ & En & Ep).
  intros p t t'. unfold tset.
  destruct (seat_beq p (a_seat a)) eqn:B1; destruct (seat_beq (partner p) (a_seat a)) eqn:B2.
  - congruence.
  - apply seat_beq_eq in B1. subst p. intros H1 H2. injection H1 as <-. symmetry. apply Ep. exact H2.
  - apply seat_beq_eq in B2. intros H1 H2. injection H2 as <-. apply Ep. rewrite <- B2.
    replace (partner (partner p)) with p by (destruct p; reflexivity). exact H1.
  - apply C.
Qed.

Lemma all_seated_true t : (forall p, t p <> None) -> all_seated t = true.
Proof.
  intros H. unfold all_seated, all_seats. cbn [forallb].
  pose proof (H North); pose proof (H East); pose proof (H South); pose proof (H West).
  destruct (t North), (t East), (t South), (t West); try congruence. reflexivity.
Qed.

Lemma seat_requests_fills (L : list arrival) :
  (forall b b', In b L -> In b' L -> a_version b = 18 -> a_version b' = 18 ->
                side_of (a_seat b) = side_of (a_seat b') -> a_team b = a_team b') ->
  forall reqs tbl p,
  (forall b, In b reqs -> In b L) ->
  (forall q t, tbl q = Some t -> exists b, In b L /\ a_version b = 18 /\ a_seat b = q /\ a_team b = t) ->
  (tbl p <> None \/ exists a, In a reqs /\ a_seat a = p /\ a_version a = 18) ->
  seat_requests reqs tbl p <> None.
Proof.
  intros U. induction reqs as [|a r IH]; intros tbl p Hsub Horig Hp; cbn [seat_requests].
  - destruct Hp as [Hp|(a & [] & _)]. exact Hp.
  - destruct (all_seated tbl) eqn:AS; [apply all_seated_some; exact AS|].
    assert (Hsub' : forall b, In b r -> In b L) by (intros b Hb; apply Hsub; right; exact Hb).
    destruct (admission_error tbl (a_team a) (a_seat a) (a_version a)) eqn:E.
    + apply IH; [exact Hsub'|exact Horig|].
      destruct Hp as [Hp|(a' & [<-|Hin] & Hs & Hv)]; [left; exact Hp| |right; exists a'; auto].
      left. assert (R : admission_error tbl (a_team a) (a_seat a) (a_version a) <> None) by congruence.
      apply rejected_iff in R. destruct R as [R|[R|(t' & Ht & Hne)]]; [congruence|subst p; exact R|].
      exfalso. apply Hne. destruct (Horig _ _ Ht) as (b & Hb & Hbv & Hbs & Hbt). rewrite <- Hbt.
      apply U; auto; [apply Hsub; left; reflexivity|]. rewrite Hbs. destruct (a_seat a); reflexivity.
    + pose proof (accepted_facts _ _ _ _ E) as (Ev & _ & _).
      apply IH; [exact Hsub'| |].
      * intros q t. unfold tset. destruct (seat_beq q (a_seat a)) eqn:B; [|apply Horig].
        apply seat_beq_eq in B. intros Hq. injection Hq as <-. exists a. subst q.
        split; [apply Hsub; left; reflexivity|auto].
      * unfold tset. destruct (seat_beq p (a_seat a)) eqn:B; [left; discriminate|].
        destruct Hp as [Hp|(a' & [<-|Hin] & Hs & Hv)]; [left; exact Hp| |right; exists a'; auto].
        subst p. rewrite seat_beq_same in B. discriminate.
Qed.

Lemma all_seated_eventually : forall reqs, acceptable_eventually reqs -> all_seated (seat_requests reqs (fun _ => None)) = true.
Proof.
  intros reqs H. apply all_seated_true. intros p.
  apply (seat_requests_fills reqs).
  - intros b b' Hb Hb' Hv Hv' Hs.
    destruct (H (a_seat b)) as (pre & a & post & -> & Ha & _ & Hall).
    rewrite (Hall b Hb Hv eq_refl). symmetry. apply Hall; auto.
  - auto.
  - intros q t Hq. discriminate.
  - right. destruct (H p) as (pre & a & post & -> & Ha & Hv & _). exists a.
    split; [apply in_or_app; right; left; reflexivity|auto].
Qed.

Print Assumptions session_wf.
Print Assumptions session_any_run_extends.
Print Assumptions session_maximal_runs_agree.
Print Assumptions session_no_run_is_longer.
Print Assumptions canonical_run_sound.
Print Assumptions every_schedule_reaches_canonical.
Print Assumptions log_complete_when_main_ends.
Print Assumptions log_always_wellformed.
Print Assumptions seated_keeps_seats.
Print Assumptions partners_share.
Print Assumptions rejected_iff.
Print Assumptions all_seated_eventually.
