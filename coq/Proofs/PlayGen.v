(* The functions GENERATED from the text of bridge_env/playing_phase.py (Gen/PlayFns.v, harness/gen_play.py) equal the
   hand-written model of Model/Play.v - for ALL states (reachable or not) and all arguments.
   The translation is faithful where the hand model is not: integers that can be negative are Z (calc_highest returns -1,
   the model None); every exception is a result (PRaises, or None for a value), the model leaves out the two that cannot
   happen (the ValueError of PlayingHistory.record, the IndexError of `_trick_cards[0]`).  The theorems below state the
   evident relation and show where the extra branches are dead:
     - the IndexError never happens (g_current_available_eq: always Some; g_set_next_leader_eq: no such branch);
     - the ValueError of record happens exactly when `record_raises` holds; this is visible in the unconditional
       g_play_card_spec, and it is excluded by the invariant hist_ok (trick_num = 1 + number of recorded tricks), which
       holds after g_init_play and is preserved by g_play_card.
   A change of the code of playing_phase.py changes Gen/PlayFns.v and breaks one of these proofs (or the translator
   refuses the source). *)
From BE Require Import Model.Play Gen.PlayFns.
From Coq Require Import Lia.
Local Open Scope nat_scope.

(* Both sides are by now the same term, syntactically (up to bound names). *)
Ltac same := lazymatch goal with |- ?a = ?b => constr_eq a b end; reflexivity.

(* ------------------------------------------------------------------ generic lemmas on the loop forms *)
(* `for _ in range(n): x = x.next_player` is rot *)
Lemma iter_next_rot : forall n p, Nat.iter n (fun x => next x) p = rot p n.
Proof. induction n as [|n IH]; intros p; simpl; [reflexivity | rewrite IH; reflexivity]. Qed.

(* the integer the code returns for the model's optional index: -1 for None *)
Definition zidx (o : option nat) : Z := match o with None => (-1)%Z | Some i => Z.of_nat i end.

(* the loop-carried pair (n, highest) of calc_highest against the accumulators (best, hi) of the model *)
Definition hrel (best : option nat) (hi : nat) (zn zh : Z) : Prop :=
  match best with None => zn = (-1)%Z /\ zh = (-1)%Z | Some b => zn = Z.of_nat b /\ zh = Z.of_nat hi end.

(* The enumerate loop of calc_highest, for any body that does what the source says: skip a card of another suit
   (`continue`), else take the index and the rank when the rank is STRICTLY higher than the highest so far. *)
Lemma for_enum_highest : forall (su : suit) (f : Z -> card -> Z * Z -> Z * Z),
  (forall i c n h, f i c (n, h) =
     if negb (suit_beq (csuit c) su) then (n, h)
     else if Z.ltb h (Z.of_nat (rank_val (crank c))) then (i, Z.of_nat (rank_val (crank c))) else (n, h)) ->
  forall cards i best hi zn zh, hrel best hi zn zh ->
  fst (py_for_enum f (Z.of_nat i) cards (zn, zh)) = zidx (highest_from su cards i best hi).
Proof.
  intros su f Hf cards. induction cards as [|c r IH]; intros i best hi zn zh Hrel.
  - simpl. destruct best as [b|]; simpl in Hrel; destruct Hrel as [Hn _]; exact Hn.
  - cbn [py_for_enum highest_from]. rewrite Hf.
    replace (Z.add (Z.of_nat i) 1) with (Z.of_nat (S i)) by lia.
    destruct (suit_beq (csuit c) su); cbn [negb].
    + destruct best as [b|]; simpl in Hrel; destruct Hrel as [Hn Hh]; subst zn zh.
      * destruct (Z.ltb_spec (Z.of_nat hi) (Z.of_nat (rank_val (crank c)))) as [Hlt|Hge];
          destruct (Nat.ltb_spec hi (rank_val (crank c))) as [Hlt'|Hge']; try lia;
          apply IH; simpl; auto.
      * destruct (Z.ltb_spec (-1)%Z (Z.of_nat (rank_val (crank c)))) as [Hlt|Hge]; [|lia].
        apply IH; simpl; auto.
    + apply IH; exact Hrel.
Qed.

(* ------------------------------------------------------------------ PlayingHistory *)
Theorem g_history_init_eq : forall k, g_history_init k = [].
Proof. reflexivity. Qed.

Theorem g_history_record_eq : forall h n th,
  g_history_record h n th =
  if negb (Z.eqb (Z.of_nat (length h)) (n - 1)%Z) then (h, PRaises) else (th :: h, POk).
Proof. intros h n th. unfold g_history_record. same. Qed.

(* ------------------------------------------------------------------ PlayingPhase *)
(* __init__: None where it raises (passed out) or an assert fails (no trump / no declarer) *)
Theorem g_init_play_eq : forall k, g_init_play k = init_play k.
Proof.
  intros [fb x xx v d]. unfold g_init_play, init_play, is_passed_out, py_contract_trump, g_history_init.
  cbn [final_bid cdeclarer].
  destruct fb as [[l st]|]; [|same]. destruct d as [p|]; same.
Qed.

Theorem g_phase_done_eq : forall s, g_phase_done s = phase_done s.
Proof. intros s. unfold g_phase_done, phase_done. same. Qed.

(* calc_highest: the index as an integer, -1 where the model says None *)
Theorem g_calc_highest_eq : forall st cards, g_calc_highest st cards = zidx (calc_highest st cards).
Proof.
  intros st cards. unfold g_calc_highest, calc_highest. cbv zeta.
  destruct st as [su|]; cbn [strain_beq]; [|reflexivity].
  lazymatch goal with |- context [py_for_enum ?f _ _ _] =>
    exact (for_enum_highest su f (fun i c n h => eq_refl) cards 0 None 0 (-1)%Z (-1)%Z (conj eq_refl eq_refl)) end.
Qed.

Lemma zidx_neg : forall o, Z.ltb (zidx o) 0 = match o with None => true | Some _ => false end.
Proof. intros [i|]; simpl; [|reflexivity]. destruct (Z.ltb_spec (Z.of_nat i) 0) as [H|H]; [lia | reflexivity]. Qed.

Lemma zidx_to_nat : forall o, Z.to_nat (zidx o) = match o with None => 0 | Some i => i end.
Proof. intros [i|]; simpl; [apply Nat2Z.id | reflexivity]. Qed.

(* _set_next_leader: raises unless the trick has four cards; else the leader moves winner_idx seats
   (the highest trump, failing that the highest card of the suit led); nothing else changes *)
Theorem g_set_next_leader_eq : forall s,
  g_set_next_leader s =
  if negb (length (trick s) =? 4) then (s, PRaises)
  else (mkP (trump s) (declarer s) (dummy s) (rot (leader s) (winner_idx (trump s) (trick s))) (pactive s) (trick s)
            (trick_num s) (rtricks s) (used s) (taken_ns s) (taken_ew s), POk).
Proof.
  intros s. unfold g_set_next_leader, winner_idx. cbv zeta.
  destruct (length (trick s) =? 4) eqn:E4; cbn [negb]; [|reflexivity].
  rewrite g_calc_highest_eq, zidx_neg.
  destruct (calc_highest (trump s) (trick s)) as [i|].
  - rewrite zidx_to_nat, iter_next_rot. reflexivity.
  - destruct (trick s) as [|c r] eqn:Et; [discriminate E4|]. cbn [nth_error].
    rewrite g_calc_highest_eq, zidx_to_nat, iter_next_rot. reflexivity.
Qed.

(* the ValueError of PlayingHistory.record, as a test on the state: len(history) != trick_num - 1, over the integers *)
Definition record_raises (s : pstate) : bool :=
  negb (Z.eqb (Z.of_nat (length (rtricks s))) (Z.of_nat (trick_num s) - 1)%Z).

Theorem g_record_eq : forall s,
  g_record s =
  if record_raises s then (s, PRaises)
  else (mkP (trump s) (declarer s) (dummy s) (leader s) (pactive s) (trick s) (trick_num s)
            ((leader s, trick s) :: rtricks s) (used s) (taken_ns s) (taken_ew s), POk).
Proof.
  intros s. unfold g_record, record_raises. rewrite g_history_record_eq.
  destruct (negb _); [destruct s|]; reflexivity.
Qed.

(* play_card raises exactly when the fourth card completes a trick and record refuses it *)
Definition play_card_raises (s : pstate) (c : card) : bool := (length (trick s ++ [c]) =? 4) && record_raises s.

(* play_card, unconditionally: the error branch shows the state as mutated so far (card appended and marked used) *)
Theorem g_play_card_spec : forall s c,
  g_play_card s c =
  if play_card_raises s c
  then (mkP (trump s) (declarer s) (dummy s) (leader s) (pactive s) (trick s ++ [c]) (trick_num s) (rtricks s)
            (c :: used s) (taken_ns s) (taken_ew s), PRaises)
  else (play_card s c, POk).
Proof.
  intros s c. unfold g_play_card, play_card, play_card_raises. cbv zeta.
  destruct (length (trick s ++ [c]) =? 4) eqn:E4; cbn [andb]; [|reflexivity].
  rewrite g_record_eq. unfold record_raises. cbn [rtricks trick_num].
  destruct (negb _); [reflexivity|].
  rewrite g_set_next_leader_eq. cbn [trick trump leader declarer dummy pactive trick_num rtricks used taken_ns taken_ew].
  rewrite E4. cbn [negb trick trump leader declarer dummy pactive trick_num rtricks used taken_ns taken_ew].
  rewrite !Nat.add_1_r.
  destruct (side_of (rot (leader s) (winner_idx (trump s) (trick s ++ [c])))); reflexivity.
Qed.

(* the invariant under which record does not raise *)
Definition hist_ok (s : pstate) : Prop := trick_num s = S (length (rtricks s)).

Lemma hist_ok_no_raise : forall s, hist_ok s -> record_raises s = false.
Proof.
  intros s H. unfold record_raises. rewrite H.
  replace (Z.of_nat (S (length (rtricks s))) - 1)%Z with (Z.of_nat (length (rtricks s))) by lia.
  rewrite Z.eqb_refl. reflexivity.
Qed.

(* the same invariant in the form `len(history) = trick_num - 1` over the naturals, which needs trick_num >= 1 *)
Lemma hist_ok_iff : forall s, 1 <= trick_num s -> (length (rtricks s) = trick_num s - 1 <-> hist_ok s).
Proof. intros s H. unfold hist_ok. lia. Qed.

Corollary g_play_card_eq : forall s c, hist_ok s -> g_play_card s c = (play_card s c, POk).
Proof.
  intros s c H. rewrite g_play_card_spec. unfold play_card_raises. rewrite (hist_ok_no_raise s H), Bool.andb_false_r. reflexivity.
Qed.

Theorem hist_ok_init : forall k s, g_init_play k = Some s -> hist_ok s.
Proof.
  intros k s H. rewrite g_init_play_eq in H. unfold init_play in H.
  destruct (final_bid k) as [[l st]|]; [|discriminate H]. destruct (cdeclarer k) as [d|]; [|discriminate H].
  injection H as <-. reflexivity.
Qed.

Theorem hist_ok_play_card : forall s c, hist_ok s -> hist_ok (fst (g_play_card s c)).
Proof.
  intros s c H. rewrite (g_play_card_eq s c H). cbn [fst]. unfold hist_ok, play_card in *. cbv zeta.
  destruct (length (trick s ++ [c]) =? 4); cbn [trick_num rtricks length]; lia.
Qed.

(* the two checks *)
Theorem g_check_active_player_eq : forall s p,
  g_check_active_player s p = if negb (seat_beq p (pactive s)) then PRaises else POk.
Proof. reflexivity. Qed.

Theorem g_check_has_card_eq : forall p h c, g_check_has_card p h c = if negb (has_card h c) then PRaises else POk.
Proof. reflexivity. Qed.

Lemma pair_eta : forall (A : Type) (x : A * presult),
  match x with (a, PRaises) => (a, PRaises) | (a, POk) => (a, POk) end = x.
Proof. intros A [a []]; reflexivity. Qed.

(* PlayingPhase.play_card_by_player (no hands): the check of the player, then play_card *)
Theorem g_base_play_by_eq : forall s c p,
  g_base_play_by s c p = if negb (seat_beq p (pactive s)) then (s, PRaises) else g_play_card s c.
Proof.
  intros s c p. unfold g_base_play_by, g_check_active_player.
  destruct (negb _); [reflexivity | apply pair_eta].
Qed.

(* available_cards / current_available_cards; the latter never raises (Some) *)
Theorem g_available_eq : forall hand first, g_available hand first = available hand first.
Proof.
  intros hand first. unfold g_available, available. cbv zeta.
  destruct first as [f|]; [|reflexivity].
  destruct (filter _ hand); reflexivity.
Qed.

Example g_available_default_pinned : g_available_default_first_card = None.
Proof. reflexivity. Qed.

Theorem g_current_available_eq : forall s hand, g_current_available s hand = Some (current_available s hand).
Proof.
  intros s hand. unfold g_current_available, current_available. cbv zeta.
  destruct (trick s) as [|c r]; cbn [length Nat.eqb nth_error hd_error]; rewrite g_available_eq; reflexivity.
Qed.

(* ------------------------------------------------------------------ PlayingPhaseWithHands *)
Theorem g_init_hands_eq : forall k deal, g_init_hands k deal = init_hands k deal.
Proof.
  intros k deal. unfold g_init_hands, init_hands. rewrite g_init_play_eq. destruct (init_play k); reflexivity.
Qed.

(* play_card_by_player: the player, then the card, then remove, then play_card - wherever play_card does not raise *)
Theorem g_play_by_spec : forall s c p,
  play_card_raises (hbase s) c = false -> g_play_by s c p = play_by s c p.
Proof.
  intros [b hs] c p H. unfold g_play_by, play_by, g_check_active_player, g_check_has_card. cbn [hbase hands] in *.
  rewrite g_play_card_spec, H.
  destruct (negb (seat_beq p (pactive b))); [reflexivity|].
  destruct (has_card (hs p) c); reflexivity.
Qed.

(* ... and where it does, the call raises; the state then shows the card already removed from the hand and the base
   part as play_card left it (g_play_card_spec) *)
Theorem g_play_by_raises : forall s c p,
  play_card_raises (hbase s) c = true ->
  g_play_by s c p =
  if negb (seat_beq p (pactive (hbase s))) then (s, PRaises)
  else if negb (has_card (hands s p) c) then (s, PRaises)
  else (mkH (fst (g_play_card (hbase s) c)) (fun q => if seat_beq q p then remove_card (hands s q) c else hands s q),
        PRaises).
Proof.
  intros [b hs] c p H. unfold g_play_by, g_check_active_player, g_check_has_card. cbn [hbase hands] in *.
  rewrite g_play_card_spec, H. cbn [fst].
  destruct (negb (seat_beq p (pactive b))); [reflexivity|].
  destruct (has_card (hs p) c); reflexivity.
Qed.

Lemma hist_ok_plays : forall b c, hist_ok b -> play_card_raises b c = false.
Proof. intros b c H. unfold play_card_raises. rewrite (hist_ok_no_raise b H). apply Bool.andb_false_r. Qed.

Corollary g_play_by_eq : forall s c p, hist_ok (hbase s) -> g_play_by s c p = play_by s c p.
Proof. intros s c p H. apply g_play_by_spec, hist_ok_plays, H. Qed.

Theorem g_hands_available_eq : forall s p, g_hands_available s p = Some (current_available (hbase s) (hands s p)).
Proof. intros s p. unfold g_hands_available. rewrite g_current_available_eq. reflexivity. Qed.

(* ------------------------------------------------------------------ ObservedPlayingPhase *)
Theorem g_init_obs_eq : forall k me hand, g_init_obs k me hand = init_obs k me hand.
Proof.
  intros k me hand. unfold g_init_obs, init_obs. rewrite g_init_play_eq. destruct (init_play k); reflexivity.
Qed.

Theorem g_set_dummy_hand_eq : forall s h, g_set_dummy_hand s h = set_dummy_hand s h.
Proof. reflexivity. Qed.

Theorem g_obs_play_by_spec : forall s c p,
  play_card_raises (obase s) c = false -> g_obs_play_by s c p = obs_play_by s c p.
Proof.
  intros [b me h dh] c p H. unfold g_obs_play_by, obs_play_by, g_check_active_player, g_check_has_card.
  cbn [obase ome ohand odummy] in *. rewrite g_play_card_spec, H.
  destruct (negb (seat_beq p (pactive b))); [reflexivity|].
  destruct (seat_beq p me).
  - destruct (has_card h c); reflexivity.
  - destruct (seat_beq p (dummy b)); [|reflexivity].
    destruct dh as [d|]; [|reflexivity].
    destruct (has_card d c); reflexivity.
Qed.

(* where play_card raises: the hand update has happened, the base part is as play_card left it *)
Theorem g_obs_play_by_raises : forall s c p,
  play_card_raises (obase s) c = true ->
  g_obs_play_by s c p =
  let b' := fst (g_play_card (obase s) c) in
  if negb (seat_beq p (pactive (obase s))) then (s, PRaises)
  else if seat_beq p (ome s) then
    if negb (has_card (ohand s) c) then (s, PRaises)
    else (mkO b' (ome s) (remove_card (ohand s) c) (odummy s), PRaises)
  else if seat_beq p (dummy (obase s)) then
    match odummy s with
    | None => (s, PRaises)
    | Some dh => if negb (has_card dh c) then (s, PRaises)
                 else (mkO b' (ome s) (ohand s) (Some (remove_card dh c)), PRaises) end
  else (mkO b' (ome s) (ohand s) (odummy s), PRaises).
Proof.
  intros [b me h dh] c p H. unfold g_obs_play_by, g_check_active_player, g_check_has_card.
  cbn [obase ome ohand odummy] in *. rewrite g_play_card_spec, H. cbv zeta. cbn [fst].
  destruct (negb (seat_beq p (pactive b))); [reflexivity|].
  destruct (seat_beq p me).
  - destruct (has_card h c); reflexivity.
  - destruct (seat_beq p (dummy b)); [|reflexivity].
    destruct dh as [d|]; [|reflexivity].
    destruct (has_card d c); reflexivity.
Qed.

Corollary g_obs_play_by_eq : forall s c p, hist_ok (obase s) -> g_obs_play_by s c p = obs_play_by s c p.
Proof. intros s c p H. apply g_obs_play_by_spec, hist_ok_plays, H. Qed.

Theorem g_obs_available_in_hand_eq : forall s,
  g_obs_available_in_hand s = Some (current_available (obase s) (ohand s)).
Proof. intros s. unfold g_obs_available_in_hand. rewrite g_current_available_eq. reflexivity. Qed.

(* raises (None) while the dummy's hand is not set *)
Theorem g_obs_available_in_dummy_eq : forall s,
  g_obs_available_in_dummy s = option_map (current_available (obase s)) (odummy s).
Proof.
  intros s. unfold g_obs_available_in_dummy. destruct (odummy s) as [d|]; [|reflexivity].
  rewrite g_current_available_eq. reflexivity.
Qed.

(* ------------------------------------------------------------------ non-vacuity: the generated functions run *)
Definition g_plays (s : pstate) (cs : list card) : pstate * list presult :=
  fold_left (fun st c => let '(s', r) := g_play_card (fst st) c in (s', snd st ++ [r])) cs (s, []).
Definition k4S : contract := mkcontract (Some (L4, Tr Sp)) false false VNone (Some South).

(* 4S by South: West leads the heart ace, East ruffs with the spade two and leads to the second trick *)
Example g_trick_ruffed :
  match g_init_play k4S with
  | None => False
  | Some s0 =>
      let r := g_plays s0 [mkcard RA He; mkcard R2 He; mkcard R2 Sp; mkcard RK He] in
      snd r = [POk; POk; POk; POk] /\ leader (fst r) = East /\ pactive (fst r) = East /\ trick (fst r) = []
      /\ trick_num (fst r) = 2 /\ taken_ew (fst r) = 1 /\ taken_ns (fst r) = 0
      /\ rtricks (fst r) = [(West, [mkcard RA He; mkcard R2 He; mkcard R2 Sp; mkcard RK He])]
      /\ length (used (fst r)) = 4 /\ g_phase_done (fst r) = false
  end.
Proof. cbv. repeat split. Qed.

(* 3NT by North: no trump, the highest card of the suit led wins; of two equal ranks the first *)
Example g_trick_notrump :
  match g_init_play (mkcontract (Some (L3, NT)) false false VNone (Some North)) with
  | None => False
  | Some s0 =>
      let r := g_plays s0 [mkcard RT Di; mkcard RA Sp; mkcard RQ Di; mkcard R3 Di] in
      leader s0 = East /\ leader (fst r) = West /\ taken_ew (fst r) = 1
      /\ g_calc_highest NT (trick (fst (g_plays s0 [mkcard RT Di]))) = (-1)%Z
      /\ g_calc_highest (Tr Di) [mkcard RT Di; mkcard RA Sp; mkcard RQ Di; mkcard R3 Di] = 2%Z
      /\ g_calc_highest (Tr He) [mkcard RT Di; mkcard RA Sp] = (-1)%Z
  end.
Proof. cbv. repeat split. Qed.

(* with hands: the wrong player, a card not held, then a legal card; a state with a broken history raises in record *)
Example g_with_hands :
  let deal := fun p => match p with West => [mkcard RA He; mkcard R5 Cl] | _ => [mkcard R2 He] end in
  match g_init_hands k4S deal with
  | None => False
  | Some h0 =>
      snd (g_play_by h0 (mkcard RA He) North) = PRaises
      /\ snd (g_play_by h0 (mkcard R2 He) West) = PRaises
      /\ snd (g_play_by h0 (mkcard RA He) West) = POk
      /\ hands (fst (g_play_by h0 (mkcard RA He) West)) West = [mkcard R5 Cl]
      /\ g_hands_available (fst (g_play_by h0 (mkcard RA He) West)) North = Some [mkcard R2 He]
      /\ g_hands_available h0 West = Some [mkcard RA He; mkcard R5 Cl]
  end
  /\ snd (g_play_card (mkP NT North South East North [mkcard R2 Cl; mkcard R3 Cl; mkcard R4 Cl] 5 [] [] 0 0) (mkcard R5 Cl))
     = PRaises
  /\ g_init_play (mkcontract None false false VNone None) = None.
Proof. cbv. repeat split. Qed.

Print Assumptions iter_next_rot.
Print Assumptions for_enum_highest.
Print Assumptions g_history_init_eq.
Print Assumptions g_history_record_eq.
Print Assumptions g_init_play_eq.
Print Assumptions g_phase_done_eq.
Print Assumptions g_calc_highest_eq.
Print Assumptions g_set_next_leader_eq.
Print Assumptions g_record_eq.
Print Assumptions g_play_card_spec.
Print Assumptions g_play_card_eq.
Print Assumptions hist_ok_iff.
Print Assumptions hist_ok_init.
Print Assumptions hist_ok_play_card.
Print Assumptions g_check_active_player_eq.
Print Assumptions g_check_has_card_eq.
Print Assumptions g_base_play_by_eq.
Print Assumptions g_available_eq.
Print Assumptions g_current_available_eq.
Print Assumptions g_init_hands_eq.
Print Assumptions g_play_by_spec.
Print Assumptions g_play_by_raises.
Print Assumptions g_play_by_eq.
Print Assumptions g_hands_available_eq.
Print Assumptions g_init_obs_eq.
Print Assumptions g_set_dummy_hand_eq.
Print Assumptions g_obs_play_by_spec.
Print Assumptions g_obs_play_by_raises.
Print Assumptions g_obs_play_by_eq.
Print Assumptions g_obs_available_in_hand_eq.
Print Assumptions g_obs_available_in_dummy_eq.
