(* The process definitions of the session network (Model/Session.v) commute with a renaming of channels (Proofs/KahnEmbed.v):
   the board loop of main over a network of n connections with seat table [conn] is the renaming of the board loop over a network
   of n0 connections with seat table [conn0] as soon as the renaming [rh] sends the queues of [conn0 p] to the queues of [conn p]
   and the log to the log; the board loop of the connection thread j of the n-network is the renaming of that of thread i of the
   n0-network as soon as [rh] sends the four channels and the down-transcript of i to those of j; the same for the bundled client.
   By induction on the fuel arguments, mirroring the definitions (and the ownership proofs of Proofs/Session.v).
   [sim] is KahnEmbed's inductive renaming relation (no cells are used by the session: the cell renaming is the identity).
   Standard library only; closed under the global context. *)
From BE Require Import Model.Session Proofs.Kahn Proofs.Session Proofs.KahnEmbed.
From Coq Require Import Lia.
Local Open Scope string_scope.
Local Open Scope nat_scope.
Local Open Scope list_scope.

Definition idc : nat -> nat := fun x => x.
Notation ssim rh := (KahnEmbed.sim msg rh idc).

Lemma sim_sget rh f f' c c' : rh c = c' -> (forall s, ssim rh (f s) (f' s)) -> ssim rh (sget f c) (sget f' c').
Proof. intros H Hf. unfold sget. apply sim_Get'; [exact H|]. intros []; auto; apply sim_Fail. Qed.

Lemma sim_fold rh {A} (g g' : A -> proc -> proc) base base' l :
  (forall p acc acc', ssim rh acc acc' -> ssim rh (g p acc) (g' p acc')) -> ssim rh base base' ->
  ssim rh (fold_right g base l) (fold_right g' base' l).
Proof. intros Hg Hb. induction l; cbn [fold_right]; auto. Qed.

(* one syntax-directed pass over the two trees at once; [ceq] proves the channel equations, [extra] handles the named sub-processes *)
Ltac simgo ceq extra :=
  repeat match goal with
  | |- KahnEmbed.sim _ _ _ Ret Ret => apply sim_Ret
  | |- KahnEmbed.sim _ _ _ Fail Fail => apply sim_Fail
  | |- KahnEmbed.sim _ _ _ (Bar _) (Bar _) => apply sim_Bar
  | |- KahnEmbed.sim _ _ _ (Tau _) (Tau _) => apply sim_Tau
  | |- KahnEmbed.sim _ _ _ (Put _ _ _) (Put _ _ _) => apply sim_Put'; [ solve [ceq] | ]
  | |- KahnEmbed.sim _ _ _ (Get _ _) (Get _ _) => apply sim_Get'; [ solve [ceq] | intro ]
  | |- KahnEmbed.sim _ _ _ (sget _ _) (sget _ _) => apply sim_sget; [ solve [ceq] | intro ]
  | |- KahnEmbed.sim _ _ _ (fold_right _ _ _) (fold_right _ _ _) => apply sim_fold; [ intros ? ? ? ? | ]
  | |- KahnEmbed.sim _ _ _ (match ?x with _ => _ end) (match ?x with _ => _ end) => destruct x
  | |- KahnEmbed.sim _ _ _ ((match ?x with _ => _ end) _) ((match ?x with _ => _ end) _) => destruct x
  | |- KahnEmbed.sim _ _ _ _ _ => assumption
  | |- KahnEmbed.sim _ _ _ _ _ => progress cbv beta zeta
  | |- KahnEmbed.sim _ _ _ _ _ => extra
  end.

(* ===================================================================== main's board loop *)
Section MainRen.
  Variable rh : nat -> nat.
  Variables n0 n : nat.
  Variables conn0 conn : seat -> nat.
  Hypothesis Hq : forall p, rh (ch_q (conn0 p)) = ch_q (conn p).
  Hypothesis Hr : forall p, rh (ch_r (conn0 p)) = ch_r (conn p).
  Hypothesis Hlog : rh (ch_log n0) = ch_log n.

  Ltac main_ceq := first [ apply Hq | apply Hr | exact Hlog ].
  Ltac main_unf :=
    idtac; match goal with
    | |- KahnEmbed.sim _ _ _ (put_all _ _ _) _ => unfold put_all
    | |- KahnEmbed.sim _ _ _ (put_others _ _ _ _) _ => unfold put_others
    | |- KahnEmbed.sim _ _ _ (abort _) _ => unfold abort
    | |- KahnEmbed.sim _ _ _ (logp _ _ _) _ => unfold logp
    | |- KahnEmbed.sim _ _ _ (put_null_pair _ _ _) _ => unfold put_null_pair
    | |- KahnEmbed.sim _ _ _ (join_all _) _ => unfold join_all
    | |- KahnEmbed.sim _ _ _ (mget _ _ _) _ => unfold mget
    end.

  Lemma sim_bidding : forall fuel s k k', (forall s', ssim rh (k s') (k' s')) ->
    ssim rh (bidding n0 conn0 fuel s k) (bidding n conn fuel s k').
  Proof.
    induction fuel as [|f IH]; intros s k k' Hk; cbn [bidding]; [apply sim_Fail|].
    simgo main_ceq ltac:(first [ main_unf | apply Hk | apply IH; exact Hk ]).
  Qed.

  Lemma sim_playing : forall fuel i hs orig k k', (forall hs', ssim rh (k hs') (k' hs')) ->
    ssim rh (playing n0 conn0 fuel i hs orig k) (playing n conn fuel i hs orig k').
  Proof.
    induction fuel as [|f IH]; intros i hs orig k k' Hk; cbn [playing]; [apply Hk|].
    simgo main_ceq ltac:(first [ main_unf | apply Hk | apply IH; exact Hk ]).
  Qed.

  Lemma sim_boards_loop names : forall bs number,
    ssim rh (boards_loop n0 conn0 names bs number) (boards_loop n conn names bs number).
  Proof.
    induction bs as [|bd rest IH]; intros number; cbn [boards_loop].
    - simgo main_ceq main_unf.
    - simgo main_ceq ltac:(first [ main_unf | apply IH | apply sim_bidding; intro | apply sim_playing; intro ]).
  Qed.
End MainRen.

(* ===================================================================== a connection thread *)
Section ConnRen.
  Variable rh : nat -> nat.
  Variables n0 n i j : nat.
  Hypothesis Hup : rh (ch_up i) = ch_up j.
  Hypothesis Hdown : rh (ch_down i) = ch_down j.
  Hypothesis Hq : rh (ch_q i) = ch_q j.
  Hypothesis Hr : rh (ch_r i) = ch_r j.
  Hypothesis Htd : rh (tr_down n0 i) = tr_down n j.

  Ltac conn_ceq := first [ exact Hup | exact Hdown | exact Hq | exact Hr | exact Htd ].
  Ltac conn_unf :=
    idtac; match goal with
    | |- KahnEmbed.sim _ _ _ (send _ _ _ _) _ => unfold send
    | |- KahnEmbed.sim _ _ _ (handle_error _ _ _ _) _ => unfold handle_error
    | |- KahnEmbed.sim _ _ _ (expect _ _ _ _ _) _ => unfold expect
    | |- KahnEmbed.sim _ _ _ (forward_q _ _ _) _ => unfold forward_q
    | |- KahnEmbed.sim _ _ _ (to_main _ _ _) _ => unfold to_main
    end.

  Lemma sim_t_bidding : forall fuel me k k', ssim rh k k' -> ssim rh (t_bidding n0 i fuel me k) (t_bidding n j fuel me k').
  Proof.
    induction fuel as [|f IH]; intros me k k' Hk; cbn [t_bidding]; [apply sim_Fail|].
    simgo conn_ceq ltac:(first [ conn_unf | apply IH; exact Hk ]).
  Qed.

  Lemma sim_t_playing : forall fuel a me decl a0 k k', ssim rh k k' ->
    ssim rh (t_playing n0 i fuel a me decl a0 k) (t_playing n j fuel a me decl a0 k').
  Proof.
    induction fuel as [|f IH]; intros a me decl a0 k k' Hk; cbn [t_playing]; [exact Hk|].
    simgo conn_ceq ltac:(first [ conn_unf | apply IH; exact Hk ]).
  Qed.

  Lemma sim_t_boards : forall fuel me, ssim rh (t_boards n0 i fuel me) (t_boards n j fuel me).
  Proof.
    induction fuel as [|f IH]; intros me; cbn [t_boards]; [apply sim_Fail|].
    simgo conn_ceq ltac:(first [ conn_unf | apply IH | apply sim_t_bidding | apply sim_t_playing ]).
  Qed.
End ConnRen.

(* ===================================================================== a client *)
Section ClientRen.
  Variable rh : nat -> nat.
  Variables n0 n i j : nat.
  Variable me : seat.
  Hypothesis Hup : rh (ch_up i) = ch_up j.
  Hypothesis Hdown : rh (ch_down i) = ch_down j.
  Hypothesis Htu : rh (tr_up n0 i) = tr_up n j.

  Ltac client_ceq := first [ exact Hup | exact Hdown | exact Htu ].
  Ltac client_unf :=
    idtac; match goal with
    | |- KahnEmbed.sim _ _ _ (csend _ _ _ _) _ => unfold csend
    | |- KahnEmbed.sim _ _ _ (crecv _ _) _ => unfold crecv
    end.

  Lemma sim_crecv K K' : (forall s, ssim rh (K s) (K' s)) -> ssim rh (crecv i K) (crecv j K').
  Proof. intros HK. unfold crecv. simgo client_ceq ltac:(apply HK). Qed.

  Lemma sim_c_bidding : forall fuel s calls k k', (forall s' c', ssim rh (k s' c') (k' s' c')) ->
    ssim rh (c_bidding n0 i me fuel s calls k) (c_bidding n j me fuel s calls k').
  Proof.
    induction fuel as [|f IH]; intros s calls k k' Hk; cbn [c_bidding]; [apply sim_Fail|].
    simgo client_ceq ltac:(first [ client_unf | apply Hk | apply IH; exact Hk ]).
  Qed.

  Lemma sim_c_playing : forall fuel a o ho cards k k', (forall o' c', ssim rh (k o' c') (k' o' c')) ->
    ssim rh (c_playing n0 i me fuel a o ho cards k) (c_playing n j me fuel a o ho cards k').
  Proof.
    induction fuel as [|f IH]; intros a o ho cards k k' Hk; cbn [c_playing]; [apply Hk|].
    simgo client_ceq ltac:(first [ client_unf | apply Hk | apply IH; exact Hk ]).
  Qed.

  Lemma sim_c_boards : forall fuel first scripts, ssim rh (c_boards n0 i me fuel first scripts) (c_boards n j me fuel first scripts).
  Proof.
    induction fuel as [|f IH]; intros first scripts; cbn [c_boards]; [apply sim_Fail|].
    simgo client_ceq ltac:(first [ client_unf | apply IH | apply sim_c_bidding; intros ? ? | apply sim_c_playing; intros ? ? ]).
  Qed.
End ClientRen.

Print Assumptions sim_boards_loop.
Print Assumptions sim_t_boards.
Print Assumptions sim_c_boards.
Print Assumptions sim_crecv.
