(* C15: notations are exact inverses.  Complete finite domains. *)
From BE Require Import Model.Basics Model.NotationRows Spec.Domains Spec.Notation Proofs.Finite Gen.NotationGraph Gen.Enums.
From Coq Require Import Lia.
Local Open Scope nat_scope.

(* ---- tie: the models of Model/Basics.v equal the implementation on the whole domain ---- *)
Lemma tie_cards : m_cards = g_cards. Proof. vm_compute. reflexivity. Qed.
Lemma tie_ranks : m_ranks = g_ranks. Proof. vm_compute. reflexivity. Qed.
Lemma tie_card_cmp : m_card_cmp = g_card_cmp. Proof. vm_compute. reflexivity. Qed.
Lemma tie_calls : m_calls = g_calls. Proof. vm_compute. reflexivity. Qed.
Lemma tie_seats : m_seats = g_seats. Proof. vm_compute. reflexivity. Qed.
Lemma tie_is_partner : m_is_partner = g_is_partner. Proof. vm_compute. reflexivity. Qed.
Lemma tie_seat_is_vul : m_seat_is_vul = g_seat_is_vul. Proof. vm_compute. reflexivity. Qed.
Lemma tie_vuls : m_vuls = g_vuls. Proof. vm_compute. reflexivity. Qed.
Lemma tie_vul_inputs : m_vul_inputs = g_vul_inputs. Proof. vm_compute. reflexivity. Qed.
Lemma tie_suits : m_suits = g_suits. Proof. vm_compute. reflexivity. Qed.
Lemma tie_pairs : m_pairs = g_pairs. Proof. vm_compute. reflexivity. Qed.
Lemma tie_contracts : m_contracts = g_contracts. Proof. vm_compute. reflexivity. Qed.
Lemma tie_passed_out : m_passed_out = g_passed_out. Proof. vm_compute. reflexivity. Qed.
(* ---- tie: enum members as written in the class bodies ---- *)
Lemma enum_suit : enum_Suit = map (fun s => (strain_str s, Z.of_nat (strain_val s))) all_strains. Proof. reflexivity. Qed.
Lemma enum_player : enum_Player = map (fun p => (seat_str p, Z.of_nat (seat_val p))) all_seats. Proof. reflexivity. Qed.
Lemma enum_pair : enum_Pair = map (fun s => (side_str s, Z.of_nat (side_val s))) all_sides. Proof. reflexivity. Qed.
Lemma enum_vul : map snd enum_Vul = map (fun v => Z.of_nat (vul_idx v + 1)) all_vuls. Proof. reflexivity. Qed.
Lemma enum_bid : map snd enum_Bid = map (fun c => Z.of_nat (call_idx c + 1)) all_calls. Proof. reflexivity. Qed.

(* ---- the property, checked on the implementation's tables by the independent checker ---- *)
Lemma graph_ok :
  cards_bad g_cards = [] /\ ranks_bad g_ranks = [] /\ card_cmp_bad g_card_cmp = [] /\ calls_bad g_calls = [] /\
  seats_bad g_seats = [] /\ vuls_bad g_vuls = [] /\ vul_inputs_bad g_vul_inputs = [] /\ suits_bad g_suits = [] /\
  pairs_bad g_pairs = [] /\ contracts_bad g_contracts = [] /\ passed_out_bad g_passed_out = [].
Proof. vm_compute. repeat split; reflexivity. Qed.

(* ---- the property, as theorems about the models ---- *)
Local Ltac fin := vm_compute; reflexivity.
Lemma card_str_roundtrip c : card_of_str (card_str c) = Some c. Proof. destruct c as [[] []]; reflexivity. Qed.
Lemma card_idx_roundtrip c : card_of_idx (card_idx c) = Some c. Proof. destruct c as [[] []]; reflexivity. Qed.
Lemma card_idx_range c : card_idx c < 52. Proof. destruct c as [[] []]; cbn; lia. Qed.
Lemma card_idx_is_position : map card_idx all_cards = seq 0 52. Proof. reflexivity. Qed.
Lemma card_of_idx_total : forallb (fun k => match card_of_idx k with Some c => card_idx c =? k | None => false end) (seq 0 52) = true.
Proof. fin. Qed.
Lemma card_of_idx_inv k : k < 52 -> exists c, card_of_idx k = Some c /\ card_idx c = k.
Proof.
  intros H. pose proof card_of_idx_total as T. rewrite forallb_forall in T.
  specialize (T k). rewrite in_seq in T. specialize (T ltac:(lia)).
  destruct (card_of_idx k) as [c|]; [|discriminate]. exists c. split; [reflexivity|]. apply Nat.eqb_eq; exact T.
Qed.
Lemma card_str_injective a b : card_str a = card_str b -> a = b.
Proof. intros H. pose proof (card_str_roundtrip a) as Ha. rewrite H, card_str_roundtrip in Ha. congruence. Qed.
Lemma card_idx_injective a b : card_idx a = card_idx b -> a = b.
Proof. intros H. pose proof (card_idx_roundtrip a) as Ha. rewrite H, card_idx_roundtrip in Ha. congruence. Qed.
Lemma card_order_is_index_order a b :
  card_lt a b = (card_idx a <? card_idx b) /\ card_le a b = (card_idx a <=? card_idx b) /\
  card_gt a b = (card_idx b <? card_idx a) /\ card_ge a b = (card_idx b <=? card_idx a) /\
  (card_beq a b = true <-> card_idx a = card_idx b).
Proof.
  repeat split; try reflexivity.
  - intros H. apply internal_card_dec_bl in H. congruence.
  - intros H. apply card_idx_injective in H. subst. apply internal_card_dec_lb. reflexivity.
Qed.
Lemma rank_roundtrip r : exists a, rank_str r = String a EmptyString /\ rank_of_ascii a = Some r.
Proof. destruct r; eexists; split; reflexivity. Qed.

Lemma call_str_roundtrip c : call_of_str (call_str c) = Some c. Proof. destruct c as [[] [[]|]| | |]; reflexivity. Qed.
Lemma call_idx_roundtrip c : call_of_idx (call_idx c) = Some c. Proof. destruct c as [[] [[]|]| | |]; reflexivity. Qed.
Lemma call_idx_range c : call_idx c < 38. Proof. destruct c as [[] [[]|]| | |]; cbn; lia. Qed.
Lemma call_idx_is_position : map call_idx all_calls = seq 0 38. Proof. reflexivity. Qed.
Lemma call_level_strain_roundtrip l s : call_level (Bid l s) = Some l /\ call_strain (Bid l s) = Some s /\
  call_idx (Bid l s) = (level_val l - 1) * 5 + strain_val s - 1.
Proof. repeat split. Qed.
Lemma call_no_level c : is_bid c = false -> call_level c = None /\ call_strain c = None.
Proof. destruct c; cbn; intros; try discriminate; auto. Qed.
Lemma call_str_injective a b : call_str a = call_str b -> a = b.
Proof. intros H. pose proof (call_str_roundtrip a) as Ha. rewrite H, call_str_roundtrip in Ha. congruence. Qed.
Lemma call_idx_injective a b : call_idx a = call_idx b -> a = b.
Proof. intros H. pose proof (call_idx_roundtrip a) as Ha. rewrite H, call_idx_roundtrip in Ha. congruence. Qed.
Lemma level_strain_vals_injective l s l' s' : level_val l = level_val l' -> strain_val s = strain_val s' -> Bid l s = Bid l' s'.
Proof. destruct l, l'; cbn; intros H; try discriminate; destruct s as [[]|], s' as [[]|]; cbn; intros; try discriminate; reflexivity. Qed.

Lemma seat_names p : seat_of_str (seat_str p) = Some p /\ seat_of_formal (formal_name p) = Some p /\ seat_of_val (seat_val p) = Some p.
Proof. destruct p; repeat split. Qed.
Lemma seat_str_injective a b : seat_str a = seat_str b -> a = b. Proof. destruct a, b; cbn; intros; try discriminate; reflexivity. Qed.
Lemma formal_name_injective a b : formal_name a = formal_name b -> a = b. Proof. destruct a, b; cbn; intros; try discriminate; reflexivity. Qed.
Lemma vul_spellings v : vul_of_str (vul_str v) = Some v /\ vul_of_str (vul_pbn v) = Some v.
Proof. destruct v; split; reflexivity. Qed.
Lemma vul_accepted_inputs :
  map vul_of_str ["None"; "Love"; "-"; "Both"; "All"; "NS"; "EW"]%string
  = [Some VNone; Some VNone; Some VNone; Some VBoth; Some VBoth; Some VNS; Some VEW].
Proof. reflexivity. Qed.
Lemma vul_str_injective a b : vul_str a = vul_str b -> a = b. Proof. destruct a, b; cbn; intros; try discriminate; reflexivity. Qed.
Lemma vul_pbn_injective a b : vul_pbn a = vul_pbn b -> a = b. Proof. destruct a, b; cbn; intros; try discriminate; reflexivity. Qed.
Lemma strain_str_roundtrip s : strain_of_str (strain_str s) = Some s. Proof. destruct s as [[]|]; reflexivity. Qed.
Lemma side_str_roundtrip s : side_of_str (side_str s) = Some s. Proof. destruct s; reflexivity. Qed.

(* contract text: same level, denomination, vulnerability, declarer and doubling status *)
Definition same_contract (a b : contract) : Prop :=
  final_bid a = final_bid b /\ cvul a = cvul b /\ cdeclarer a = cdeclarer b /\ cstatus a = cstatus b.
Lemma contract_text_roundtrip l s x xx v d :
  exists k', contract_of_str (contract_str (mkcontract (Some (l, s)) x xx v d)) v d = Some k' /\
             same_contract (mkcontract (Some (l, s)) x xx v d) k'.
Proof.
  destruct l, s as [[]|], x, xx; (eexists; split; [reflexivity|]); repeat split.
Qed.
Lemma contract_text_passed_out v x xx :
  contract_of_str (contract_str (mkcontract None x xx v None)) v None = Some (mkcontract None false false v None).
Proof. reflexivity. Qed.
