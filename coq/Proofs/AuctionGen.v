(* The functions GENERATED from the text of class BiddingPhase of bridge_env/bidding_phase.py
   (Gen/AuctionFns.v, harness/gen_auction.py) equal the hand-written model of Model/Auction.v - for ALL states
   (reachable or not, availability vectors of any length) and all calls.  The equalities are Leibniz equalities of
   records with function-valued fields, proved without functional extensionality: the translator emits the same
   lambda shapes as the model, so that after case analysis on the tests both sides are the same term.
   A change of the code of bidding_phase.py changes Gen/AuctionFns.v and breaks one of these proofs
   (or the translator refuses the source). *)
From BE Require Import Model.Auction Gen.AuctionFns.
Local Open Scope nat_scope.

(* Both sides are by now the same term, syntactically (up to bound names).  Checking that first makes a
   changed translation fail at once instead of sending the conversion test into a search. *)
Ltac same := lazymatch goal with |- ?a = ?b => constr_eq a b end; reflexivity.

(* Unfold both functions and thread the record rebuilds: projections of a constructed record, the lets, the join
   functions, and the boolean connectives once their arguments are known.  One cbv from the statement to the normal
   form, on purpose: the kernel then checks "term = its normal form" by evaluation.  (A separate `unfold` first makes
   it compare two unevaluated copies of the nested rebuilds field by field, which is exponential in their depth.) *)
Ltac norm := cbv beta iota zeta delta [g_take_bid take_bid g_contract contract_of
                                       dealer avul active last_bidder last_bid called_x called_xx rhist rphist
                                       decl_tab avail push_call negb andb orb nth_error].

(* __init__: np.ones(38) with the last two slots cleared is 36 ones and two zeros *)
Theorem g_init_eq : forall d v, g_init d v = init d v.
Proof. intros d v. unfold g_init, init. cbv. same. Qed.

Theorem g_has_done_eq : forall s, g_has_done s = has_done s.
Proof. intros s. unfold g_has_done, has_done. same. Qed.

(* contract(): not finished / passed out / a real last bid with or without a last bidder *)
Theorem g_contract_eq : forall s, g_contract s = contract_of s.
Proof.
  intros [d v a lb lbid x xx h ph tab av]. norm.
  destruct a as [p|]; [same|].
  destruct lbid as [[l st]|]; [|same].
  destruct lb as [p|]; norm; same.
Qed.

(* the X / XX availability after a call: the model computes the two flags, the code branches on them *)
Ltac flags p x xx :=
  repeat match goal with |- context [same_side (next p) ?q] => destruct (same_side (next p) q) end;
  destruct x, xx; norm; same.

(* take_bid().  Cases: ended (raises) / the call is unavailable / by call; for Pass the test on the length and the two
   newest calls; for a bid whether the side has named the strain before; then the last bidder and the flags. *)
Theorem g_take_bid_eq : forall s c, g_take_bid s c = take_bid s c.
Proof.
  intros [d v a lb lbid x xx h ph tab av] c. norm.
  destruct a as [p|]; [|same].
  destruct (nth (call_idx c) av false); norm; [|same].
  destruct c as [l st| | |]; norm.
  - (* a bid: last bidder = the caller, both flags cleared *)
    destruct (tab (side_of p) st); norm; destruct (same_side (next p) p); norm; same.
  - (* Pass *)
    set (b := 3 <=? length h). clearbody b.
    destruct b, h as [|[] [|[] h']]; norm; try same; destruct lb as [q|]; try same; flags p x xx.
  - (* X *)
    destruct lb as [q|]; [|same]. destruct (same_side (next p) q), xx; norm; same.
  - (* XX *)
    destruct lb as [q|]; [|same]. destruct (same_side (next p) q), x; norm; same.
Qed.

(* the two defaults of __init__ *)
Example g_init_defaults_pinned : g_init_defaults = (North, VNone).
Proof. reflexivity. Qed.

(* non-vacuity: the generated functions run the familiar auctions *)
Definition g_run (d : seat) (v : vul) (cs : list call) : astate * list outcome :=
  fold_left (fun st c => let '(s', o) := g_take_bid (fst st) c in (s', snd st ++ [o])) cs (g_init d v, []).
Example g_passed_out :
  let r := g_run North VNone [Pass; Pass; Pass; Pass] in
  snd r = [Ongoing; Ongoing; Ongoing; Finished] /\ g_has_done (fst r) = true
  /\ g_contract (fst r) = Some (mkcontract None false false VNone None).
Proof. cbv. repeat split. Qed.
Example g_1NT_x_xx :
  let r := g_run East VNS [Bid L1 NT; Dbl; Rdbl; Dbl; Bid L1 (Tr Cl); Pass; Pass; Pass; Pass] in
  snd r = [Ongoing; Ongoing; Ongoing; Illegal; Illegal; Ongoing; Ongoing; Finished; Raises]
  /\ g_contract (fst r) = Some (mkcontract (Some (L1, NT)) true true VNS (Some East)).
Proof. cbv. repeat split. Qed.
Example g_first_to_name_declares :
  g_contract (fst (g_run South VBoth [Bid L1 (Tr He); Pass; Bid L2 (Tr He); Pass; Bid L4 (Tr He); Pass; Pass; Pass]))
  = Some (mkcontract (Some (L4, Tr He)) false false VBoth (Some South)).
Proof. reflexivity. Qed.
Example g_unfinished_has_no_contract : g_contract (fst (g_run West VEW [Bid L3 NT; Pass])) = None.
Proof. reflexivity. Qed.

Print Assumptions g_init_eq.
Print Assumptions g_has_done_eq.
Print Assumptions g_contract_eq.
Print Assumptions g_take_bid_eq.
