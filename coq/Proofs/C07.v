(* C07: scoring.  Model = graph of the implementation (complete domain), model = Law 77 spec. *)
From BE Require Import Model.Score Spec.Duplicate Spec.Domains Proofs.Finite Gen.ScoreGraph.
From Coq Require Import Lia.
Local Open Scope Z_scope.

Definition oz_eqb (a b : option Z) : bool :=
  match a, b with Some x, Some y => x =? y | None, None => true | _, _ => false end.
Lemma oz_eqb_eq a b : oz_eqb a b = true -> a = b.
Proof. destruct a, b; cbn; intros H; try discriminate; auto. apply Z.eqb_eq in H. congruence. Qed.

(* --- the tie: the model agrees with the running code on every point of the domain --- *)
Theorem model_eq_graph :
  map (fun k => map (calc_score k) tricks14) score_domain = score_graph.
Proof. vm_compute. reflexivity. Qed.
Theorem model_eq_graph_bid :
  map (fun '((l, s), (x, xx), vb) => map (calc_bid_score l s x xx vb) tricks14) bid_score_domain = bid_score_graph.
Proof. vm_compute. reflexivity. Qed.
Theorem model_eq_graph_passed_out :
  map (fun k => map (calc_score k) tricks14) passed_out_domain = passed_out_graph.
Proof. vm_compute. reflexivity. Qed.

(* --- the model against the independent specification --- *)
Definition spec_score (k : contract) (t : Z) : option Z :=
  match final_bid k, cdeclarer k with
  | None, _ => Some 0
  | Some (l, s), Some d => Some (dup_score (zlevel l) s (cstatus k) (declarer_vulnerable d (cvul k)) t)
  | Some _, None => None end.

Lemma score_domain_ok :
  forallb (fun k => forallb (fun t => oz_eqb (calc_score k t) (spec_score k t)) tricks14) score_domain = true.
Proof. vm_compute. reflexivity. Qed.
Lemma bid_score_domain_ok :
  forallb (fun '((l, s), (x, xx), vb) =>
    forallb (fun t => oz_eqb (calc_bid_score l s x xx vb t)
                             (Some (dup_score (zlevel l) s (status_of x xx) vb t))) tricks14)
    bid_score_domain = true.
Proof. vm_compute. reflexivity. Qed.

Lemma all_contracts l s x xx v d t : 0 <= t <= 13 ->
  calc_score (mkcontract (Some (l, s)) x xx v (Some d)) t
  = Some (dup_score (zlevel l) s (status_of x xx) (declarer_vulnerable d v) t).
Proof.
  intros Ht. pose proof score_domain_ok as H. rewrite forallb_forall in H.
  specialize (H _ (in_score_domain l s x xx v d)). rewrite forallb_forall in H.
  specialize (H _ (in_tricks14 t Ht)). apply oz_eqb_eq in H. exact H.
Qed.
Lemma all_bid_scores l s x xx vb t : 0 <= t <= 13 ->
  calc_bid_score l s x xx vb t = Some (dup_score (zlevel l) s (status_of x xx) vb t).
Proof.
  intros Ht. pose proof bid_score_domain_ok as H. rewrite forallb_forall in H.
  specialize (H _ (in_bid_score_domain l s x xx vb)). cbn beta iota in H. rewrite forallb_forall in H.
  specialize (H _ (in_tricks14 t Ht)). apply oz_eqb_eq in H. exact H.
Qed.
Lemma passed_out_zero x xx v d t : calc_score (mkcontract None x xx v d) t = Some 0.
Proof. reflexivity. Qed.

(* only the vulnerability of declarer's side matters *)
Lemma only_declarers_side l s x xx v v' d t : 0 <= t <= 13 ->
  side_is_vul (side_of d) v = side_is_vul (side_of d) v' ->
  calc_score (mkcontract (Some (l, s)) x xx v (Some d)) t
  = calc_score (mkcontract (Some (l, s)) x xx v' (Some d)) t.
Proof.
  intros Ht Hv. rewrite !all_contracts by assumption. do 2 f_equal.
  destruct d, v, v'; cbn in *; congruence.
Qed.
(* non-vacuity and a few table values everybody knows *)
Example score_3NT_making : calc_score (mkcontract (Some (L3, NT)) false false VNone (Some South)) 9 = Some 400.
Proof. reflexivity. Qed.
Example score_7NTxx_vul_down_13 : calc_score (mkcontract (Some (L7, NT)) true true VBoth (Some West)) 0 = Some (-7600).
Proof. reflexivity. Qed.
Example score_1Cx_vul_making_7 : calc_score (mkcontract (Some (L1, Tr Cl)) true false VNS (Some North)) 13 = Some 1340.
Proof. reflexivity. Qed.
