(* C13, last step: a complete log is a file that parses to exactly its records.
   Combines the session invariant (Proofs/Session.v) with the framing theorem of the JSON writer (Proofs/Json.v). *)
From BE Require Import Model.Session Model.Json Model.JsonFramingHand Proofs.Session Proofs.Json.
Local Open Scope list_scope.

Theorem aborted_log_parses : forall x l s,
  srun l (init_state x) = Some s -> main_ended s -> log_events (nconn x) s <> [] ->
  exists recs ts,
    log_events (nconn x) s = LOpen :: map LRec recs ++ [LClose] /\
    written_tokens json_framing tag_logs (map record_json recs) = Some ts /\
    parse_doc ts = Some (JObj [(tag_logs, JArr (map record_json recs))]).
Proof.
  intros x l s Hrun Hend Hne.
  destruct (log_complete_when_main_ends x l s Hrun Hend) as [Hnil | [recs Hrecs]]; [contradiction|].
  destruct (framing_parses tag_logs (map record_json recs) (proj1 tags_are_words)) as (ts & Hw & Hp).
  exists recs, ts. repeat split; assumption.
Qed.
Print Assumptions aborted_log_parses.
