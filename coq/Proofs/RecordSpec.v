(* C08, sequential part: the record the model of the table manager logs for a conforming board
   (Model/Conform.v model_record: Model/Auction.v, Model/Play.v, Model/Score.v) is, as a JSON value,
   the record the sequential reference prescribes (Spec/SessionSpec.v record_spec / play_board:
   Spec/Laws.v, Spec/PlayOracle.v, Spec/Duplicate.v). *)
From BE Require Import Model.Conform Spec.SessionSpec.
From BE Require Import Spec.Laws Spec.PlayLaws Spec.PlayOracle Spec.Duplicate.
From BE Require Proofs.Auction Proofs.Play Proofs.Finite Spec.Domains.
From Coq Require Import ZArith Lia.
Local Open Scope string_scope.
Local Open Scope nat_scope.
Local Open Scope list_scope.

Definition sboard_of (b : board) : sboard := mkSB (b_id b) (b_dealer b) (b_vul b) (b_deal b) (b_dda b).
Definition said_of (sc : cscript) : said := mkSaid (sc_calls sc) (sc_cards sc).
Definition team_names (ns ew : string) : seat -> string := fun p => match side_of p with NS => ns | EW => ew end.

(* ------------------------------------------------------------------ *)
(* Stage 1: the auction.  seq_calls only applies take_bid to accepted calls, so its states are
   reach-states; along it the reference merge_calls collects exactly the history. *)
(* ------------------------------------------------------------------ *)

Lemma reach_snoc : forall d v offers c, reach d v (offers ++ [c]) = fst (take_bid (reach d v offers) c).
Proof. intros. unfold reach. rewrite fold_left_app. reflexivity. Qed.

Lemma merge_calls_is_seq_calls : forall d v f offers h said1 said2 s',
  (forall q, said1 q = said2 q) ->
  map (fun x : seat * string * call => snd x) h = hist (reach d v offers) ->
  seq_calls f (reach d v offers) said1 = Some s' ->
  (exists offers', s' = reach d v offers') /\ active s' = None /\
  map (fun x : seat * string * call => snd x) (merge_calls f d h said2) = hist s'.
Proof.
  intros d v f. induction f as [|f IH]; intros offers h said1 said2 s' EQ Hh SC.
  - discriminate SC.
  - cbn [seq_calls merge_calls] in *.
    pose proof (Proofs.Auction.turn d v offers) as T.
    rewrite Hh.
    destruct (ended (hist (reach d v offers))) eqn:E; rewrite T in SC.
    + inversion SC; subst s'. split; [exists offers; reflexivity|]. split; [exact T | exact Hh].
    + assert (L : length h = length (hist (reach d v offers))) by (rewrite <- Hh, map_length; reflexivity).
      rewrite L. set (a := caller d (length (hist (reach d v offers)))) in *.
      rewrite <- (EQ a).
      destruct (said1 a) as [|[m c] rest] eqn:SA; [discriminate SC|].
      destruct (server_read_bid m (formal_name a)) as [m' [c'|]]; [|discriminate SC].
      destruct (call_beq c c' && match parse_bid m' (formal_name a) with Some c'' => call_beq c c'' | None => false end);
        [|discriminate SC].
      destruct (take_bid (reach d v offers) c) as [s1 o] eqn:TB.
      assert (ACC : o = Ongoing \/ o = Finished ->
                    seq_calls f s1 (pop said1 a) = Some s' ->
                    (exists offers', s' = reach d v offers') /\ active s' = None /\
                    map (fun x : seat * string * call => snd x)
                        (merge_calls f d (h ++ [(a, m, c)]) (fun q => if seat_beq q a then rest else said2 q)) = hist s').
      { intros Ho SC'.
        assert (S1 : s1 = reach d v (offers ++ [c])) by (rewrite reach_snoc, TB; reflexivity).
        rewrite S1 in SC'.
        apply (IH (offers ++ [c]) (h ++ [(a, m, c)]) (pop said1 a)); [| |exact SC'].
        - intros q. unfold pop. destruct (seat_beq q a) eqn:Q; [|apply EQ].
          assert (q = a) by (destruct q, a; try discriminate Q; reflexivity). subst q. rewrite SA. reflexivity.
        - rewrite map_app, Hh. cbn [map snd]. rewrite <- S1.
          pose proof (Proofs.Auction.accepted_appends (reach d v offers) c) as AP.
          rewrite TB in AP. cbn [fst snd] in AP. symmetry. apply AP. exact Ho. }
      destruct o; try discriminate SC; apply ACC; auto.
Qed.

Lemma cvul_contract_spec : forall d v h, cvul (contract_spec d v h) = v.
Proof. intros. unfold contract_spec. destruct (last_bid_of h) as [[i [l st]]|]; reflexivity. Qed.

Lemma auction_part : forall d v said1 said2 s,
  (forall q, said1 q = said2 q) ->
  seq_calls 400 (BE.Model.Auction.init d v) said1 = Some s ->
  contract_of s = Some (contract_spec d v (hist s)) /\
  map (fun x : seat * string * call => snd x) (merge_calls 400 d [] said2) = hist s.
Proof.
  intros d v said1 said2 s EQ SC.
  change (BE.Model.Auction.init d v) with (reach d v []) in SC.
  destruct (merge_calls_is_seq_calls d v 400 [] [] said1 said2 s EQ eq_refl SC) as ((offers' & S') & A & M).
  split; [|exact M]. subst s. apply Proofs.Auction.contract_at_end. exact A.
Qed.

(* ------------------------------------------------------------------ *)
(* Stage 2: the play.  The reference ref and the model play state agree along seq_cards. *)
(* ------------------------------------------------------------------ *)

Record sim (tr : strain) (decl : seat) (p : pstate) (r : ref) (n : nat) : Prop := mkSim {
  sm_trump : trump p = tr;
  sm_decl : declarer p = decl;
  sm_dummy : dummy p = partner decl;
  sm_leader : leader p = r_leader r;
  sm_active : pactive p = ref_turn r;
  sm_trick : trick p = r_trick r;
  sm_num : trick_num p = r_num r;
  sm_ns : taken_ns p = r_ns r;
  sm_ew : taken_ew p = r_ew r;
  sm_hist : tricks p = r_hist r;
  sm_len : length (r_trick r) < 4;
  sm_count : 4 * (r_ns r + r_ew r) + length (r_trick r) = n }.

Lemma snoc_not_nil : forall (A : Type) (l : list A) x, l ++ [x] <> [].
Proof. intros A l x H. destruct l; discriminate H. Qed.

Lemma ref_simulates_play_step : forall tr decl p r n c,
  sim tr decl p r n -> sim tr decl (play_card p c) (ref_play tr r c) (S n).
Proof.
  intros tr decl p r n c [H1 H2 H3 H4 H5 H6 H7 H8 H9 H10 H11 H12].
  destruct p as [ptr pdecl pdum pld pact ptrick pnum prt pused pns pew].
  destruct r as [rld rtrick rnum rns rew rhist].
  unfold tricks, ref_turn in *.
  cbn [trump declarer dummy leader pactive trick trick_num rtricks used taken_ns taken_ew
       r_leader r_trick r_num r_ns r_ew r_hist] in *.
  subst ptr pdecl pdum pld pact ptrick pnum pns pew.
  unfold play_card, ref_play.
  cbn [trump declarer dummy leader pactive trick trick_num rtricks used taken_ns taken_ew
       r_leader r_trick r_num r_ns r_ew r_hist].
  rewrite (Proofs.Play.winner_idx_is_spec_winner tr (rtrick ++ [c]) (snoc_not_nil _ _ _)).
  assert (LEN : length (rtrick ++ [c]) = S (length rtrick)) by (rewrite app_length; cbn [length]; lia).
  destruct (length (rtrick ++ [c]) =? 4) eqn:E.
  - apply Nat.eqb_eq in E.
    constructor; unfold tricks, ref_turn;
      cbn [trump declarer dummy leader pactive trick trick_num rtricks used taken_ns taken_ew
           r_leader r_trick r_num r_ns r_ew r_hist length rot rev]; try reflexivity.
    + rewrite H10. reflexivity.
    + lia.
    + destruct (side_of (rot rld (winner tr (rtrick ++ [c])))); lia.
  - apply Nat.eqb_neq in E.
    constructor; unfold tricks, ref_turn;
      cbn [trump declarer dummy leader pactive trick trick_num rtricks used taken_ns taken_ew
           r_leader r_trick r_num r_ns r_ew r_hist]; try reflexivity; try assumption.
    + rewrite LEN. reflexivity.
    + lia.
    + lia.
Qed.

Lemma play_by_ok : forall hs c a hs1, play_by hs c a = (hs1, POk) -> hbase hs1 = play_card (hbase hs) c.
Proof.
  intros hs c a hs1 H. unfold play_by in H.
  destruct (negb (seat_beq a (pactive (hbase hs)))); [discriminate H|].
  destruct (negb (BE.Model.Play.has_card (hands hs a) c)); [discriminate H|].
  inversion H. reflexivity.
Qed.

Lemma ref_simulates_play : forall tr decl f hs r n acc said1 said2 hs',
  (forall q, said1 q = said2 q) ->
  sim tr decl (hbase hs) r n ->
  seq_cards f hs said1 = Some hs' ->
  exists ps r', merge_cards f tr decl r acc said2 = (ps, r') /\ sim tr decl (hbase hs') r' (f + n).
Proof.
  intros tr decl f. induction f as [|f IH]; intros hs r n acc said1 said2 hs' EQ SM SC.
  - cbn [seq_cards merge_cards] in *. inversion SC; subst hs'. exists acc, r. split; [reflexivity | exact SM].
  - cbn [seq_cards merge_cards] in *.
    rewrite (sm_dummy _ _ _ _ _ SM), (sm_decl _ _ _ _ _ SM), (sm_active _ _ _ _ _ SM) in SC.
    set (a := ref_turn r) in *.
    set (who := if seat_beq a (partner decl) then decl else a) in *.
    rewrite <- (EQ who).
    destruct (said1 who) as [|[m c] rest] eqn:SW; [discriminate SC|].
    destruct (parse_card m a) as [c'|]; [|discriminate SC].
    destruct (card_beq c c'); [|discriminate SC].
    destruct (play_by hs c a) as [hs1 o] eqn:PB.
    destruct o; [|discriminate SC].
    pose proof (play_by_ok _ _ _ _ PB) as HB.
    replace (S f + n) with (f + S n) by lia.
    apply (IH hs1 (ref_play tr r c) (S n) (acc ++ [(a, who, m, c)]) (pop said1 who)); [| |exact SC].
    + intros q. unfold pop. destruct (seat_beq q who) eqn:Q; [|apply EQ].
      assert (q = who) by (destruct q, who; try discriminate Q; reflexivity). subst q. rewrite SW. reflexivity.
    + rewrite HB. apply ref_simulates_play_step. exact SM.
Qed.

Lemma play_part : forall k deal l st decl said1 said2 hs0 hs,
  final_bid k = Some (l, st) -> cdeclarer k = Some decl ->
  init_hands k deal = Some hs0 ->
  (forall q, said1 q = said2 q) ->
  seq_cards 52 hs0 said1 = Some hs ->
  exists ps r, merge_cards 52 st decl (ref_init decl) [] said2 = (ps, r) /\
    tricks (hbase hs) = r_hist r /\ declarer (hbase hs) = decl /\
    (forall sd, taken (hbase hs) sd = side_tricks r sd) /\ r_ns r + r_ew r = 13.
Proof.
  intros k deal l st decl said1 said2 hs0 hs FB CD IH EQ SC.
  unfold init_hands, init_play in IH. rewrite FB, CD in IH. cbn [option_map] in IH. inversion IH; subst hs0; clear IH.
  assert (S0 : sim st decl (hbase (mkH (mkP st decl (partner decl) (next decl) (next decl) [] 1 [] [] 0 0) deal)) (ref_init decl) 0).
  { constructor; cbn; try reflexivity; lia. }
  destruct (ref_simulates_play st decl 52 _ _ 0 [] said1 said2 hs EQ S0 SC) as (ps & r & M & S).
  exists ps, r. split; [exact M|].
  split; [exact (sm_hist _ _ _ _ _ S)|]. split; [exact (sm_decl _ _ _ _ _ S)|].
  split.
  - intros [|]; unfold taken, side_tricks; [exact (sm_ns _ _ _ _ _ S) | exact (sm_ew _ _ _ _ _ S)].
  - pose proof (sm_len _ _ _ _ _ S). pose proof (sm_count _ _ _ _ _ S). lia.
Qed.

(* ------------------------------------------------------------------ *)
(* Stage 3: the score.  Same statement and proof as Proofs/C07.v all_contracts (complete finite domain of
   Spec/Domains.v, membership lemmas of Proofs/Finite.v), re-derived here so that this file does not load
   Proofs/C07.vo: that library also depends on Gen/ScoreGraph.vo, which is regenerated on every harness run and
   then makes C07.vo unloadable ("inconsistent assumptions") until it is recompiled. *)
(* ------------------------------------------------------------------ *)

Definition spec_score (k : contract) (t : Z) : option Z :=
  match final_bid k, cdeclarer k with
  | None, _ => Some 0%Z
  | Some (l, s), Some d => Some (dup_score (Z.of_nat (level_val l)) s (cstatus k) (declarer_vulnerable d (cvul k)) t)
  | Some _, None => None end.
Definition oz_eqb (a b : option Z) : bool :=
  match a, b with Some x, Some y => Z.eqb x y | None, None => true | _, _ => false end.
Lemma oz_eqb_eq a b : oz_eqb a b = true -> a = b.
Proof. destruct a, b; cbn; intros H; try discriminate; auto. apply Z.eqb_eq in H. congruence. Qed.
Lemma score_domain_ok :
  forallb (fun k => forallb (fun t => oz_eqb (calc_score k t) (spec_score k t)) Spec.Domains.tricks14) Spec.Domains.score_domain = true.
Proof. vm_compute. reflexivity. Qed.
Lemma score_is_dup_score l s x xx v d t : (0 <= t <= 13)%Z ->
  calc_score (mkcontract (Some (l, s)) x xx v (Some d)) t
  = Some (dup_score (Z.of_nat (level_val l)) s (status_of x xx) (declarer_vulnerable d v) t).
Proof.
  intros Ht. pose proof score_domain_ok as H. rewrite forallb_forall in H.
  specialize (H _ (Proofs.Finite.in_score_domain l s x xx v d)). rewrite forallb_forall in H.
  specialize (H _ (Proofs.Finite.in_tricks14 t Ht)). apply oz_eqb_eq in H. exact H.
Qed.

(* ------------------------------------------------------------------ *)
(* Stage 4: the JSON values *)
(* ------------------------------------------------------------------ *)

Lemma bids_json : forall (cs : list (seat * string * call)) h,
  map (fun x : seat * string * call => snd x) cs = h ->
  JArr (map (fun x : seat * string * call => JStr (call_str (snd x))) cs) = jstrs (map call_str h).
Proof. intros cs h H. subst h. unfold jstrs. rewrite !map_map. reflexivity. Qed.

Lemma tricks_json : forall ts : list (seat * list card),
  map (fun '(ld, cs) => JObj [("leader", JStr (seat_str ld)); ("cards", jstrs (map card_str cs))]) ts =
  map (fun '(ld, cs) => JObj [("leader", JStr (seat_str ld)); ("cards", JArr (map (fun c => JStr (card_str c)) cs))]) ts.
Proof. intros ts. apply map_ext. intros [ld cs]. unfold jstrs. rewrite map_map. reflexivity. Qed.

Lemma record_passed_out : forall ns ew b h cs x xx kd,
  map (fun x : seat * string * call => snd x) cs = h ->
  record_json (mkLog (team_names ns ew) (b_id b) (b_dealer b) (b_deal b) h (mkcontract None x xx (b_vul b) kd)
                     None None "IMP" 0%Z 0%Z (b_dda b))
  = record_spec ns ew (sboard_of b) (mkOut cs (mkcontract None x xx (b_vul b) kd) [] None).
Proof.
  intros ns ew b h cs x xx kd M.
  unfold record_spec. cbn [oc_contract oc_calls oc_final final_bid cdeclarer].
  rewrite (bids_json cs h M).
  cbn [sboard_of sb_id sb_dealer sb_vul sb_deal sb_dda].
  unfold record_json, is_passed_out.
  cbn [l_players l_board_id l_dealer l_deal l_bids l_contract l_play l_taken l_scoring l_score_ns l_score_ew l_dda
       final_bid cdeclarer cvul app].
  unfold team_names; cbn [side_of].
  reflexivity.
Qed.

Lemma record_played : forall ns ew b h cs x xx l st decl ps rf ts sns sew,
  map (fun x : seat * string * call => snd x) cs = h ->
  ts = r_hist rf ->
  let k := mkcontract (Some (l, st)) x xx (b_vul b) (Some decl) in
  let t := Z.of_nat (side_tricks rf (side_of decl)) in
  scores_of k (dup_score (Z.of_nat (level_val l)) st (status_of x xx) (declarer_vulnerable decl (b_vul b)) t) = (sns, sew) ->
  record_json (mkLog (team_names ns ew) (b_id b) (b_dealer b) (b_deal b) h k (Some ts) (Some t) "IMP" sns sew (b_dda b))
  = record_spec ns ew (sboard_of b) (mkOut cs k ps (Some rf)).
Proof.
  intros ns ew b h cs x xx l st decl ps rf ts sns sew M TS k t SO. subst k t ts.
  unfold record_spec. cbn [oc_contract oc_calls oc_final final_bid cdeclarer].
  rewrite (bids_json cs h M). rewrite <- tricks_json.
  cbn [sboard_of sb_id sb_dealer sb_vul sb_deal sb_dda].
  unfold scores_of in SO. cbn [cdeclarer] in SO.
  destruct (side_of decl) eqn:SD; injection SO as <- <-;
    unfold record_json, is_passed_out;
    cbn [l_players l_board_id l_dealer l_deal l_bids l_contract l_play l_taken l_scoring l_score_ns l_score_ew l_dda
         final_bid cdeclarer cvul app];
    unfold cstatus, side_tricks, team_names; cbn [cx cxx side_of];
    reflexivity.
Qed.

(* play_board, unfolded once the contract is known *)
Lemma play_board_passed_out : forall sb sd x xx v kd,
  contract_spec (sb_dealer sb) (sb_vul sb)
    (map (fun x : seat * string * call => snd x) (merge_calls 400 (sb_dealer sb) [] (fun p => sd_calls (sd p))))
    = mkcontract None x xx v kd ->
  play_board sb sd = mkOut (merge_calls 400 (sb_dealer sb) [] (fun p => sd_calls (sd p))) (mkcontract None x xx v kd) [] None.
Proof.
  intros sb sd x xx v kd H. unfold play_board. cbv zeta. rewrite H. cbn [final_bid]. reflexivity.
Qed.

Lemma play_board_played : forall sb sd x xx v l st decl ps rf,
  contract_spec (sb_dealer sb) (sb_vul sb)
    (map (fun x : seat * string * call => snd x) (merge_calls 400 (sb_dealer sb) [] (fun p => sd_calls (sd p))))
    = mkcontract (Some (l, st)) x xx v (Some decl) ->
  merge_cards 52 st decl (ref_init decl) [] (fun p => sd_cards (sd p)) = (ps, rf) ->
  play_board sb sd = mkOut (merge_calls 400 (sb_dealer sb) [] (fun p => sd_calls (sd p)))
                           (mkcontract (Some (l, st)) x xx v (Some decl)) ps (Some rf).
Proof.
  intros sb sd x xx v l st decl ps rf H MC. unfold play_board. cbv zeta. rewrite H. cbn [final_bid cdeclarer].
  rewrite MC. reflexivity.
Qed.

(* ------------------------------------------------------------------ *)
(* The theorem *)
(* ------------------------------------------------------------------ *)

(* Order of unfolding for the kernel's conversion check at Qed: model_record and play_board before the fuelled
   fixpoints they contain (seq_calls 400, merge_calls 400, ...); otherwise the check unfolds the fixpoints on
   their literal fuel first and compares the unfoldings, which does not terminate in practice.  This only
   directs the conversion algorithm; it assumes nothing. *)
Local Strategy expand [model_record play_board].

Theorem model_record_is_record_spec : forall ns ew b sc r,
  model_record (team_names ns ew) b sc = Some r ->
  record_json r = record_spec ns ew (sboard_of b) (play_board (sboard_of b) (fun p => said_of (sc p))).
Proof.
  intros ns ew b sc r H. unfold model_record in H.
  destruct (seq_calls 400 (BE.Model.Auction.init (b_dealer b) (b_vul b)) (fun p => sc_calls (sc p))) as [s|] eqn:SC;
    [|discriminate H].
  set (sb := sboard_of b). set (sd := fun p => said_of (sc p)).
  destruct (auction_part (b_dealer b) (b_vul b) (fun p => sc_calls (sc p)) (fun p => sd_calls (sd p)) s
              (fun q => eq_refl) SC) as [CO M].
  rewrite CO in H. clear CO.
  assert (KS : contract_spec (sb_dealer sb) (sb_vul sb)
                 (map (fun x : seat * string * call => snd x) (merge_calls 400 (sb_dealer sb) [] (fun p => sd_calls (sd p))))
               = contract_spec (b_dealer b) (b_vul b) (hist s)).
  { change (sb_dealer sb) with (b_dealer b). change (sb_vul sb) with (b_vul b). rewrite M. reflexivity. }
  change (sb_dealer sb) with (b_dealer b) in KS at 2.
  pose proof (cvul_contract_spec (b_dealer b) (b_vul b) (hist s)) as HV.
  remember (contract_spec (b_dealer b) (b_vul b) (hist s)) as K eqn:HK. clear HK.
  destruct K as [fb x xx kv kd]. cbn [cvul] in HV. subst kv.
  unfold is_passed_out in H. cbn [final_bid] in H.
  destruct fb as [[l st]|].
  - (* played *)
    destruct (init_hands _ (b_deal b)) as [hs0|] eqn:IH; [|discriminate H].
    assert (KD : exists decl, kd = Some decl).
    { unfold init_hands, init_play in IH. cbn [final_bid cdeclarer] in IH. destruct kd as [decl|]; [eauto|discriminate IH]. }
    destruct KD as [decl ->].
    destruct (seq_cards 52 hs0 (fun p => sc_cards (sc p))) as [hs|] eqn:SQ; [|discriminate H].
    destruct (play_part (mkcontract (Some (l, st)) x xx (b_vul b) (Some decl)) (b_deal b) l st decl
                (fun p => sc_cards (sc p)) (fun p => sd_cards (sd p)) hs0 hs
                eq_refl eq_refl IH (fun q => eq_refl) SQ) as (ps & rf & MC & TR & DE & TK & TOT).
    rewrite (play_board_played sb sd x xx (b_vul b) l st decl ps rf KS MC).
    rewrite DE, TK in H.
    assert (RANGE : (0 <= Z.of_nat (side_tricks rf (side_of decl)) <= 13)%Z).
    { unfold side_tricks. destruct (side_of decl); lia. }
    rewrite (score_is_dup_score l st x xx (b_vul b) decl _ RANGE) in H.
    destruct (scores_of _ _) as [sns sew] eqn:SO.
    injection H as H. subst r.
    apply (record_played ns ew b (hist s) _ x xx l st decl ps rf (tricks (hbase hs)) sns sew M TR SO).
  - (* passed out *)
    injection H as H. subst r.
    rewrite (play_board_passed_out sb sd x xx (b_vul b) kd KS).
    apply (record_passed_out ns ew b (hist s) _ x xx kd M).
Qed.

Print Assumptions model_record_is_record_spec.
