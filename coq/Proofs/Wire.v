(* Text layer of the protocol: round trips of builders and parsers, alert removal, CR LF framing. *)
From BE Require Import Model.Wire.
From BE Require Import Proofs.Finite.
From Coq Require Import Lia.
Local Open Scope string_scope.
Local Open Scope nat_scope.

Definition no_quote (s : string) : Prop := sforall (fun a => negb (Ascii.eqb a """"%char)) s = true.
Definition same_cards (a b : list card) : Prop := forall c, In c a <-> In c b.
Definition no_cr (s : string) : Prop := sforall (fun a => negb (Ascii.eqb a CR)) s = true.
Definition all_ws (s : string) : Prop := sforall is_ws s = true.
(* an alert suffix: whitespace+ "Alert." in any letter case, whitespace* *)
Definition alert_suffix (sfx : string) : Prop :=
  exists w1 a w2, sfx = (w1 ++ a ++ w2)%string /\ w1 <> ""%string /\ all_ws w1 /\ lower a = "alert."%string /\ all_ws w2.
Definition names5 : list string := ["North"; "East"; "South"; "West"; "Dummy"]%string.

(* ================= generic string facts ================= *)
Lemma sapp_nil_r (s : string) : (s ++ "")%string = s.
Proof. induction s; simpl; congruence. Qed.
Lemma sapp_assoc (a b c : string) : ((a ++ b) ++ c)%string = (a ++ b ++ c)%string.
Proof. induction a; simpl; congruence. Qed.
Lemma slen_app (a b : string) : String.length (a ++ b)%string = String.length a + String.length b.
Proof. induction a; simpl; congruence. Qed.
Lemma sforall_app f (a b : string) : sforall f (a ++ b)%string = sforall f a && sforall f b.
Proof. induction a; simpl; [reflexivity|]. rewrite IHa. apply andb_assoc. Qed.
Lemma smap_app f (a b : string) : smap f (a ++ b)%string = (smap f a ++ smap f b)%string.
Proof. induction a; simpl; congruence. Qed.
Lemma lower_app (a b : string) : lower (a ++ b)%string = (lower a ++ lower b)%string.
Proof. apply smap_app. Qed.
Lemma slen_smap f (a : string) : String.length (smap f a) = String.length a.
Proof. induction a; simpl; congruence. Qed.
Lemma slen_lower (a : string) : String.length (lower a) = String.length a.
Proof. apply slen_smap. Qed.
Lemma lower_ascii_idem a : lower_ascii (lower_ascii a) = lower_ascii a.
Proof. destruct a as [[] [] [] [] [] [] [] []]; reflexivity. Qed.
Lemma is_ws_lower a : is_ws (lower_ascii a) = is_ws a.
Proof. destruct a as [[] [] [] [] [] [] [] []]; reflexivity. Qed.
Lemma lower_cons a s : lower (String a s) = String (lower_ascii a) (lower s).
Proof. reflexivity. Qed.
Lemma lower_idem s : lower (lower s) = lower s.
Proof. induction s; [reflexivity|]. rewrite !lower_cons, lower_ascii_idem, IHs. reflexivity. Qed.

Lemma strip_prefix_app p r : strip_prefix p (p ++ r)%string = Some r.
Proof. induction p; simpl; [destruct r; reflexivity|]. rewrite Ascii.eqb_refl. exact IHp. Qed.
Lemma substring_drop x y m : substring (String.length x) m (x ++ y)%string = substring 0 m y.
Proof. induction x; simpl; [reflexivity|]. exact IHx. Qed.
Lemma substring_all y : forall m, String.length y <= m -> substring 0 m y = y.
Proof. induction y; intros m H; destruct m; simpl in *; try reflexivity; try lia. rewrite IHy by lia. reflexivity. Qed.
Lemma substring_take x y : substring 0 (String.length x) (x ++ y)%string = x.
Proof. induction x; simpl; [destruct y; reflexivity|]. congruence. Qed.
Lemma substring_drop_all x y n m : n = String.length x -> String.length y <= m -> substring n m (x ++ y)%string = y.
Proof. intros -> H. rewrite substring_drop. apply substring_all, H. Qed.
Lemma substring_take' x y n : n = String.length x -> substring 0 n (x ++ y)%string = x.
Proof. intros ->. apply substring_take. Qed.

(* ================= framing ================= *)
Lemma recv_from_frame m : forall acc rest, no_cr m ->
  recv_from (m ++ String CR (String LF rest))%string acc = RMsg (acc ++ m)%string rest.
Proof.
  unfold no_cr. induction m as [|a m IH]; intros acc rest H; simpl in *.
  - rewrite sapp_nil_r. reflexivity.
  - apply andb_true_iff in H. destruct H as [Ha Hm]. apply negb_true_iff in Ha. rewrite Ha.
    rewrite IH by exact Hm. rewrite sapp_assoc. reflexivity.
Qed.
Lemma frame_app m rest : (frame m ++ rest)%string = (m ++ String CR (String LF rest))%string.
Proof. unfold frame. rewrite sapp_assoc. reflexivity. Qed.
Lemma recv_one : forall m rest, no_cr m -> receive_message (frame m ++ rest)%string = RMsg m rest.
Proof. intros m rest H. unfold receive_message. rewrite frame_app. rewrite recv_from_frame by exact H. reflexivity. Qed.

Lemma recv_all_step f s : s <> ""%string ->
  recv_all (S f) s = match receive_message s with
                     | RMsg m rest => let (ms, ok) := recv_all f rest in (m :: ms, ok)
                     | RError => ([], false) end.
Proof. destruct s; [congruence | reflexivity]. Qed.
Lemma frame_app_nonempty m rest : (frame m ++ rest)%string <> ""%string.
Proof. rewrite frame_app. destruct m; discriminate. Qed.

Lemma recv_all_app ms : Forall no_cr ms -> forall fuel tail, List.length ms <= fuel ->
  recv_all fuel (sconcat (map frame ms) ++ tail)%string =
  ((ms ++ fst (recv_all (fuel - List.length ms) tail))%list, snd (recv_all (fuel - List.length ms) tail)).
Proof.
  induction 1 as [|m ms Hm Hms IH]; intros fuel tail Hf; simpl in *.
  - rewrite Nat.sub_0_r. destruct (recv_all fuel tail); reflexivity.
  - destruct fuel as [|f]; [lia|]. rewrite sapp_assoc. rewrite recv_all_step by apply frame_app_nonempty.
    rewrite recv_one by exact Hm. rewrite IH by lia. simpl. reflexivity.
Qed.
Lemma recv_all_frames : forall ms, Forall no_cr ms -> forall fuel, List.length ms < fuel ->
  recv_all fuel (sconcat (map frame ms)) = (ms, true).
Proof.
  intros ms H fuel Hf. rewrite <- (sapp_nil_r (sconcat (map frame ms))). rewrite recv_all_app by (try exact H; lia).
  destruct (fuel - List.length ms) as [|k] eqn:E; [lia|]. simpl. rewrite app_nil_r. reflexivity.
Qed.
Lemma recv_all_chunked : forall ms chunks, Forall no_cr ms -> sconcat chunks = sconcat (map frame ms) ->
  recv_all (S (List.length ms)) (sconcat chunks) = (ms, true).
Proof. intros ms chunks H E. rewrite E. apply recv_all_frames; [exact H | lia]. Qed.

Lemma eof_between : receive_message ""%string = RError.
Proof. reflexivity. Qed.
Lemma recv_from_nocr m : forall acc, no_cr m -> recv_from m acc = RError.
Proof.
  unfold no_cr. induction m as [|a m IH]; intros acc H; simpl in *; [reflexivity|].
  apply andb_true_iff in H. destruct H as [Ha Hm]. apply negb_true_iff in Ha. rewrite Ha. apply IH, Hm.
Qed.
Lemma eof_inside : forall m, no_cr m -> receive_message m = RError.
Proof. intros m H. apply recv_from_nocr, H. Qed.
Lemma recv_from_nocr_cr m : forall acc, no_cr m -> recv_from (m ++ String CR "")%string acc = RError.
Proof.
  unfold no_cr. induction m as [|a m IH]; intros acc H; simpl in *; [reflexivity|].
  apply andb_true_iff in H. destruct H as [Ha Hm]. apply negb_true_iff in Ha. rewrite Ha. apply IH, Hm.
Qed.
Lemma eof_after_cr : forall m, no_cr m -> receive_message (m ++ String CR "")%string = RError.
Proof. intros m H. apply recv_from_nocr_cr, H. Qed.

(* a proper, non-empty prefix of a frame is never a message *)
Lemma recv_from_cut m : forall acc cut, no_cr m -> 0 < cut -> cut < String.length (frame m) ->
  substring 0 cut (frame m) <> ""%string /\ recv_from (substring 0 cut (frame m)) acc = RError.
Proof.
  unfold no_cr, frame. induction m as [|a m IH]; intros acc cut H H0 H1; simpl in *.
  - destruct cut as [|[|cut]]; try lia. simpl. split; [discriminate | reflexivity].
  - apply andb_true_iff in H. destruct H as [Ha Hm]. apply negb_true_iff in Ha.
    destruct cut as [|cut]; [lia|]. simpl. split; [discriminate|]. rewrite Ha.
    destruct cut as [|cut].
    + destruct (m ++ String CR (String LF ""))%string; reflexivity.
    + apply IH; [exact Hm | lia | lia].
Qed.
Lemma eof_anywhere : forall ms m cut, Forall no_cr ms -> no_cr m -> cut <= String.length (frame m) -> cut < String.length (frame m) ->
  exists fuel, fst (recv_all fuel (sconcat (map frame ms) ++ substring 0 cut (frame m))%string) = ms /\
               snd (recv_all fuel (sconcat (map frame ms) ++ substring 0 cut (frame m))%string) = (if cut =? 0 then true else false).
Proof.
  intros ms m cut Hms Hm _ Hc. exists (S (List.length ms)).
  rewrite recv_all_app by (try exact Hms; lia).
  replace (S (List.length ms) - List.length ms) with 1 by lia. cbn [fst snd].
  destruct cut as [|cut].
  - assert (substring 0 0 (frame m) = ""%string) as -> by (destruct (frame m); reflexivity).
    simpl. rewrite app_nil_r. split; reflexivity.
  - destruct (recv_from_cut m ""%string (S cut) Hm ltac:(lia) Hc) as [Hne He].
    rewrite recv_all_step by exact Hne. unfold receive_message. rewrite He. simpl. rewrite app_nil_r. split; reflexivity.
Qed.

(* ================= calls ================= *)
Ltac all_calls_seats c p :=
  destruct c as [[] [[]|]| | |]; destruct p; vm_compute; reflexivity.

Lemma parse_bid_lower m n : parse_bid m n = parse_bid (lower m) n.
Proof. unfold parse_bid. rewrite lower_idem. reflexivity. Qed.
Lemma call_roundtrip : forall c p, parse_bid (bid_message c (formal_name p)) (formal_name p) = Some c.
Proof. intros c p. all_calls_seats c p. Qed.
Lemma call_lower_roundtrip : forall c p, parse_bid (lower (bid_message c (formal_name p))) (formal_name p) = Some c.
Proof. intros c p. all_calls_seats c p. Qed.
Lemma call_any_case : forall c p m, lower m = lower (bid_message c (formal_name p)) -> parse_bid m (formal_name p) = Some c.
Proof. intros c p m H. rewrite parse_bid_lower, H. apply call_lower_roundtrip. Qed.

Lemma call_no_alert : forall c p, contains "alert" (lower (bid_message c (formal_name p))) = false.
Proof. intros c p. all_calls_seats c p. Qed.
Lemma call_without_alert_relayed_verbatim : forall c p m, lower m = lower (bid_message c (formal_name p)) ->
  server_read_bid m (formal_name p) = (m, Some c).
Proof.
  intros c p m H. unfold server_read_bid. rewrite H, call_no_alert. rewrite (call_any_case c p m H). reflexivity.
Qed.

(* every whitespace character is followed by a character that is neither whitespace nor a letter A *)
Fixpoint clean (m : string) : bool :=
  match m with
  | EmptyString => true
  | String a r => (if is_ws a then match r with
                                   | String b _ => negb (is_ws b) && negb (Ascii.eqb "a"%char (lower_ascii b))
                                   | EmptyString => false end
                   else true) && clean r end.
Lemma clean_lower m : clean (lower m) = clean m.
Proof.
  induction m as [|a r IH]; [reflexivity|]. rewrite lower_cons. cbn [clean]. rewrite IH, is_ws_lower.
  destruct r as [|b r']; [reflexivity|]. rewrite lower_cons, is_ws_lower, lower_ascii_idem. reflexivity.
Qed.
Lemma call_clean : forall c p, clean (lower (bid_message c (formal_name p))) = true.
Proof. intros c p. all_calls_seats c p. Qed.

Lemma drop_while_all f w r : sforall f w = true -> drop_while f (w ++ r)%string = drop_while f r.
Proof. induction w; simpl; intros H; [reflexivity|]. apply andb_true_iff in H. destruct H as [-> H]. apply IHw, H. Qed.
Lemma drop_while_all_nil f w : sforall f w = true -> drop_while f w = ""%string.
Proof. intros H. rewrite <- (sapp_nil_r w). rewrite drop_while_all by exact H. reflexivity. Qed.
Lemma remove_alert_nil f : remove_alert_fuel f "" = "".
Proof. destruct f; reflexivity. Qed.

Lemma contains_app_r pat x y : contains pat y = true -> contains pat (x ++ y)%string = true.
Proof.
  unfold contains. induction x as [|a x IH]; intros H; [exact H|].
  change ((String a x ++ y)%string) with (String a (x ++ y)%string). cbn [find_first].
  destruct (strip_prefix pat (String a (x ++ y))); [reflexivity|].
  specialize (IH H). destruct (find_first pat (x ++ y)%string) as [[u v]|]; [reflexivity | discriminate].
Qed.

Section Alert.
  Variables w1 a w2 : string.
  Hypothesis Hw1n : w1 <> ""%string.
  Hypothesis Hw1 : all_ws w1.
  Hypothesis Ha : lower a = "alert."%string.
  Hypothesis Hw2 : all_ws w2.

  Lemma a_len : String.length a = 6.
  Proof. rewrite <- slen_lower, Ha. reflexivity. Qed.
  Lemma a_dw r : drop_while is_ws (a ++ r)%string = (a ++ r)%string.
  Proof.
    destruct a as [|a0 a']; [discriminate|]. rewrite lower_cons in Ha. injection Ha as H0 _.
    simpl. rewrite <- is_ws_lower, H0. reflexivity.
  Qed.
  Lemma alert_sfx_removed f : remove_alert_fuel (S f) (w1 ++ a ++ w2)%string = ""%string.
  Proof.
    unfold all_ws in *. destruct w1 as [|x w1']; [congruence|]. simpl in Hw1. apply andb_true_iff in Hw1. destruct Hw1 as [Hx Hw1'].
    change ((String x w1' ++ a ++ w2)%string) with (String x (w1' ++ a ++ w2)%string). cbn [remove_alert_fuel]. rewrite Hx.
    rewrite drop_while_all by exact Hw1'. rewrite a_dw. rewrite lower_app, Ha, strip_prefix_app.
    rewrite substring_drop_all; [| rewrite a_len; reflexivity | rewrite slen_app; lia].
    rewrite drop_while_all_nil by exact Hw2. apply remove_alert_nil.
  Qed.
  Lemma alert_removed m : forall f, clean m = true -> String.length m < f ->
    remove_alert_fuel f (m ++ w1 ++ a ++ w2)%string = m.
  Proof.
    induction m as [|x r IH]; intros f Hc Hf.
    - destruct f as [|f]; [simpl in Hf; lia|]. apply alert_sfx_removed.
    - destruct f as [|f]; [simpl in Hf; lia|]. simpl in Hf.
      change ((String x r ++ w1 ++ a ++ w2)%string) with (String x (r ++ w1 ++ a ++ w2)%string). cbn [remove_alert_fuel].
      cbn [clean] in Hc. apply andb_true_iff in Hc. destruct Hc as [Hx Hr].
      destruct (is_ws x).
      + destruct r as [|b r']; [discriminate|]. apply andb_true_iff in Hx. destruct Hx as [Hb Hb'].
        apply negb_true_iff in Hb, Hb'.
        change ((String b r' ++ w1 ++ a ++ w2)%string) with (String b (r' ++ w1 ++ a ++ w2)%string) at 1.
        cbn [drop_while]. rewrite Hb. rewrite lower_cons. cbn [strip_prefix]. rewrite Hb'.
        rewrite IH by (try exact Hr; lia). reflexivity.
      + rewrite IH by (try exact Hr; lia). reflexivity.
  Qed.
  Lemma alert_contains m : contains "alert" (lower (m ++ w1 ++ a ++ w2)) = true.
  Proof.
    rewrite !lower_app, Ha. apply contains_app_r, contains_app_r. reflexivity.
  Qed.
End Alert.

Lemma call_with_alert : forall c p m sfx, lower m = lower (bid_message c (formal_name p)) -> alert_suffix sfx ->
  server_read_bid (m ++ sfx)%string (formal_name p) = (m, Some c).
Proof.
  intros c p m sfx H (w1 & a & w2 & -> & Hn & H1 & Ha & H2). unfold server_read_bid.
  rewrite alert_contains by assumption. unfold remove_alert_word.
  rewrite alert_removed; try assumption.
  - rewrite (call_any_case c p m H). reflexivity.
  - rewrite <- clean_lower, H. apply call_clean.
  - rewrite slen_app. lia.
Qed.

(* ================= cards ================= *)
Lemma card_lower_roundtrip : forall c p sf,
  parse_card (lower (play_message p c sf)) p = Some c.
Proof. intros [[] []] p sf; destruct p, sf; vm_compute; reflexivity. Qed.
Lemma parse_card_lower m p : parse_card m p = parse_card (lower m) p.
Proof. unfold parse_card. rewrite lower_idem. reflexivity. Qed.
Lemma card_roundtrip : forall c p sf m, lower m = lower (play_message p c sf) -> parse_card m p = Some c.
Proof. intros c p sf m H. rewrite parse_card_lower, H. apply card_lower_roundtrip. Qed.

(* ================= find_first / find_last ================= *)
Lemma find_first_char q ns rest : sforall (fun a => negb (Ascii.eqb a q)) ns = true ->
  find_first (String q "") (ns ++ String q rest)%string = Some (ns, rest).
Proof.
  induction ns as [|a ns IH]; intros H.
  - simpl. rewrite Ascii.eqb_refl. destruct rest; reflexivity.
  - simpl in H. apply andb_true_iff in H. destruct H as [Ha Hn]. apply negb_true_iff in Ha.
    change ((String a ns ++ String q rest)%string) with (String a (ns ++ String q rest)%string).
    cbn [find_first strip_prefix]. rewrite Ascii.eqb_sym, Ha. rewrite IH by exact Hn. reflexivity.
Qed.
Lemma find_last_app pat x : forall y u v, find_last pat y = Some (u, v) -> find_last pat (x ++ y)%string = Some ((x ++ u)%string, v).
Proof. induction x as [|a x IH]; intros y u v H; [exact H|]. simpl. rewrite (IH _ _ _ H). reflexivity. Qed.

Ltac slen := rewrite ?slen_app, ?slen_lower; simpl String.length; lia.
(* ================= team names ================= *)
Lemma teams_roundtrip : forall ns ew, no_quote ns -> no_quote ew -> parse_team_names (teams_line ns ew) = Some (ns, ew).
Proof.
  intros ns ew Hns _. unfold parse_team_names, teams_line. cbv zeta.
  rewrite lower_app. change (lower "Teams : N/S : """) with "teams : n/s : """. rewrite strip_prefix_app.
  rewrite substring_drop_all; [| reflexivity | slen].
  change (""" E/W : """ ++ ew ++ """")%string with (String """"%char (" E/W : """ ++ ew ++ """"))%string.
  rewrite find_first_char by exact Hns.
  rewrite lower_app. change (lower " E/W : """) with " e/w : """. rewrite strip_prefix_app.
  rewrite substring_drop_all; [| reflexivity | slen].
  rewrite (find_last_app """" ew """" "" "") by reflexivity. rewrite sapp_nil_r. reflexivity.
Qed.

(* ================= connection line ================= *)
Lemma conn_tail1 p : find_last """ as " (lower (""" as " ++ formal_name p ++ " using protocol version 18")) =
  Some ("", lower (formal_name p) ++ " using protocol version 18").
Proof. destruct p; vm_compute; reflexivity. Qed.
Lemma connect_roundtrip : forall team p, no_quote team -> parse_connection_info (connect_line team p 18) = Some (team, p, 18).
Proof.
  intros team p _. unfold parse_connection_info, connect_line. cbv zeta.
  change (string_of_nat 18) with "18".
  rewrite lower_app. change (lower "Connecting """) with "connecting """. rewrite strip_prefix_app.
  rewrite !substring_drop_all; [| reflexivity | slen].
  rewrite lower_app. rewrite (find_last_app _ _ _ _ _ (conn_tail1 p)). rewrite sapp_nil_r, slen_lower.
  rewrite substring_take.
  rewrite <- (sapp_assoc team).
  rewrite !substring_drop_all; [| slen | slen].
  destruct p; vm_compute; reflexivity.
Qed.


(* ================= ready messages ================= *)
Lemma split_nonnil a s : split_char a s <> [].
Proof. induction s as [|b r IH]; simpl; [discriminate|]. destruct (Ascii.eqb a b); [discriminate|]. destruct (split_char a r); discriminate. Qed.
Lemma slist_eqb_refl l : slist_eqb l l = true.
Proof. induction l; simpl; [reflexivity|]. rewrite String.eqb_refl. exact IHl. Qed.
Definition word_char (a : ascii) : bool := negb (is_ws a) || Ascii.eqb a " "%char.
Lemma word_char_ws a : word_char a = true -> Ascii.eqb " "%char a = false -> is_ws a = false.
Proof. unfold word_char. rewrite Ascii.eqb_sym. intros H E. rewrite E, orb_false_r in H. apply negb_true_iff, H. Qed.
Lemma words_split s : forall cur, sforall word_char s = true ->
  (forall w, In w (tl (split_char " "%char s)) -> w <> ""%string) ->
  words_aux s cur false = (cur ++ hd ""%string (split_char " "%char s))%string :: tl (split_char " "%char s).
Proof.
  induction s as [|a r IH]; intros cur HP Hw.
  - simpl. rewrite sapp_nil_r. reflexivity.
  - cbn [sforall] in HP. apply andb_true_iff in HP. destruct HP as [Ha Hr].
    cbn [split_char words_aux] in *. destruct (Ascii.eqb " "%char a) eqn:E.
    + apply Ascii.eqb_eq in E. subst a. change (is_ws " "%char) with true. cbn iota. cbn [hd tl] in *.
      rewrite sapp_nil_r. f_equal.
      destruct r as [|b r'].
      * exfalso. apply (Hw ""%string); [left; reflexivity | reflexivity].
      * cbn [sforall] in Hr. apply andb_true_iff in Hr. destruct Hr as [Hb Hr'].
        destruct (Ascii.eqb " "%char b) eqn:Eb.
        { exfalso. apply (Hw ""%string); [|reflexivity]. cbn [split_char]. rewrite Eb. left; reflexivity. }
        pose proof (word_char_ws b Hb Eb) as Hws.
        assert (words_aux (String b r') "" true = words_aux (String b r') "" false) as -> by (cbn [words_aux]; rewrite Hws; reflexivity).
        rewrite IH.
        { pose proof (split_nonnil " "%char (String b r')) as Hn.
          destruct (split_char " "%char (String b r')); [congruence | reflexivity]. }
        { cbn [sforall]. rewrite Hb, Hr'. reflexivity. }
        { intros w Hin. apply Hw. pose proof (split_nonnil " "%char (String b r')) as Hn.
          destruct (split_char " "%char (String b r')); [congruence | right; exact Hin]. }
    + rewrite (word_char_ws a Ha E). rewrite IH; [| exact Hr |].
      * pose proof (split_nonnil " "%char r) as Hn. destruct (split_char " "%char r) as [|x xs]; [congruence|].
        cbn [hd tl]. rewrite sapp_assoc. reflexivity.
      * intros w Hin. apply Hw. pose proof (split_nonnil " "%char r) as Hn.
        destruct (split_char " "%char r) as [|x xs]; [congruence | exact Hin].
Qed.
Lemma check_message_exact : forall e, sforall (fun a => negb (is_ws a) || Ascii.eqb a " "%char) e = true ->
  (forall w, In w (split_char " "%char e) -> w <> ""%string) -> check_message e e = true.
Proof.
  intros e HP Hw. unfold check_message, words. rewrite words_split.
  - pose proof (split_nonnil " "%char e) as Hn. destruct (split_char " "%char e); [congruence|]. apply slist_eqb_refl.
  - exact HP.
  - intros w Hin. apply Hw. pose proof (split_nonnil " "%char e) as Hn.
    destruct (split_char " "%char e); [congruence | right; exact Hin].
Qed.

(* ================= numbers ================= *)
Definition dstep (acc : nat) (a : ascii) : nat := 10 * acc + (nat_of_ascii a - 48).
Lemma nat_of_digits_fold s : nat_of_digits s = fold_left dstep (chars s) 0.
Proof. reflexivity. Qed.
Lemma digit_val k : k < 10 -> nat_of_ascii (ascii_of_nat (48 + k)) - 48 = k.
Proof. intros H. rewrite nat_ascii_embedding by lia. lia. Qed.
Lemma digit_is k : k < 10 -> is_digit (ascii_of_nat (48 + k)) = true.
Proof.
  intros H. unfold is_digit. cbv zeta. rewrite nat_ascii_embedding by lia.
  apply andb_true_iff. split; apply Nat.leb_le; lia.
Qed.
Lemma digits_val : forall fuel n acc, n < fuel ->
  fold_left dstep (chars (digits_fuel fuel n acc)) 0 = fold_left dstep (chars acc) n.
Proof.
  induction fuel as [|f IH]; intros n acc H; [lia|]. cbn [digits_fuel].
  assert (n mod 10 < 10) as Hm by (apply Nat.mod_upper_bound; lia).
  pose proof (Nat.div_mod n 10 ltac:(lia)) as Hd.
  destruct (n / 10 =? 0) eqn:E.
  - apply Nat.eqb_eq in E. cbn [chars fold_left]. unfold dstep at 2. rewrite digit_val by exact Hm. f_equal. lia.
  - apply Nat.eqb_neq in E. rewrite IH by lia. cbn [chars fold_left]. unfold dstep at 2. rewrite digit_val by exact Hm. f_equal. lia.
Qed.
Lemma digits_ok : forall fuel n acc, sforall is_digit acc = true -> sforall is_digit (digits_fuel fuel n acc) = true.
Proof.
  induction fuel as [|f IH]; intros n acc H; [exact H|]. cbn [digits_fuel].
  assert (n mod 10 < 10) as Hm by (apply Nat.mod_upper_bound; lia).
  assert (sforall is_digit (String (ascii_of_nat (48 + n mod 10)) acc) = true) as H'
    by (cbn [sforall]; rewrite digit_is by exact Hm; exact H).
  destruct (n / 10 =? 0); [exact H' | apply IH, H'].
Qed.
Lemma digits_nonempty : forall fuel n acc, acc <> ""%string -> digits_fuel fuel n acc <> ""%string.
Proof.
  induction fuel as [|f IH]; intros n acc H; [exact H|]. cbn [digits_fuel].
  destruct (n / 10 =? 0); [discriminate | apply IH; discriminate].
Qed.
Lemma string_of_nat_roundtrip : forall n, nat_of_digits (string_of_nat n) = n /\ sforall is_digit (string_of_nat n) = true /\ string_of_nat n <> ""%string.
Proof.
  intros n. unfold string_of_nat. split; [|split].
  - rewrite nat_of_digits_fold, digits_val by lia. reflexivity.
  - apply digits_ok. reflexivity.
  - cbn [digits_fuel]. destruct (n / 10 =? 0); [discriminate | apply digits_nonempty; discriminate].
Qed.

(* ================= board header ================= *)
Lemma take_while_stop f x c y : sforall f x = true -> f c = false -> take_while f (x ++ String c y)%string = x.
Proof.
  induction x as [|a x IH]; intros H Hc; simpl.
  - rewrite Hc. reflexivity.
  - simpl in H. apply andb_true_iff in H. destruct H as [-> H]. rewrite IH by assumption. reflexivity.
Qed.
Lemma match_nonempty {A} (s : string) (x y : A) : s <> ""%string -> match s with EmptyString => x | String _ _ => y end = y.
Proof. destruct s; [congruence | reflexivity]. Qed.
Lemma parse_board_digits ds d v : ds <> ""%string -> sforall is_digit ds = true ->
  parse_board ("Board number " ++ ds ++ ". Dealer " ++ formal_name d ++ ". " ++ convert_vul v ++ " vulnerable.") = Some (nat_of_digits ds, d, v).
Proof.
  intros Hn Hd. unfold parse_board. cbv zeta.
  rewrite lower_app. change (lower "Board number ") with "board number ". rewrite strip_prefix_app.
  rewrite !substring_drop_all by (first [reflexivity | slen]).
  change (". Dealer " ++ formal_name d ++ ". " ++ convert_vul v ++ " vulnerable.")%string
    with (String "."%char (" Dealer " ++ formal_name d ++ ". " ++ convert_vul v ++ " vulnerable."))%string.
  rewrite take_while_stop by (try exact Hd; reflexivity).
  rewrite match_nonempty by exact Hn.
  rewrite !substring_drop_all by (first [reflexivity | slen]).
  generalize (nat_of_digits ds). intros k. destruct d, v; vm_compute; reflexivity.
Qed.
Lemma header_roundtrip : forall n d v, parse_board (board_header n d v) = Some (n, d, v).
Proof.
  intros n d v. destruct (string_of_nat_roundtrip n) as (H1 & H2 & H3). unfold board_header.
  rewrite parse_board_digits by assumption. rewrite H1. reflexivity.
Qed.

(* ================= hands ================= *)
Definition nodot (s : string) : Prop := sforall (fun a => negb (Ascii.eqb "."%char a)) s = true.
Lemma eqb_dot_lower a : Ascii.eqb "."%char (lower_ascii a) = Ascii.eqb "."%char a.
Proof. destruct a as [[] [] [] [] [] [] [] []]; reflexivity. Qed.
Lemma nodot_lower s : nodot s -> nodot (lower s).
Proof.
  unfold nodot. induction s as [|a s IH]; [reflexivity|]. rewrite lower_cons. cbn [sforall]. rewrite eqb_dot_lower.
  intros H. apply andb_true_iff in H. destruct H as [-> H]. apply IH, H.
Qed.
Lemma find_last_none_chars p0 pat' s : sforall (fun a => negb (Ascii.eqb p0 a)) s = true ->
  find_last (String p0 pat') s = None.
Proof.
  induction s as [|a s IH]; intros H; [reflexivity|]. cbn [sforall] in H. apply andb_true_iff in H. destruct H as [Ha H].
  apply negb_true_iff in Ha. cbn [find_last strip_prefix]. rewrite IH by exact H. rewrite Ha. reflexivity.
Qed.
Lemma find_last_none_chars_end p0 pat' s : pat' <> ""%string -> sforall (fun a => negb (Ascii.eqb p0 a)) s = true ->
  find_last (String p0 pat') (s ++ String p0 "")%string = None.
Proof.
  intros Hp. induction s as [|a s IH]; intros H.
  - cbn. rewrite Ascii.eqb_refl. destruct pat'; [congruence | reflexivity].
  - cbn [sforall] in H. apply andb_true_iff in H. destruct H as [Ha H]. apply negb_true_iff in Ha.
    change ((String a s ++ String p0 "")%string) with (String a (s ++ String p0 "")%string).
    cbn [find_last strip_prefix]. rewrite IH by exact H. rewrite Ha. reflexivity.
Qed.
Lemma find_last_marker pre p0 pat' t : find_last (String p0 pat') (pat' ++ t)%string = None ->
  find_last (String p0 pat') (pre ++ String p0 pat' ++ t)%string = Some (pre, t).
Proof.
  intros H. rewrite (find_last_app _ pre _ ""%string t).
  - rewrite sapp_nil_r. reflexivity.
  - change ((String p0 pat' ++ t)%string) with (String p0 (pat' ++ t)%string). cbn [find_last strip_prefix].
    rewrite H, Ascii.eqb_refl, strip_prefix_app. reflexivity.
Qed.
Lemma substring_mid x y z k m : k = String.length y -> String.length z <= m ->
  substring (String.length x + k) m (x ++ y ++ z)%string = z.
Proof. intros -> H. rewrite <- sapp_assoc. apply substring_drop_all; [rewrite slen_app; reflexivity | exact H]. Qed.

Definition cards_of (rs rh rd rc : list rank) : list card :=
  (map (fun r => mkcard r Sp) rs ++ map (fun r => mkcard r He) rh ++ map (fun r => mkcard r Di) rd ++ map (fun r => mkcard r Cl) rc)%list.
Lemma parse_hand_parts sp he di cl : nodot sp -> nodot he -> nodot di -> nodot cl ->
  parse_hand ("S " ++ ((sp ++ ". H " ++ he) ++ ". D " ++ di) ++ ". C " ++ cl ++ ".") =
  match ranks_of_words (split_char " " sp), ranks_of_words (split_char " " he),
        ranks_of_words (split_char " " di), ranks_of_words (split_char " " cl) with
  | Some rs, Some rh, Some rd, Some rc => Some (cards_of rs rh rd rc)
  | _, _, _, _ => None end.
Proof.
  intros Hs Hh Hd Hc. unfold parse_hand. cbv zeta.
  rewrite lower_app. change (lower "S ") with "s ". rewrite strip_prefix_app.
  rewrite !substring_drop_all by (first [reflexivity | slen]).
  (* clubs marker *)
  rewrite (lower_app _ (". C " ++ cl ++ ".")), (lower_app ". C "), (lower_app cl).
  change (lower ". C ") with ". c ". change (lower ".") with ".".
  rewrite (find_last_marker _ "."%char " c " (lower cl ++ ".")).
  2:{ rewrite <- sapp_assoc. apply find_last_none_chars_end; [discriminate|]. apply (nodot_lower cl Hc). }
  rewrite slen_lower. rewrite substring_mid by (first [reflexivity | slen]). rewrite substring_take.
  (* diamonds marker *)
  rewrite (lower_app _ (". D " ++ di)), (lower_app ". D ").
  change (lower ". D ") with ". d ".
  rewrite (find_last_marker _ "."%char " d " (lower di)).
  2:{ apply find_last_none_chars. apply (nodot_lower di Hd). }
  rewrite slen_lower. rewrite substring_mid by (first [reflexivity | slen]). rewrite substring_take.
  (* hearts marker *)
  rewrite (lower_app _ (". H " ++ he)), (lower_app ". H ").
  change (lower ". H ") with ". h ".
  rewrite (find_last_marker _ "."%char " h " (lower he)).
  2:{ apply find_last_none_chars. apply (nodot_lower he Hh). }
  rewrite slen_lower. rewrite substring_mid by (first [reflexivity | slen]). rewrite substring_take.
  rewrite (find_last_app "." cl "." "" "") by reflexivity. rewrite sapp_nil_r.
  reflexivity.
Qed.

Definition rank_char (r : rank) : ascii := match rank_str r with String a _ => a | EmptyString => " "%char end.
Lemma rank_str_char r : rank_str r = String (rank_char r) "".
Proof. destruct r; reflexivity. Qed.
Lemma rank_char_sp r : Ascii.eqb " "%char (rank_char r) = false.
Proof. destruct r; reflexivity. Qed.
Lemma rank_char_dot r : Ascii.eqb "."%char (rank_char r) = false.
Proof. destruct r; reflexivity. Qed.
Lemma rw_cons r l : ranks_of_words (rank_str r :: l) = match ranks_of_words l with Some xs => Some (r :: xs) | None => None end.
Proof. destruct r; reflexivity. Qed.
Lemma rw_map l : ranks_of_words (map rank_str l) = Some l.
Proof. induction l as [|r l IH]; [reflexivity|]. cbn [map]. rewrite rw_cons, IH. reflexivity. Qed.
Lemma sjoin_cons2 sep x y l : sjoin sep (x :: y :: l) = (x ++ sep ++ sjoin sep (y :: l))%string.
Proof. reflexivity. Qed.
Lemma join_split l : forall r, split_char " "%char (sjoin " " (map rank_str (r :: l))) = map rank_str (r :: l).
Proof.
  induction l as [|r' l IH]; intros r.
  - cbn [map sjoin]. rewrite rank_str_char. cbn [split_char]. rewrite rank_char_sp. reflexivity.
  - cbn [map]. rewrite sjoin_cons2. rewrite (rank_str_char r).
    change ((String (rank_char r) "" ++ " " ++ sjoin " " (rank_str r' :: map rank_str l))%string)
      with (String (rank_char r) (String " "%char (sjoin " " (map rank_str (r' :: l))))).
    cbn [split_char]. rewrite rank_char_sp. change (Ascii.eqb " "%char " "%char) with true. cbn iota.
    rewrite IH. reflexivity.
Qed.
Lemma join_nodot l : forall r, nodot (sjoin " " (map rank_str (r :: l))).
Proof.
  unfold nodot. induction l as [|r' l IH]; intros r.
  - cbn [map sjoin]. rewrite rank_str_char. cbn [sforall]. rewrite rank_char_dot. reflexivity.
  - cbn [map]. rewrite sjoin_cons2. rewrite (rank_str_char r).
    change ((String (rank_char r) "" ++ " " ++ sjoin " " (rank_str r' :: map rank_str l))%string)
      with (String (rank_char r) (String " "%char (sjoin " " (map rank_str (r' :: l))))).
    cbn [sforall]. rewrite rank_char_dot, IH. reflexivity.
Qed.
Definition part_of (l : list rank) : string := match map rank_str l with [] => "-" | l' => sjoin " " l' end.
Lemma part_nodot l : nodot (part_of l).
Proof. destruct l as [|r l]; [reflexivity|]. apply (join_nodot l r). Qed.
Lemma part_parse l : ranks_of_words (split_char " "%char (part_of l)) = Some l.
Proof.
  destruct l as [|r l]; [reflexivity|]. change (part_of (r :: l)) with (sjoin " " (map rank_str (r :: l))).
  rewrite join_split. apply rw_map.
Qed.
Definition held (h : list card) (su : suit) : list rank :=
  filter (fun r => existsb (card_beq (mkcard r su)) h) ranks_desc.
Lemma suit_part_of h su : suit_part h su = part_of (held h su).
Proof. reflexivity. Qed.
Lemma in_held h su c : In c (map (fun r => mkcard r su) (held h su)) <-> (csuit c = su /\ In c h).
Proof.
  unfold held. rewrite in_map_iff. split.
  - intros (r & <- & Hr). apply filter_In in Hr. destruct Hr as [_ Hr]. apply existsb_exists in Hr.
    destruct Hr as (x & Hx & E). apply internal_card_dec_bl in E. subst x. split; [reflexivity | exact Hx].
  - intros [<- Hc]. destruct c as [r s]. exists r. split; [reflexivity|]. apply filter_In. split.
    + unfold ranks_desc. apply -> in_rev. apply in_all_ranks.
    + apply existsb_exists. exists (mkcard r s). split; [exact Hc | apply internal_card_dec_lb; reflexivity].
Qed.
Lemma hand_form sp he di cl :
  ("S " ++ sp ++ ". H " ++ he ++ ". D " ++ di ++ ". C " ++ cl ++ ".")%string =
  ("S " ++ ((sp ++ ". H " ++ he) ++ ". D " ++ di) ++ ". C " ++ cl ++ ".")%string.
Proof. rewrite !sapp_assoc. reflexivity. Qed.
Lemma parse_hand_to_str h :
  parse_hand (hand_to_str h) = Some (cards_of (held h Sp) (held h He) (held h Di) (held h Cl)).
Proof.
  unfold hand_to_str. rewrite hand_form. rewrite !suit_part_of.
  rewrite parse_hand_parts by apply part_nodot. rewrite !part_parse. reflexivity.
Qed.
Lemma hand_roundtrip : forall who h, In who names5 ->
  exists cs, parse_cards_line (cards_line who h) who = Some cs /\ same_cards cs h.
Proof.
  intros who h _. exists (cards_of (held h Sp) (held h He) (held h Di) (held h Cl)). split.
  - unfold parse_cards_line, cards_line.
    rewrite lower_app, (lower_app "'s cards : "). change (lower "'s cards : ") with "'s cards : ".
    rewrite <- sapp_assoc, strip_prefix_app.
    rewrite substring_mid by (first [reflexivity | slen]).
    apply parse_hand_to_str.
  - intros c. unfold cards_of. rewrite !in_app_iff, !in_held.
    destruct c as [r s]. cbn [csuit]. destruct s; intuition congruence.
Qed.


(* ================= non-vacuity ================= *)
Definition tab : string := String "009"%char "".
Example ex_alert_suffix : alert_suffix (" " ++ tab ++ " aLeRt.  ").
Proof.
  exists (" " ++ tab ++ " "), "aLeRt.", "  ". repeat split; try reflexivity. discriminate.
Qed.
Example ex_alert_read :
  server_read_bid ("nOrTh BIDS 1nt " ++ tab ++ " aLeRt.  ") "North" = ("nOrTh BIDS 1nt", Some (Bid L1 NT)).
Proof. vm_compute; reflexivity. Qed.
Example ex_alert_read_by_lemma :
  server_read_bid ("nOrTh BIDS 1nt" ++ " " ++ tab ++ " aLeRt.  ") (formal_name North) = ("nOrTh BIDS 1nt", Some (Bid L1 NT)).
Proof. apply call_with_alert; [reflexivity | apply ex_alert_suffix]. Qed.
Example ex_no_alert_read : server_read_bid "WEST passes" "West" = ("WEST passes", Some Pass).
Proof. vm_compute; reflexivity. Qed.
Example ex_card_both_notations :
  parse_card "south PLAYS qh" South = Some (mkcard RQ He) /\ parse_card "South plays HQ" South = Some (mkcard RQ He).
Proof. split; vm_compute; reflexivity. Qed.
Definition ex_hand : list card :=
  [mkcard RA Sp; mkcard R3 Sp; mkcard RK Sp; mkcard R6 He; mkcard RT Cl; mkcard R2 Cl; mkcard RA Cl].
Example ex_hand_line : cards_line "Dummy" ex_hand = "Dummy's cards : S A K 3. H 6. D -. C A T 2.".
Proof. vm_compute; reflexivity. Qed.
Example ex_hand_void :
  parse_cards_line (cards_line "Dummy" ex_hand) "Dummy" =
  Some [mkcard RA Sp; mkcard RK Sp; mkcard R3 Sp; mkcard R6 He; mkcard RA Cl; mkcard RT Cl; mkcard R2 Cl].
Proof. vm_compute; reflexivity. Qed.
Example ex_header : parse_board "Board number 12. Dealer West. Both vulnerable." = Some (12, West, VBoth).
Proof. vm_compute; reflexivity. Qed.
Example ex_teams : parse_team_names (teams_line "a b" " E/W : ") = Some ("a b", " E/W : ").
Proof. apply teams_roundtrip; reflexivity. Qed.
Example ex_check : check_message "North ready for cards" "North ready for cards" = true.
Proof.
  apply check_message_exact; [reflexivity|]. intros w H. cbn in H.
  repeat (destruct H as [<-|H]; [discriminate|]). destruct H.
Qed.
Example ex_frames : recv_all 4 (sconcat (map frame ["abc"; ""; "d e"])) = (["abc"; ""; "d e"], true).
Proof. vm_compute; reflexivity. Qed.
Example ex_frames_by_lemma : recv_all 4 (sconcat ["ab"; "c" ++ String CR ""; String LF (String CR ""); String LF "d e" ++ String CR (String LF "")]) =
  (["abc"; ""; "d e"], true).
Proof. apply (recv_all_chunked ["abc"; ""; "d e"]); [repeat constructor | reflexivity]. Qed.
Example ex_eof_mid : recv_all 4 (sconcat (map frame ["abc"; ""]) ++ "d e" ++ String CR "") = (["abc"; ""], false).
Proof. vm_compute; reflexivity. Qed.

Print Assumptions call_roundtrip.
Print Assumptions call_any_case.
Print Assumptions call_with_alert.
Print Assumptions call_without_alert_relayed_verbatim.
Print Assumptions card_roundtrip.
Print Assumptions hand_roundtrip.
Print Assumptions string_of_nat_roundtrip.
Print Assumptions header_roundtrip.
Print Assumptions teams_roundtrip.
Print Assumptions connect_roundtrip.
Print Assumptions check_message_exact.
Print Assumptions recv_one.
Print Assumptions recv_all_frames.
Print Assumptions recv_all_chunked.
Print Assumptions eof_between.
Print Assumptions eof_inside.
Print Assumptions eof_after_cr.
Print Assumptions eof_anywhere.
