(* C16: IMP conversion.  For every integer. *)
From BE Require Import Model.Score Spec.Duplicate.
From Coq Require Import Lia.
Local Open Scope Z_scope.

Fixpoint incr (l : list Z) : Prop :=
  match l with
  | a :: ((b :: _) as r) => a < b /\ incr r
  | _ => True end.

Lemma incr_tail a l : incr (a :: l) -> incr l.
Proof. destruct l; cbn; tauto. Qed.
Lemma incr_all_gt a t l : incr (t :: l) -> a < t -> filter (fun x => x <=? a) (t :: l) = [].
Proof.
  revert t. induction l as [|b l IH]; intros t Hi Ha; cbn [filter].
  - destruct (Z.leb_spec t a); [lia|reflexivity].
  - destruct (Z.leb_spec t a); [lia|]. apply IH; [apply (incr_tail _ _ Hi)|]. cbn in Hi. lia.
Qed.
Lemma count_le_cons a t l : count_le a (t :: l) = (if t <=? a then 1 else 0) + count_le a l.
Proof. unfold count_le. cbn [filter]. destruct (t <=? a); cbn [length]; lia. Qed.

Lemma scan_count l : forall fuel a, incr l -> (length l <= fuel)%nat -> imps_scan a l fuel = count_le a l.
Proof.
  induction l as [|t r IH]; intros fuel a Hi Hf.
  - destruct fuel; reflexivity.
  - destruct fuel as [|f]; [cbn in Hf; lia|]. cbn [imps_scan].
    destruct (Z.ltb_spec a t) as [Hlt|Hge].
    + unfold count_le. rewrite (incr_all_gt a t r Hi Hlt). reflexivity.
    + rewrite count_le_cons. destruct (Z.leb_spec t a); [|lia].
      rewrite IH; [reflexivity | apply (incr_tail _ _ Hi) | cbn in Hf; lia].
Qed.

(* the tie between the code's tuple and the official scale *)
Lemma imps_list_is_official : k_imps_list = official_imp_bounds.
Proof. reflexivity. Qed.
Lemma official_incr : incr official_imp_bounds.
Proof. cbn. repeat split; lia. Qed.
Lemma official_length : length official_imp_bounds = 24%nat.
Proof. reflexivity. Qed.

Lemma count_le_nonneg a l : 0 <= count_le a l.
Proof. unfold count_le. lia. Qed.
Lemma count_le_le_length a l : count_le a l <= Z.of_nat (length l).
Proof.
  induction l as [|t r IH]; [cbn; lia|]. rewrite count_le_cons. cbn [length].
  destruct (t <=? a); lia.
Qed.
Lemma count_le_mono a b l : a <= b -> count_le a l <= count_le b l.
Proof.
  intros Hab. induction l as [|t r IH]; [reflexivity|]. rewrite !count_le_cons.
  destruct (Z.leb_spec t a), (Z.leb_spec t b); lia.
Qed.
Lemma count_le_below a l : Forall (fun t => a < t) l -> count_le a l = 0.
Proof.
  induction 1 as [|t r Ht _ IH]; [reflexivity|]. rewrite count_le_cons, IH.
  destruct (Z.leb_spec t a); lia.
Qed.
Lemma count_le_above a l : Forall (fun t => t <= a) l -> count_le a l = Z.of_nat (length l).
Proof.
  induction 1 as [|t r Ht _ IH]; [reflexivity|]. rewrite count_le_cons, IH. cbn [length].
  destruct (Z.leb_spec t a); lia.
Qed.

Lemma imps_official d : point_difference_to_imps d = official_imps d.
Proof.
  unfold point_difference_to_imps, official_imps. rewrite imps_list_is_official.
  rewrite scan_count by (try apply official_incr; rewrite official_length; lia).
  destruct (Z.leb_spec 0 d) as [H|H].
  - destruct (Z.eq_dec d 0) as [->|Hn].
    + reflexivity.
    + rewrite Z.sgn_pos by lia. lia.
  - rewrite Z.sgn_neg by lia. lia.
Qed.

Lemma imps_range d : -24 <= point_difference_to_imps d <= 24.
Proof.
  rewrite imps_official. unfold official_imps.
  pose proof (count_le_nonneg (Z.abs d) official_imp_bounds) as H0.
  pose proof (count_le_le_length (Z.abs d) official_imp_bounds) as H1. rewrite official_length in H1.
  destruct (Z.sgn_spec d) as [[_ ->]|[[_ ->]|[_ ->]]]; lia.
Qed.
Lemma imps_odd d : point_difference_to_imps (- d) = - point_difference_to_imps d.
Proof. rewrite !imps_official. unfold official_imps. rewrite Z.sgn_opp, Z.abs_opp. lia. Qed.
Lemma imps_monotone d e : d <= e -> point_difference_to_imps d <= point_difference_to_imps e.
Proof.
  intros Hde. rewrite !imps_official. unfold official_imps.
  pose proof (count_le_nonneg (Z.abs d) official_imp_bounds) as Hd0.
  pose proof (count_le_nonneg (Z.abs e) official_imp_bounds) as He0.
  destruct (Z.sgn_spec d) as [[Hd ->]|[[Hd ->]|[Hd ->]]];
  destruct (Z.sgn_spec e) as [[He ->]|[[He ->]|[He ->]]]; try lia.
  - pose proof (count_le_mono (Z.abs d) (Z.abs e) official_imp_bounds). lia.
  - pose proof (count_le_mono (Z.abs e) (Z.abs d) official_imp_bounds). lia.
Qed.
Lemma imps_zero_below_20 d : -20 < d < 20 -> point_difference_to_imps d = 0.
Proof.
  intros H. rewrite imps_official. unfold official_imps. rewrite count_le_below; [lia|].
  unfold official_imp_bounds. repeat constructor; lia.
Qed.
Lemma imps_24_from_4000 d : 4000 <= d -> point_difference_to_imps d = 24.
Proof.
  intros H. rewrite imps_official. unfold official_imps. rewrite count_le_above.
  - rewrite official_length, Z.sgn_pos by lia. reflexivity.
  - unfold official_imp_bounds. repeat constructor; lia.
Qed.
Lemma imps_minus24_to_minus4000 d : d <= -4000 -> point_difference_to_imps d = -24.
Proof. intros H. replace d with (- (- d)) by lia. rewrite imps_odd, imps_24_from_4000; lia. Qed.
Lemma two_scores a b : score_to_imp a b = official_imps (a + b).
Proof. unfold score_to_imp. apply imps_official. Qed.
(* each step of the scale: exactly k IMPs between consecutive bounds *)
Lemma imps_at_bounds :
  map point_difference_to_imps official_imp_bounds = map Z.of_nat (seq 1 24) /\
  map (fun t => point_difference_to_imps (t - 1)) official_imp_bounds = map Z.of_nat (seq 0 24).
Proof. split; reflexivity. Qed.
Example imps_sample : point_difference_to_imps 430 = 10 /\ point_difference_to_imps (-425) = -9
  /\ point_difference_to_imps 123456789012345678901234567890 = 24.
Proof. repeat split; reflexivity. Qed.
