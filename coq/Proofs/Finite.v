(* Membership lemmas for the finite value types: every value is in its enumeration. *)
From BE Require Import Model.Basics Spec.Domains.
From Coq Require Import Lia.
Local Open Scope nat_scope.

Lemma in_all_suits s : In s all_suits. Proof. destruct s; cbn; tauto. Qed.
Lemma in_all_strains s : In s all_strains. Proof. destruct s as [[]|]; cbn; tauto. Qed.
Lemma in_all_ranks r : In r all_ranks. Proof. destruct r; cbn; tauto. Qed.
Lemma in_all_seats p : In p all_seats. Proof. destruct p; cbn; tauto. Qed.
Lemma in_all_sides p : In p all_sides. Proof. destruct p; cbn; tauto. Qed.
Lemma in_all_vuls v : In v all_vuls. Proof. destruct v; cbn; tauto. Qed.
Lemma in_all_levels l : In l all_levels. Proof. destruct l; cbn; tauto. Qed.
Lemma in_bools b : In b bools. Proof. destruct b; cbn; tauto. Qed.
Lemma in_flag_combos x xx : In (x, xx) flag_combos. Proof. destruct x, xx; cbn; tauto. Qed.

Lemma in_all_cards c : In c all_cards.
Proof.
  destruct c as [r s]. unfold all_cards. apply in_flat_map. exists s. split; [apply in_all_suits|].
  apply (in_map (fun r => mkcard r s)). apply in_all_ranks.
Qed.
Lemma in_all_level_strain l s : In (l, s) all_level_strain.
Proof.
  unfold all_level_strain. apply in_flat_map. exists l. split; [apply in_all_levels|].
  apply (in_map (fun s => (l, s))). apply in_all_strains.
Qed.
Lemma in_all_calls c : In c all_calls.
Proof.
  unfold all_calls, all_bids. apply in_or_app. destruct c as [l s| | |].
  - left. apply in_flat_map. exists l. split; [apply in_all_levels|]. apply (in_map (fun s => Bid l s)). apply in_all_strains.
  - right; cbn; tauto.
  - right; cbn; tauto.
  - right; cbn; tauto.
Qed.
Lemma in_score_domain l s x xx v d : In (mkcontract (Some (l, s)) x xx v (Some d)) score_domain.
Proof.
  unfold score_domain. apply in_flat_map. exists (l, s). split; [apply in_all_level_strain|].
  apply in_flat_map. exists (x, xx). split; [apply in_flag_combos|].
  apply in_flat_map. exists v. split; [apply in_all_vuls|].
  cbn [fst snd]. apply (in_map (fun d => mkcontract (Some (l, s)) x xx v (Some d))). apply in_all_seats.
Qed.
Lemma in_bid_score_domain l s x xx vb : In ((l, s), (x, xx), vb) bid_score_domain.
Proof.
  unfold bid_score_domain. apply in_flat_map. exists (l, s). split; [apply in_all_level_strain|].
  apply in_flat_map. exists (x, xx). split; [apply in_flag_combos|].
  apply (in_map (fun vb => ((l, s), (x, xx), vb))). apply in_bools.
Qed.
Lemma in_passed_out_domain v d : In (mkcontract None false false v d) passed_out_domain.
Proof.
  unfold passed_out_domain. apply in_flat_map. exists false. split; [cbn; tauto|].
  apply in_flat_map. exists v. split; [apply in_all_vuls|].
  apply (in_map (fun d => mkcontract None false false v d)).
  destruct d as [d|]; [right; apply in_map; apply in_all_seats | left; reflexivity].
Qed.
Lemma in_tricks14 t : (0 <= t <= 13)%Z -> In t tricks14.
Proof.
  intros H. assert (t = 0 \/ t = 1 \/ t = 2 \/ t = 3 \/ t = 4 \/ t = 5 \/ t = 6 \/ t = 7 \/ t = 8 \/ t = 9
    \/ t = 10 \/ t = 11 \/ t = 12 \/ t = 13)%Z as K by lia.
  cbn. intuition.
Qed.
