(* Pins: what is regenerated from writer.py and from the schema files on this run equals what the proofs use. *)
From BE Require Import Model.Json Model.Schema.
From BE Require Gen.JsonFraming Gen.Schemas Model.JsonFramingHand Model.SchemasHand.
Lemma framing_pinned : Gen.JsonFraming.json_framing = Model.JsonFramingHand.json_framing.
Proof. reflexivity. Qed.
Lemma tags_pinned : Gen.JsonFraming.tag_logs = Model.JsonFramingHand.tag_logs /\ Gen.JsonFraming.tag_settings = Model.JsonFramingHand.tag_settings.
Proof. split; reflexivity. Qed.
Lemma log_schema_pinned : Gen.Schemas.log_schema = Model.SchemasHand.log_schema.
Proof. reflexivity. Qed.
Lemma setting_schema_pinned : Gen.Schemas.setting_schema = Model.SchemasHand.setting_schema.
Proof. reflexivity. Qed.
Print Assumptions framing_pinned.
Print Assumptions log_schema_pinned.
