(* Confluence of the generic process-network semantics of Model/Kahn.v (DESIGN.md 2.7):
   steps of different threads commute (diamond), hence every maximal schedule reaches the same
   final state after the same number of steps.  Standard library only; closed under the global context. *)
From BE Require Import Model.Kahn.
From Coq Require Import Lia.

(* ---------- list update ---------- *)
Lemma nth_upd_same {A} (l : list A) i x y : nth_error l i = Some y -> nth_error (upd l i x) i = Some x.
Proof. revert i; induction l; destruct i; cbn; intros; try discriminate; auto. Qed.
Lemma nth_upd_other {A} (l : list A) i j x : i <> j -> nth_error (upd l i x) j = nth_error l j.
Proof. revert i j; induction l; destruct i, j; cbn; intros; auto; try congruence. Qed.
Lemma upd_comm {A} (l : list A) i j x y : i <> j -> upd (upd l i x) j y = upd (upd l j y) i x.
Proof. revert i j; induction l; destruct i, j; cbn; intros; auto; try congruence. f_equal. apply IHl. congruence. Qed.
Lemma upd_upd {A} (l : list A) i x y : upd (upd l i x) i y = upd l i y.
Proof. revert i; induction l; destruct i; cbn; intros; auto. f_equal; auto. Qed.
Lemma upd_length {A} (l : list A) i x : length (upd l i x) = length l.
Proof. revert i; induction l; destruct i; cbn; intros; auto. Qed.

Section K.
  Variable msg : Type.
  Variable parties : nat.
  Variables reader writer cwriter : nat -> nat.

  Local Notation step := (step msg parties).
  Local Notation run := (run msg parties).
  Local Notation final := (final msg parties).
  Local Notation wf := (wf msg reader writer cwriter).
  Local Notation wf_state := (wf_state msg reader writer cwriter).
  Local Notation released := (released parties).
  Local Notation mk := (mk msg).
  Local Notation procs := (procs msg).
  Local Notation chans := (chans msg).
  Local Notation cells := (cells msg).
  Local Notation barr := (barr msg).

  Lemma mk_eq a b c d a' b' c' d' : a = a' -> b = b' -> c = c' -> d = d' -> mk a b c d = mk a' b' c' d'.
  Proof. intros; subst; reflexivity. Qed.

  (* destruct the scrutinee of the match that decides whether a step is enabled *)
  Ltac dm H :=
    match type of H with
    | match ?x with _ => _ end = Some _ => let E := fresh "E" in destruct x eqn:E; try discriminate H
    end.

  (* ---------- ownership is preserved ---------- *)
  Lemma wf_step : forall t s s', wf_state s -> step t s = Some s' -> wf_state s'.
  Proof.
    intros t s s' [W L] H. unfold Kahn.step in H.
    destruct (nth_error (procs s) t) as [p|] eqn:E; [|discriminate].
    pose proof (W _ _ E) as Wp.
    assert (K: forall p', wf t p' -> procs s' = upd (procs s) t p' ->
                          forall u q, nth_error (procs s') u = Some q -> wf u q).
    { intros p' Wp' Hp' u q Hq. rewrite Hp' in Hq. destruct (Nat.eq_dec t u) as [->|N].
      - rewrite (nth_upd_same _ _ _ _ E) in Hq. inversion Hq; subst; auto.
      - rewrite nth_upd_other in Hq by auto. eauto. }
    destruct p; try discriminate; inversion Wp; subst; repeat dm H; inversion H; subst; clear H;
      (split; [ eapply K; [|reflexivity]; eauto; constructor; auto
              | cbn; rewrite ?upd_length; auto ]).
  Qed.

  Lemma wf_run : forall l s s', wf_state s -> run l s = Some s' -> wf_state s'.
  Proof.
    induction l as [|t l IH]; intros s s' W H; cbn in H.
    - inversion H; subst; auto.
    - destruct (step t s) as [s1|] eqn:E; [|discriminate]. eapply IH; [|exact H]. eapply wf_step; eauto.
  Qed.

  (* ---------- the barrier release test is monotone ---------- *)
  Lemma released_mono n b t a : nth_error b t = Some a -> released n b = true -> released n (upd b t (S a)) = true.
  Proof.
    unfold Kahn.released. intros E H. apply Nat.leb_le in H. apply Nat.leb_le.
    eapply Nat.le_trans; [exact H|]. clear H. revert t E. induction b as [|h b IH]; destruct t; cbn; intros; try discriminate.
    - inversion E; subst. destruct (n <=? a) eqn:L.
      + apply Nat.leb_le in L. assert (n <=? S a = true) as -> by (apply Nat.leb_le; lia). cbn; lia.
      + destruct (n <=? S a); cbn; lia.
    - destruct (n <=? h); cbn; [apply le_n_S|]; eauto.
  Qed.

  (* ---------- diamond ---------- *)
  Ltac same_lookup :=
    repeat match goal with
    | H1 : ?x = Some _, H2 : ?x = Some _ |- _ => rewrite H1 in H2; inversion H2; subst; clear H2
    | H1 : ?x = Some _, H2 : ?x = None |- _ => rewrite H1 in H2; discriminate H2
    end.

  Ltac lookup :=
    repeat match goal with
    | |- context[nth_error (upd ?l ?i ?x) ?j] =>
        first [ rewrite (nth_upd_other l i j x) by congruence
              | constr_eq i j; erewrite (nth_upd_same l i x) by eassumption
              | destruct (Nat.eq_dec i j);
                [ subst; try congruence; same_lookup; erewrite nth_upd_same by eassumption
                | rewrite (nth_upd_other l i j x) by assumption ] ]
    | H : ?x = _ |- context[match ?x with _ => _ end] => rewrite H
    | H : released ?n ?b = true, E : nth_error ?b ?t = Some ?a |- context[Kahn.released parties ?n (upd ?b ?t (S ?a))] =>
        rewrite (released_mono n b t a E H)
    end.

  Lemma diamond : forall s t1 t2 s1 s2, wf_state s -> t1 <> t2 ->
    step t1 s = Some s1 -> step t2 s = Some s2 ->
    exists s', step t2 s1 = Some s' /\ step t1 s2 = Some s'.
  Proof.
    intros [ps ch ce ba] t1 t2 s1 s2 [W _] N H1 H2.
    assert (N' : t2 <> t1) by congruence.
    unfold Kahn.step in *. cbn [Kahn.procs Kahn.chans Kahn.cells Kahn.barr] in *.
    destruct (nth_error ps t1) as [p1|] eqn:P1; [|discriminate].
    destruct (nth_error ps t2) as [p2|] eqn:P2; [|discriminate].
    pose proof (W _ _ P1) as W1. pose proof (W _ _ P2) as W2.
    destruct p1; try discriminate H1; destruct p2; try discriminate H2;
      repeat dm H1; repeat dm H2;
      injection H1 as <-; injection H2 as <-;
      cbn [Kahn.procs Kahn.chans Kahn.cells Kahn.barr];
      rewrite (nth_upd_other ps t1 t2) by assumption;
      rewrite (nth_upd_other ps t2 t1) by assumption;
      rewrite P1, P2; inversion W1; inversion W2; subst; clear W1 W2;
      same_lookup; lookup; cbn [app];
      try (eexists; split; [reflexivity|]; apply f_equal; apply mk_eq;
           rewrite ?upd_upd; auto using upd_comm).
  Qed.

  (* the step function is a function: determinism per thread is by construction *)
  Lemma step_deterministic : forall t s a b, step t s = Some a -> step t s = Some b -> a = b.
  Proof. intros t s a b Ha Hb. rewrite Ha in Hb. injection Hb as ->. reflexivity. Qed.

  Lemma run_app : forall l1 l2 s, run (l1 ++ l2) s = match run l1 s with Some s' => run l2 s' | None => None end.
  Proof.
    induction l1 as [|t l1 IH]; intros l2 s; cbn; [reflexivity|].
    destruct (step t s) as [s1|]; [apply IH|reflexivity].
  Qed.

  (* ---------- confluence ---------- *)
  Lemma one_step : forall l s f t s1, wf_state s -> run l s = Some f -> final f -> step t s = Some s1 ->
    exists l1, run l1 s1 = Some f /\ S (length l1) = length l.
  Proof.
    induction l as [|t2 l2 IH]; intros s f t s1 W Hrun Hfin Hst; cbn in Hrun.
    - inversion Hrun; subst. rewrite (Hfin t) in Hst. discriminate.
    - destruct (step t2 s) as [s2|] eqn:E2; [|discriminate].
      destruct (Nat.eq_dec t t2) as [->|Hne].
      + rewrite E2 in Hst. injection Hst as <-. exists l2. split; [exact Hrun|reflexivity].
      + destruct (diamond s t t2 s1 s2 W Hne Hst E2) as (s' & H1 & H2).
        destruct (IH s2 f t s' (wf_step _ _ _ W E2) Hrun Hfin H2) as (l1 & Hr1 & Hlen).
        exists (t2 :: l1). cbn. rewrite H1. split; [exact Hr1 | lia].
  Qed.

  Theorem any_run_extends : forall l' l s f s', wf_state s ->
    run l s = Some f -> final f -> run l' s = Some s' ->
    exists l'', run l'' s' = Some f /\ length l' + length l'' = length l.
  Proof.
    induction l' as [|t l' IH]; intros l s f s' W Hrun Hfin Hr'; cbn in Hr'.
    - inversion Hr'; subst. exists l. auto.
    - destruct (step t s) as [s1|] eqn:E; [|discriminate].
      destruct (one_step l s f t s1 W Hrun Hfin E) as (l1 & Hr1 & Hlen).
      destruct (IH l1 s1 f s' (wf_step _ _ _ W E) Hr1 Hfin Hr') as (l'' & Hr'' & Hl).
      exists l''. split; [exact Hr''|cbn; lia].
  Qed.

  Corollary maximal_runs_agree : forall l l' s f s', wf_state s ->
    run l s = Some f -> final f -> run l' s = Some s' -> final s' -> s' = f /\ length l' = length l.
  Proof.
    intros l l' s f s' W H H0 H1 H2.
    destruct (any_run_extends l' l s f s' W H H0 H1) as (l'' & Hr & Hl).
    destruct l'' as [|t l'']; cbn in Hr.
    - inversion Hr; split; auto. cbn in Hl; lia.
    - rewrite (H2 t) in Hr. discriminate.
  Qed.

  Corollary no_run_is_longer : forall l l' s f s', wf_state s ->
    run l s = Some f -> final f -> run l' s = Some s' -> length l' <= length l.
  Proof.
    intros l l' s f s' W H H0 H1.
    destruct (any_run_extends l' l s f s' W H H0 H1) as (l'' & _ & Hl). lia.
  Qed.

  (* ---------- the executable final test is sound ---------- *)
  Lemma finalb_final : forall s, length (barr s) = length (procs s) -> finalb msg parties s = true -> final s.
  Proof.
    intros s _ H t. unfold finalb in H. rewrite forallb_forall in H.
    destruct (Nat.lt_ge_cases t (length (procs s))) as [L|G].
    - specialize (H t). rewrite in_seq in H. specialize (H ltac:(lia)).
      unfold enabled in H. destruct (step t s); [discriminate|reflexivity].
    - apply nth_error_None in G. unfold Kahn.step. rewrite G. reflexivity.
  Qed.

End K.

(* ---------- executable non-vacuity example ----------
   thread 0 (producer): put 5 on channel 0, write 7 to cell 0, meet at the barrier;
   thread 1 (consumer): get m from channel 0, meet at the barrier, read v from cell 0, put m+v on channel 1;
   thread 2: meet at the barrier, read cell 0.  parties = 3. *)
Module Example.
  Definition reader (c : nat) : nat := match c with 0 => 1 | _ => 3 end.
  Definition writer (c : nat) : nat := match c with 0 => 0 | _ => 1 end.
  Definition cwriter (x : nat) : nat := 0.

  Definition p0 : proc nat := Put 0 5 (WriteCell 0 7 (Bar Ret)).
  Definition p1 : proc nat := Get 0 (fun m => Bar (ReadCell 0 (fun v => Put 1 (m + v) Ret))).
  Definition p2 : proc nat := Bar (ReadCell 0 (fun _ => Ret)).
  Definition init : st nat := mk nat [p0; p1; p2] [[]; []] [None] [0; 0; 0].
  Definition fin : st nat := mk nat [Ret; Ret; Ret] [[]; [12]] [Some 7] [1; 1; 1].

  Definition schedA : list nat := [0;0;0;1;1;2;0;1;2;1;2;1].
  Definition schedB : list nat := [2;0;1;1;0;0;2;1;0;1;1;2].

  Example runA : run nat 3 schedA init = Some fin.
  Proof. vm_compute. reflexivity. Qed.
  Example runB : run nat 3 schedB init = Some fin.
  Proof. vm_compute. reflexivity. Qed.
  Example schedules_differ : schedA <> schedB.
  Proof. discriminate. Qed.
  Example same_length : length schedA = length schedB.
  Proof. reflexivity. Qed.
  Example fin_finalb : finalb nat 3 fin = true.
  Proof. vm_compute. reflexivity. Qed.
  Example fin_all_done : all_doneb nat fin = true.
  Proof. vm_compute. reflexivity. Qed.
  (* a schedule that tries to pass the barrier before everybody has arrived is stuck, not wrong *)
  Example early_barrier_blocks : run nat 3 [2;2] init = None.
  Proof. vm_compute. reflexivity. Qed.

  Example init_wf : wf_state nat reader writer cwriter init.
  Proof.
    split; [|reflexivity].
    intros t p H. destruct t as [|[|[|t]]]; cbn in H.
    - injection H as <-. repeat constructor.
    - injection H as <-. constructor; [reflexivity|]. intro m. repeat constructor.
    - injection H as <-. repeat constructor.
    - destruct t; discriminate H.
  Qed.

  (* the theorems apply: EVERY maximal schedule of this network ends in [fin] after 12 steps *)
  Example every_maximal_run : forall l s', run nat 3 l init = Some s' -> final nat 3 s' ->
    s' = fin /\ length l = 12.
  Proof.
    intros l s' Hr Hf.
    apply (maximal_runs_agree nat 3 reader writer cwriter schedA l init fin s' init_wf runA); auto.
    apply finalb_final; [reflexivity|exact fin_finalb].
  Qed.
  Example every_run_bounded : forall l s', run nat 3 l init = Some s' -> length l <= 12.
  Proof.
    intros l s' Hr.
    apply (no_run_is_longer nat 3 reader writer cwriter schedA l init fin s' init_wf runA); auto.
    apply finalb_final; [reflexivity|exact fin_finalb].
  Qed.
End Example.

Print Assumptions wf_step.
Print Assumptions wf_run.
Print Assumptions diamond.
Print Assumptions step_deterministic.
Print Assumptions any_run_extends.
Print Assumptions maximal_runs_agree.
Print Assumptions no_run_is_longer.
Print Assumptions finalb_final.
Print Assumptions run_app.
Print Assumptions Example.every_maximal_run.
