(* Proofs about Model/Hands.v: PBN deal strings, binary vectors, JSON card lists, the random dealer. *)
From BE Require Import Model.Hands.
From Coq Require Import Lia Permutation Sorted.

Definition same_hand (a b : hand) : Prop := forall c, In c a <-> In c b.
Definition same_deal (d e : deal) : Prop := forall p, same_hand (d p) (e p).
(* a PBN-writable deal: every hand is duplicate-free and has 13 or 0 cards *)
Definition pbn_deal (d : deal) : Prop := forall p, NoDup (d p) /\ (length (d p) = 13 \/ d p = []).
Definition disjoint (d : deal) : Prop := forall p q c, p <> q -> In c (d p) -> ~ In c (d q).

(* ================= generic helpers ================= *)

Lemma card_beq_true a b : card_beq a b = true <-> a = b.
Proof. split; [apply internal_card_dec_bl | apply internal_card_dec_lb]. Qed.

Lemma has_card_In h c : has_card h c = true <-> In c h.
Proof.
  unfold has_card. rewrite existsb_exists. split.
  - intros [x [Hx E]]. apply card_beq_true in E. subst. exact Hx.
  - intros H. exists c. split; [exact H | apply card_beq_true; reflexivity].
Qed.

Lemma has_card_false h c : ~ In c h -> has_card h c = false.
Proof. intros H. destruct (has_card h c) eqn:E; [|reflexivity]. apply has_card_In in E. contradiction. Qed.

Lemma in_all_suits' s : In s all_suits. Proof. destruct s; cbn; tauto. Qed.
Lemma in_all_ranks' r : In r all_ranks. Proof. destruct r; cbn; tauto. Qed.
Lemma in_all_cards' c : In c all_cards.
Proof.
  destruct c as [r s]. unfold all_cards. apply in_flat_map. exists s. split; [apply in_all_suits'|].
  apply (in_map (fun r => mkcard r s)). apply in_all_ranks'.
Qed.
Lemma in_pack_order c : In c pack_order.
Proof.
  destruct c as [r s]. unfold pack_order. apply in_flat_map. exists r. split; [apply in_all_ranks'|].
  apply (in_map (fun s => mkcard r s)). apply in_all_suits'.
Qed.

(* boolean duplicate check on nat lists *)
Fixpoint nodupb (l : list nat) : bool :=
  match l with [] => true | a :: t => negb (existsb (Nat.eqb a) t) && nodupb t end.
Lemma nodupb_sound l : nodupb l = true -> NoDup l.
Proof.
  induction l as [|a t IH]; cbn; intros H; [constructor|].
  apply andb_prop in H. destruct H as [H1 H2]. constructor; [|apply IH; exact H2].
  intros Hin. apply negb_true_iff in H1.
  assert (existsb (Nat.eqb a) t = true) as K.
  { apply existsb_exists. exists a. split; [exact Hin | apply Nat.eqb_refl]. }
  congruence.
Qed.

Lemma nodup_all_cards : NoDup all_cards.
Proof. apply (NoDup_map_inv card_idx). apply nodupb_sound. vm_compute. reflexivity. Qed.
Lemma nodup_pack_order : NoDup pack_order.
Proof. apply (NoDup_map_inv card_idx). apply nodupb_sound. vm_compute. reflexivity. Qed.

(* boolean strong-sortedness check *)
Fixpoint ssb {A} (r : A -> A -> bool) (l : list A) : bool :=
  match l with [] => true | a :: t => forallb (r a) t && ssb r t end.
Lemma ssb_sound {A} (r : A -> A -> bool) l : ssb r l = true -> StronglySorted (fun a b => r a b = true) l.
Proof.
  induction l as [|a t IH]; cbn; intros H; [constructor|].
  apply andb_prop in H. destruct H as [H1 H2]. constructor; [apply IH; exact H2|].
  apply Forall_forall. intros x Hx. rewrite forallb_forall in H1. apply H1. exact Hx.
Qed.
Lemma ss_filter {A} (R : A -> A -> Prop) (f : A -> bool) l : StronglySorted R l -> StronglySorted R (filter f l).
Proof.
  induction 1 as [|a l Hs IH Hf]; cbn; [constructor|].
  destruct (f a); [|exact IH]. constructor; [exact IH|].
  apply Forall_forall. intros x Hx. apply filter_In in Hx. rewrite Forall_forall in Hf. apply Hf. tauto.
Qed.
Lemma ss_nth {A} (R : A -> A -> Prop) l : StronglySorted R l ->
  forall i j a b, i < j -> nth_error l i = Some a -> nth_error l j = Some b -> R a b.
Proof.
  induction 1 as [|x l Hs IH Hf]; intros i j a b Hij Ha Hb.
  - destruct i; discriminate.
  - destruct j as [|j]; [lia|]. cbn in Hb. destruct i as [|i].
    + cbn in Ha. injection Ha as <-. rewrite Forall_forall in Hf. apply Hf. eapply nth_error_In. exact Hb.
    + cbn in Ha. apply (IH i j); [lia | exact Ha | exact Hb].
Qed.

Lemma nodup_app_disj {A} (a b : list A) : NoDup (a ++ b) -> forall x, In x a -> In x b -> False.
Proof.
  induction a as [|y a IH]; cbn; intros H x Ha Hb; [exact Ha|].
  inversion H as [|? ? Hn Hd]; subst. destruct Ha as [->|Ha].
  - apply Hn. apply in_or_app. right. exact Hb.
  - apply (IH Hd x Ha Hb).
Qed.
Lemma nodup_app_l {A} (a b : list A) : NoDup (a ++ b) -> NoDup a.
Proof.
  induction a as [|y a IH]; cbn; intros H; [constructor|].
  inversion H as [|? ? Hn Hd]; subst. constructor; [|apply IH; exact Hd].
  intros Hin. apply Hn. apply in_or_app. left. exact Hin.
Qed.
Lemma nodup_app_r {A} (a b : list A) : NoDup (a ++ b) -> NoDup b.
Proof. induction a as [|y a IH]; cbn; intros H; [exact H|]. inversion H; subst. apply IH. assumption. Qed.

(* ================= JSON ================= *)

Lemma card_str_rt c : card_of_str (card_str c) = Some c.
Proof. destruct c as [[] []]; reflexivity. Qed.

Lemma json_to_hand_map l : json_to_hand (map card_str l) = Some l.
Proof. induction l as [|c l IH]; cbn [map json_to_hand]; [reflexivity|]. rewrite card_str_rt, IH. reflexivity. Qed.

Lemma in_sorted_hand h c : In c (sorted_hand h) <-> In c h.
Proof.
  unfold sorted_hand. rewrite filter_In, has_card_In. split; [tauto|]. intros H. split; [apply in_all_cards'|exact H].
Qed.

Lemma json_roundtrip : forall h, exists h', json_to_hand (deal_to_json h) = Some h' /\ same_hand h h'.
Proof.
  intros h. exists (sorted_hand h). split; [apply json_to_hand_map|].
  intros c. symmetry. apply in_sorted_hand.
Qed.

Lemma all_cards_sorted : StronglySorted (fun a b => card_idx a < card_idx b) all_cards.
Proof.
  assert (StronglySorted (fun a b => (card_idx a <? card_idx b) = true) all_cards) as H.
  { apply ssb_sound. vm_compute. reflexivity. }
  induction H as [|a l Hs IH Hf]; constructor; [exact IH|].
  rewrite Forall_forall in *. intros x Hx. apply Nat.ltb_lt. apply Hf. exact Hx.
Qed.

Lemma json_sorted : forall h i j a b, i < j ->
  nth_error (sorted_hand h) i = Some a -> nth_error (sorted_hand h) j = Some b -> card_idx a < card_idx b.
Proof.
  intros h i j a b Hij Ha Hb.
  apply (ss_nth (fun a b => card_idx a < card_idx b) (sorted_hand h)) with (i := i) (j := j); try assumption.
  unfold sorted_hand. apply ss_filter. apply all_cards_sorted.
Qed.

Lemma json_lists_each_card_once : forall h, NoDup (sorted_hand h) /\ (forall c, In c (sorted_hand h) <-> In c h).
Proof.
  intros h. split; [unfold sorted_hand; apply NoDup_filter; apply nodup_all_cards | apply in_sorted_hand].
Qed.

(* ================= binary vectors ================= *)

Lemma to_binary_length : forall h, length (to_binary h) = 52.
Proof. intros h. unfold to_binary. rewrite map_length. reflexivity. Qed.

Lemma to_binary_spec : forall h c, nth (card_idx c) (to_binary h) 0 = if has_card h c then 1 else 0.
Proof. intros h c. destruct c as [[] []]; reflexivity. Qed.

Lemma bit_has_card h c : (nth (card_idx c) (to_binary h) 0 =? 1) = has_card h c.
Proof. rewrite to_binary_spec. destruct (has_card h c); reflexivity. Qed.

Lemma combine_idx : combine (seq 0 52) all_cards = map (fun c => (card_idx c, c)) all_cards.
Proof. vm_compute. reflexivity. Qed.

Lemma in_pick (P : nat * card -> bool) c :
  In c (map snd (filter P (combine (seq 0 52) all_cards))) <-> P (card_idx c, c) = true.
Proof.
  rewrite combine_idx, in_map_iff. split.
  - intros [[i x] [E H]]. cbn in E. subst x. apply filter_In in H. destruct H as [H1 H2].
    apply in_map_iff in H1. destruct H1 as [y [Ey _]]. injection Ey as Ei Ey. subst y. subst i. exact H2.
  - intros H. exists (card_idx c, c). split; [reflexivity|]. apply filter_In. split; [|exact H].
    apply in_map_iff. exists c. split; [reflexivity | apply in_all_cards'].
Qed.

Lemma binary_roundtrip : forall d, disjoint d ->
  same_deal d (convert_binary (to_binary (d North)) (to_binary (d East)) (to_binary (d South)) (to_binary (d West))).
Proof.
  intros d Hd p c. unfold convert_binary.
  destruct p; rewrite in_pick; cbn [fst forallb]; rewrite ?bit_has_card, ?andb_true_r.
  - apply iff_sym, has_card_In.
  - split.
    + intros H. rewrite (proj2 (has_card_In _ _) H).
      rewrite (has_card_false (d North) c); [reflexivity|]. apply (Hd East North); [discriminate|exact H].
    + intros H. apply andb_prop in H. apply has_card_In. tauto.
  - split.
    + intros H. rewrite (proj2 (has_card_In _ _) H).
      rewrite (has_card_false (d North) c); [|apply (Hd South North); [discriminate|exact H]].
      rewrite (has_card_false (d East) c); [|apply (Hd South East); [discriminate|exact H]]. reflexivity.
    + intros H. apply andb_prop in H. apply has_card_In. tauto.
  - split.
    + intros H. rewrite (proj2 (has_card_In _ _) H).
      rewrite (has_card_false (d North) c); [|apply (Hd West North); [discriminate|exact H]].
      rewrite (has_card_false (d East) c); [|apply (Hd West East); [discriminate|exact H]].
      rewrite (has_card_false (d South) c); [|apply (Hd West South); [discriminate|exact H]]. reflexivity.
    + intros H. apply andb_prop in H. apply has_card_In. tauto.
Qed.

(* ================= the random dealer ================= *)

Lemma pack_is_all_cards : Permutation pack_order all_cards.
Proof.
  apply NoDup_Permutation; [apply nodup_pack_order | apply nodup_all_cards|].
  intros x. split; intros _; [apply in_all_cards' | apply in_pack_order].
Qed.

Lemma skipn_skipn' {A} (l : list A) : forall n m, skipn n (skipn m l) = skipn (m + n) l.
Proof.
  induction l as [|x l IH]; intros n m.
  - rewrite !skipn_nil. reflexivity.
  - destruct m as [|m]; [reflexivity|]. cbn. apply IH.
Qed.

Lemma shuffle_split l : length l = 52 ->
  l = (deal_of_shuffle l North ++ deal_of_shuffle l East ++ deal_of_shuffle l South ++ deal_of_shuffle l West)%list.
Proof.
  intros Hl. cbn [deal_of_shuffle].
  assert (firstn 13 (skipn 39 l) = skipn 39 l) as E4.
  { apply firstn_all2. rewrite skipn_length. lia. }
  rewrite E4.
  replace (skipn 39 l) with (skipn 13 (skipn 26 l)) by (rewrite skipn_skipn'; reflexivity).
  rewrite firstn_skipn.
  replace (skipn 26 l) with (skipn 13 (skipn 13 l)) by (rewrite skipn_skipn'; reflexivity).
  rewrite firstn_skipn. rewrite firstn_skipn. reflexivity.
Qed.

Lemma dealer_deals_a_deal : forall l, Permutation pack_order l ->
  let d := deal_of_shuffle l in
  (forall p, length (d p) = 13 /\ NoDup (d p)) /\ disjoint d /\ (forall c, exists p, In c (d p)).
Proof.
  intros l HP d.
  assert (length l = 52) as Hl by (rewrite <- (Permutation_length HP); reflexivity).
  assert (NoDup l) as Hn by (apply (Permutation_NoDup HP); apply nodup_pack_order).
  assert (forall c, In c l) as Hall by (intros c; apply (Permutation_in c HP); apply in_pack_order).
  pose proof (shuffle_split l Hl) as Hs. fold d in Hs.
  assert (forall p, length (d p) = 13) as Hlen.
  { intros p. unfold d. destruct p; cbn [deal_of_shuffle]; rewrite firstn_length, ?skipn_length; lia. }
  rewrite Hs in Hn.
  pose proof (nodup_app_l _ _ Hn) as NN.
  pose proof (nodup_app_r _ _ Hn) as N1.
  pose proof (nodup_app_l _ _ N1) as NE.
  pose proof (nodup_app_r _ _ N1) as N2.
  pose proof (nodup_app_l _ _ N2) as NS'.
  pose proof (nodup_app_r _ _ N2) as NW.
  split; [|split].
  - intros p. split; [apply Hlen|]. destruct p; assumption.
  - intros p q c Hpq Hp Hq.
    pose proof (nodup_app_disj _ _ Hn c) as D1.
    pose proof (nodup_app_disj _ _ N1 c) as D2.
    pose proof (nodup_app_disj _ _ N2 c) as D3.
    rewrite !in_app_iff in D1. rewrite !in_app_iff in D2.
    destruct p, q; try (exfalso; apply Hpq; reflexivity); tauto.
  - intros c. specialize (Hall c). rewrite Hs in Hall. rewrite !in_app_iff in Hall.
    destruct Hall as [H|[H|[H|H]]]; [exists North|exists East|exists South|exists West]; exact H.
Qed.

(* ================= PBN ================= *)

Lemma empty_hand_is_dash : hand_to_pbn [] = Some "-"%string.
Proof. reflexivity. Qed.

Lemma to_pbn_shape : forall d first s, to_pbn d first = Some s ->
  exists a b c e, hand_to_pbn (d first) = Some a /\ hand_to_pbn (d (next first)) = Some b /\
    hand_to_pbn (d (next (next first))) = Some c /\ hand_to_pbn (d (next (next (next first)))) = Some e /\
    s = (seat_str first ++ ":" ++ a ++ " " ++ b ++ " " ++ c ++ " " ++ e)%string.
Proof.
  intros d first s H. unfold to_pbn in H.
  destruct (hand_to_pbn (d first)) as [a|]; [|discriminate].
  destruct (hand_to_pbn (d (next first))) as [b|]; [|discriminate].
  destruct (hand_to_pbn (d (next (next first)))) as [c|]; [|discriminate].
  destruct (hand_to_pbn (d (next (next (next first))))) as [e|]; [|discriminate].
  injection H as <-. exists a, b, c, e. repeat split; reflexivity.
Qed.

(* --- strings --- *)
Lemma sapp_nil_r (s : string) : (s ++ "")%string = s.
Proof. induction s as [|a s IH]; cbn; [reflexivity | rewrite IH; reflexivity]. Qed.
Lemma slen_app (a b : string) : String.length (a ++ b)%string = String.length a + String.length b.
Proof. induction a as [|x a IH]; cbn; [reflexivity | rewrite IH; reflexivity]. Qed.
Lemma str_forall_app f (a b : string) : str_forall f (a ++ b)%string = str_forall f a && str_forall f b.
Proof. induction a as [|x a IH]; cbn; [reflexivity | rewrite IH, andb_assoc; reflexivity]. Qed.

Definition rank_char (r : rank) : ascii :=
  match r with R2=>"2"|R3=>"3"|R4=>"4"|R5=>"5"|R6=>"6"|R7=>"7"|R8=>"8"|R9=>"9"|RT=>"T"|RJ=>"J"|RQ=>"Q"|RK=>"K"|RA=>"A" end%char.
Fixpoint str_of (l : list ascii) : string := match l with [] => EmptyString | a :: t => String a (str_of t) end.

Lemma rank_str_char r : rank_str r = String (rank_char r) EmptyString.
Proof. destruct r; reflexivity. Qed.
Lemma rank_of_char r : rank_of_ascii (rank_char r) = Some r.
Proof. destruct r; reflexivity. Qed.
Lemma rank_char_not_dot r : Ascii.eqb "."%char (rank_char r) = false.
Proof. destruct r; reflexivity. Qed.
Lemma rank_char_class r : in_hand_class (rank_char r) = true.
Proof. destruct r; reflexivity. Qed.

Lemma join_nil_cons x r : join "" (x :: r) = (x ++ join "" r)%string.
Proof. destruct r as [|y r]; [cbn [join]; rewrite sapp_nil_r; reflexivity | reflexivity]. Qed.

Lemma join_ranks rs : join "" (map rank_str rs) = str_of (map rank_char rs).
Proof.
  induction rs as [|r rs IH]; [reflexivity|].
  cbn [map]. rewrite join_nil_cons, IH, rank_str_char. reflexivity.
Qed.

Lemma ranks_of_str_of rs : ranks_of (str_of (map rank_char rs)) = Some rs.
Proof. induction rs as [|r rs IH]; cbn [map str_of ranks_of]; [reflexivity | rewrite rank_of_char, IH; reflexivity]. Qed.
Lemma slen_str_of l : String.length (str_of l) = length l.
Proof. induction l as [|a l IH]; cbn; [reflexivity | rewrite IH; reflexivity]. Qed.
Lemma class_str_of rs : str_forall in_hand_class (str_of (map rank_char rs)) = true.
Proof. induction rs as [|r rs IH]; cbn [map str_of str_forall]; [reflexivity | rewrite rank_char_class, IH; reflexivity]. Qed.

Lemma split_ranks_dot rs rest :
  split_on "."%char (str_of (map rank_char rs) ++ String "."%char rest)%string
  = str_of (map rank_char rs) :: split_on "."%char rest.
Proof.
  induction rs as [|r rs IH].
  - cbn [map str_of append split_on]. rewrite Ascii.eqb_refl. reflexivity.
  - cbn [map str_of append]. cbn [split_on]. rewrite rank_char_not_dot, IH. reflexivity.
Qed.
Lemma split_ranks_dot' rs rest :
  split_on "."%char (str_of (map rank_char rs) ++ "." ++ rest)%string
  = str_of (map rank_char rs) :: split_on "."%char rest.
Proof. exact (split_ranks_dot rs rest). Qed.
Lemma split_ranks_end rs : split_on "."%char (str_of (map rank_char rs)) = [str_of (map rank_char rs)].
Proof.
  induction rs as [|r rs IH]; [reflexivity|].
  cbn [map str_of]. cbn [split_on]. rewrite rank_char_not_dot, IH. reflexivity.
Qed.

(* --- one suit field --- *)
Definition rks (h : hand) (su : suit) : list rank := filter (fun r => has_card h (mkcard r su)) ranks_desc.

Lemma suit_field_rks h su : suit_field h su = str_of (map rank_char (rks h su)).
Proof. unfold suit_field. apply join_ranks. Qed.

Lemma in_ranks_desc r : In r ranks_desc.
Proof. unfold ranks_desc. apply -> in_rev. apply in_all_ranks'. Qed.

Lemma in_rks h su r : In r (rks h su) <-> In (mkcard r su) h.
Proof.
  unfold rks. rewrite filter_In, has_card_In. split; [tauto|]. intros H. split; [apply in_ranks_desc | exact H].
Qed.

Lemma suit_field_parses : forall h su, exists rs, ranks_of (suit_field h su) = Some rs.
Proof. intros h su. exists (rks h su). rewrite suit_field_rks. apply ranks_of_str_of. Qed.

Lemma ranks_desc_sorted : StronglySorted (fun a b => rank_val b < rank_val a) ranks_desc.
Proof.
  assert (StronglySorted (fun a b => (rank_val b <? rank_val a) = true) ranks_desc) as H.
  { apply ssb_sound. vm_compute. reflexivity. }
  induction H as [|a l Hs IH Hf]; constructor; [exact IH|].
  rewrite Forall_forall in *. intros x Hx. apply Nat.ltb_lt. apply Hf. exact Hx.
Qed.

Lemma suit_field_descending : forall h su rs, ranks_of (suit_field h su) = Some rs ->
  (forall r, In r rs <-> In (mkcard r su) h) /\
  (forall i j a b, i < j -> nth_error rs i = Some a -> nth_error rs j = Some b -> rank_val b < rank_val a).
Proof.
  intros h su rs H. rewrite suit_field_rks, ranks_of_str_of in H. injection H as <-. split.
  - intros r. apply in_rks.
  - intros i j a b Hij Ha Hb.
    apply (ss_nth (fun a b => rank_val b < rank_val a) (rks h su)) with (i := i) (j := j); try assumption.
    unfold rks. apply ss_filter. apply ranks_desc_sorted.
Qed.

Lemma filter_all_false {A} (f : A -> bool) l : (forall x, f x = false) -> filter f l = [].
Proof. intros H. induction l as [|a l IH]; cbn; [reflexivity | rewrite H; exact IH]. Qed.

Lemma void_is_empty_field : forall h su, (forall r, ~ In (mkcard r su) h) -> suit_field h su = ""%string.
Proof.
  intros h su H. rewrite suit_field_rks. unfold rks. rewrite filter_all_false; [reflexivity|].
  intros r. apply has_card_false. apply H.
Qed.

(* --- counting: a duplicate-free hand has as many cards as rendered rank characters --- *)
Lemma len_filter_map {A B} (f : B -> bool) (g : A -> B) l :
  length (filter f (map g l)) = length (filter (fun x => f (g x)) l).
Proof. induction l as [|a l IH]; cbn; [reflexivity|]. destruct (f (g a)); cbn; rewrite IH; reflexivity. Qed.
Lemma len_filter_rev {A} (f : A -> bool) l : length (filter f (rev l)) = length (filter f l).
Proof.
  induction l as [|a l IH]; [reflexivity|].
  cbn [rev]. rewrite filter_app, app_length, IH. cbn. destruct (f a); cbn; lia.
Qed.
Lemma len_rks h su : length (rks h su) = length (filter (has_card h) (map (fun r => mkcard r su) all_ranks)).
Proof. unfold rks, ranks_desc. rewrite len_filter_rev, len_filter_map. reflexivity. Qed.

Lemma all_cards_by_suit :
  all_cards = (map (fun r => mkcard r Cl) all_ranks ++ map (fun r => mkcard r Di) all_ranks ++
               map (fun r => mkcard r He) all_ranks ++ map (fun r => mkcard r Sp) all_ranks)%list.
Proof. reflexivity. Qed.

Lemma nodup_hand_count h : NoDup h ->
  length h = length (rks h Sp) + length (rks h He) + length (rks h Di) + length (rks h Cl).
Proof.
  intros Hn.
  assert (Permutation h (sorted_hand h)) as P.
  { apply NoDup_Permutation; [exact Hn | apply (proj1 (json_lists_each_card_once h)) |].
    intros c. symmetry. apply in_sorted_hand. }
  rewrite (Permutation_length P). unfold sorted_hand. rewrite all_cards_by_suit.
  rewrite !filter_app, !app_length, !len_rks. lia.
Qed.

Definition hand_field (h : hand) : string :=
  (suit_field h Sp ++ "." ++ suit_field h He ++ "." ++ suit_field h Di ++ "." ++ suit_field h Cl)%string.

Lemma hand_to_pbn_nonempty h s : hand_to_pbn h = Some s -> h <> [] -> length h = 13 /\ s = hand_field h.
Proof.
  intros H Hne. destruct h as [|c t]; [contradiction|]. unfold hand_to_pbn in H.
  destruct (length (c :: t) =? 13) eqn:E; [|discriminate]. apply Nat.eqb_eq in E.
  injection H as <-. split; [exact E | reflexivity].
Qed.

Lemma hand_field_length h : NoDup h -> length h = 13 -> String.length (hand_field h) = 16.
Proof.
  intros Hn Hl. pose proof (nodup_hand_count h Hn) as C. unfold hand_field.
  rewrite !slen_app, !suit_field_rks, !slen_str_of, !map_length. cbn [String.length]. lia.
Qed.

Lemma hand_pbn_canonical : forall h s, NoDup h -> hand_to_pbn h = Some s -> h <> [] ->
  exists fs fh fd fc, s = (fs ++ "." ++ fh ++ "." ++ fd ++ "." ++ fc)%string /\
    fs = suit_field h Sp /\ fh = suit_field h He /\ fd = suit_field h Di /\ fc = suit_field h Cl /\
    String.length s = 16.
Proof.
  intros h s Hn H Hne. destruct (hand_to_pbn_nonempty h s H Hne) as [Hl ->].
  exists (suit_field h Sp), (suit_field h He), (suit_field h Di), (suit_field h Cl).
  repeat split; try reflexivity. apply hand_field_length; assumption.
Qed.

(* --- reading one field back --- *)
Lemma take_n_app f rest : take_n (String.length f) (f ++ rest)%string = Some (f, rest).
Proof. induction f as [|a f IH]; cbn [String.length append take_n]; [reflexivity | rewrite IH; reflexivity]. Qed.
Lemma take_n_S n a s : take_n (S n) (String a s) =
  match take_n n s with Some (x, y) => Some (String a x, y) | None => None end.
Proof. reflexivity. Qed.

Lemma take_dash rest : take_hand_field ("-" ++ rest)%string = Some ("-"%string, rest).
Proof.
  change ("-" ++ rest)%string with (String "-"%char rest). unfold take_hand_field.
  change 16 with (S 15). rewrite take_n_S.
  destruct (take_n 15 rest) as [[x y]|]; reflexivity.
Qed.

Lemma hand_field_class h : str_forall in_hand_class (hand_field h) = true.
Proof.
  unfold hand_field. rewrite !str_forall_app, !suit_field_rks, !class_str_of. reflexivity.
Qed.

Lemma take_field h rest : NoDup h -> length h = 13 ->
  take_hand_field (hand_field h ++ rest)%string = Some (hand_field h, rest).
Proof.
  intros Hn Hl. pose proof (take_n_app (hand_field h) rest) as T.
  rewrite (hand_field_length h Hn Hl) in T. unfold take_hand_field. rewrite T, hand_field_class. reflexivity.
Qed.

Definition parsed (h : hand) : hand :=
  (map (fun r => mkcard r Sp) (rks h Sp) ++ map (fun r => mkcard r He) (rks h He) ++
   map (fun r => mkcard r Di) (rks h Di) ++ map (fun r => mkcard r Cl) (rks h Cl))%list.

Lemma parsed_same h : same_hand h (parsed h).
Proof.
  intros [r su]. unfold parsed. rewrite !in_app_iff, !in_map_iff. split.
  - intros H. destruct su; [right; right; right | right; right; left | right; left | left];
      (exists r; split; [reflexivity | apply in_rks; exact H]).
  - intros [[x [E H]]|[[x [E H]]|[[x [E H]]|[x [E H]]]]]; injection E as -> <-; apply in_rks; exact H.
Qed.

Lemma parse_field h : NoDup h -> length h = 13 -> hand_parser (hand_field h) = Some (parsed h).
Proof.
  intros Hn Hl. unfold hand_parser.
  assert (String.eqb (hand_field h) "-" = false) as E.
  { apply String.eqb_neq. intros K. pose proof (hand_field_length h Hn Hl) as L. rewrite K in L. discriminate L. }
  rewrite E. unfold hand_field. rewrite !suit_field_rks.
  rewrite !split_ranks_dot', split_ranks_end, !ranks_of_str_of. reflexivity.
Qed.

Lemma field_ok h f : NoDup h -> hand_to_pbn h = Some f ->
  (forall rest, take_hand_field (f ++ rest)%string = Some (f, rest)) /\
  exists h', hand_parser f = Some h' /\ same_hand h h'.
Proof.
  intros Hn H. destruct h as [|c t].
  - injection H as <-. split; [apply take_dash|]. exists []. split; [reflexivity | intros x; tauto].
  - destruct (hand_to_pbn_nonempty _ _ H) as [Hl ->]; [discriminate|]. split.
    + intros rest. apply take_field; assumption.
    + exists (parsed (c :: t)). split; [apply parse_field; assumption | apply parsed_same].
Qed.

Lemma expect_same a r : expect a (String a r) = Some r.
Proof. unfold expect. rewrite Ascii.eqb_refl. reflexivity. Qed.

Lemma seat_str_char first : exists a, seat_str first = String a EmptyString /\ seat_of_str (String a EmptyString) = Some first.
Proof. destruct first; eexists; split; reflexivity. Qed.

Lemma convert_pbn_fields first f1 f2 f3 f4 h1 h2 h3 h4 :
  (forall rest, take_hand_field (f1 ++ rest)%string = Some (f1, rest)) ->
  (forall rest, take_hand_field (f2 ++ rest)%string = Some (f2, rest)) ->
  (forall rest, take_hand_field (f3 ++ rest)%string = Some (f3, rest)) ->
  (forall rest, take_hand_field (f4 ++ rest)%string = Some (f4, rest)) ->
  hand_parser f1 = Some h1 -> hand_parser f2 = Some h2 -> hand_parser f3 = Some h3 -> hand_parser f4 = Some h4 ->
  exists d', convert_pbn (seat_str first ++ ":" ++ f1 ++ " " ++ f2 ++ " " ++ f3 ++ " " ++ f4)%string = Some d' /\
    forall p, d' p = if seat_beq p first then h1 else if seat_beq p (next first) then h2
                     else if seat_beq p (next (next first)) then h3 else h4.
Proof.
  intros T1 T2 T3 T4 P1 P2 P3 P4.
  destruct (seat_str_char first) as [a [Ea Es]]. rewrite Ea.
  pose proof (T4 ""%string) as T4'. rewrite sapp_nil_r in T4'.
  change (String a "" ++ ":" ++ f1 ++ " " ++ f2 ++ " " ++ f3 ++ " " ++ f4)%string
    with (String a (String ":"%char (f1 ++ String " "%char (f2 ++ String " "%char (f3 ++ String " "%char f4))))%string).
  unfold convert_pbn. rewrite Es, expect_same, T1, expect_same, T2, expect_same, T3, expect_same, T4', P1, P2, P3, P4.
  eexists. split; [reflexivity|]. intros p. reflexivity.
Qed.

Lemma to_pbn_defined : forall d first, pbn_deal d -> exists s, to_pbn d first = Some s.
Proof.
  intros d first H.
  assert (forall p, exists f, hand_to_pbn (d p) = Some f) as K.
  { intros p. destruct (H p) as [_ [Hl|He]].
    - destruct (d p) as [|c t] eqn:E; [discriminate|]. unfold hand_to_pbn. rewrite Hl, Nat.eqb_refl. eexists; reflexivity.
    - rewrite He. eexists; reflexivity. }
  unfold to_pbn.
  destruct (K first) as [a ->]. destruct (K (next first)) as [b ->].
  destruct (K (next (next first))) as [c ->]. destruct (K (next (next (next first)))) as [e ->].
  eexists; reflexivity.
Qed.

Lemma pbn_roundtrip : forall d first s, pbn_deal d -> to_pbn d first = Some s ->
  exists d', convert_pbn s = Some d' /\ same_deal d d'.
Proof.
  intros d first s Hd H.
  destruct (to_pbn_shape d first s H) as [a [b [c [e [Ha [Hb [Hc [He ->]]]]]]]].
  destruct (field_ok _ _ (proj1 (Hd _)) Ha) as [T1 [h1 [P1 S1]]].
  destruct (field_ok _ _ (proj1 (Hd _)) Hb) as [T2 [h2 [P2 S2]]].
  destruct (field_ok _ _ (proj1 (Hd _)) Hc) as [T3 [h3 [P3 S3]]].
  destruct (field_ok _ _ (proj1 (Hd _)) He) as [T4 [h4 [P4 S4]]].
  destruct (convert_pbn_fields first a b c e h1 h2 h3 h4 T1 T2 T3 T4 P1 P2 P3 P4) as [d' [E Hd']].
  exists d'. split; [exact E|].
  intros p. rewrite Hd'. destruct first, p; cbn [seat_beq next]; assumption.
Qed.

(* ================= non-vacuity examples ================= *)

Definition hand_eqb (a b : hand) : bool := forallb (has_card b) a && forallb (has_card a) b.

(* North holds all thirteen spades (three voids); the others hold two-suiters. *)
Definition ex_deal : deal := fun p =>
  match p with
  | North => map cn (seq 39 13)
  | East => map cn (seq 0 7 ++ seq 13 6)
  | South => map cn (seq 7 6 ++ seq 26 7)
  | West => map cn (seq 19 7 ++ seq 33 6) end.

Example ex_deal_is_pbn_deal : pbn_deal ex_deal.
Proof.
  intros p. split; [|left; destruct p; reflexivity].
  apply (NoDup_map_inv card_idx). apply nodupb_sound. destruct p; vm_compute; reflexivity.
Qed.

Example ex_written_from_east :
  to_pbn ex_deal East = Some "E:..765432.8765432 .8765432..AKQJT9 .AKQJT9.AKQJT98. AKQJT98765432..."%string.
Proof. vm_compute. reflexivity. Qed.

Example ex_read_back :
  match convert_pbn "E:..765432.8765432 .8765432..AKQJT9 .AKQJT9.AKQJT98. AKQJT98765432..." with
  | Some d' => forallb (fun p => hand_eqb (ex_deal p) (d' p)) all_seats
  | None => false end = true.
Proof. vm_compute. reflexivity. Qed.

(* a partial deal: East and West hold nothing *)
Definition ex_partial : deal := fun p =>
  match p with North => map cn (seq 39 13) | South => map cn (seq 13 13) | _ => [] end.

Example ex_partial_is_pbn_deal : pbn_deal ex_partial.
Proof.
  intros p. split; [|destruct p; (left; reflexivity) || (right; reflexivity)].
  apply (NoDup_map_inv card_idx). apply nodupb_sound. destruct p; vm_compute; reflexivity.
Qed.

Example ex_partial_written :
  to_pbn ex_partial West = Some "W:- AKQJT98765432... - ..AKQJT98765432."%string.
Proof. vm_compute. reflexivity. Qed.

Example ex_partial_read_back :
  match convert_pbn "W:- AKQJT98765432... - ..AKQJT98765432." with
  | Some d' => forallb (fun p => hand_eqb (ex_partial p) (d' p)) all_seats && (length (d' East) =? 0) && (length (d' West) =? 0)
  | None => false end = true.
Proof. vm_compute. reflexivity. Qed.

Example ex_binary_and_json :
  hand_eqb (ex_deal East)
    (convert_binary (to_binary (ex_deal North)) (to_binary (ex_deal East)) (to_binary (ex_deal South)) (to_binary (ex_deal West)) East) = true /\
  deal_to_json (ex_deal East) = ["C2"; "C3"; "C4"; "C5"; "C6"; "C7"; "C8"; "D2"; "D3"; "D4"; "D5"; "D6"; "D7"]%string.
Proof. split; vm_compute; reflexivity. Qed.

(* the unshuffled pack is a legal input of the dealer lemma *)
Example ex_dealer_unshuffled :
  let d := deal_of_shuffle pack_order in
  (forall p, length (d p) = 13 /\ NoDup (d p)) /\ disjoint d /\ (forall c, exists p, In c (d p)).
Proof. apply dealer_deals_a_deal. apply Permutation_refl. Qed.

Print Assumptions to_pbn_defined.
Print Assumptions pbn_roundtrip.
Print Assumptions hand_pbn_canonical.
Print Assumptions suit_field_descending.
Print Assumptions suit_field_parses.
Print Assumptions void_is_empty_field.
Print Assumptions empty_hand_is_dash.
Print Assumptions to_pbn_shape.
Print Assumptions to_binary_length.
Print Assumptions to_binary_spec.
Print Assumptions binary_roundtrip.
Print Assumptions json_roundtrip.
Print Assumptions json_sorted.
Print Assumptions json_lists_each_card_once.
Print Assumptions pack_is_all_cards.
Print Assumptions dealer_deals_a_deal.
