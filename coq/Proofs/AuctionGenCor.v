(* C01-C03 restated for the auction functions REGENERATED from bidding_phase.py on every run
   (Gen/AuctionFns.v, written by harness/gen_auction.py), through the equalities of Proofs/AuctionGen.v. *)
From BE Require Import Model.Auction Spec.Laws Gen.AuctionFns Proofs.AuctionGen.
From BE Require Proofs.Auction.
Local Open Scope nat_scope.

Definition g_offer (s : astate) (c : call) : astate := fst (g_take_bid s c).
Definition g_reach (d : seat) (v : vul) (offers : list call) : astate := fold_left g_offer offers (g_init d v).

Lemma g_reach_eq : forall d v offers, g_reach d v offers = reach d v offers.
Proof.
  intros d v offers. unfold g_reach, reach. rewrite g_init_eq. generalize (init d v) as s.
  induction offers as [|c r IH]; intros s; cbn [fold_left]; [reflexivity|].
  unfold g_offer at 2, offer at 2. rewrite g_take_bid_eq. apply IH.
Qed.

Theorem g_vector_is_legal_set : forall d v offers c,
  active (g_reach d v offers) <> None ->
  nth (call_idx c) (avail (g_reach d v offers)) false = legal d (hist (g_reach d v offers)) c.
Proof. intros d v offers c. rewrite g_reach_eq. apply Proofs.Auction.vector_is_legal_set. Qed.
Theorem g_accept_iff_legal : forall d v offers c,
  active (g_reach d v offers) <> None ->
  (snd (g_take_bid (g_reach d v offers) c) = Ongoing \/ snd (g_take_bid (g_reach d v offers) c) = Finished)
  <-> legal d (hist (g_reach d v offers)) c = true.
Proof. intros d v offers c. rewrite g_reach_eq, g_take_bid_eq. apply Proofs.Auction.accept_iff_legal. Qed.
Theorem g_rejected_is_noop : forall s c, snd (g_take_bid s c) = Illegal -> fst (g_take_bid s c) = s.
Proof. intros s c. rewrite g_take_bid_eq. apply Proofs.Auction.rejected_is_noop. Qed.
Theorem g_turn : forall d v offers,
  active (g_reach d v offers) =
  if ended (hist (g_reach d v offers)) then None else Some (caller d (length (hist (g_reach d v offers)))).
Proof. intros d v offers. rewrite g_reach_eq. apply Proofs.Auction.turn. Qed.
Theorem g_after_end : forall s c, active s = None -> g_take_bid s c = (s, Raises).
Proof. intros s c. rewrite g_take_bid_eq. apply Proofs.Auction.after_end. Qed.
Theorem g_contract_at_end : forall d v offers,
  active (g_reach d v offers) = None ->
  g_contract (g_reach d v offers) = Some (contract_spec d v (hist (g_reach d v offers))).
Proof. intros d v offers. rewrite g_reach_eq, g_contract_eq. apply Proofs.Auction.contract_at_end. Qed.
Theorem g_no_contract_before_end : forall d v offers,
  active (g_reach d v offers) <> None -> g_contract (g_reach d v offers) = None.
Proof. intros d v offers. rewrite g_reach_eq, g_contract_eq. apply Proofs.Auction.no_contract_before_end. Qed.
