(* Stretch goal 3: WHAT a conforming session logs.  The record the main thread writes for board j is exactly
   Model/Conform.v's [model_record] of board j and the j-th scripts (conforming_session_log); as a JSON value it is the
   record the sequential reference prescribes (conforming_session_log_is_spec, through Proofs/RecordSpec.v); and the same
   final state, hence the same log, is reached by every maximal schedule (conforming_session_log_every_schedule).
   Second part: WHAT every client is sent.  The transcript of the lines the table manager sends to the client seated at p
   is exactly the reference's view_spec for p (conforming_session_views), again in every maximal schedule.
   Standard library only; closed under the global context. *)
From BE Require Import Model.Session Model.Conform Proofs.Kahn Proofs.Session Proofs.Wire Proofs.SessionPassOut Proofs.SessionConform.
From BE Require Spec.SessionSpec Proofs.RecordSpec Proofs.Auction Spec.Laws Spec.PlayOracle.
From Coq Require Import Lia ZArith.
Local Open Scope string_scope.
Local Open Scope nat_scope.
Local Open Scope list_scope.

Theorem conforming_session_log : forall boards ns ew scripts,
  boards <> [] -> no_quote ns -> no_quote ew -> conforming boards scripts = true ->
  exists l f, srun l (init_state (conf_session boards ns ew scripts)) = Some f /\ Kahn.all_doneb msg f = true /\
    exists recs, log_events 4 f = LOpen :: map LRec recs ++ [LClose] /\
      map Some recs = map (fun '(j, b) => model_record (NM ns ew) b (fun p => nth_script (scripts p) j))
                          (combine (seq 0 (length boards)) boards).
Proof. exact conforming_session_recs. Qed.

(* ---------- the names function of the model is the one of the reference, seat by seat ---------- *)
Lemma NM_team_names ns ew p : NM ns ew p = Proofs.RecordSpec.team_names ns ew p.
Proof. destruct p; reflexivity. Qed.

(* the record depends on the names function only through its four values *)
Lemma model_record_names nm nm' b sc r : (forall p, nm p = nm' p) -> model_record nm b sc = Some r ->
  exists r', model_record nm' b sc = Some r' /\ record_json r = record_json r'.
Proof.
  intros E. unfold model_record.
  generalize (seq_calls 400 (Auction.init (b_dealer b) (b_vul b)) (fun p => sc_calls (sc p))). intros [s|]; [|discriminate].
  destruct (contract_of s) as [k|]; [|discriminate].
  destruct (is_passed_out k).
  - intros H. injection H as <-. eexists. split; [reflexivity|].
    unfold record_json. cbn [l_players l_board_id l_dealer l_deal l_bids l_contract l_play l_taken l_scoring l_score_ns l_score_ew l_dda].
    rewrite !E. reflexivity.
  - destruct (init_hands k (b_deal b)) as [hs0|]; [|discriminate].
    generalize (seq_cards 52 hs0 (fun p => sc_cards (sc p))). intros [hs|]; [|discriminate]. cbv zeta.
    destruct (calc_score k _) as [score|]; [|discriminate].
    destruct (scores_of k score) as [sns sew].
    intros H. injection H as <-. eexists. split; [reflexivity|].
    unfold record_json. cbn [l_players l_board_id l_dealer l_deal l_bids l_contract l_play l_taken l_scoring l_score_ns l_score_ew l_dda].
    rewrite !E. reflexivity.
Qed.

Lemma model_record_spec ns ew b sc r : model_record (NM ns ew) b sc = Some r ->
  record_json r = Spec.SessionSpec.record_spec ns ew (Proofs.RecordSpec.sboard_of b)
                    (Spec.SessionSpec.play_board (Proofs.RecordSpec.sboard_of b) (fun p => Proofs.RecordSpec.said_of (sc p))).
Proof.
  intros H. destruct (model_record_names _ (Proofs.RecordSpec.team_names ns ew) b sc r (NM_team_names ns ew) H) as (r' & H' & ->).
  exact (Proofs.RecordSpec.model_record_is_record_spec ns ew b sc r' H').
Qed.

Lemma map_some_json {A} (g : A -> option logrec) (h : A -> Json.json) : forall l recs,
  map Some recs = map g l -> (forall x r, g x = Some r -> record_json r = h x) -> map record_json recs = map h l.
Proof.
  induction l as [|x l IH]; intros [|r recs] H Hx; cbn [map] in *; try discriminate; [reflexivity|].
  injection H as H1 H2. rewrite (Hx x r (eq_sym H1)), (IH recs H2 Hx). reflexivity.
Qed.

Opaque model_record.
Corollary conforming_session_log_is_spec : forall boards ns ew scripts,
  boards <> [] -> no_quote ns -> no_quote ew -> conforming boards scripts = true ->
  exists l f, srun l (init_state (conf_session boards ns ew scripts)) = Some f /\ Kahn.all_doneb msg f = true /\
    exists recs, log_events 4 f = LOpen :: map LRec recs ++ [LClose] /\
      map record_json recs =
      map (fun '(j, b) => Spec.SessionSpec.record_spec ns ew (Proofs.RecordSpec.sboard_of b)
                            (Spec.SessionSpec.play_board (Proofs.RecordSpec.sboard_of b)
                               (fun p => Proofs.RecordSpec.said_of (nth_script (scripts p) j))))
          (combine (seq 0 (length boards)) boards).
Proof.
  intros boards ns ew scripts Hne Hns Hew Hconf.
  destruct (conforming_session_log boards ns ew scripts Hne Hns Hew Hconf) as (l & f & Hr & Hd & recs & Hlog & Hrecs).
  exists l, f. split; [exact Hr|]. split; [exact Hd|]. exists recs. split; [exact Hlog|].
  apply (map_some_json _ _ _ recs Hrecs). intros [j b] r H. exact (model_record_spec ns ew b _ r H).
Qed.

Corollary conforming_session_log_every_schedule : forall boards ns ew scripts,
  boards <> [] -> no_quote ns -> no_quote ew -> conforming boards scripts = true ->
  exists f n, Kahn.all_doneb msg f = true /\
    (exists recs, log_events 4 f = LOpen :: map LRec recs ++ [LClose] /\
       map Some recs = map (fun '(j, b) => model_record (NM ns ew) b (fun p => nth_script (scripts p) j))
                           (combine (seq 0 (length boards)) boards)) /\
    forall l' s', srun l' (init_state (conf_session boards ns ew scripts)) = Some s' ->
      length l' <= n /\ (sfinal s' -> s' = f).
Proof.
  intros boards ns ew scripts Hne Hns Hew Hconf.
  destruct (conforming_session_log boards ns ew scripts Hne Hns Hew Hconf) as (l & f & Hr & Hd & Hrecs).
  pose proof (all_done_final f Hd) as Hf.
  exists f, (length l). split; [exact Hd|]. split; [exact Hrecs|].
  intros l' s' Hr'. split.
  - exact (session_no_run_is_longer _ l f l' s' Hr Hf Hr').
  - intros Hs'. exact (proj1 (session_maximal_runs_agree _ l f l' s' Hr Hf Hr' Hs')).
Qed.
Transparent model_record.

(* ===================================================================== what every client is sent *)
Module SS := Spec.SessionSpec.
Module RS := Proofs.RecordSpec.

(* ---------- lines of message lists ---------- *)
Lemma lines_app a b : lines_of (a ++ b) = lines_of a ++ lines_of b.
Proof. unfold lines_of. apply flat_map_app. Qed.
Lemma seat_beq_sym a b : seat_beq a b = seat_beq b a.
Proof. destruct a, b; reflexivity. Qed.

(* ---------- the auction part of a view ---------- *)
Definition gcall (q : seat) (x : seat * string * call) : list string :=
  let '(who, m, _) := x in if seat_beq who q then [] else [SS.relay_text m who].

Lemma auction_view_spec q : forall d v f offers h said1 said2 s',
  (forall p, said1 p = said2 p) ->
  map (fun x : seat * string * call => snd x) h = hist (Auction.reach d v offers) ->
  seq_calls f (Auction.reach d v offers) said1 = Some s' ->
  flat_map (gcall q) (SS.merge_calls f d h said2) =
  flat_map (gcall q) h ++ lines_of (auction_view f (Auction.reach d v offers) said1 q).
Proof.
  intros d v f. induction f as [|f IH]; intros offers h said1 said2 s' EQ Hh SC.
  - discriminate SC.
  - cbn [seq_calls SS.merge_calls auction_view] in *.
    pose proof (Proofs.Auction.turn d v offers) as T.
    rewrite Hh.
    destruct (Spec.Laws.ended (hist (Auction.reach d v offers))) eqn:E; rewrite T in *.
    + cbn [lines_of flat_map]. rewrite app_nil_r. reflexivity.
    + assert (L : length h = length (hist (Auction.reach d v offers))) by (rewrite <- Hh, map_length; reflexivity).
      rewrite L. set (a := Spec.Laws.caller d (length (hist (Auction.reach d v offers)))) in *.
      rewrite <- (EQ a).
      destruct (said1 a) as [|[m c] rest] eqn:SA; [discriminate SC|].
      destruct (server_read_bid m (formal_name a)) as [m' [c'|]] eqn:SRB; [|discriminate SC].
      destruct (call_beq c c' && match parse_bid m' (formal_name a) with Some c'' => call_beq c c'' | None => false end);
        [|discriminate SC].
      destruct (take_bid (Auction.reach d v offers) c) as [s1 o] eqn:TB.
      assert (Ho : o = Ongoing \/ o = Finished) by (destruct o; try discriminate SC; auto).
      assert (SC' : seq_calls f s1 (pop said1 a) = Some s') by (destruct Ho as [-> | ->]; exact SC).
      assert (S1 : s1 = Auction.reach d v (offers ++ [c])) by (rewrite RS.reach_snoc, TB; reflexivity).
      cbn [fst]. rewrite S1 in *.
      rewrite (IH (offers ++ [c]) (h ++ [(a, m, c)]) (pop said1 a) _ s'); [| | |exact SC'].
      * rewrite flat_map_app, lines_app, <- app_assoc. f_equal. f_equal.
        cbn [flat_map gcall]. rewrite app_nil_r. unfold relay_to, SS.relay_text. rewrite SRB. cbn [fst].
        rewrite (seat_beq_sym q a). destruct (seat_beq a q); reflexivity.
      * intros p. unfold pop. destruct (seat_beq p a) eqn:Q; [|apply EQ].
        assert (p = a) by (destruct p, a; try discriminate Q; reflexivity). subst p. rewrite SA. reflexivity.
      * rewrite map_app, Hh. cbn [map snd].
        pose proof (Proofs.Auction.accepted_appends (Auction.reach d v offers) c) as AP.
        rewrite TB in AP. cbn [fst snd] in AP. symmetry. apply AP. exact Ho.
Qed.

(* ---------- the play part of a view ---------- *)
Definition gcard (orig : seat -> list card) (decl q : seat) (x : nat * (seat * seat * string * card)) : list string :=
  let '(i, (a, who, m, _)) := x in
  let dm := partner decl in
  (if i mod 4 =? 0 then
     (if seat_beq a q && negb (seat_beq q dm) then [(formal_name q ++ " to lead")%string]
      else if seat_beq a dm && seat_beq q decl then ["Dummy to lead"] else [])
   else []) ++
  (if seat_beq who q then [] else [m]) ++
  (if (i =? 0) && negb (seat_beq q dm) then [cards_line "Dummy" (orig dm)] else []).

Lemma card_item_spec orig decl q i a m c :
  lines_of (card_to (i mod 4 =? 0) a decl m q ++ (if i =? 0 then dummy_to orig decl q else [])) =
  gcard orig decl q (i, (a, speaker a decl, m, c)).
Proof.
  unfold gcard, card_to, lead_to, dummy_to. rewrite lines_app, lines_app.
  destruct (i mod 4 =? 0), (i =? 0); destruct a, decl, q; reflexivity.
Qed.

Lemma combine_snoc {A B} : forall (s : list A) (l : list B) k x, length s = length l ->
  combine (s ++ [k]) (l ++ [x]) = combine s l ++ [(k, x)].
Proof.
  induction s as [|n s IH]; intros [|y l] k x H; cbn [length] in H; try discriminate; [reflexivity|].
  cbn [app combine]. f_equal. apply IH. lia.
Qed.
Lemma combine_seq_snoc {A} (l : list A) x :
  combine (seq 0 (length (l ++ [x]))) (l ++ [x]) = combine (seq 0 (length l)) l ++ [(length l, x)].
Proof.
  rewrite app_length. cbn [length]. rewrite Nat.add_1_r, seq_S. cbn [plus].
  apply combine_snoc. apply seq_length.
Qed.

Lemma play_view_spec orig q tr decl : forall f hs r n acc said1 said2 hs',
  (forall p, said1 p = said2 p) ->
  RS.sim tr decl (hbase hs) r n ->
  seq_cards f hs said1 = Some hs' ->
  flat_map (gcard orig decl q) (combine (seq 0 (length (fst (SS.merge_cards f tr decl r acc said2)))) (fst (SS.merge_cards f tr decl r acc said2))) =
  flat_map (gcard orig decl q) (combine (seq 0 (length acc)) acc) ++ lines_of (play_view f (length acc) hs orig said1 q).
Proof.
  induction f as [|f IH]; intros hs r n acc said1 said2 hs' EQ SM SC.
  - cbn [SS.merge_cards fst play_view lines_of flat_map]. rewrite app_nil_r. reflexivity.
  - rewrite play_view_S. cbn [seq_cards SS.merge_cards] in *.
    rewrite (RS.sm_dummy _ _ _ _ _ SM), (RS.sm_decl _ _ _ _ _ SM), (RS.sm_active _ _ _ _ _ SM) in SC.
    rewrite (RS.sm_decl _ _ _ _ _ SM), (RS.sm_active _ _ _ _ _ SM).
    set (a := Spec.PlayOracle.ref_turn r) in *.
    change (if seat_beq a (partner decl) then decl else a) with (speaker a decl) in *.
    rewrite <- (EQ (speaker a decl)).
    destruct (said1 (speaker a decl)) as [|[m c] rest] eqn:SW; [discriminate SC|].
    destruct (parse_card m a) as [c'|]; [|discriminate SC].
    destruct (card_beq c c'); [|discriminate SC].
    destruct (play_by hs c a) as [hs1 o] eqn:PB.
    destruct o; [|discriminate SC].
    pose proof (RS.play_by_ok _ _ _ _ PB) as HB. cbn [fst].
    rewrite (IH hs1 (Spec.PlayOracle.ref_play tr r c) (S n) (acc ++ [(a, speaker a decl, m, c)]) (pop said1 (speaker a decl)) _ hs'); [| | |exact SC].
    + rewrite combine_seq_snoc, flat_map_app. cbn [flat_map]. rewrite app_nil_r, <- app_assoc. f_equal.
      rewrite app_length. cbn [length]. rewrite Nat.add_1_r.
      rewrite <- (card_item_spec orig decl q (length acc) a m c). rewrite <- lines_app, <- app_assoc. reflexivity.
    + intros p. unfold pop. destruct (seat_beq p (speaker a decl)) eqn:Q; [|apply EQ].
      assert (p = speaker a decl) by (destruct p, (speaker a decl); try discriminate Q; reflexivity). subst p. rewrite SW. reflexivity.
    + rewrite HB. apply RS.ref_simulates_play_step. exact SM.
Qed.

(* ---------- one board: the model's view is the reference's view ---------- *)
Opaque seq_calls seq_cards SS.merge_calls SS.merge_cards auction_view play_view.
Lemma board_view_spec k bd sc q : conform_board bd sc = true ->
  lines_of (board_view k bd sc q) =
  SS.view_board k (RS.sboard_of bd) (SS.play_board (RS.sboard_of bd) (fun p => RS.said_of (sc p))) q.
Proof.
  intros HC. destruct (conform_board_inv bd sc HC) as (sfin & kk & Hsc & Hk & Hcase). clear HC.
  set (sb := RS.sboard_of bd). set (sd := fun p => RS.said_of (sc p)).
  destruct (RS.auction_part (b_dealer bd) (b_vul bd) (fun p => sc_calls (sc p)) (fun p => SS.sd_calls (sd p)) sfin
              (fun q => eq_refl) Hsc) as [CO M].
  rewrite Hk in CO. injection CO as CO.
  assert (KS : Spec.Laws.contract_spec (SS.sb_dealer sb) (SS.sb_vul sb)
                 (map (fun x : seat * string * call => snd x) (SS.merge_calls 400 (SS.sb_dealer sb) [] (fun p => SS.sd_calls (sd p)))) = kk).
  { change (SS.sb_dealer sb) with (b_dealer bd). change (SS.sb_vul sb) with (b_vul bd). rewrite M. symmetry. exact CO. }
  assert (AV : flat_map (gcall q) (SS.merge_calls 400 (b_dealer bd) [] (fun p => SS.sd_calls (sd p))) =
               lines_of (auction_view 400 (Auction.init (b_dealer bd) (b_vul bd)) (fun p => sc_calls (sc p)) q)).
  { change (Auction.init (b_dealer bd) (b_vul bd)) with (Auction.reach (b_dealer bd) (b_vul bd) []) in *.
    rewrite (auction_view_spec q (b_dealer bd) (b_vul bd) 400 [] [] (fun p => sc_calls (sc p)) (fun p => SS.sd_calls (sd p)) sfin
               (fun q => eq_refl) eq_refl Hsc). reflexivity. }
  clear CO.
  destruct kk as [fb x xx kv kd].
  destruct Hcase as [Hpo|(Hpo & hs0 & hsfin & Hih & Hsq)].
  - (* passed out *)
    unfold is_passed_out in Hpo. cbn [final_bid] in Hpo. destruct fb as [[l st]|]; [discriminate|].
    rewrite (RS.play_board_passed_out sb sd x xx kv kd KS).
    unfold board_view. rewrite Hsc, Hk. cbn [is_passed_out final_bid]. rewrite app_nil_r, lines_app.
    unfold SS.view_board. cbn [SS.oc_calls SS.oc_contract SS.oc_plays cdeclarer].
    change (SS.sb_dealer sb) with (b_dealer bd). rewrite <- AV.
    assert (E : match kd with
                | Some decl => flat_map (gcard (SS.sb_deal sb) decl q) (combine (seq 0 (length (@nil (seat * seat * string * card)))) [])
                | None => [] end = []) by (destruct kd; reflexivity).
    unfold gcard in E. rewrite E. rewrite app_nil_r. reflexivity.
  - (* played *)
    unfold is_passed_out in Hpo. cbn [final_bid] in Hpo. destruct fb as [[l st]|]; [|discriminate].
    assert (KD : exists decl, kd = Some decl).
    { unfold init_hands, init_play in Hih. cbn [final_bid cdeclarer] in Hih. destruct kd as [decl|]; [eauto|discriminate Hih]. }
    destruct KD as [decl ->].
    destruct (SS.merge_cards 52 st decl (Spec.PlayOracle.ref_init decl) [] (fun p => SS.sd_cards (sd p))) as [ps rf] eqn:MC.
    rewrite (RS.play_board_played sb sd x xx kv l st decl ps rf KS MC).
    unfold board_view. rewrite Hsc, Hk. cbn [is_passed_out final_bid]. rewrite Hih. rewrite !lines_app.
    unfold SS.view_board. cbn [SS.oc_calls SS.oc_contract SS.oc_plays cdeclarer].
    change (SS.sb_dealer sb) with (b_dealer bd). rewrite <- AV.
    unfold init_hands, init_play in Hih. cbn [final_bid cdeclarer option_map] in Hih. injection Hih as <-.
    assert (S0 : RS.sim st decl (hbase (mkH (mkP st decl (partner decl) (next decl) (next decl) [] 1 [] [] 0 0) (b_deal bd)))
                   (Spec.PlayOracle.ref_init decl) 0).
    { constructor; cbn; try reflexivity; lia. }
    pose proof (play_view_spec (b_deal bd) q st decl 52 _ _ 0 [] (fun p => sc_cards (sc p)) (fun p => SS.sd_cards (sd p)) hsfin
                  (fun q => eq_refl) S0 Hsq) as PV.
    rewrite MC in PV. cbn [fst length seq combine flat_map app] in PV.
    change (SS.sb_deal sb) with (b_deal bd). unfold gcard in PV. rewrite PV. reflexivity.
Qed.
Transparent seq_calls seq_cards SS.merge_calls SS.merge_cards auction_view play_view.

(* ---------- the whole session ---------- *)
Definition outs_of (boards : list board) (scripts : seat -> list cscript) (a : nat) : list (SS.sboard * SS.outcome) :=
  map (fun '(j, b) => (RS.sboard_of b, SS.play_board (RS.sboard_of b) (fun p => RS.said_of (nth_script (scripts p) j))))
      (combine (seq a (length boards)) boards).

Opaque board_view conform_board SS.view_board SS.play_board.
Lemma views_from_spec scripts q : forall rest k a,
  forallb (fun '(j, b) => conform_board b (fun p => nth_script (scripts p) j)) (combine (seq a (length rest)) rest) = true ->
  lines_of (views_from scripts k a rest q) = SS.view_boards k (outs_of rest scripts a) q.
Proof.
  induction rest as [|bd rest IH]; intros k a HC; [reflexivity|].
  rewrite forallb_seq_cons in HC. apply andb_true_iff in HC. destruct HC as [HC1 HC2].
  unfold outs_of. rewrite map_seq_cons. cbn [views_from SS.view_boards]. rewrite lines_app.
  rewrite (board_view_spec k bd _ q HC1). f_equal. apply IH. exact HC2.
Qed.
Transparent board_view conform_board SS.view_board SS.play_board.

Lemma down_view_spec boards ns ew scripts p :
  forallb (fun '(j, b) => conform_board b (fun p => nth_script (scripts p) j)) (combine (seq 0 (length boards)) boards) = true ->
  lines_of (down_view boards ns ew scripts p) =
  SS.view_spec (match side_of p with NS => ns | EW => ew end) ns ew (outs_of boards scripts 0) p.
Proof.
  intros HC. unfold down_view, SS.view_spec. rewrite !lines_app. rewrite (views_from_spec scripts p boards 1 0 HC). reflexivity.
Qed.

(* every client is sent exactly the lines the sequential reference prescribes for its seat *)
Theorem conforming_session_views : forall boards ns ew scripts,
  boards <> [] -> no_quote ns -> no_quote ew -> conforming boards scripts = true ->
  exists l f, srun l (init_state (conf_session boards ns ew scripts)) = Some f /\ Kahn.all_doneb msg f = true /\
    lines_of (chan f (tr_down 4 0)) = SS.view_spec ns ns ew (outs_of boards scripts 0) North /\
    lines_of (chan f (tr_down 4 1)) = SS.view_spec ew ns ew (outs_of boards scripts 0) East /\
    lines_of (chan f (tr_down 4 2)) = SS.view_spec ns ns ew (outs_of boards scripts 0) South /\
    lines_of (chan f (tr_down 4 3)) = SS.view_spec ew ns ew (outs_of boards scripts 0) West.
Proof.
  intros boards ns ew scripts Hne Hns Hew Hconf.
  destruct (conforming_lengths boards scripts Hconf) as [_ HC].
  destruct (conforming_session_full boards ns ew scripts Hne Hns Hew Hconf) as (l & f & Hr & Hd & _ & H0 & H1 & H2 & H3).
  exists l, f. split; [exact Hr|]. split; [exact Hd|].
  rewrite H0, H1, H2, H3.
  split; [exact (down_view_spec boards ns ew scripts North HC)|].
  split; [exact (down_view_spec boards ns ew scripts East HC)|].
  split; [exact (down_view_spec boards ns ew scripts South HC)|exact (down_view_spec boards ns ew scripts West HC)].
Qed.

Corollary conforming_session_views_every_schedule : forall boards ns ew scripts,
  boards <> [] -> no_quote ns -> no_quote ew -> conforming boards scripts = true ->
  exists f n, Kahn.all_doneb msg f = true /\
    (lines_of (chan f (tr_down 4 0)) = SS.view_spec ns ns ew (outs_of boards scripts 0) North /\
     lines_of (chan f (tr_down 4 1)) = SS.view_spec ew ns ew (outs_of boards scripts 0) East /\
     lines_of (chan f (tr_down 4 2)) = SS.view_spec ns ns ew (outs_of boards scripts 0) South /\
     lines_of (chan f (tr_down 4 3)) = SS.view_spec ew ns ew (outs_of boards scripts 0) West) /\
    forall l' s', srun l' (init_state (conf_session boards ns ew scripts)) = Some s' ->
      length l' <= n /\ (sfinal s' -> s' = f).
Proof.
  intros boards ns ew scripts Hne Hns Hew Hconf.
  destruct (conforming_session_views boards ns ew scripts Hne Hns Hew Hconf) as (l & f & Hr & Hd & Hv).
  pose proof (all_done_final f Hd) as Hf.
  exists f, (length l). split; [exact Hd|]. split; [exact Hv|].
  intros l' s' Hr'. split.
  - exact (session_no_run_is_longer _ l f l' s' Hr Hf Hr').
  - intros Hs'. exact (proj1 (session_maximal_runs_agree _ l f l' s' Hr Hf Hr' Hs')).
Qed.

Print Assumptions conforming_session_log.
Print Assumptions conforming_session_log_is_spec.
Print Assumptions conforming_session_log_every_schedule.
Print Assumptions conforming_session_views.
Print Assumptions conforming_session_views_every_schedule.
