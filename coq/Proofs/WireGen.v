(* The functions GENERATED from the text of MessageInterface.send_message / receive_message
   (bridge_env/network_bridge/socket_interface.py) by harness/gen_wire.py (Gen/WireFns.v) equal the framing part of the
   hand-written model Model/Wire.v - for ALL arguments.
     - g_send_message m = frame m: the bytes handed to sendall are the message followed by CR LF (the literal of the
       f-string in the source).
     - g_receive_message s = receive_message s for every byte stream s: the stream that ends inside a message, the CR
       that is not followed by LF, the CR at the very end and the empty stream included (all RError on both sides,
       by the same case analysis; see the Examples).  The generated loop runs on fuel S (String.length s) and answers
       None at fuel 0; the model's recv_from is structural on the stream.  They are equal by induction on the stream
       for any fuel larger than its length (loop_eq): every iteration that goes on has taken one byte.  So the fuel is
       always enough: g_receive_message_run s is never None (g_receive_message_run_eq), and the RError that
       g_receive_message puts in that place is dead.
     - hence what is sent is received: g_receive_message (g_send_message m ++ rest) = RMsg m rest for every message m
       without a CR (recv_one of Proofs/Wire.v).
   The modelling assumptions (the socket as a byte stream, recv(1) / sendall, str = its UTF-8 bytes, logger calls) are
   listed in the header of harness/gen_wire.py.  A change of the code of the two methods changes Gen/WireFns.v and
   breaks one of these proofs (or the translator refuses the source). *)
From BE Require Import Model.Wire Gen.WireFns.
From BE Require Import Model.CaseLib.        (* bs: the byte-string literal of the generated file *)
From BE Require Import Proofs.Wire.          (* no_cr, recv_one *)
From Coq Require Import Lia.
Local Open Scope string_scope.
Local Open Scope nat_scope.

(* ------------------------------------------------------------------ send_message *)
Theorem g_send_message_eq : forall m, g_send_message m = frame m.
Proof. intros m. reflexivity. Qed.

(* ------------------------------------------------------------------ the literals of receive_message *)
Lemma lit_cr : bs [13] = String CR "".
Proof. reflexivity. Qed.
Lemma lit_lf : bs [10] = String LF "".
Proof. reflexivity. Qed.
(* comparing a one-byte string with a one-byte literal is comparing the bytes *)
Lemma eqb_one (a c : ascii) : String.eqb (String a "") (String c "") = Ascii.eqb a c.
Proof. cbn [String.eqb]. destruct (Ascii.eqb a c); reflexivity. Qed.

(* what the loop answers when it is given the model's outcome *)
Definition exit_of (r : recv_result) : py_exit (string * string) :=
  match r with RMsg m rest => Broke (rest, m) | RError => Raised end.

(* ------------------------------------------------------------------ the loop is recv_from, for any sufficient fuel *)
Lemma loop_eq : forall s acc fuel, String.length s < fuel ->
  g_receive_message_loop1 fuel s acc = Some (exit_of (recv_from s acc)).
Proof.
  induction s as [|a r IH]; intros acc fuel H; (destruct fuel as [|fuel]; [inversion H|]).
  - (* the stream is empty: recv returns b'' *) reflexivity.
  - cbn [g_receive_message_loop1 py_recv1 recv_from]. rewrite lit_cr, lit_lf.
    change (String.eqb (String a "") "") with false. cbv iota. rewrite eqb_one.
    destruct (Ascii.eqb a CR).
    + (* CR: the next byte decides *)
      destruct r as [|b r']; cbn [py_recv1].
      * (* CR at the very end *) reflexivity.
      * rewrite eqb_one. destruct (Ascii.eqb b LF); reflexivity.
    + (* any other byte is accumulated *)
      apply IH. cbn [String.length] in H. lia.
Qed.

(* the fuel handed to the loop is always enough: the run is never None, and it is the model *)
Theorem g_receive_message_run_eq : forall s, g_receive_message_run s = Some (receive_message s).
Proof.
  intros s. unfold g_receive_message_run, receive_message. rewrite loop_eq by lia.
  destruct (recv_from s ""); reflexivity.
Qed.
Corollary g_receive_message_fuel_enough : forall s, g_receive_message_run s <> None.
Proof. intros s. rewrite g_receive_message_run_eq. discriminate. Qed.

Theorem g_receive_message_eq : forall s, g_receive_message s = receive_message s.
Proof. intros s. unfold g_receive_message. rewrite g_receive_message_run_eq. reflexivity. Qed.

(* ------------------------------------------------------------------ what is sent is received *)
Corollary g_send_receive : forall m rest, no_cr m -> g_receive_message (g_send_message m ++ rest) = RMsg m rest.
Proof. intros m rest H. rewrite g_receive_message_eq, g_send_message_eq. apply recv_one, H. Qed.

(* the failure cases, on the generated function itself *)
Corollary g_receive_eof_between : g_receive_message "" = RError.
Proof. rewrite g_receive_message_eq. apply eof_between. Qed.
Corollary g_receive_eof_inside : forall m, no_cr m -> g_receive_message m = RError.
Proof. intros m H. rewrite g_receive_message_eq. apply eof_inside, H. Qed.
Corollary g_receive_eof_after_cr : forall m, no_cr m -> g_receive_message (m ++ String CR "") = RError.
Proof. intros m H. rewrite g_receive_message_eq. apply eof_after_cr, H. Qed.
Corollary g_receive_cr_not_lf : forall m b rest, no_cr m -> Ascii.eqb b LF = false ->
  g_receive_message (m ++ String CR (String b rest)) = RError.
Proof.
  intros m b rest H Hb. rewrite g_receive_message_eq. unfold receive_message. generalize ""%string as acc.
  unfold no_cr in H. induction m as [|a m IH]; intros acc; cbn [String.append recv_from].
  - rewrite Ascii.eqb_refl, Hb. reflexivity.
  - cbn [sforall] in H. apply andb_true_iff in H. destruct H as [Ha Hm]. apply negb_true_iff in Ha. rewrite Ha.
    apply IH, Hm.
Qed.

(* ------------------------------------------------------------------ examples, by computation on the generated code *)
Example ex_send : g_send_message "North ready" = "North ready" ++ String CR (String LF "").
Proof. vm_compute. reflexivity. Qed.
Example ex_recv_two : g_receive_message (g_send_message "abc" ++ g_send_message "d e") = RMsg "abc" (g_send_message "d e").
Proof. vm_compute. reflexivity. Qed.
Example ex_recv_empty_message : g_receive_message (String CR (String LF "x")) = RMsg "" "x".
Proof. vm_compute. reflexivity. Qed.
Example ex_recv_errors :
  (g_receive_message "", g_receive_message "abc", g_receive_message ("abc" ++ String CR ""),
   g_receive_message ("abc" ++ String CR "x"), g_receive_message ("abc" ++ String LF (String CR "")))
  = (RError, RError, RError, RError, RError).
Proof. vm_compute. reflexivity. Qed.
Example ex_recv_lf_is_data : g_receive_message ("a" ++ String LF ("b" ++ String CR (String LF ""))) = RMsg ("a" ++ String LF "b") "".
Proof. vm_compute. reflexivity. Qed.

Print Assumptions g_send_message_eq.
Print Assumptions g_receive_message_run_eq.
Print Assumptions g_receive_message_fuel_enough.
Print Assumptions g_receive_message_eq.
Print Assumptions g_send_receive.
Print Assumptions g_receive_eof_between.
Print Assumptions g_receive_eof_inside.
Print Assumptions g_receive_eof_after_cr.
Print Assumptions g_receive_cr_not_lf.
