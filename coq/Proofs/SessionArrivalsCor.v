(* C08 / C10 for EVERY request list that fills the table: what Proofs/SessionArrivals.v proves about the final state
   (log = model records, down-transcripts = down_view) restated against the sequential reference of Spec/SessionSpec.v,
   with the lemmas of Proofs/SessionConformLog.v.  The team names are those of the table the requests produce. *)
From BE Require Import Model.Session Model.Conform Proofs.Kahn Proofs.Session Proofs.Wire Proofs.SessionPassOut
                       Proofs.SessionConform Proofs.SessionConformLog Proofs.SessionAdmission Proofs.SessionArrivals.
From BE Require Proofs.RecordSpec Spec.SessionSpec.
Module RS := Proofs.RecordSpec.
Module SS := Spec.SessionSpec.
Local Open Scope nat_scope.
Local Open Scope list_scope.

(* partners share a name in every table the admission loop produces *)
Lemma table_names x p : let T := seat_requests (s_arrivals x) empty_table in
  all_seated T = true ->
  names_of T p = RS.team_names (names_of T North) (names_of T East) p.
Proof.
  intros T AS.
  assert (SH : forall q t t', T q = Some t -> T (partner q) = Some t' -> t = t').
  { apply partners_share. intros q t t' H. discriminate H. }
  assert (Full : forall q, exists t, T q = Some t).
  { intros q. unfold all_seated in AS. rewrite forallb_forall in AS.
    assert (Hq : In q all_seats) by (destruct q; cbn; tauto).
    specialize (AS q Hq). destruct (T q) as [t|]; [exists t; reflexivity|discriminate]. }
  unfold names_of, RS.team_names.
  destruct p; cbn [side_of]; try reflexivity.
  - destruct (Full South) as [t Ht], (Full North) as [t' Ht']. rewrite Ht, Ht'.
    exact (SH South t t' Ht Ht').
  - destruct (Full West) as [t Ht], (Full East) as [t' Ht']. rewrite Ht, Ht'.
    exact (SH West t t' Ht Ht').
Qed.

Lemma model_record_spec_names nm ns ew b sc r : (forall p, nm p = RS.team_names ns ew p) -> model_record nm b sc = Some r ->
  record_json r = SS.record_spec ns ew (RS.sboard_of b) (SS.play_board (RS.sboard_of b) (fun p => RS.said_of (sc p))).
Proof.
  intros E H. destruct (model_record_names nm (RS.team_names ns ew) b sc r E H) as (r' & H' & ->).
  exact (RS.model_record_is_record_spec ns ew b sc r' H').
Qed.

(* every session whose requests fill the table and whose seated clients conform: under EVERY schedule the maximal run ends in
   one state, in which the log holds the reference record of every board and every seated connection has been sent exactly the
   reference view of its seat *)
Theorem any_arrivals_log_and_views_are_the_reference : forall x : session,
  let reqs := s_arrivals x in let n := nconn x in
  let T := seat_requests reqs empty_table in
  let ns := names_of T North in let ew := names_of T East in
  s_boards x <> [] -> s_interrupt x = None -> wf_requests reqs -> all_seated T = true ->
  conforming (s_boards x) (seated_scripts x) = true ->
  exists f N, sfinal f /\
    (forall l' s', srun l' (init_state x) = Some s' -> length l' <= N /\ (sfinal s' -> s' = f /\ length l' = N)) /\
    (exists recs, log_events n f = LOpen :: map LRec recs ++ [LClose] /\
       map record_json recs =
       map (fun '(j, b) => SS.record_spec ns ew (RS.sboard_of b)
                             (SS.play_board (RS.sboard_of b) (fun p => RS.said_of (nth_script (seated_scripts x p) j))))
           (combine (seq 0 (length (s_boards x))) (s_boards x))) /\
    (forall p, lines_of (chan f (tr_down n (conn_map reqs p))) =
               SS.view_spec (match side_of p with NS => ns | EW => ew end) ns ew (outs_of (s_boards x) (seated_scripts x) 0) p).
Proof.
  intros x reqs n T ns ew Hne Hint Hwf AS Hconf.
  destruct (conforming_session_any_arrivals_every_schedule x Hne Hint Hwf AS Hconf) as (f & N & Hf & Out & Hall).
  destruct (conforming_lengths (s_boards x) (seated_scripts x) Hconf) as [_ HC].
  exists f, N. split; [exact Hf|]. split; [exact Hall|].
  destruct Out as (_ & (recs & HL & HR) & Hs & _).
  split.
  - exists recs. split; [exact HL|].
    unfold recs_from in HR.
    apply (map_some_json (fun '(j, b) => model_record (names_of T) b (fun p => nth_script (seated_scripts x p) j))
             (fun '(j, b) => SS.record_spec ns ew (RS.sboard_of b)
                               (SS.play_board (RS.sboard_of b) (fun p => RS.said_of (nth_script (seated_scripts x p) j))))
             _ recs HR).
    intros [j b] r Hr. apply (model_record_spec_names (names_of T) ns ew b _ r); [|exact Hr].
    intros p. exact (table_names x p AS).
  - intros p. destruct (Hs p) as (_ & _ & Hd). fold reqs n in Hd. rewrite Hd.
    apply down_view_spec. exact HC.
Qed.

Print Assumptions any_arrivals_log_and_views_are_the_reference.
