(* C04 / C05 / C06 / C11: the play of the cards.
   Model/Play.v (the code) against Spec/PlayLaws.v (the Laws). *)
From BE Require Import Model.Play Spec.PlayLaws.
From Coq Require Import Lia Permutation.
From Coq Require Import ZifyNat Zify.
Local Ltac Zify.zify_post_hook ::= Z.div_mod_to_equations.
Local Open Scope nat_scope.

Definition runp (s : pstate) (cards : list card) : pstate := fold_left play_card cards s.

Definition hstep (s : hstate) (op : card * seat) : hstate := fst (play_by s (fst op) (snd op)).
Definition runh (s : hstate) (ops : list (card * seat)) : hstate := fold_left hstep ops s.
Definition accepted_ops (s : hstate) (ops : list (card * seat)) : list (card * seat) := (* those that were accepted, in order *)
  snd (fold_left (fun '(st, acc) op => match play_by st (fst op) (snd op) with
                                       | (st', POk) => (st', acc ++ [op]) | (_, PRaises) => (st, acc) end) ops (s, [])).
Definition disjoint_deal (deal : seat -> list card) : Prop :=
  (forall p, NoDup (deal p)) /\ (forall p q c, p <> q -> In c (deal p) -> ~ In c (deal q)).

Definition ostep (dummy_cards : list card) (s : ostate) (op : card * seat) : ostate * presult :=
  let r := obs_play_by s (fst op) (snd op) in
  match odummy (fst r), snd r with
  | None, POk => (set_dummy_hand (fst r) dummy_cards, POk)
  | _, _ => r end.
Definition public (b : pstate) := (trump b, declarer b, dummy b, leader b, pactive b, trick b, trick_num b, tricks b, taken_ns b, taken_ew b).

(* ------------------------------------------------------------------ *)
(* small facts *)
Lemma suit_beq_true a b : suit_beq a b = true <-> a = b.
Proof. split; [apply internal_suit_dec_bl | apply internal_suit_dec_lb]. Qed.
Lemma card_beq_true a b : card_beq a b = true <-> a = b.
Proof. split; [apply internal_card_dec_bl | apply internal_card_dec_lb]. Qed.
Lemma seat_beq_true a b : seat_beq a b = true <-> a = b.
Proof. split; [apply internal_seat_dec_bl | apply internal_seat_dec_lb]. Qed.
Lemma seat_beq_refl a : seat_beq a a = true.
Proof. apply seat_beq_true; reflexivity. Qed.
Lemma seat_beq_false a b : seat_beq a b = false <-> a <> b.
Proof.
  split.
  - intros H E. apply seat_beq_true in E. congruence.
  - intros H. destruct (seat_beq a b) eqn:E; [|reflexivity]. apply seat_beq_true in E. contradiction.
Qed.
Lemma card_beq_false a b : card_beq a b = false <-> a <> b.
Proof.
  split.
  - intros H E. apply card_beq_true in E. congruence.
  - intros H. destruct (card_beq a b) eqn:E; [|reflexivity]. apply card_beq_true in E. contradiction.
Qed.

Lemma nth_error_snoc {A} (l : list A) x j y :
  nth_error (l ++ [x]) j = Some y -> (j < length l /\ nth_error l j = Some y) \/ (j = length l /\ y = x).
Proof.
  intros H. destruct (Nat.lt_ge_cases j (length l)) as [Hl|Hl].
  - left. rewrite nth_error_app1 in H by exact Hl. auto.
  - right. rewrite nth_error_app2 in H by exact Hl.
    destruct (j - length l) as [|m] eqn:E.
    + cbn in H. inversion H. split; [lia|reflexivity].
    + cbn in H. destruct m; discriminate.
Qed.
Lemma nth_error_snoc_last {A} (l : list A) x : nth_error (l ++ [x]) (length l) = Some x.
Proof. rewrite nth_error_app2 by lia. rewrite Nat.sub_diag. reflexivity. Qed.

(* ================= C04 ================= *)
Lemma opening : forall k s, init_play k = Some s ->
  exists l st d, final_bid k = Some (l, st) /\ cdeclarer k = Some d /\
    trump s = st /\ declarer s = d /\ dummy s = partner d /\ leader s = next d /\ pactive s = next d /\
    trick s = [] /\ trick_num s = 1 /\ tricks s = [] /\ taken_ns s = 0 /\ taken_ew s = 0.
Proof.
  intros k s H. unfold init_play in H.
  destruct (final_bid k) as [[l st]|]; [|discriminate].
  destruct (cdeclarer k) as [d|]; [|discriminate].
  inversion H; subst. exists l, st, d. cbn. repeat split; reflexivity.
Qed.

(* --- calc_highest --- *)
Definition Best (su : suit) (cards : list card) (r : option nat) : Prop :=
  match r with
  | None => forall c, In c cards -> csuit c <> su
  | Some i => exists c, nth_error cards i = Some c /\ csuit c = su /\
       (forall j c', nth_error cards j = Some c' -> csuit c' = su -> rank_val (crank c') <= rank_val (crank c)) /\
       (forall j c', j < i -> nth_error cards j = Some c' -> csuit c' = su -> rank_val (crank c') < rank_val (crank c))
  end.
Definition HInv (su : suit) (pre : list card) (best : option nat) (hi : nat) : Prop :=
  Best su pre best /\ forall b c, best = Some b -> nth_error pre b = Some c -> hi = rank_val (crank c).

Lemma hinv_keep su pre best hi c :
  HInv su pre best hi ->
  (csuit c = su -> exists b, best = Some b /\ rank_val (crank c) <= hi) ->
  HInv su (pre ++ [c]) best hi.
Proof.
  intros [HB HH] Hc. destruct best as [b|].
  - destruct HB as (cb & Hb & Hsb & Hle & Hlt).
    assert (b < length pre) as Hbl by (apply nth_error_Some; congruence).
    pose proof (HH b cb eq_refl Hb) as Hhi. split.
    + exists cb. split; [rewrite nth_error_app1 by exact Hbl; exact Hb|]. split; [exact Hsb|]. split.
      * intros j c' Hj Hs. apply nth_error_snoc in Hj. destruct Hj as [[_ Hj]|[_ Hj]].
        -- eapply Hle; eauto.
        -- subst c'. destruct (Hc Hs) as (b' & _ & Hr). lia.
      * intros j c' Hjb Hj Hs. apply nth_error_snoc in Hj. destruct Hj as [[_ Hj]|[Hj _]].
        -- eapply Hlt; eauto.
        -- lia.
    + intros b' c'' Hb' Hn. inversion Hb'; subst b'. rewrite nth_error_app1 in Hn by exact Hbl.
      rewrite Hb in Hn. injection Hn as <-. exact Hhi.
  - split; [|intros; discriminate]. intros x Hx. apply in_app_or in Hx. destruct Hx as [Hx|[Hx|[]]].
    + apply HB; exact Hx.
    + subst x. intros Hs. destruct (Hc Hs) as (b & Hb & _). discriminate.
Qed.

Lemma hinv_new su pre best hi c :
  HInv su pre best hi -> csuit c = su ->
  (forall b, best = Some b -> hi < rank_val (crank c)) ->
  HInv su (pre ++ [c]) (Some (length pre)) (rank_val (crank c)).
Proof.
  intros [HB HH] Hs Hgt. split.
  - exists c. split; [apply nth_error_snoc_last|]. split; [exact Hs|].
    destruct best as [b|].
    + destruct HB as (cb & Hb & Hsb & Hle & Hlt).
      pose proof (HH b cb eq_refl Hb) as Hhi. specialize (Hgt b eq_refl). split.
      * intros j c' Hj Hs'. apply nth_error_snoc in Hj. destruct Hj as [[_ Hj]|[_ Hj]].
        -- specialize (Hle _ _ Hj Hs'). lia.
        -- subst; lia.
      * intros j c' Hjl Hj Hs'. apply nth_error_snoc in Hj. destruct Hj as [[_ Hj]|[Hj _]].
        -- specialize (Hle _ _ Hj Hs'). lia.
        -- lia.
    + split.
      * intros j c' Hj Hs'. apply nth_error_snoc in Hj. destruct Hj as [[_ Hj]|[_ Hj]].
        -- apply nth_error_In in Hj. elim (HB _ Hj Hs').
        -- subst; lia.
      * intros j c' Hjl Hj Hs'. apply nth_error_snoc in Hj. destruct Hj as [[_ Hj]|[Hj _]].
        -- apply nth_error_In in Hj. elim (HB _ Hj Hs').
        -- lia.
  - intros b c' Hb Hn. inversion Hb; subst b. rewrite nth_error_snoc_last in Hn. inversion Hn; reflexivity.
Qed.

Lemma hf_spec su : forall suf pre best hi, HInv su pre best hi ->
  Best su (pre ++ suf) (highest_from su suf (length pre) best hi).
Proof.
  induction suf as [|c r IH]; intros pre best hi HI.
  - cbn [highest_from]. rewrite app_nil_r. exact (proj1 HI).
  - cbn [highest_from].
    replace (pre ++ c :: r) with ((pre ++ [c]) ++ r) by (rewrite <- app_assoc; reflexivity).
    replace (S (length pre)) with (length (pre ++ [c])) by (rewrite app_length; cbn [length]; lia).
    destruct (suit_beq (csuit c) su) eqn:Es.
    + apply suit_beq_true in Es. destruct best as [b|].
      * destruct (hi <? rank_val (crank c)) eqn:El.
        -- apply Nat.ltb_lt in El. apply IH.
           apply hinv_new with (best := Some b) (hi := hi); auto.
        -- apply Nat.ltb_ge in El. apply IH. apply hinv_keep; auto.
           intros _. exists b. split; [reflexivity|exact El].
      * apply IH. apply hinv_new with (best := None) (hi := hi); auto. intros; discriminate.
    + apply IH. apply hinv_keep; auto. intros Hs. apply suit_beq_true in Hs. congruence.
Qed.

Lemma calc_highest_best su cards : Best su cards (calc_highest (Tr su) cards).
Proof.
  unfold calc_highest. apply (hf_spec su cards [] None 0).
  split; [intros c []|intros; discriminate].
Qed.

Lemma calc_highest_spec : forall su cards,
  match calc_highest (Tr su) cards with
  | None => forall c, In c cards -> csuit c <> su
  | Some i => exists c, nth_error cards i = Some c /\ csuit c = su /\
       (forall j c', nth_error cards j = Some c' -> csuit c' = su -> rank_val (crank c') <= rank_val (crank c)) /\
       (forall j c', j < i -> nth_error cards j = Some c' -> csuit c' = su -> rank_val (crank c') < rank_val (crank c))
  end.
Proof. intros su cards. exact (calc_highest_best su cards). Qed.
Lemma calc_highest_NT : forall cards, calc_highest NT cards = None.
Proof. reflexivity. Qed.

Lemma best_wins tr cards su i :
  (forall x, eligible tr cards x = suit_beq (csuit x) su) -> Best su cards (Some i) -> wins tr cards i.
Proof.
  intros E (c & Hn & Hs & Hle & Hlt). exists c. split; [exact Hn|]. split.
  - rewrite E. apply suit_beq_true. exact Hs.
  - split.
    + intros j c' Hj He. rewrite E in He. apply suit_beq_true in He. eauto.
    + intros j c' Hji Hj He. rewrite E in He. apply suit_beq_true in He. eauto.
Qed.

(* with no trump in the trick (or at no trump) the suit led decides *)
Lemma led_suit_wins tr c0 r :
  trump_played tr (c0 :: r) = false ->
  wins tr (c0 :: r)
    (match calc_highest (Tr (csuit c0)) (c0 :: r) with Some i => i | None => 0 end).
Proof.
  intros Hnt. pose proof (calc_highest_best (csuit c0) (c0 :: r)) as HB.
  destruct (calc_highest (Tr (csuit c0)) (c0 :: r)) as [i|].
  - apply best_wins with (su := csuit c0); [|exact HB].
    intros x. unfold eligible. destruct tr as [t|]; [rewrite Hnt|]; reflexivity.
  - exfalso. apply (HB c0); [left|]; reflexivity.
Qed.

Lemma winner_idx_wins : forall tr cards, cards <> [] -> wins tr cards (winner_idx tr cards).
Proof.
  intros tr cards Hne. destruct cards as [|c0 r]; [congruence|]. unfold winner_idx.
  destruct tr as [t|].
  - pose proof (calc_highest_best t (c0 :: r)) as HB.
    destruct (calc_highest (Tr t) (c0 :: r)) as [i|].
    + apply best_wins with (su := t); [|exact HB].
      intros x. unfold eligible.
      assert (trump_played (Tr t) (c0 :: r) = true) as ->; [|reflexivity].
      destruct HB as (c & Hn & Hs & _). unfold trump_played. apply existsb_exists.
      exists c. split; [eapply nth_error_In; eauto | apply suit_beq_true; exact Hs].
    + apply led_suit_wins. unfold trump_played.
      destruct (existsb (fun c => suit_beq (csuit c) t) (c0 :: r)) eqn:E; [|reflexivity].
      apply existsb_exists in E. destruct E as (x & Hx & Hs). apply suit_beq_true in Hs.
      elim (HB x Hx Hs).
  - rewrite calc_highest_NT. apply led_suit_wins. reflexivity.
Qed.

Lemma wins_unique : forall tr cards i j, wins tr cards i -> wins tr cards j -> i = j.
Proof.
  intros tr cards i j (ci & Hi & Ei & Lei & Lti) (cj & Hj & Ej & Lej & Ltj).
  destruct (Nat.lt_trichotomy i j) as [H|[H|H]]; [|exact H|].
  - specialize (Ltj i ci H Hi Ei). specialize (Lei j cj Hj Ej). lia.
  - specialize (Lti j cj H Hj Ej). specialize (Lej i ci Hi Ei). lia.
Qed.

Lemma first_pos_spec f : forall l i k c, nth_error l i = Some c -> f c = true ->
  (forall j c', j < i -> nth_error l j = Some c' -> f c' = false) -> first_pos f l k = k + i.
Proof.
  induction l as [|x l IH]; intros i k c Hn Hf Hb.
  - destruct i; discriminate.
  - destruct i as [|i].
    + cbn in Hn. inversion Hn; subst. cbn [first_pos]. rewrite Hf. lia.
    + cbn in Hn. cbn [first_pos].
      assert (f x = false) as -> by (apply (Hb 0); [lia|reflexivity]).
      rewrite (IH i (S k) c); [lia|exact Hn|exact Hf|].
      intros j c' Hj Hn'. apply (Hb (S j)); [lia|exact Hn'].
Qed.
Lemma maxlist_le l m : (forall x, In x l -> x <= m) -> fold_right Nat.max 0 l <= m.
Proof.
  induction l as [|a l IH]; intros H; cbn [fold_right]; [lia|].
  pose proof (H a (or_introl eq_refl)). assert (fold_right Nat.max 0 l <= m) by (apply IH; intros; apply H; right; auto). lia.
Qed.
Lemma maxlist_ge l x : In x l -> x <= fold_right Nat.max 0 l.
Proof.
  induction l as [|a l IH]; intros H; [destruct H|]. cbn [fold_right]. destruct H as [H|H].
  - subst; lia.
  - specialize (IH H). lia.
Qed.

Lemma wins_winner tr cards i : wins tr cards i -> winner tr cards = i.
Proof.
  intros (c & Hn & He & Hle & Hlt).
  assert (best_rank tr cards = rank_val (crank c)) as Hbr.
  { unfold best_rank. apply Nat.le_antisymm.
    - apply maxlist_le. intros x Hx. apply in_map_iff in Hx. destruct Hx as (c' & <- & Hc').
      apply filter_In in Hc'. destruct Hc' as [Hin He']. apply In_nth_error in Hin. destruct Hin as [j Hj]. eauto.
    - apply maxlist_ge. apply in_map_iff. exists c. split; [reflexivity|].
      apply filter_In. split; [eapply nth_error_In; eauto|exact He]. }
  unfold winner. rewrite (first_pos_spec _ cards i 0 c); [reflexivity|exact Hn| |].
  - rewrite He, Hbr, Nat.eqb_refl. reflexivity.
  - intros j c' Hj Hn'. rewrite Hbr. destruct (eligible tr cards c') eqn:E; [|reflexivity].
    cbn [andb]. apply Nat.eqb_neq. specialize (Hlt j c' Hj Hn' E). lia.
Qed.

Lemma winner_idx_is_spec_winner : forall tr cards, cards <> [] -> winner_idx tr cards = winner tr cards.
Proof. intros tr cards H. symmetry. apply wins_winner. apply winner_idx_wins. exact H. Qed.

(* --- one step of play_card, in its two shapes --- *)
Lemma play_card_end s c : length (trick s) = 3 ->
  play_card s c =
    let tr := trick s ++ [c] in
    let ld := rot (leader s) (winner_idx (trump s) tr) in
    mkP (trump s) (declarer s) (dummy s) ld ld [] (S (trick_num s))
        ((leader s, tr) :: rtricks s) (c :: used s)
        (match side_of ld with NS => S (taken_ns s) | EW => taken_ns s end)
        (match side_of ld with EW => S (taken_ew s) | NS => taken_ew s end).
Proof. intros H. unfold play_card. rewrite app_length, H. reflexivity. Qed.
Lemma play_card_mid s c : length (trick s) <> 3 ->
  play_card s c =
    mkP (trump s) (declarer s) (dummy s) (leader s) (next (pactive s)) (trick s ++ [c]) (trick_num s)
        (rtricks s) (c :: used s) (taken_ns s) (taken_ew s).
Proof.
  intros H. unfold play_card. rewrite app_length. cbn [length].
  destruct (length (trick s) + 1 =? 4) eqn:E; [apply Nat.eqb_eq in E; lia|reflexivity].
Qed.
Lemma runp_snoc s cards c : runp s (cards ++ [c]) = play_card (runp s cards) c.
Proof. unfold runp. rewrite fold_left_app. reflexivity. Qed.
Lemma tricks_cons_end s c : length (trick s) = 3 ->
  tricks (play_card s c) = tricks s ++ [(leader s, trick s ++ [c])].
Proof. intros H. rewrite play_card_end by exact H. reflexivity. Qed.
Lemma tricks_mid s c : length (trick s) <> 3 -> tricks (play_card s c) = tricks s.
Proof. intros H. rewrite play_card_mid by exact H. reflexivity. Qed.
Lemma play_card_static s c :
  trump (play_card s c) = trump s /\ declarer (play_card s c) = declarer s /\ dummy (play_card s c) = dummy s.
Proof.
  destruct (Nat.eq_dec (length (trick s)) 3) as [H|H];
    [rewrite play_card_end by exact H|rewrite play_card_mid by exact H]; cbn; auto.
Qed.
Lemma runp_static s cards :
  trump (runp s cards) = trump s /\ declarer (runp s cards) = declarer s /\ dummy (runp s cards) = dummy s.
Proof.
  induction cards as [|c cards IH] using rev_ind; [cbn; auto|].
  rewrite runp_snoc. destruct (play_card_static (runp s cards) c) as (A & B & C).
  destruct IH as (A' & B' & C'). rewrite A, B, C. auto.
Qed.
Lemma init_play_shape k s0 : init_play k = Some s0 ->
  trick s0 = [] /\ trick_num s0 = 1 /\ rtricks s0 = [] /\ used s0 = [] /\ taken_ns s0 = 0 /\ taken_ew s0 = 0 /\
  pactive s0 = leader s0.
Proof.
  intros H. unfold init_play in H.
  destruct (final_bid k) as [[l st]|]; [|discriminate].
  destruct (cdeclarer k) as [d|]; [|discriminate].
  inversion H; subst. cbn. repeat split; reflexivity.
Qed.

Lemma counters : forall k s0 cards, init_play k = Some s0 ->
  let s := runp s0 cards in let n := length cards in
  trick_num s = n / 4 + 1 /\ length (trick s) = n mod 4 /\ length (tricks s) = n / 4 /\
  taken_ns s + taken_ew s = n / 4 /\ pactive s = rot (leader s) (length (trick s)) /\
  trump s = trump s0 /\ declarer s = declarer s0 /\ dummy s = dummy s0.
Proof.
  intros k s0 cards H. cbv zeta.
  induction cards as [|c cards IH] using rev_ind.
  - destruct (init_play_shape k s0 H) as (A & B & C & D & E & F & G).
    unfold runp, tricks. cbn [fold_left length]. rewrite A, B, C, E, F, G. cbn. repeat split; reflexivity.
  - rewrite runp_snoc, app_length. cbn [length].
    set (s := runp s0 cards) in *. set (n := length cards) in *.
    destruct IH as (I1 & I2 & I3 & I4 & I5 & I6 & I7 & I8).
    destruct (play_card_static s c) as (S1 & S2 & S3). rewrite S1, S2, S3.
    unfold tricks in *. rewrite rev_length in *.
    destruct (Nat.eq_dec (length (trick s)) 3) as [E|E].
    + rewrite play_card_end by exact E. cbv zeta. cbn [trick_num trick rtricks taken_ns taken_ew pactive leader length rot].
      repeat split; try assumption; try lia.
      destruct (side_of _); lia.
    + rewrite play_card_mid by exact E. cbn [trick_num trick rtricks taken_ns taken_ew pactive leader].
      rewrite app_length. cbn [length].
      repeat split; try assumption; try lia.
      rewrite I5. replace (length (trick s) + 1) with (S (length (trick s))) by lia. reflexivity.
Qed.

(* the record grows by exactly the card played *)
Lemma hist_step s c :
  concat (map snd (tricks (play_card s c))) ++ trick (play_card s c)
  = (concat (map snd (tricks s)) ++ trick s) ++ [c].
Proof.
  destruct (Nat.eq_dec (length (trick s)) 3) as [E|E].
  - rewrite tricks_cons_end by exact E. rewrite play_card_end by exact E. cbv zeta. cbn [trick].
    rewrite map_app, concat_app. cbn [map concat snd]. rewrite !app_nil_r. rewrite app_assoc. reflexivity.
  - rewrite tricks_mid by exact E. rewrite play_card_mid by exact E. cbn [trick].
    rewrite app_assoc. reflexivity.
Qed.
Lemma four_step s c : Forall (fun t => length (snd t) = 4) (tricks s) ->
  Forall (fun t : seat * list card => length (snd t) = 4) (tricks (play_card s c)).
Proof.
  intros H. destruct (Nat.eq_dec (length (trick s)) 3) as [E|E].
  - rewrite tricks_cons_end by exact E. apply Forall_app. split; [exact H|].
    constructor; [|constructor]. cbn [snd]. rewrite app_length, E. reflexivity.
  - rewrite tricks_mid by exact E. exact H.
Qed.

Lemma history_is_the_cards : forall k s0 cards, init_play k = Some s0 ->
  let s := runp s0 cards in
  concat (map snd (tricks s)) ++ trick s = cards /\ Forall (fun t => length (snd t) = 4) (tricks s).
Proof.
  intros k s0 cards H. cbv zeta.
  induction cards as [|c cards IH] using rev_ind.
  - destruct (init_play_shape k s0 H) as (A & B & C & _).
    unfold runp, tricks. cbn [fold_left]. rewrite A, C. cbn. split; [reflexivity|constructor].
  - rewrite runp_snoc. destruct IH as [I1 I2]. split.
    + rewrite hist_step, I1. reflexivity.
    + apply four_step. exact I2.
Qed.

Lemma mid_trick_step : forall k s0 cards c, init_play k = Some s0 ->
  let s := runp s0 cards in length (trick s) < 3 ->
  let s' := play_card s c in
  trick s' = trick s ++ [c] /\ pactive s' = next (pactive s) /\ leader s' = leader s /\ trick_num s' = trick_num s /\
  tricks s' = tricks s /\ taken_ns s' = taken_ns s /\ taken_ew s' = taken_ew s.
Proof.
  intros k s0 cards c _ s Hl s'. subst s'.
  rewrite tricks_mid by lia. rewrite play_card_mid by lia. cbn. repeat split; reflexivity.
Qed.

Lemma trick_done_step : forall k s0 cards c, init_play k = Some s0 ->
  let s := runp s0 cards in length (trick s) = 3 ->
  let s' := play_card s c in let four := trick s ++ [c] in let w := rot (leader s) (winner (trump s) four) in
  tricks s' = tricks s ++ [(leader s, four)] /\ leader s' = w /\ pactive s' = w /\ trick s' = [] /\
  trick_num s' = S (trick_num s) /\
  taken s' (side_of w) = S (taken s (side_of w)) /\ taken s' (other_side (side_of w)) = taken s (other_side (side_of w)).
Proof.
  intros k s0 cards c _ s Hl s' four w. subst s' w.
  rewrite tricks_cons_end by exact Hl. rewrite play_card_end by exact Hl. cbv zeta. fold four.
  rewrite (winner_idx_is_spec_winner (trump s) four) by (unfold four; destruct (trick s); discriminate).
  unfold taken. cbn [leader pactive trick trick_num taken_ns taken_ew].
  destruct (side_of (rot (leader s) (winner (trump s) four))); cbn [other_side]; repeat split; reflexivity.
Qed.

Lemma thirteen_tricks : forall k s0 cards, init_play k = Some s0 -> length cards = 52 ->
  let s := runp s0 cards in
  phase_done s = true /\ length (tricks s) = 13 /\ taken_ns s + taken_ew s = 13 /\ trick s = [].
Proof.
  intros k s0 cards H L. cbv zeta.
  destruct (counters k s0 cards H) as (I1 & I2 & I3 & I4 & _). rewrite L in *.
  change (52 / 4) with 13 in *. change (52 mod 4) with 0 in *.
  unfold phase_done. rewrite I1. repeat split; try assumption; try reflexivity.
  destruct (trick (runp s0 cards)); [reflexivity|discriminate].
Qed.
Lemma not_done_before_52 : forall k s0 cards, init_play k = Some s0 -> length cards < 52 -> phase_done (runp s0 cards) = false.
Proof.
  intros k s0 cards H L. destruct (counters k s0 cards H) as (I1 & _).
  unfold phase_done. rewrite I1. apply Nat.ltb_ge. lia.
Qed.

(* --- leaders in the record --- *)
Definition led_ok (tr : strain) (l0 : seat) (L : list (seat * list card)) : Prop :=
  forall i ld four, nth_error L i = Some (ld, four) ->
    ld = match i with 0 => l0
         | S j => match nth_error L j with Some (ld0, f0) => rot ld0 (winner tr f0) | None => ld end end.
Definition next_leader (tr : strain) (l0 : seat) (L : list (seat * list card)) (cur : seat) : Prop :=
  cur = match length L with 0 => l0
        | S j => match nth_error L j with Some (ld0, f0) => rot ld0 (winner tr f0) | None => cur end end.
Lemma led_ok_snoc tr l0 L cur f :
  led_ok tr l0 L -> next_leader tr l0 L cur -> led_ok tr l0 (L ++ [(cur, f)]).
Proof.
  intros HL HN i ld four Hi. apply nth_error_snoc in Hi. destruct Hi as [[Hlt Hi]|[Hi Hx]].
  - specialize (HL i ld four Hi). destruct i as [|j]; [exact HL|].
    rewrite nth_error_app1 by lia. exact HL.
  - inversion Hx; subst ld four. subst i. unfold next_leader in HN.
    destruct (length L) as [|j] eqn:E; [exact HN|].
    rewrite nth_error_app1 by lia. exact HN.
Qed.

Lemma recorded_leaders_inv k s0 cards : init_play k = Some s0 ->
  let s := runp s0 cards in
  led_ok (trump s0) (leader s0) (tricks s) /\ next_leader (trump s0) (leader s0) (tricks s) (leader s).
Proof.
  intros H. cbv zeta. induction cards as [|c cards IH] using rev_ind.
  - destruct (init_play_shape k s0 H) as (A & B & C & _).
    unfold runp, tricks, next_leader. cbn [fold_left]. rewrite C. cbn. split; [|reflexivity].
    intros [|i] ld four Hi; discriminate.
  - rewrite runp_snoc. destruct (runp_static s0 cards) as (T & _).
    set (s := runp s0 cards) in *. destruct IH as [I1 I2].
    destruct (Nat.eq_dec (length (trick s)) 3) as [E|E].
    + rewrite tricks_cons_end by exact E. split.
      * apply led_ok_snoc; assumption.
      * unfold next_leader. rewrite app_length. cbn [length].
        replace (length (tricks s) + 1) with (S (length (tricks s))) by lia.
        rewrite nth_error_snoc_last.
        rewrite play_card_end by exact E. cbv zeta. cbn [leader]. rewrite T.
        rewrite winner_idx_is_spec_winner by (destruct (trick s); discriminate). reflexivity.
    + rewrite tricks_mid by exact E. split; [exact I1|].
      rewrite play_card_mid by exact E. cbn [leader]. exact I2.
Qed.

Lemma recorded_leaders : forall k s0 cards, init_play k = Some s0 ->
  let s := runp s0 cards in
  forall i ld four, nth_error (tricks s) i = Some (ld, four) ->
    ld = match i with 0 => leader s0
         | S j => match nth_error (tricks s) j with Some (ld0, f0) => rot ld0 (winner (trump s0) f0) | None => ld end end.
Proof. intros k s0 cards H. exact (proj1 (recorded_leaders_inv k s0 cards H)). Qed.

(* ================= C06 ================= *)
Lemma available_spec : forall hand led c, In c (available hand led) <-> may_play hand led c.
Proof.
  intros hand [f|] c; unfold available, may_play; [|tauto].
  destruct (filter (fun c => suit_beq (csuit c) (csuit f)) hand) as [|x l] eqn:E.
  - split; [|tauto]. intros H. split; [exact H|]. intros (c' & Hc' & Hs).
    assert (In c' []) as [].
    rewrite <- E. apply filter_In. split; [exact Hc'|apply suit_beq_true; exact Hs].
  - rewrite <- E. rewrite filter_In, suit_beq_true. split.
    + intros [H1 H2]. auto.
    + intros [H1 H2]. split; [exact H1|]. apply H2.
      assert (In x (filter (fun c => suit_beq (csuit c) (csuit f)) hand)) as Hx by (rewrite E; left; reflexivity).
      apply filter_In in Hx. destruct Hx as [Hx1 Hx2]. apply suit_beq_true in Hx2. exists x. auto.
Qed.
Lemma available_leading : forall hand, available hand None = hand.
Proof. reflexivity. Qed.
Lemma available_nonempty : forall hand led, hand <> [] -> available hand led <> [].
Proof.
  intros hand [f|] H; unfold available; [|exact H].
  destruct (filter (fun c => suit_beq (csuit c) (csuit f)) hand); [exact H|discriminate].
Qed.
Lemma available_subset : forall hand led c, In c (available hand led) -> In c hand.
Proof. intros hand led c H. apply available_spec in H. exact (proj1 H). Qed.
Lemma available_follow : forall hand f, (exists c, In c hand /\ csuit c = csuit f) ->
  forall c, In c (available hand (Some f)) <-> (In c hand /\ csuit c = csuit f).
Proof.
  intros hand f Hex c. rewrite available_spec. unfold may_play. split.
  - intros [H1 H2]. auto.
  - intros [H1 H2]. auto.
Qed.
Lemma available_void : forall hand f, (forall c, In c hand -> csuit c <> csuit f) -> available hand (Some f) = hand.
Proof.
  intros hand f H. unfold available.
  destruct (filter (fun c => suit_beq (csuit c) (csuit f)) hand) as [|x l] eqn:E; [reflexivity|].
  assert (In x (filter (fun c => suit_beq (csuit c) (csuit f)) hand)) as Hx by (rewrite E; left; reflexivity).
  apply filter_In in Hx. destruct Hx as [Hx1 Hx2]. apply suit_beq_true in Hx2. elim (H x Hx1 Hx2).
Qed.
Lemma current_available_is_available : forall s hand, current_available s hand = available hand (hd_error (trick s)).
Proof. reflexivity. Qed.
Lemma choice_in_set : forall (l : list card) i d, l <> [] -> In (nth (i mod length l) l d) l.
Proof.
  intros l i d H. apply nth_In. apply Nat.mod_upper_bound. destruct l; [congruence|discriminate].
Qed.

(* ================= C05 ================= *)
Lemma has_card_In h c : has_card h c = true <-> In c h.
Proof.
  unfold has_card. rewrite existsb_exists. split.
  - intros (x & Hx & E). apply card_beq_true in E. subst; exact Hx.
  - intros H. exists c. split; [exact H|apply card_beq_true; reflexivity].
Qed.
Lemma remove_card_In h c x : In x (remove_card h c) <-> In x h /\ x <> c.
Proof.
  unfold remove_card. rewrite filter_In. split; intros [H1 H2]; split; try exact H1.
  - intros E. subst x. rewrite (proj2 (card_beq_true c c) eq_refl) in H2. discriminate.
  - destruct (card_beq c x) eqn:E; [|reflexivity]. apply card_beq_true in E. congruence.
Qed.

Lemma play_by_cases s c p :
  (p = pactive (hbase s) /\ In c (hands s p) /\
   play_by s c p = (mkH (play_card (hbase s) c)
                        (fun q => if seat_beq q p then remove_card (hands s q) c else hands s q), POk))
  \/ (~ (p = pactive (hbase s) /\ In c (hands s p)) /\ play_by s c p = (s, PRaises)).
Proof.
  unfold play_by. destruct (seat_beq p (pactive (hbase s))) eqn:E1; cbn [negb].
  - apply seat_beq_true in E1. destruct (has_card (hands s p) c) eqn:E2; cbn [negb].
    + apply has_card_In in E2. left. auto.
    + right. split; [|reflexivity]. intros [_ H]. apply has_card_In in H. congruence.
  - apply seat_beq_false in E1. right. split; [|reflexivity]. intros [H _]. contradiction.
Qed.

Lemma play_by_accept_iff : forall s c p,
  snd (play_by s c p) = POk <-> (p = pactive (hbase s) /\ In c (hands s p)).
Proof.
  intros s c p. destruct (play_by_cases s c p) as [(A & B & ->)|(A & ->)]; cbn [snd].
  - tauto.
  - split; [discriminate|tauto].
Qed.
Lemma play_by_refused_noop : forall s c p, snd (play_by s c p) = PRaises -> fst (play_by s c p) = s.
Proof.
  intros s c p. destruct (play_by_cases s c p) as [(A & B & ->)|(A & ->)]; cbn [fst snd]; [discriminate|reflexivity].
Qed.
Lemma play_by_accepted_effect : forall s c p, snd (play_by s c p) = POk ->
  hbase (fst (play_by s c p)) = play_card (hbase s) c /\
  (forall q x, In x (hands (fst (play_by s c p)) q) <-> (In x (hands s q) /\ ~ (q = p /\ x = c))).
Proof.
  intros s c p. destruct (play_by_cases s c p) as [(A & B & ->)|(A & ->)]; cbn [fst snd]; [|discriminate].
  intros _. split; [reflexivity|]. intros q x. cbn [hands].
  destruct (seat_beq q p) eqn:E.
  - apply seat_beq_true in E. rewrite remove_card_In. split; intros [H1 H2]; split; try exact H1; tauto.
  - apply seat_beq_false in E. tauto.
Qed.

Lemma runh_snoc s ops op : runh s (ops ++ [op]) = hstep (runh s ops) op.
Proof. unfold runh. rewrite fold_left_app. reflexivity. Qed.

Definition acc_step : hstate * list (card * seat) -> card * seat -> hstate * list (card * seat) :=
  fun '(st, acc) op => match play_by st (fst op) (snd op) with
                       | (st', POk) => (st', acc ++ [op]) | (_, PRaises) => (st, acc) end.
Lemma acc_fst s0 ops : fst (fold_left acc_step ops (s0, [])) = runh s0 ops.
Proof.
  induction ops as [|op ops IH] using rev_ind; [reflexivity|].
  rewrite fold_left_app, runh_snoc. cbn [fold_left]. rewrite <- IH.
  destruct (fold_left acc_step ops (s0, [])) as [st acc]. cbn [fst acc_step]. unfold hstep.
  destruct (play_by_cases st (fst op) (snd op)) as [(A & B & ->)|(A & ->)]; reflexivity.
Qed.
Lemma accepted_snoc s0 ops op :
  accepted_ops s0 (ops ++ [op]) =
  match snd (play_by (runh s0 ops) (fst op) (snd op)) with
  | POk => accepted_ops s0 ops ++ [op] | PRaises => accepted_ops s0 ops end.
Proof.
  unfold accepted_ops. fold acc_step. rewrite fold_left_app. cbn [fold_left]. rewrite <- acc_fst.
  destruct (fold_left acc_step ops (s0, [])) as [st acc]. cbn [fst snd acc_step].
  destruct (play_by st (fst op) (snd op)) as [st' []]; reflexivity.
Qed.

Lemma seat_dec (p q : seat) : p = q \/ p <> q.
Proof. destruct (seat_beq p q) eqn:E; [left; apply seat_beq_true|right; apply seat_beq_false]; exact E. Qed.
Lemma card_dec (p q : card) : p = q \/ p <> q.
Proof. destruct (card_beq p q) eqn:E; [left; apply card_beq_true|right; apply card_beq_false]; exact E. Qed.

Definition PInv (deal : seat -> list card) (s : hstate) (acc : list (card * seat)) : Prop :=
  (forall p c, In c (deal p) <-> (In c (hands s p) \/ In (c, p) acc)) /\
  (forall p c, In c (hands s p) -> ~ In (c, p) acc) /\
  disjoint_deal (hands s) /\
  NoDup (map fst acc) /\
  map fst acc = concat (map snd (tricks (hbase s))) ++ trick (hbase s).

Lemma NoDup_snoc {A} (l : list A) x : NoDup l -> ~ In x l -> NoDup (l ++ [x]).
Proof.
  intros H1 H2. apply NoDup_rev in H1. rewrite <- (rev_involutive (l ++ [x])). apply NoDup_rev.
  rewrite rev_app_distr. cbn. constructor; [|exact H1]. rewrite <- in_rev. exact H2.
Qed.

Lemma pinv_step deal s acc c p : disjoint_deal deal -> PInv deal s acc -> snd (play_by s c p) = POk ->
  PInv deal (fst (play_by s c p)) (acc ++ [(c, p)]).
Proof.
  intros HD (P1 & P2 & P3 & P4 & P5) Hok.
  pose proof (proj1 (play_by_accept_iff s c p) Hok) as [Hp Hc].
  destruct (play_by_accepted_effect s c p Hok) as [Hb Hh].
  set (s' := fst (play_by s c p)) in *.
  split; [|split; [|split; [|split]]].
  - intros q x. rewrite Hh, in_app_iff, P1. cbn [In]. split.
    + intros [H|H]; [|tauto].
      destruct (seat_dec q p) as [Eq|Eq]; [|tauto]. destruct (card_dec x c) as [Ex|Ex]; [|tauto].
      subst. tauto.
    + intros [[H _]|[H|[H|[]]]]; [tauto|tauto|]. inversion H; subst. tauto.
  - intros q x Hx. apply Hh in Hx. destruct Hx as [Hx Hne]. rewrite in_app_iff. cbn [In].
    intros [H|[H|[]]]; [exact (P2 q x Hx H)|]. inversion H; subst. tauto.
  - destruct P3 as [D1 D2]. split.
    + intros q. destruct (play_by_cases s c p) as [(A & B & E)|(A & E)].
      * unfold s'. rewrite E. cbn [fst hands]. destruct (seat_beq q p); [|apply D1].
        unfold remove_card. apply NoDup_filter. apply D1.
      * rewrite E in Hok. discriminate.
    + intros q r x Hqr Hx Hx'. apply Hh in Hx. apply Hh in Hx'. exact (D2 q r x Hqr (proj1 Hx) (proj1 Hx')).
  - rewrite map_app. cbn [map fst]. apply NoDup_snoc; [exact P4|].
    intros Hin. apply in_map_iff in Hin. destruct Hin as ([x q] & Hx & Hxq). cbn [fst] in Hx. subst x.
    destruct (seat_dec q p) as [Eq|Eq].
    + subst q. exact (P2 p c Hc Hxq).
    + assert (In c (deal q)) as H1 by (apply P1; right; exact Hxq).
      assert (In c (deal p)) as H2 by (apply P1; left; exact Hc).
      exact (proj2 HD q p c Eq H1 H2).
  - rewrite map_app. cbn [map fst]. rewrite Hb, hist_step, P5. reflexivity.
Qed.

Lemma init_hands_shape k deal s0 : init_hands k deal = Some s0 ->
  exists b, init_play k = Some b /\ s0 = mkH b deal.
Proof.
  unfold init_hands. destruct (init_play k) as [b|]; [|discriminate].
  intros H. inversion H. exists b. auto.
Qed.

Lemma partition_invariant : forall k deal s0 ops, init_hands k deal = Some s0 -> disjoint_deal deal ->
  let s := runh s0 ops in let acc := accepted_ops s0 ops in
  (forall p c, In c (deal p) <-> (In c (hands s p) \/ In (c, p) acc)) /\
  (forall p c, In c (hands s p) -> ~ In (c, p) acc) /\
  disjoint_deal (hands s) /\
  NoDup (map fst acc) /\
  map fst acc = concat (map snd (tricks (hbase s))) ++ trick (hbase s).
Proof.
  intros k deal s0 ops H HD. cbv zeta. change (PInv deal (runh s0 ops) (accepted_ops s0 ops)).
  destruct (init_hands_shape k deal s0 H) as (b & Hb & ->).
  induction ops as [|op ops IH] using rev_ind.
  - destruct (init_play_shape k b Hb) as (A & B & C & _).
    unfold PInv, runh, accepted_ops, tricks. cbn [fold_left snd hbase hands map]. rewrite A, C. cbn.
    split; [tauto|]. split; [tauto|]. split; [exact HD|]. split; [constructor|reflexivity].
  - rewrite runh_snoc, accepted_snoc. unfold hstep.
    destruct (snd (play_by (runh (mkH b deal) ops) (fst op) (snd op))) eqn:E.
    + destruct op as [c p]. cbn [fst snd] in *. apply pinv_step; assumption.
    + rewrite play_by_refused_noop by exact E. exact IH.
Qed.

Lemma used_step s c : used (play_card s c) = c :: used s.
Proof. unfold play_card. destruct (length (trick s ++ [c]) =? 4); reflexivity. Qed.
Lemma used_is_accepted k deal s0 ops : init_hands k deal = Some s0 ->
  used (hbase (runh s0 ops)) = rev (map fst (accepted_ops s0 ops)).
Proof.
  intros H. destruct (init_hands_shape k deal s0 H) as (b & Hb & ->).
  induction ops as [|op ops IH] using rev_ind.
  - destruct (init_play_shape k b Hb) as (_ & _ & _ & D & _). cbn. exact D.
  - rewrite runh_snoc, accepted_snoc. unfold hstep.
    destruct (snd (play_by (runh (mkH b deal) ops) (fst op) (snd op))) eqn:E.
    + destruct (play_by_accepted_effect _ _ _ E) as [Hb' _]. rewrite Hb', used_step, IH.
      rewrite map_app, rev_app_distr. reflexivity.
    + rewrite play_by_refused_noop by exact E. exact IH.
Qed.
Lemma used_cards_are_played : forall k deal s0 ops, init_hands k deal = Some s0 ->
  let s := runh s0 ops in forall c, In c (used (hbase s)) <-> In c (map fst (accepted_ops s0 ops)).
Proof.
  intros k deal s0 ops H s c. subst s. rewrite (used_is_accepted k deal s0 ops H). symmetry. apply in_rev.
Qed.

(* --- after 52 accepted cards every hand is empty --- *)
Definition byseat (p : seat) (acc : list (card * seat)) : list card :=
  map fst (filter (fun op => seat_beq (snd op) p) acc).
Lemma byseat_In p acc c : In c (byseat p acc) <-> In (c, p) acc.
Proof.
  unfold byseat. rewrite in_map_iff. split.
  - intros ([x q] & Hx & Hf). apply filter_In in Hf. destruct Hf as [Hf Hq]. cbn [fst snd] in *.
    apply seat_beq_true in Hq. subst. exact Hf.
  - intros H. exists (c, p). split; [reflexivity|]. apply filter_In. split; [exact H|apply seat_beq_refl].
Qed.
Lemma NoDup_map_filter {A B} (f : A -> B) g l : NoDup (map f l) -> NoDup (map f (filter g l)).
Proof.
  induction l as [|a l IH]; intros H; [constructor|]. cbn [map filter] in *. inversion H; subst.
  destruct (g a); [|apply IH; assumption]. cbn [map]. constructor; [|apply IH; assumption].
  intros Hin. apply in_map_iff in Hin. destruct Hin as (x & Hx & Hf). apply filter_In in Hf.
  apply H2. apply in_map_iff. exists x. tauto.
Qed.
Lemma byseat_total acc :
  length (byseat North acc) + length (byseat East acc) + length (byseat South acc) + length (byseat West acc) = length acc.
Proof.
  unfold byseat. induction acc as [|[c p] acc IH]; [reflexivity|].
  cbn [filter snd]. destruct p; cbn [seat_beq map length] in *; lia.
Qed.

Lemma empty_at_52 : forall k deal s0 ops, init_hands k deal = Some s0 -> disjoint_deal deal ->
  (forall p, length (deal p) = 13) -> length (accepted_ops s0 ops) = 52 ->
  forall p, hands (runh s0 ops) p = [].
Proof.
  intros k deal s0 ops H HD H13 H52 p.
  destruct (partition_invariant k deal s0 ops H HD) as (P1 & P2 & _ & P4 & _).
  set (acc := accepted_ops s0 ops) in *. set (s := runh s0 ops) in *.
  assert (forall q, NoDup (byseat q acc)) as ND by (intros q; apply NoDup_map_filter; exact P4).
  assert (forall q, incl (byseat q acc) (deal q)) as INC.
  { intros q c Hc. apply byseat_In in Hc. apply P1. right. exact Hc. }
  assert (forall q, length (byseat q acc) <= 13) as LE.
  { intros q. rewrite <- (H13 q). apply NoDup_incl_length; [apply ND|apply INC]. }
  pose proof (byseat_total acc) as TOT. rewrite H52 in TOT.
  pose proof (LE North). pose proof (LE East). pose proof (LE South). pose proof (LE West).
  assert (length (deal p) <= length (byseat p acc)) as GE by (rewrite H13; destruct p; lia).
  pose proof (NoDup_length_incl (ND p) GE (INC p)) as INC'.
  destruct (hands s p) as [|c h] eqn:E; [reflexivity|exfalso].
  assert (In c (hands s p)) as Hc by (rewrite E; left; reflexivity).
  apply (P2 p c Hc). apply byseat_In. apply INC'. apply P1. left. exact Hc.
Qed.

(* ================= C11 ================= *)
Lemma public_play_card b1 b2 c : public b1 = public b2 -> public (play_card b1 c) = public (play_card b2 c).
Proof.
  destruct b1 as [t1 d1 dm1 l1 a1 tk1 n1 r1 u1 ns1 ew1], b2 as [t2 d2 dm2 l2 a2 tk2 n2 r2 u2 ns2 ew2].
  unfold public, tricks. cbn [trump declarer dummy leader pactive trick trick_num rtricks taken_ns taken_ew].
  intros H. inversion H.
  match goal with E : rev _ = rev _ |- _ => apply (f_equal (@rev _)) in E; rewrite !rev_involutive in E end.
  subst. unfold play_card. cbn [trump declarer dummy leader pactive trick trick_num rtricks taken_ns taken_ew].
  destruct (length (tk2 ++ [c]) =? 4); reflexivity.
Qed.
Lemma public_fields b1 b2 : public b1 = public b2 -> pactive b1 = pactive b2 /\ dummy b1 = dummy b2.
Proof. unfold public. intros H. inversion H. auto. Qed.

Definition OR0 (me dm : seat) (o : ostate) (h : hstate) : Prop :=
  public (obase o) = public (hbase h) /\ ome o = me /\ dummy (hbase h) = dm /\
  (forall c, In c (ohand o) <-> In c (hands h me)).
Definition ODum (me dm : seat) (o : ostate) (h : hstate) : Prop :=
  exists dh, odummy o = Some dh /\ (me <> dm -> forall c, In c dh <-> In c (hands h dm)).

Lemma obs_sim0 me dm o h c p :
  OR0 me dm o h -> snd (play_by h c p) = POk -> (p = dm -> me <> dm -> ODum me dm o h) ->
  exists o', obs_play_by o c p = (o', POk) /\ OR0 me dm o' (fst (play_by h c p)) /\
             (ODum me dm o h -> ODum me dm o' (fst (play_by h c p))) /\
             (p <> dm -> odummy o' = odummy o).
Proof.
  intros (R1 & R2 & R3 & R4) Hok HD.
  pose proof (proj1 (play_by_accept_iff h c p) Hok) as [Hp Hc].
  destruct (play_by_accepted_effect h c p Hok) as [Hb Hh].
  set (h' := fst (play_by h c p)) in *.
  destruct (public_fields _ _ R1) as [Ea Ed].
  assert (dummy (hbase h') = dm) as R3'.
  { rewrite Hb. rewrite (proj2 (proj2 (play_card_static (hbase h) c))). exact R3. }
  assert (public (play_card (obase o) c) = public (hbase h')) as R1'.
  { rewrite Hb. apply public_play_card. exact R1. }
  unfold obs_play_by. rewrite Ea, <- Hp, seat_beq_refl. cbn [negb]. rewrite R2, Ed, R3. clear Hp.
  destruct (seat_beq p me) eqn:Em.
  - apply seat_beq_true in Em. subst p.
    assert (has_card (ohand o) c = true) as -> by (apply has_card_In; apply R4; exact Hc).
    cbn [negb]. eexists. split; [reflexivity|]. split; [|split].
    + split; [exact R1'|]. split; [reflexivity|]. split; [exact R3'|].
      intros x. cbn [ohand]. rewrite remove_card_In, Hh, R4. tauto.
    + intros (dh & D1 & D2). exists dh. cbn [odummy]. split; [exact D1|].
      intros Hne x. rewrite Hh, (D2 Hne x). split; [|tauto]. intros Hx. split; [exact Hx|]. intros [E _]. congruence.
    + reflexivity.
  - apply seat_beq_false in Em. destruct (seat_beq p dm) eqn:Edm.
    + apply seat_beq_true in Edm. subst p.
      assert (me <> dm) as Hne by congruence.
      destruct (HD eq_refl Hne) as (dh & D1 & D2). rewrite D1.
      assert (has_card dh c = true) as -> by (apply has_card_In; apply (D2 Hne); exact Hc).
      cbn [negb]. eexists. split; [reflexivity|]. split; [|split].
      * split; [exact R1'|]. split; [reflexivity|]. split; [exact R3'|].
        intros x. cbn [ohand]. rewrite Hh, R4. split; [|tauto]. intros Hx. split; [exact Hx|]. intros [E _]. congruence.
      * intros _. eexists. cbn [odummy]. split; [reflexivity|].
        intros _ x. rewrite remove_card_In, Hh, (D2 Hne x). tauto.
      * intros E; congruence.
    + apply seat_beq_false in Edm. eexists. split; [reflexivity|]. split; [|split].
      * split; [exact R1'|]. split; [reflexivity|]. split; [exact R3'|].
        intros x. cbn [ohand]. rewrite Hh, R4. split; [|tauto]. intros Hx. split; [exact Hx|]. intros [E _]. congruence.
      * intros (dh & D1 & D2). exists dh. cbn [odummy]. split; [exact D1|].
        intros Hne x. rewrite Hh, (D2 Hne x). split; [|tauto]. intros Hx. split; [exact Hx|]. intros [E _]. congruence.
      * reflexivity.
Qed.

Definition OR (me dm : seat) (o : ostate) (h : hstate) : Prop := OR0 me dm o h /\ ODum me dm o h.

Lemma ostep_sim me dm dc o h c p : OR me dm o h -> snd (play_by h c p) = POk ->
  exists o', ostep dc o (c, p) = (o', POk) /\ OR me dm o' (fst (play_by h c p)).
Proof.
  intros [R0 RD] Hok.
  destruct (obs_sim0 me dm o h c p R0 Hok (fun _ _ => RD)) as (o' & E & R0' & RD' & _).
  exists o'. specialize (RD' RD). split; [|split; assumption].
  unfold ostep. cbn [fst snd]. rewrite E. cbn [fst snd]. destruct RD' as (dh & -> & _). reflexivity.
Qed.

Definition orun (dc : list card) (o : ostate) (ops : list (card * seat)) : ostate :=
  fold_left (fun o op => fst (ostep dc o op)) ops o.
Definition all_accepted (h : hstate) (ops : list (card * seat)) : Prop :=
  forall i, i < length ops ->
    snd (play_by (runh h (firstn i ops)) (fst (nth i ops (cn 0, North))) (snd (nth i ops (cn 0, North)))) = POk.
Lemma all_accepted_cons h op ops : all_accepted h (op :: ops) ->
  snd (play_by h (fst op) (snd op)) = POk /\ all_accepted (hstep h op) ops.
Proof.
  intros H. split.
  - apply (H 0). cbn [length]. lia.
  - intros i Hi. apply (H (S i)). cbn [length]. lia.
Qed.

Lemma sim_run me dm dc : forall rest o h, OR me dm o h -> all_accepted h rest ->
  (forall i, i < length rest -> snd (ostep dc (orun dc o (firstn i rest)) (nth i rest (cn 0, North))) = POk) /\
  OR me dm (orun dc o rest) (runh h rest).
Proof.
  induction rest as [|[c p] rest IH]; intros o h HR Hacc.
  - split; [intros i Hi; cbn [length] in Hi; lia|exact HR].
  - apply all_accepted_cons in Hacc. destruct Hacc as [H0 Hacc]. cbn [fst snd] in H0.
    destruct (ostep_sim me dm dc o h c p HR H0) as (o' & Ho & HR').
    destruct (IH o' (hstep h (c, p)) HR' Hacc) as [IHa IHb].
    split.
    + intros [|i] Hi; cbn [firstn nth orun fold_left].
      * rewrite Ho. reflexivity.
      * rewrite Ho. cbn [fst]. apply IHa. cbn [length] in Hi. lia.
    + unfold orun, runh. cbn [fold_left]. rewrite Ho. cbn [fst]. exact IHb.
Qed.

Lemma first_not_dummy k b : init_play k = Some b -> pactive b <> dummy b.
Proof.
  intros H. destruct (opening k b H) as (l & st & d & _ & _ & _ & _ & Hd & _ & Hp & _).
  rewrite Hd, Hp. destruct d; discriminate.
Qed.

Lemma observer_first k deal s0 me o0 c p dc : init_hands k deal = Some s0 ->
  init_obs k me (deal me) = Some o0 ->
  snd (play_by s0 c p) = POk ->
  dc = hands (fst (play_by s0 c p)) (dummy (hbase s0)) ->
  exists o1, ostep dc o0 (c, p) = (o1, POk) /\ OR me (dummy (hbase s0)) o1 (fst (play_by s0 c p)).
Proof.
  intros H Ho Hok Hdc.
  destruct (init_hands_shape k deal s0 H) as (b & Hb & ->).
  unfold init_obs in Ho. rewrite Hb in Ho. cbn [option_map] in Ho. inversion Ho; subst o0. clear Ho.
  cbn [hbase] in *.
  assert (OR0 me (dummy b) (mkO b me (deal me) None) (mkH b deal)) as R0.
  { split; [reflexivity|]. split; [reflexivity|]. split; [reflexivity|]. intros x. cbn. tauto. }
  pose proof (proj1 (play_by_accept_iff _ c p) Hok) as [Hp _]. cbn [hbase] in Hp.
  assert (p <> dummy b) as Hnd by (rewrite Hp; apply (first_not_dummy k b Hb)).
  destruct (obs_sim0 me (dummy b) _ _ c p R0 Hok) as (o' & E & R0' & _ & Hod).
  { intros Hpd. contradiction. }
  specialize (Hod Hnd). cbn [odummy] in Hod.
  exists (set_dummy_hand o' dc). split.
  - unfold ostep. cbn [fst snd]. rewrite E. cbn [fst snd]. rewrite Hod. reflexivity.
  - destruct R0' as (A1 & A2 & A3 & A4). split.
    + split; [exact A1|]. split; [exact A2|]. split; [exact A3|exact A4].
    + exists dc. split; [reflexivity|]. intros _ x. rewrite Hdc. tauto.
Qed.

Lemma observer_agrees : forall k deal s0 me o0 ops, init_hands k deal = Some s0 -> disjoint_deal deal ->
  init_obs k me (deal me) = Some o0 ->
  (* ops are plays the full-information game accepts, one after the other *)
  (forall i, i < length ops -> snd (play_by (runh s0 (firstn i ops)) (fst (nth i ops (cn 0, North))) (snd (nth i ops (cn 0, North)))) = POk) ->
  let dummy_cards := match ops with [] => [] | op :: _ => hands (runh s0 [op]) (dummy (hbase s0)) end in
  let o := fold_left (fun o op => fst (ostep dummy_cards o op)) ops o0 in
  (* every step is accepted by the observer *)
  (forall i, i < length ops -> snd (ostep dummy_cards (fold_left (fun o op => fst (ostep dummy_cards o op)) (firstn i ops) o0) (nth i ops (cn 0, North))) = POk) /\
  public (obase o) = public (hbase (runh s0 ops)) /\
  (forall c, In c (ohand o) <-> In c (hands (runh s0 ops) me)) /\
  (ops <> [] -> me <> dummy (hbase s0) -> exists dh, odummy o = Some dh /\ forall c, In c dh <-> In c (hands (runh s0 ops) (dummy (hbase s0)))).
Proof.
  intros k deal s0 me o0 ops H _ Ho Hacc.
  destruct ops as [|[c p] rest].
  - cbv zeta. cbn [fold_left length firstn]. split; [intros i Hi; lia|].
    destruct (init_hands_shape k deal s0 H) as (b & Hb & ->).
    unfold init_obs in Ho. rewrite Hb in Ho. cbn [option_map] in Ho. inversion Ho; subst o0.
    cbn. split; [reflexivity|]. split; [tauto|]. intros E; congruence.
  - intros dc o. fold (orun dc o0 ((c, p) :: rest)) in o.
    change (all_accepted s0 ((c, p) :: rest)) in Hacc.
    apply all_accepted_cons in Hacc. destruct Hacc as [H0 Hacc]. cbn [fst snd] in H0.
    destruct (observer_first k deal s0 me o0 c p dc H Ho H0 eq_refl) as (o1 & E1 & R1).
    destruct (sim_run me (dummy (hbase s0)) dc rest o1 (hstep s0 (c, p)) R1 Hacc) as [Sa Sb].
    assert (o = orun dc o1 rest) as Eo.
    { unfold o, orun. cbn [fold_left]. rewrite E1. reflexivity. }
    assert (runh s0 ((c, p) :: rest) = runh (hstep s0 (c, p)) rest) as Er by reflexivity.
    rewrite Eo, Er. destruct Sb as [(B1 & B2 & B3 & B4) (dh & D1 & D2)].
    split; [|split; [exact B1|split; [exact B4|]]].
    + intros [|i] Hi; cbn [firstn nth fold_left].
      * rewrite E1. reflexivity.
      * rewrite E1. cbn [fst]. apply Sa. cbn [length] in Hi. lia.
    + intros _ Hne. exists dh. split; [exact D1|exact (D2 Hne)].
Qed.

(* ================= non-vacuity: a complete board ================= *)
(* 4S by South; West leads.  Trick 1: H2 H9, East ruffs with S2, South over-ruffs with S5. *)
Fixpoint nodupb (l : list card) : bool :=
  match l with [] => true | x :: r => negb (has_card r x) && nodupb r end.
Lemma nodupb_sound l : nodupb l = true -> NoDup l.
Proof.
  induction l as [|x r IH]; intros H; [constructor|]. cbn [nodupb] in H.
  apply andb_true_iff in H. destruct H as [H1 H2]. constructor; [|apply IH; exact H2].
  intros Hin. apply has_card_In in Hin. rewrite Hin in H1. discriminate.
Qed.
Definition disjoint_dealb (deal : seat -> list card) : bool :=
  forallb (fun p => nodupb (deal p)) all_seats &&
  forallb (fun p => forallb (fun q => seat_beq p q || forallb (fun c => negb (has_card (deal q) c)) (deal p)) all_seats) all_seats.
Lemma all_seats_complete p : In p all_seats.
Proof. destruct p; cbn; tauto. Qed.
Lemma disjoint_dealb_sound deal : disjoint_dealb deal = true -> disjoint_deal deal.
Proof.
  unfold disjoint_dealb. intros H. apply andb_true_iff in H. destruct H as [H1 H2].
  rewrite forallb_forall in H1, H2. split.
  - intros p. apply nodupb_sound. apply H1. apply all_seats_complete.
  - intros p q c Hpq Hp Hq. specialize (H2 p (all_seats_complete p)). rewrite forallb_forall in H2.
    specialize (H2 q (all_seats_complete q)). apply orb_true_iff in H2. destruct H2 as [H2|H2].
    + apply seat_beq_true in H2. contradiction.
    + rewrite forallb_forall in H2. specialize (H2 c Hp). apply has_card_In in Hq. rewrite Hq in H2. discriminate.
Qed.

Definition ex_k : contract := mkcontract (Some (L4, Tr Sp)) false false VNone (Some South).
Definition ex_deal (p : seat) : list card :=
  map cn match p with
         | West => [26;27;28;29;30;31;32; 0;1;2;3;4;5]
         | North => [33;34;35;36;37;38; 6;7;8;9;10;11;12]
         | East => [39;40;41;46; 13;14;15;16;17;18;19;20;21]
         | South => [42;43;44;45;47;48;49;50;51; 22;23;24;25] end.
Definition ex_ops : list (card * seat) :=
  map (fun x => (cn (fst x), sn (snd x)))
    [(26, 3); (33, 0); (39, 1); (42, 2);   (43, 2); (27, 3); (34, 0); (40, 1);
     (44, 2); (28, 3); (35, 0); (41, 1);   (45, 2); (29, 3); (36, 0); (46, 1);
     (13, 1); (22, 2); (30, 3); (37, 0);   (47, 2); (31, 3); (38, 0); (14, 1);
     (48, 2); (32, 3); (6, 0); (15, 1);    (49, 2); (0, 3); (7, 0); (16, 1);
     (50, 2); (1, 3); (8, 0); (17, 1);     (51, 2); (2, 3); (9, 0); (18, 1);
     (23, 2); (3, 3); (10, 0); (19, 1);    (24, 2); (4, 3); (11, 0); (20, 1);
     (25, 2); (5, 3); (12, 0); (21, 1)].

Example ex_deal_ok : disjoint_deal ex_deal /\ forall p, length (ex_deal p) = 13.
Proof.
  split; [apply disjoint_dealb_sound; vm_compute; reflexivity|]. intros []; reflexivity.
Qed.
(* the ruff and the over-ruff, judged by the Laws: spades are trumps, the S5 (fourth card) beats the S2 *)
Example ex_overruff :
  let four := [mkcard R2 He; mkcard R9 He; mkcard R2 Sp; mkcard R5 Sp] in
  winner (Tr Sp) four = 3 /\ winner_idx (Tr Sp) four = 3 /\
  eligible (Tr Sp) four (mkcard R9 He) = false /\ eligible (Tr Sp) four (mkcard R2 Sp) = true /\
  winner (Tr Sp) [mkcard R2 He; mkcard R9 He; mkcard R2 Sp] = 2 /\ winner NT four = 1.
Proof. vm_compute. repeat split; reflexivity. Qed.

Example ex_board : exists s0, init_hands ex_k ex_deal = Some s0 /\
  length ex_ops = 52 /\ accepted_ops s0 ex_ops = ex_ops /\
  let e := runh s0 ex_ops in
  phase_done (hbase e) = true /\ length (tricks (hbase e)) = 13 /\
  (forall p, hands e p = []) /\
  nth_error (tricks (hbase e)) 0 = Some (West, [mkcard R2 He; mkcard R9 He; mkcard R2 Sp; mkcard R5 Sp]) /\
  option_map fst (nth_error (tricks (hbase e)) 1) = Some South /\
  nth_error (tricks (hbase e)) 4 = Some (East, [mkcard R2 Di; mkcard RJ Di; mkcard R6 He; mkcard RK He]) /\
  taken_ns (hbase e) = 12 /\ taken_ew (hbase e) = 1 /\
  phase_done (hbase (runh s0 (firstn 51 ex_ops))) = false.
Proof.
  eexists. split; [reflexivity|]. split; [reflexivity|]. split; [vm_compute; reflexivity|].
  cbv zeta. split; [vm_compute; reflexivity|]. split; [vm_compute; reflexivity|].
  split; [intros []; vm_compute; reflexivity|].
  vm_compute. repeat split; reflexivity.
Qed.
(* refusals: out of turn, card not held; and the bare environment accepts a revoke *)
Example ex_refusals : exists s0, init_hands ex_k ex_deal = Some s0 /\
  snd (play_by s0 (cn 33) North) = PRaises /\ snd (play_by s0 (cn 33) West) = PRaises /\
  snd (play_by s0 (cn 26) West) = POk /\
  accepted_ops s0 [(cn 33, North); (cn 33, West); (cn 26, West); (cn 26, West); (cn 6, North)]
    = [(cn 26, West); (cn 6, North)].
Proof. eexists. split; [reflexivity|]. vm_compute. repeat split; reflexivity. Qed.
(* the observer theorem applies to this board: its hypothesis holds for every prefix *)
Example ex_observer_hyp : exists s0, init_hands ex_k ex_deal = Some s0 /\
  forall i, i < length ex_ops ->
    snd (play_by (runh s0 (firstn i ex_ops)) (fst (nth i ex_ops (cn 0, North))) (snd (nth i ex_ops (cn 0, North)))) = POk.
Proof.
  eexists. split; [reflexivity|]. intros i Hi. change (length ex_ops) with 52 in Hi.
  do 52 (destruct i as [|i]; [vm_compute; reflexivity|]). lia.
Qed.

(* ... and, computed directly, each of the four observers ends in agreement with the full game
   (dummy's own copy of the dummy hand is not maintained: dummy plays from ohand) *)
Example ex_observer_run : forall me, exists s0 o0, init_hands ex_k ex_deal = Some s0 /\
  init_obs ex_k me (ex_deal me) = Some o0 /\
  let dc := hands (runh s0 (firstn 1 ex_ops)) (dummy (hbase s0)) in
  let o := orun dc o0 ex_ops in
  public (obase o) = public (hbase (runh s0 ex_ops)) /\ ohand o = [] /\
  (if seat_beq me (dummy (hbase s0)) then True else odummy o = Some []) /\
  ohand (orun dc o0 (firstn 5 ex_ops)) = hands (runh s0 (firstn 5 ex_ops)) me.
Proof.
  intros me. eexists. eexists. split; [reflexivity|]. split; [reflexivity|].
  destruct me; vm_compute; repeat split; reflexivity.
Qed.

Print Assumptions opening.
Print Assumptions winner_idx_wins.
Print Assumptions wins_unique.
Print Assumptions winner_idx_is_spec_winner.
Print Assumptions calc_highest_spec.
Print Assumptions calc_highest_NT.
Print Assumptions counters.
Print Assumptions history_is_the_cards.
Print Assumptions mid_trick_step.
Print Assumptions trick_done_step.
Print Assumptions thirteen_tricks.
Print Assumptions not_done_before_52.
Print Assumptions recorded_leaders.
Print Assumptions available_spec.
Print Assumptions available_leading.
Print Assumptions available_nonempty.
Print Assumptions available_subset.
Print Assumptions available_follow.
Print Assumptions available_void.
Print Assumptions current_available_is_available.
Print Assumptions choice_in_set.
Print Assumptions play_by_accept_iff.
Print Assumptions play_by_refused_noop.
Print Assumptions play_by_accepted_effect.
Print Assumptions partition_invariant.
Print Assumptions used_cards_are_played.
Print Assumptions empty_at_52.
Print Assumptions observer_agrees.
Print Assumptions ex_deal_ok.
Print Assumptions ex_overruff.
Print Assumptions ex_board.
Print Assumptions ex_refusals.
Print Assumptions ex_observer_hyp.
Print Assumptions ex_observer_run.
