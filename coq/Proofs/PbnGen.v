(* The functions GENERATED from the text of class PbnWriter (bridge_env/data_handler/pbn_handler/writer.py) by
   harness/gen_pbnw.py (Gen/PbnFns.v) equal the writer part of the hand-written model Model/Pbn.v - for ALL arguments.
   The translation is faithful where the hand model is silent: every exception is a None result.
     - write_line raises IndexError on the empty string (`string[-1]`): g_write_line "" = None; on every other
       string it is the model's write_line.  The model tests the last character with ends_with_lf (on a reversed
       copy), the code with `string[-1] != LF`; the model cuts with fuel `String.length s` and `[s]` at fuel 0, the
       generated loop with fuel `S (String.length s)` and None at fuel 0: equal by induction (wl_loop_eq) - the fuel
       is always enough, so None is never the loop's answer.
     - write_tag_pair asserts `tag[0].isupper()`: the model has no such guard; g_write_tag_pair is the model's
       function exactly when the tag starts with an upper-case letter, and None otherwise (empty tag included).
     - write_board_result: no hypothesis.  The fifteen tag names are literals of the source; each starts with an
       upper-case letter, which is decided by computation on the literal where it is used (g_tag_upper .. by
       reflexivity), so the guard of write_tag_pair is dead there; the two asserts of the method and the assert in
       Hands.to_pbn are the model's three None cases.
   A change of the code of writer.py changes Gen/PbnFns.v and breaks one of these proofs (or the translator refuses
   the source). *)
From BE Require Import Model.Pbn Gen.PbnFns.
From BE Require Import Model.CaseLib.        (* bs: the byte-string literal of the generated file *)
From Coq Require Import Lia.
Local Open Scope string_scope.
Local Open Scope nat_scope.
Local Open Scope list_scope.
Local Infix "+++" := String.append (right associativity, at level 60).

(* ------------------------------------------------------------------ strings: length, substring, last character *)
Lemma slen_app (a b : string) : String.length (a +++ b) = String.length a + String.length b.
Proof. induction a as [|c a IH]; cbn [String.append String.length]; [reflexivity | rewrite IH; reflexivity]. Qed.

Lemma slen_substring : forall s n m, String.length (substring n m s) = Nat.min m (String.length s - n).
Proof.
  induction s as [|c s IH]; intros n m.
  - destruct n, m; reflexivity.
  - destruct n as [|n].
    + destruct m as [|m]; cbn [substring String.length]; [reflexivity|]. rewrite IH. cbn [Nat.sub Nat.min].
      rewrite Nat.sub_0_r. reflexivity.
    + cbn [substring String.length Nat.sub]. apply IH.
Qed.

(* asking for more characters than there are gives what there is *)
Lemma substring_over : forall s n m1 m2, String.length s - n <= m1 -> String.length s - n <= m2 ->
  substring n m1 s = substring n m2 s.
Proof.
  induction s as [|c s IH]; intros n m1 m2 H1 H2.
  - destruct n, m1, m2; reflexivity.
  - destruct n as [|n].
    + cbn [String.length Nat.sub] in H1, H2. destruct m1 as [|m1]; [lia|]. destruct m2 as [|m2]; [lia|].
      cbn [substring]. f_equal. apply IH; rewrite Nat.sub_0_r; lia.
    + cbn [substring]. apply IH; cbn [String.length Nat.sub] in H1, H2; assumption.
Qed.

(* the two slices the prelude defines are the two parts of the string (so they are s[:j] and s[j:]) *)
Lemma py_slices_split : forall s j, py_slice_to j s +++ py_slice_from j s = s.
Proof.
  unfold py_slice_to, py_slice_from. induction s as [|c s IH]; intros j.
  - destruct j; reflexivity.
  - destruct j as [|j].
    + cbn [String.length Nat.sub substring String.append]. f_equal. clear IH.
      induction s as [|d s IH]; [reflexivity|]. cbn [String.length substring]. f_equal. exact IH.
    + cbn [String.length Nat.sub substring String.append]. f_equal. apply IH.
Qed.
Lemma py_slice_to_len : forall s j, String.length (py_slice_to j s) = Nat.min j (String.length s).
Proof. intros s j. unfold py_slice_to. rewrite slen_substring, Nat.sub_0_r. reflexivity. Qed.

(* the first character of the reversed string is the last character *)
Definition head_char (s : string) : option ascii := match s with String a _ => Some a | EmptyString => None end.
Lemma rev_acc_head : forall s acc,
  head_char (str_rev_acc s acc) = match py_last_char s with Some b => Some b | None => head_char acc end.
Proof.
  induction s as [|a r IH]; intros acc; [reflexivity|].
  cbn [str_rev_acc py_last_char]. rewrite IH. destruct (py_last_char r); reflexivity.
Qed.
Lemma ends_with_lf_last : forall s,
  ends_with_lf s = match py_last_char s with Some a => Ascii.eqb a LF | None => false end.
Proof.
  intros s. unfold ends_with_lf, str_rev. pose proof (rev_acc_head s EmptyString) as H.
  destruct (str_rev_acc s ""), (py_last_char s); cbn [head_char] in H; try discriminate; [reflexivity|].
  injection H as ->. reflexivity.
Qed.
Lemma py_last_char_none : forall s, py_last_char s = None -> s = "".
Proof. intros [|a r]; [reflexivity|]. cbn [py_last_char]. destruct (py_last_char r); discriminate. Qed.
Lemma one_char_eqb : forall a b, String.eqb (String a "") (String b "") = Ascii.eqb a b.
Proof. intros a b. cbn [String.eqb]. destruct (Ascii.eqb a b); reflexivity. Qed.

(* ------------------------------------------------------------------ write_line *)
(* the loop: with any fuel above the length it finishes, and what it wrote plus what is left is the model's list *)
Lemma wl_loop_eq : forall f g s, String.length s < f -> String.length s <= g ->
  match g_write_line_loop1 f s with
  | Some (p, r) => write_line_fuel g s = p ++ [r]
  | None => False end.
Proof.
  induction f as [|f IH]; intros g s Hf Hg; [lia|].
  cbn [g_write_line_loop1]. change k_max_line_chars with 255. change (255 - 1) with 254.
  destruct (255 <? String.length s) eqn:E.
  - apply Nat.ltb_lt in E. destruct g as [|g]; [lia|].
    cbn [write_line_fuel]. apply Nat.ltb_lt in E. rewrite E. apply Nat.ltb_lt in E. cbv zeta.
    assert (L : String.length (py_slice_from 254 s) = String.length s - 254).
    { unfold py_slice_from. rewrite slen_substring. apply Nat.min_id. }
    specialize (IH g (py_slice_from 254 s)). rewrite L in IH.
    assert (H1 : String.length s - 254 < f) by lia. assert (H2 : String.length s - 254 <= g) by lia.
    specialize (IH H1 H2).
    destruct (g_write_line_loop1 f (py_slice_from 254 s)) as [[p r]|]; [|exact IH].
    replace (substring 254 (String.length s) s) with (py_slice_from 254 s)
      by (unfold py_slice_from; apply substring_over; lia).
    rewrite IH. reflexivity.
  - destruct g as [|g]; cbn [write_line_fuel]; [|rewrite E]; reflexivity.
Qed.

Theorem g_write_line_empty : g_write_line "" = None.
Proof. reflexivity. Qed.

Theorem g_write_line_eq : forall s, s <> "" -> g_write_line s = Some (write_line s).
Proof.
  intros s Hs. unfold g_write_line, write_line, py_last. rewrite ends_with_lf_last.
  destruct (py_last_char s) as [a|] eqn:El; [|apply py_last_char_none in El; contradiction].
  cbn [option_map]. change (bs [10]) with (String LF ""). rewrite one_char_eqb. cbv zeta.
  set (s' := if negb (Ascii.eqb a LF) then s +++ String LF "" else s).
  replace (if Ascii.eqb a LF then s else s +++ String LF "") with s'
    by (unfold s'; destruct (Ascii.eqb a LF); reflexivity).
  pose proof (wl_loop_eq (S (String.length s')) (String.length s') s' (Nat.lt_succ_diag_r _) (Nat.le_refl _)) as H.
  destruct (g_write_line_loop1 (S (String.length s')) s') as [[p r]|]; [|contradiction].
  rewrite H. reflexivity.
Qed.

(* both cases in one statement *)
Corollary g_write_line_spec : forall s,
  g_write_line s = match s with EmptyString => None | String _ _ => Some (write_line s) end.
Proof. intros [|a r]; [reflexivity|]. apply g_write_line_eq. discriminate. Qed.

(* ------------------------------------------------------------------ write_tag_pair *)
(* str.isupper of a one-character string: the character is an upper-case letter *)
Lemma py_isupper_char : forall a, py_isupper (String a "") = is_upper a.
Proof. intros [[] [] [] [] [] [] [] []]; reflexivity. Qed.

Theorem g_write_tag_pair_eq : forall tag content,
  g_write_tag_pair tag content =
  match tag with
  | String a _ => if is_upper a then Some (write_tag_pair tag content) else None
  | EmptyString => None end.
Proof.
  intros [|a t] content; [reflexivity|].
  unfold g_write_tag_pair, write_tag_pair. cbn [py_first]. rewrite py_isupper_char.
  destruct (is_upper a); [|reflexivity].
  rewrite g_write_line_eq by discriminate. reflexivity.
Qed.

(* the form used for the literal tags of write_board_result: the hypothesis is decided by computation *)
Corollary g_tag_upper : forall a t content, is_upper a = true ->
  g_write_tag_pair (String a t) content = Some (write_tag_pair (String a t) content).
Proof. intros a t content H. rewrite g_write_tag_pair_eq, H. reflexivity. Qed.

(* ------------------------------------------------------------------ write_header *)
Theorem g_write_header_eq : g_write_header = Some write_header.
Proof. vm_compute. reflexivity. Qed.

(* ------------------------------------------------------------------ write_board_result *)
(* str() of a Player: the model's seat_str is the pinned member-name table *)
Theorem seat_str_names : map (fun p => (p, seat_str p)) all_seats = py_player_names.
Proof. reflexivity. Qed.
(* scoring.value is the stored string *)
Theorem py_scoring_value_id : forall s, py_scoring_value s = s.
Proof. reflexivity. Qed.

Theorem g_write_board_result_eq : forall x, g_write_board_result x = write_board_result x.
Proof.
  intros x. unfold g_write_board_result, write_board_result, tags15. cbv zeta.
  rewrite !g_tag_upper by reflexivity. cbv beta iota.
  destruct (r_date x) as [[y m] d]. cbn [py_date_Y py_date_m py_date_d].
  destruct (0 <? r_board x); cbn [negb]; [|reflexivity].
  destruct (to_pbn (r_deal x) (r_dealer x)) as [dl|].
  - rewrite g_tag_upper by reflexivity.          (* the Deal pair: its content was bound by the match *)
    cbv beta iota. unfold py_is_none, py_str_opt, py_scoring_value.
    destruct (is_passed_out (r_contract x)), (r_taken x) as [t|]; cbn [negb Bool.eqb];
      try reflexivity;
      (cbn [flat_map]; change (bs [10]) with (String LF ""); rewrite app_nil_r, <- !app_assoc; reflexivity).
  - destruct (is_passed_out (r_contract x)), (r_taken x); reflexivity.
Qed.

(* the same through the tag list: the chunks are the fifteen tag pairs of tags15 in order, then the empty line *)
Corollary g_write_board_result_tags : forall x ts l,
  tags15 x = Some ts -> g_write_board_result x = Some l ->
  l = flat_map (fun '(n, v) => write_tag_pair n v) ts ++ [String LF ""].
Proof.
  intros x ts l Ht Hg. rewrite g_write_board_result_eq in Hg. unfold write_board_result in Hg. rewrite Ht in Hg.
  destruct (negb (0 <? r_board x)); [discriminate|].
  destruct (negb _); [discriminate|]. injection Hg as <-. reflexivity.
Qed.

(* ------------------------------------------------------------------ examples (non-vacuity) *)
Fixpoint srepeat (n : nat) (a : ascii) : string := match n with 0 => "" | S k => String a (srepeat k a) end.
Definition ln (s : string) : string := s +++ String LF "".

(* a tag pair of 310 characters (311 with the newline) is cut after 254 characters: 255 + 57 *)
Example ex_long_tag_pair :
  option_map (map String.length) (g_write_tag_pair "Event" (srepeat 300 "a")) = Some [255; 57]
  /\ option_map (@sconcat) (g_write_tag_pair "Event" (srepeat 300 "a"))
     = Some ("[Event """ +++ srepeat 246 "a" +++ String LF (srepeat 54 "a" +++ """]" +++ String LF "")).
Proof. split; vm_compute; reflexivity. Qed.

(* the two asserts of write_tag_pair's caller and of write_tag_pair itself *)
Example ex_guards :
  g_write_tag_pair "event" "x" = None /\ g_write_tag_pair "" "x" = None /\ g_write_line "" = None
  /\ g_write_line "ab" = Some [ln "ab"] /\ g_write_line (ln "ab") = Some [ln "ab"].
Proof. repeat split; vm_compute; reflexivity. Qed.

Definition ex_deal : deal := fun _ => [].
Definition ex_played : pbn_result :=
  mkResult "Ev" "Site" (2024, 3, 9) 7 (fun p => seat_str p +++ "-player") East ex_deal "IMP"
           (mkcontract (Some (L3, NT)) true false VNS (Some South)) (Some 9).
Definition ex_passed : pbn_result :=
  mkResult "Ev" "Site" (2024, 12, 25) 12 (fun p => seat_str p) North ex_deal "MP"
           (mkcontract None false false VBoth None) None.

Example ex_board_played :
  option_map (@sconcat) (g_write_board_result ex_played) =
  Some (sconcat (map ln ["[Event ""Ev""]"; "[Site ""Site""]"; "[Date ""2024.03.09""]"; "[Board ""7""]";
                         "[West ""W-player""]"; "[North ""N-player""]"; "[East ""E-player""]"; "[South ""S-player""]";
                         "[Dealer ""E""]"; "[Vulnerable ""NS""]"; "[Deal ""E:- - - -""]"; "[Scoring ""IMP""]";
                         "[Declarer ""S""]"; "[Contract ""3NTX""]"; "[Result ""9""]"; ""])).
Proof. vm_compute. reflexivity. Qed.

Example ex_board_passed_out :
  option_map (@sconcat) (g_write_board_result ex_passed) =
  Some (sconcat (map ln ["[Event ""Ev""]"; "[Site ""Site""]"; "[Date ""2024.12.25""]"; "[Board ""12""]";
                         "[West ""W""]"; "[North ""N""]"; "[East ""E""]"; "[South ""S""]";
                         "[Dealer ""N""]"; "[Vulnerable ""All""]"; "[Deal ""N:- - - -""]"; "[Scoring ""MP""]";
                         "[Declarer """"]"; "[Contract ""Pass""]"; "[Result """"]"; ""])).
Proof. vm_compute. reflexivity. Qed.

(* the asserts: board number 0; a result for a passed-out board; no result for a played one *)
Example ex_board_asserts :
  g_write_board_result (mkResult "Ev" "Site" (2024, 3, 9) 0 seat_str East ex_deal "IMP" (r_contract ex_played) (Some 9)) = None
  /\ g_write_board_result (mkResult "Ev" "Site" (2024, 3, 9) 7 seat_str East ex_deal "IMP" (r_contract ex_passed) (Some 0)) = None
  /\ g_write_board_result (mkResult "Ev" "Site" (2024, 3, 9) 7 seat_str East ex_deal "IMP" (r_contract ex_played) None) = None.
Proof. repeat split; vm_compute; reflexivity. Qed.

Print Assumptions py_slices_split.
Print Assumptions py_slice_to_len.
Print Assumptions wl_loop_eq.
Print Assumptions g_write_line_empty.
Print Assumptions g_write_line_eq.
Print Assumptions g_write_line_spec.
Print Assumptions g_write_tag_pair_eq.
Print Assumptions g_tag_upper.
Print Assumptions g_write_header_eq.
Print Assumptions seat_str_names.
Print Assumptions py_scoring_value_id.
Print Assumptions g_write_board_result_eq.
Print Assumptions g_write_board_result_tags.
Print Assumptions ex_long_tag_pair.
Print Assumptions ex_guards.
Print Assumptions ex_board_played.
Print Assumptions ex_board_passed_out.
Print Assumptions ex_board_asserts.
