(* Stretch goal 2: completion of EVERY conforming session (Model/Conform.v), building on Proofs/SessionPassOut.v.
   Stages, all in continuation-passing form over [reach] (SessionPassOut.v) with universally quantified continuations:
   round_general / auction_general (any auction accepted by seq_calls), card_round (one card, any seat on turn,
   lead prompt or not), opening_lead / dummy_shown (the first two cards, Dummy's hand shown), play_general / play_all
   (the 52 cards along seq_cards, the four observers kept in step by Proofs/Play.v's obs_sim0), board_deal /
   board_passed / board_played / board_general (one board; the record logged is Model/Conform.v's model_record),
   loop_general (the list of logged records), startup_general, conforming_session_full / conforming_session_recs, the two theorems.
   Every phase lemma also says exactly what is sent down each of the four sockets (relay_to, card_to, dummy_to,
   auction_view, play_view, board_view, views_from, down_view); what the clients send up stays existentially quantified.
   Standard library only; closed under the global context. *)
From BE Require Import Model.Session Model.Conform Proofs.Kahn Proofs.Session Proofs.Wire Proofs.SessionPassOut.
From BE Require Proofs.Play.
From Coq Require Import Lia ZArith.
Local Open Scope string_scope.
Local Open Scope nat_scope.
Local Open Scope list_scope.

(* ===================================================================== an automatic scheduler; one round of the auction for any scripted call *)
(* ---------- an automatic scheduler: run every thread as far as it can go ---------- *)
(* [evh t]: decide the test at the head of thread t's process when computation decides it *)
Ltac has_var c := match c with context[?v] => is_var v end.
Ltac evh t :=
  getp t ltac:(fun p =>
     lazymatch p with
     | (if ?c then _ else _) => tryif has_var c then fail else idtac; let r := eval vm_compute in c in
           lazymatch r with true => idtac | false => idtac end; change c with r; cbv iota
     | (match ?c with _ => _ end) => tryif has_var c then fail else idtac; let r := eval vm_compute in c in
           lazymatch r with Some _ => idtac | None => idtac | (_, _) => idtac | nil => idtac | cons _ _ => idtac end;
           change c with r; cbv beta iota
     end).
Ltac stp t rw := first [ go t; cbv beta iota | progress (rw; cbv beta iota zeta) | evh t ].
Ltac drain t rw := repeat (stp t rw).
Ltac sweep rw := drain 0 rw; drain 1 rw; drain 2 rw; drain 3 rw; drain 4 rw; drain 5 rw; drain 6 rw; drain 7 rw; drain 8 rw.
Ltac autorun rw := repeat (progress (sweep rw)).

(* ---------- a text that parses as a call / card is not the close marker ---------- *)
Lemma parse_bid_not_closed m a c : parse_bid m (formal_name a) = Some c -> String.eqb m CLOSED = false.
Proof.
  intros H. destruct (String.eqb_spec m CLOSED) as [->|]; [|reflexivity].
  destruct a; vm_compute in H; discriminate.
Qed.
Lemma parse_card_not_closed m a c : parse_card m a = Some c -> String.eqb m CLOSED = false.
Proof.
  intros H. destruct (String.eqb_spec m CLOSED) as [->|]; [|reflexivity].
  destruct a; vm_compute in H; discriminate.
Qed.

(* ---------- one round of the auction: any scripted call the conformance conditions hold for ---------- *)
Ltac unf_all_bid :=
  unf_bidding; unf_tb 0; unf_tb 1; unf_tb 2; unf_tb 3; unf_cb 0; unf_cb 1; unf_cb 2; unf_cb 3.

(* what goes down the socket of seat q when seat a's call, relayed as m, is announced *)
Definition relay_to (a : seat) (m : string) (q : seat) : list msg := if seat_beq q a then [] else [MS m].

Lemma round_general : forall a s s' o f calls m m' c r km kt0 kt1 kt2 kt3 kc0 kc1 kc2 kc3 L T0 T1 T2 T3 T4 T5 T6 T7 b F,
  active s = Some a -> calls a = (m, c) :: r ->
  server_read_bid m (formal_name a) = (m', Some c) -> parse_bid m' (formal_name a) = Some c ->
  take_bid s c = (s', o) -> (o = Ongoing \/ o = Finished) ->
  (forall T1' T3' T5' T7',
     reach (BidSt f s' (pop calls a) km kt0 kt1 kt2 kt3 kc0 kc1 kc2 kc3 L
              (T0 ++ relay_to a m' North) T1' (T2 ++ relay_to a m' East) T3'
              (T4 ++ relay_to a m' South) T5' (T6 ++ relay_to a m' West) T7' b) F) ->
  reach (BidSt (S f) s calls km kt0 kt1 kt2 kt3 kc0 kc1 kc2 kc3 L T0 T1 T2 T3 T4 T5 T6 T7 b) F.
Proof.
  intros a s s' o f calls m m' c r km kt0 kt1 kt2 kt3 kc0 kc1 kc2 kc3 L T0 T1 T2 T3 T4 T5 T6 T7 b F Ha Hc Hs Hp Ht Ho HF.
  pose proof (parse_bid_not_closed _ _ _ Hp) as Hn.
  assert (Hr : r = tl (calls a)) by (rewrite Hc; reflexivity).
  unfold BidSt, QS, pop, relay_to in *.
  destruct a; destruct Ho as [-> | ->];
    cbn [seat_beq] in HF; rewrite ?app_nil_r in HF;
    unf_all_bid; rewrite Ha; cbv iota; cbn [seat_beq];
    unfold put_all, put_others, all_seats; cbn [fold_right seat_beq]; cbv iota;
    autorun ltac:(rewrite ?Hc, ?Hs, ?Hp, ?Ht, ?Hn); rewrite Hr; apply HF.
Qed.

(* ===================================================================== the whole auction *)
(* ---------- the whole auction, along seq_calls ---------- *)
(* the relayed calls seat q is sent during the auction *)
Fixpoint auction_view (fuel : nat) (s : astate) (said : said_calls) (q : seat) : list msg :=
  match fuel with
  | 0 => []
  | S f =>
    match active s with
    | None => []
    | Some a =>
      match said a with
      | [] => []
      | (m, c) :: _ => relay_to a (fst (server_read_bid m (formal_name a))) q ++ auction_view f (fst (take_bid s c)) (pop said a) q
      end end end.

Lemma auction_general : forall fuel s calls sfin, seq_calls fuel s calls = Some sfin ->
  forall km kt0 kt1 kt2 kt3 kc0 kc1 kc2 kc3 L T0 T1 T2 T3 T4 T5 T6 T7 b F,
  (forall f' calls' T1' T3' T5' T7', active sfin = None ->
     reach (BidSt (S f') sfin calls' km kt0 kt1 kt2 kt3 kc0 kc1 kc2 kc3 L
              (T0 ++ auction_view fuel s calls North) T1' (T2 ++ auction_view fuel s calls East) T3'
              (T4 ++ auction_view fuel s calls South) T5' (T6 ++ auction_view fuel s calls West) T7' b) F) ->
  reach (BidSt fuel s calls km kt0 kt1 kt2 kt3 kc0 kc1 kc2 kc3 L T0 T1 T2 T3 T4 T5 T6 T7 b) F.
Proof.
  induction fuel as [|f IH]; intros s calls sfin H km kt0 kt1 kt2 kt3 kc0 kc1 kc2 kc3 L T0 T1 T2 T3 T4 T5 T6 T7 b F HF;
    cbn [seq_calls] in H; [discriminate|].
  cbn [auction_view] in HF.
  destruct (active s) as [a|] eqn:Ha.
  2:{ injection H as <-. rewrite !app_nil_r in HF. apply HF. exact Ha. }
  destruct (calls a) as [|[m c] r] eqn:Hc; [discriminate|].
  destruct (server_read_bid m (formal_name a)) as [m' [c'|]] eqn:Hs; [|discriminate].
  destruct (call_beq c c') eqn:E1; [|discriminate]. apply internal_call_dec_bl in E1. subst c'.
  destruct (parse_bid m' (formal_name a)) as [c''|] eqn:Hp; [|discriminate].
  cbn [andb] in H. destruct (call_beq c c'') eqn:E2; [|discriminate]. apply internal_call_dec_bl in E2. subst c''.
  destruct (take_bid s c) as [s' o] eqn:Ht.
  assert (Ho : o = Ongoing \/ o = Finished) by (destruct o; try discriminate; auto).
  assert (H' : seq_calls f s' (pop calls a) = Some sfin) by (destruct Ho as [-> | ->]; exact H).
  cbn [fst] in HF.
  eapply (round_general a s s' o f calls m m' c r); try eassumption.
  intros T1' T3' T5' T7'.
  eapply IH; [exact H'|].
  intros f' calls' U1 U3 U5 U7 Hact. rewrite <- !app_assoc. apply HF. exact Hact.
Qed.

(* ===================================================================== the ready-for-card line is accepted for every trick number *)
(* ---------- the "ready for X's card to trick n" line is accepted by _check_message, for every n ---------- *)
Lemma split_app_sep a x : forall y, split_char a (x ++ String a y) = split_char a x ++ split_char a y.
Proof.
  induction x as [|b x IH]; intros y.
  - cbn [String.append split_char app]. rewrite Ascii.eqb_refl. reflexivity.
  - cbn [String.append split_char]. destruct (Ascii.eqb a b); rewrite IH; [reflexivity|].
    destruct (split_char a x) as [|h t] eqn:E; [exfalso; exact (split_nonnil a x E)|]. reflexivity.
Qed.
Lemma split_nosep a s : sforall (fun b => negb (Ascii.eqb a b)) s = true -> split_char a s = [s].
Proof.
  induction s as [|b s IH]; intros H; [reflexivity|]. cbn [sforall] in H. apply andb_true_iff in H. destruct H as [Hb Hs].
  apply negb_true_iff in Hb. cbn [split_char]. rewrite Hb, (IH Hs). reflexivity.
Qed.
Lemma sforall_impl (f g : ascii -> bool) s : (forall a, f a = true -> g a = true) -> sforall f s = true -> sforall g s = true.
Proof.
  intros Hfg. induction s as [|a s IH]; intros H; [reflexivity|]. cbn [sforall] in *. apply andb_true_iff in H.
  destruct H as [Ha Hs]. rewrite (Hfg a Ha), (IH Hs). reflexivity.
Qed.
Lemma digit_wordchar a : is_digit a = true -> (negb (is_ws a) || Ascii.eqb a " "%char) = true.
Proof. destruct a as [[] [] [] [] [] [] [] []]; vm_compute; intros H; try reflexivity; discriminate. Qed.
Lemma digit_nospace a : is_digit a = true -> negb (Ascii.eqb " "%char a) = true.
Proof. destruct a as [[] [] [] [] [] [] [] []]; vm_compute; intros H; try reflexivity; discriminate. Qed.

Lemma cm_digits pre0 n :
  sforall (fun a => negb (is_ws a) || Ascii.eqb a " "%char) pre0 = true ->
  forallb (fun w => negb (String.eqb w "")) (split_char " "%char pre0) = true ->
  check_message (pre0 ++ " " ++ string_of_nat n) (pre0 ++ " " ++ string_of_nat n) = true.
Proof.
  intros H1 H2. destruct (string_of_nat_roundtrip n) as (_ & Hd & Hne).
  apply check_message_exact.
  - rewrite sforall_app, H1. cbn [String.append sforall andb]. cbn [is_ws]. 
    change (negb (is_ws " ") || Ascii.eqb " " " ")%char with true. cbn [andb].
    apply (sforall_impl is_digit); [exact digit_wordchar|exact Hd].
  - intros w Hw. change (pre0 ++ " " ++ string_of_nat n)%string with (pre0 ++ String " "%char (string_of_nat n))%string in Hw.
    rewrite split_app_sep in Hw. apply in_app_or in Hw. destruct Hw as [Hw|Hw].
    + rewrite forallb_forall in H2. specialize (H2 w Hw). intros ->. discriminate H2.
    + rewrite split_nosep in Hw by (apply (sforall_impl is_digit); [exact digit_nospace|exact Hd]).
      destruct Hw as [<-|[]]. exact Hne.
Qed.

Lemma ready_card_ok me x n : In x ["dummy"; "North"; "East"; "South"; "West"] ->
  check_message (formal_name me ++ " ready for " ++ x ++ "'s card to trick " ++ string_of_nat n)
                (formal_name me ++ " ready for " ++ x ++ "'s card to trick " ++ string_of_nat n) = true.
Proof.
  intros Hx. cbn [In] in Hx.
  destruct me; destruct Hx as [<-|[<-|[<-|[<-|[<-|[]]]]]];
  match goal with |- check_message (formal_name ?me ++ " ready for " ++ ?x ++ "'s card to trick " ++ string_of_nat n) _ = true =>
    let pre := eval vm_compute in (formal_name me ++ " ready for " ++ x ++ "'s card to trick")%string in
    apply (cm_digits pre n); vm_compute; reflexivity end.
Qed.

(* ===================================================================== the states of the play *)
Definition PlaySt (f i : nat) (hs : hstate) (orig : deal) (decl a0 : seat) (os : seat -> ostate) (ho : bool)
   (cards : seat -> list (string * card)) (K : hstate -> proc) (kt0 kt1 kt2 kt3 : proc)
   (kc0 kc1 kc2 kc3 : ostate -> list (string * card) -> proc) L T0 T1 T2 T3 T4 T5 T6 T7 b :=
  QS (playing 4 CN f i hs orig K)
     (t_playing 4 0 f i North decl a0 kt0) (t_playing 4 1 f i East decl a0 kt1)
     (t_playing 4 2 f i South decl a0 kt2) (t_playing 4 3 f i West decl a0 kt3)
     (c_playing 4 0 North f i (os North) ho (cards North) kc0) (c_playing 4 1 East f i (os East) ho (cards East) kc1)
     (c_playing 4 2 South f i (os South) ho (cards South) kc2) (c_playing 4 3 West f i (os West) ho (cards West) kc3)
     L T0 T1 T2 T3 T4 T5 T6 T7 b.

Ltac unf_pl := match goal with |- context[playing ?n ?c (S ?f) ?i ?hs ?o ?k] =>
   let t := constr:(playing n c (S f) i hs o k) in let t' := eval cbn [playing] in t in change t with t' end.
Ltac unf_tp j := match goal with |- context[t_playing ?n j (S ?f) ?i ?me ?d ?a ?k] =>
   let t := constr:(t_playing n j (S f) i me d a k) in let t' := eval cbn [t_playing] in t in change t with t' end.
Ltac unf_cp j := match goal with |- context[c_playing ?n j ?me (S ?f) ?i ?o ?ho ?cs ?k] =>
   let t := constr:(c_playing n j me (S f) i o ho cs k) in let t' := eval cbn [c_playing] in t in change t with t' end.
Ltac unf_all_play := unf_pl; unf_tp 0; unf_tp 1; unf_tp 2; unf_tp 3; unf_cp 0; unf_cp 1; unf_cp 2; unf_cp 3.

Definition speaker (a decl : seat) : seat := if seat_beq a (partner decl) then decl else a.

(* what goes down the socket of seat q for one card: the lead prompt (first card of a trick, to the seat that speaks),
   then the relayed card text (to the three seats that did not say it) *)
Definition lead_to (lead : bool) (a decl q : seat) : list msg :=
  if lead then
    (if seat_beq a q && negb (seat_beq q (partner decl)) then [MS (formal_name q ++ " to lead")]
     else if seat_beq a (partner decl) && seat_beq q decl then [MS "Dummy to lead"] else [])
  else [].
Definition card_to (lead : bool) (a decl : seat) (m : string) (q : seat) : list msg :=
  lead_to lead a decl q ++ (if seat_beq (speaker a decl) q then [] else [MS m]).

(* ===================================================================== one card of the play (from the third card on): any seat on turn, any declarer, lead prompt or not *)
Lemma card_round : forall a decl lead f i hs hs' orig a0 ld os os' cards m c r K kt0 kt1 kt2 kt3 kc0 kc1 kc2 kc3
    L T0 T1 T2 T3 T4 T5 T6 T7 b F,
  (i =? 0) = false -> (i mod 4 =? 0) = lead -> (lead = true -> ld = a) -> (lead = false -> a0 = a) ->
  pactive (hbase hs) = a -> dummy (hbase hs) = partner decl -> declarer (hbase hs) = decl -> leader (hbase hs) = ld ->
  (forall q, pactive (obase (os q)) = a) -> (forall q, dummy (obase (os q)) = partner decl) ->
  (forall q, declarer (obase (os q)) = decl) -> (forall q, trick_num (obase (os q)) = i / 4 + 1) ->
  cards (speaker a decl) = (m, c) :: r -> parse_card m a = Some c -> play_by hs c a = (hs', POk) ->
  (forall q, obs_play_by (os q) c a = (os' q, POk)) ->
  (forall T1' T3' T5' T7',
     reach (PlaySt f (S i) hs' orig decl (next a) os' true (pop cards (speaker a decl)) K kt0 kt1 kt2 kt3 kc0 kc1 kc2 kc3
              L (T0 ++ card_to lead a decl m North) T1' (T2 ++ card_to lead a decl m East) T3'
                (T4 ++ card_to lead a decl m South) T5' (T6 ++ card_to lead a decl m West) T7' b) F) ->
  reach (PlaySt (S f) i hs orig decl a0 os true cards K kt0 kt1 kt2 kt3 kc0 kc1 kc2 kc3 L T0 T1 T2 T3 T4 T5 T6 T7 b) F.
Proof.
  intros a decl lead f i hs hs' orig a0 ld os os' cards m c r K kt0 kt1 kt2 kt3 kc0 kc1 kc2 kc3
    L T0 T1 T2 T3 T4 T5 T6 T7 b F Hi0 Hm Hld Ha0 Hpa Hdm Hdc Hle Opa Odm Odc Otn Hc Hpc Hpb Hob HF.
  pose proof (parse_card_not_closed _ _ _ Hpc) as Hn.
  assert (Hr : r = tl (cards (speaker a decl))) by (rewrite Hc; reflexivity).
  unfold PlaySt, QS, pop, card_to, lead_to, speaker in *.
  destruct lead; [rewrite (Hld eq_refl) in Hle|rewrite (Ha0 eq_refl)]; clear Hld Ha0;
    destruct a, decl;
    unf_all_play; rewrite ?Hi0, ?Hm, ?Hpa, ?Hdm, ?Hdc, ?Hle, ?Opa, ?Odm, ?Odc, ?Otn;
    cbn [partner next seat_beq andb orb negb] in *; cbn [app] in HF; rewrite ?app_nil_r in HF; cbv beta iota zeta;
    unfold put_all, put_others, all_seats; cbn [fold_right seat_beq]; cbv iota;
    autorun ltac:(rewrite ?Hc, ?Hpc, ?Hpb, ?Hob, ?Hn, ?ready_card_ok by (simpl; tauto));
    rewrite Hr; apply HF.
Qed.

(* ===================================================================== the opening lead and the second card (Dummy's hand is shown) *)
Lemma dummy_line_open h : String.eqb (cards_line "Dummy" h) CLOSED = false.
Proof. reflexivity. Qed.
Lemma seat_of_formal_name d : seat_of_formal (formal_name d) = Some d.
Proof. destruct d; reflexivity. Qed.

(* [evh] extended: a test applied to an argument *)
Ltac evh2 t :=
  getp t ltac:(fun p =>
     lazymatch p with
     | ((if ?c then _ else _) _) => tryif has_var c then fail else idtac; let r := eval vm_compute in c in
           lazymatch r with true => idtac | false => idtac end; change c with r; cbv beta iota
     end).
Ltac stp2 t rw := first [ go t; cbv beta iota | progress (rw; cbv beta iota zeta) | evh t | evh2 t ].
Ltac drain2 t rw := repeat (stp2 t rw).
Ltac sweep2 rw := drain2 0 rw; drain2 1 rw; drain2 2 rw; drain2 3 rw; drain2 4 rw; drain2 5 rw; drain2 6 rw; drain2 7 rw; drain2 8 rw.
Ltac autorun2 rw := repeat (progress (sweep2 rw)).

(* after the opening lead: Dummy's cards wait in the queues of the three other seats, whose threads wait for "ready for dummy" *)
Definition MidSt (f : nat) (hs : hstate) (orig : deal) (decl : seat) (os : seat -> ostate)
   (cards : seat -> list (string * card)) (K : hstate -> proc) (kt0 kt1 kt2 kt3 : proc)
   (kc0 kc1 kc2 kc3 : ostate -> list (string * card) -> proc) L T0 T1 T2 T3 T4 T5 T6 T7 b : Kahn.st msg :=
  let dm := partner decl in
  let th (j : nat) (p : seat) (kt : proc) : proc :=
    if seat_beq p dm then t_playing 4 j f 1 p decl dm kt
    else expect 4 j (formal_name p ++ " ready for dummy") (forward_q 4 j (t_playing 4 j f 1 p decl dm kt)) Fail in
  let qu (p : seat) : list msg := if seat_beq p dm then [] else [MS (cards_line "Dummy" (orig dm))] in
  Kahn.mk msg
    [playing 4 CN f 1 hs orig K; th 0 North kt0; th 1 East kt1; th 2 South kt2; th 3 West kt3;
     c_playing 4 0 North f 1 (os North) false (cards North) kc0; c_playing 4 1 East f 1 (os East) false (cards East) kc1;
     c_playing 4 2 South f 1 (os South) false (cards South) kc2; c_playing 4 3 West f 1 (os West) false (cards West) kc3]
    [[];[];qu North;[]; [];[];qu East;[]; [];[];qu South;[]; [];[];qu West;[]; L; []; T0; T1; T2; T3; T4; T5; T6; T7]
    [] [b; b; b; b; b; 0; 0; 0; 0].

Lemma opening_lead : forall decl f hs0 hs1 orig a0 os os1 cards m0 c0 r0 K kt0 kt1 kt2 kt3 kc0 kc1 kc2 kc3
    L T0 T1 T2 T3 T4 T5 T6 T7 b F,
  pactive (hbase hs0) = next decl -> dummy (hbase hs0) = partner decl -> declarer (hbase hs0) = decl -> leader (hbase hs0) = next decl ->
  (forall q, pactive (obase (os q)) = next decl) -> (forall q, dummy (obase (os q)) = partner decl) ->
  (forall q, declarer (obase (os q)) = decl) -> (forall q, trick_num (obase (os q)) = 0 / 4 + 1) ->
  cards (next decl) = (m0, c0) :: r0 -> parse_card m0 (next decl) = Some c0 -> play_by hs0 c0 (next decl) = (hs1, POk) ->
  (forall q, obs_play_by (os q) c0 (next decl) = (os1 q, POk)) ->
  (forall T1' T3' T5' T7',
     reach (MidSt f hs1 orig decl os1 (pop cards (next decl)) K kt0 kt1 kt2 kt3 kc0 kc1 kc2 kc3
              L (T0 ++ card_to true (next decl) decl m0 North) T1' (T2 ++ card_to true (next decl) decl m0 East) T3'
                (T4 ++ card_to true (next decl) decl m0 South) T5' (T6 ++ card_to true (next decl) decl m0 West) T7' b) F) ->
  reach (PlaySt (S f) 0 hs0 orig decl a0 os false cards K kt0 kt1 kt2 kt3 kc0 kc1 kc2 kc3 L T0 T1 T2 T3 T4 T5 T6 T7 b) F.
Proof.
  intros decl f hs0 hs1 orig a0 os os1 cards m0 c0 r0 K kt0 kt1 kt2 kt3 kc0 kc1 kc2 kc3
    L T0 T1 T2 T3 T4 T5 T6 T7 b F H0pa H0dm H0dc H0le Opa Odm Odc Otn Hc0 Hpc0 Hpb0 Hob0 HF.
  pose proof (parse_card_not_closed _ _ _ Hpc0) as Hn0.
  assert (Hr0 : r0 = tl (cards (next decl))) by (rewrite Hc0; reflexivity).
  unfold PlaySt, MidSt, QS, pop, card_to, lead_to, speaker in *.
  destruct decl;
    cbn [partner next seat_beq] in *;
    unf_all_play; rewrite ?H0pa, ?H0dm, ?H0dc, ?H0le, ?Opa, ?Odm, ?Odc, ?Otn;
    cbn [partner next seat_beq andb orb negb] in *; cbn [app] in HF; rewrite ?app_nil_r in HF; cbv beta iota zeta;
    unfold put_all, put_others, all_seats; cbn [fold_right seat_beq]; cbv iota;
    autorun2 ltac:(rewrite ?Hc0, ?Hpc0, ?Hpb0, ?Hob0, ?Hn0, ?ready_card_ok by (simpl; tauto));
    rewrite Hr0; apply HF.
Qed.

(* Dummy's cards, to the three other seats *)
Definition dummy_to (orig : deal) (decl q : seat) : list msg :=
  if seat_beq q (partner decl) then [] else [MS (cards_line "Dummy" (orig (partner decl)))].

(* the second card: dummy's hand is shown to the three other seats, declarer plays from it *)
Lemma dummy_shown : forall decl f hs1 hs2 orig os1 os2 hd cards m1 c1 r1 K kt0 kt1 kt2 kt3 kc0 kc1 kc2 kc3
    L T0 T1 T2 T3 T4 T5 T6 T7 b F,
  pactive (hbase hs1) = partner decl -> dummy (hbase hs1) = partner decl -> declarer (hbase hs1) = decl ->
  (forall q, pactive (obase (os1 q)) = partner decl) -> (forall q, dummy (obase (os1 q)) = partner decl) ->
  (forall q, declarer (obase (os1 q)) = decl) -> (forall q, trick_num (obase (os1 q)) = 1 / 4 + 1) ->
  parse_cards_line (cards_line "Dummy" (orig (partner decl))) "Dummy" = Some hd ->
  cards decl = (m1, c1) :: r1 -> parse_card m1 (partner decl) = Some c1 -> play_by hs1 c1 (partner decl) = (hs2, POk) ->
  (forall q, obs_play_by (if seat_beq q (partner decl) then os1 q else set_dummy_hand (os1 q) hd) c1 (partner decl) = (os2 q, POk)) ->
  (forall T1' T3' T5' T7',
     reach (PlaySt f 2 hs2 orig decl (next (partner decl)) os2 true (pop cards decl) K kt0 kt1 kt2 kt3 kc0 kc1 kc2 kc3
              L (T0 ++ dummy_to orig decl North ++ card_to false (partner decl) decl m1 North) T1'
                (T2 ++ dummy_to orig decl East ++ card_to false (partner decl) decl m1 East) T3'
                (T4 ++ dummy_to orig decl South ++ card_to false (partner decl) decl m1 South) T5'
                (T6 ++ dummy_to orig decl West ++ card_to false (partner decl) decl m1 West) T7' b) F) ->
  reach (MidSt (S f) hs1 orig decl os1 cards K kt0 kt1 kt2 kt3 kc0 kc1 kc2 kc3 L T0 T1 T2 T3 T4 T5 T6 T7 b) F.
Proof.
  intros decl f hs1 hs2 orig os1 os2 hd cards m1 c1 r1 K kt0 kt1 kt2 kt3 kc0 kc1 kc2 kc3
    L T0 T1 T2 T3 T4 T5 T6 T7 b F H1pa H1dm H1dc O1pa O1dm O1dc O1tn Hhd Hc1 Hpc1 Hpb1 Hob1 HF.
  pose proof (parse_card_not_closed _ _ _ Hpc1) as Hn1.
  assert (Hr1 : r1 = tl (cards decl)) by (rewrite Hc1; reflexivity).
  pose proof (Hob1 North) as HobN. pose proof (Hob1 East) as HobE. pose proof (Hob1 South) as HobS. pose proof (Hob1 West) as HobW.
  clear Hob1.
  unfold PlaySt, MidSt, QS, pop, dummy_to, card_to, lead_to, speaker in *.
  destruct decl;
    cbn [partner next seat_beq] in *; cbv beta iota zeta;
    unf_all_play; rewrite ?H1pa, ?H1dm, ?H1dc, ?O1pa, ?O1dm, ?O1dc, ?O1tn;
    cbn [partner next seat_beq andb orb negb] in *; cbn [app] in HF; rewrite ?app_nil_r in HF; cbv beta iota zeta;
    unfold put_all, put_others, all_seats; cbn [fold_right seat_beq]; cbv iota;
    autorun2 ltac:(rewrite ?Hhd, ?dummy_line_open, ?Hc1, ?Hpc1, ?Hpb1, ?HobN, ?HobE, ?HobS, ?HobW, ?Hn1,
                       ?ready_card_ok by (simpl; tauto));
    rewrite Hr1; rewrite <- ?app_assoc; cbn [app]; apply HF.
Qed.

(* ===================================================================== the invariant of the play: the four observers stay in step with the full-information state *)
(* ---------- the invariant of the play: main's full-information state, the four observers, the position ---------- *)
Definition PInv (k : contract) (decl : seat) (i : nat) (hs : hstate) (os : seat -> ostate) : Prop :=
  exists b0 played, init_play k = Some b0 /\ hbase hs = Proofs.Play.runp b0 played /\ length played = i /\
    declarer b0 = decl /\ dummy b0 = partner decl /\
    (forall q, Proofs.Play.OR0 q (partner decl) (os q) hs).
Definition DInv (decl : seat) (hs : hstate) (os : seat -> ostate) : Prop :=
  forall q, q <> partner decl -> Proofs.Play.ODum q (partner decl) (os q) hs.

Lemma public_more b1 b2 : Proofs.Play.public b1 = Proofs.Play.public b2 ->
  declarer b1 = declarer b2 /\ dummy b1 = dummy b2 /\ pactive b1 = pactive b2 /\ trick_num b1 = trick_num b2.
Proof. unfold Proofs.Play.public. intros H. inversion H. auto. Qed.

Lemma pinv_facts k decl i hs os : PInv k decl i hs os ->
  dummy (hbase hs) = partner decl /\ declarer (hbase hs) = decl /\ trick_num (hbase hs) = i / 4 + 1 /\
  length (trick (hbase hs)) = i mod 4 /\ pactive (hbase hs) = rot (leader (hbase hs)) (i mod 4) /\
  taken_ns (hbase hs) + taken_ew (hbase hs) = i / 4 /\
  (forall q, pactive (obase (os q)) = pactive (hbase hs)) /\ (forall q, dummy (obase (os q)) = partner decl) /\
  (forall q, declarer (obase (os q)) = decl) /\ (forall q, trick_num (obase (os q)) = i / 4 + 1).
Proof.
  intros (b0 & played & Hb0 & Hrun & Hlen & Hd & Hdm & HO).
  pose proof (Proofs.Play.counters k b0 played Hb0) as C. cbv zeta in C. rewrite <- Hrun, Hlen in C.
  destruct C as (C1 & C2 & _ & C4 & C5 & _ & C7 & C8).
  rewrite C2 in C5.
  assert (D1 : dummy (hbase hs) = partner decl) by congruence.
  assert (D2 : declarer (hbase hs) = decl) by congruence.
  split; [exact D1|]. split; [exact D2|]. split; [exact C1|]. split; [exact C2|]. split; [exact C5|]. split; [exact C4|].
  assert (P : forall q, declarer (obase (os q)) = declarer (hbase hs) /\ dummy (obase (os q)) = dummy (hbase hs) /\
                        pactive (obase (os q)) = pactive (hbase hs) /\ trick_num (obase (os q)) = trick_num (hbase hs)).
  { intros q. destruct (HO q) as (R1 & _). apply public_more. exact R1. }
  split; [intros q; apply P|]. split; [intros q; rewrite <- D1; apply P|].
  split; [intros q; rewrite <- D2; apply P|]. intros q. rewrite <- C1. apply P.
Qed.

Lemma mod4_succ i : (S i mod 4 =? 0) = false -> i mod 4 <> 3.
Proof.
  intros H E. apply Nat.eqb_neq in H. apply H.
  rewrite (Nat.div_mod i 4) by lia. rewrite E.
  replace (S (4 * (i / 4) + 3)) with ((i / 4 + 1) * 4) by lia. apply Nat.mod_mul. lia.
Qed.

(* one accepted card: every observer accepts it too and the invariant moves on *)
Lemma pinv_step k decl i hs os c hs' :
  PInv k decl i hs os -> (pactive (hbase hs) = partner decl -> DInv decl hs os) ->
  play_by hs c (pactive (hbase hs)) = (hs', POk) ->
  exists os', (forall q, obs_play_by (os q) c (pactive (hbase hs)) = (os' q, POk)) /\
              PInv k decl (S i) hs' os' /\ (DInv decl hs os -> DInv decl hs' os') /\
              ((S i mod 4 =? 0) = false -> next (pactive (hbase hs)) = pactive (hbase hs')) /\
              (forall q x, In x (hands hs' q) <-> (In x (hands hs q) /\ ~ (q = pactive (hbase hs) /\ x = c))).
Proof.
  intros HP HD Hpb. pose proof (pinv_facts _ _ _ _ _ HP) as (_ & _ & _ & Hlt & _).
  destruct HP as (b0 & played & Hb0 & Hrun & Hlen & Hd & Hdm & HO).
  set (a := pactive (hbase hs)) in *.
  assert (Hok : snd (play_by hs c a) = POk) by (rewrite Hpb; reflexivity).
  assert (Hfst : fst (play_by hs c a) = hs') by (rewrite Hpb; reflexivity).
  destruct (Proofs.Play.play_by_accepted_effect hs c a Hok) as [Hb' Hh']. rewrite Hfst in Hb', Hh'.
  assert (S0 : forall q, exists o', obs_play_by (os q) c a = (o', POk) /\ Proofs.Play.OR0 q (partner decl) o' hs' /\
                 (Proofs.Play.ODum q (partner decl) (os q) hs -> Proofs.Play.ODum q (partner decl) o' hs')).
  { intros q. destruct (Proofs.Play.obs_sim0 q (partner decl) (os q) hs c a (HO q) Hok) as (o' & E & R0' & RD' & _).
    - intros Ea Hne. apply (HD Ea q Hne).
    - rewrite Hfst in R0', RD'. exists o'. auto. }
  exists (fun q => fst (obs_play_by (os q) c a)).
  split; [|split; [|split; [|split]]].
  - intros q. destruct (S0 q) as (o' & E & _). rewrite E. reflexivity.
  - exists b0, (played ++ [c]). split; [exact Hb0|]. split; [rewrite Proofs.Play.runp_snoc, <- Hrun; exact Hb'|].
    split; [rewrite app_length; cbn [length]; lia|]. split; [exact Hd|]. split; [exact Hdm|].
    intros q. destruct (S0 q) as (o' & E & R & _). rewrite E. exact R.
  - intros HDall q Hne. destruct (S0 q) as (o' & E & _ & RD). rewrite E. apply RD. apply HDall. exact Hne.
  - intros Hm. rewrite Hb'. rewrite Proofs.Play.play_card_mid; [reflexivity|]. rewrite Hlt. apply mod4_succ. exact Hm.
  - exact Hh'.
Qed.

(* ===================================================================== the score of a played contract exists *)
(* the score of a played contract exists for every possible number of tricks *)
Lemma calc_score_some l s x xx v d n : n <= 13 ->
  exists sc, calc_score (mkcontract (Some (l, s)) x xx v (Some d)) (Z.of_nat n) = Some sc.
Proof.
  intros H.
  assert (E : contract_is_vul (mkcontract (Some (l, s)) x xx v (Some d)) = Some (match v with VNone => false | VBoth => true | _ => seat_is_vul d v end))
    by (destruct v; reflexivity).
  unfold calc_score. cbn [final_bid cx cxx]. rewrite E. clear E.
  generalize (match v with VNone => false | VBoth => true | _ => seat_is_vul d v end). intros vb. clear v d.
  do 14 (destruct n as [|n]; [destruct l, s as [[]|], x, xx, vb; vm_compute; eexists; reflexivity|]). lia.
Qed.

(* ===================================================================== the cards from the third on, along seq_cards *)
(* ---------- the cards from the third on, along seq_cards ---------- *)
(* what seat q is sent during the play: per card the lead prompt and the relayed card, Dummy's cards after the first card *)
Fixpoint play_view (fuel i : nat) (hs : hstate) (orig : deal) (said : said_cards) (q : seat) : list msg :=
  match fuel with
  | 0 => []
  | S f =>
    match said (speaker (pactive (hbase hs)) (declarer (hbase hs))) with
    | [] => []
    | (m, c) :: _ =>
        card_to (i mod 4 =? 0) (pactive (hbase hs)) (declarer (hbase hs)) m q ++
        (if i =? 0 then dummy_to orig (declarer (hbase hs)) q else []) ++
        play_view f (S i) (fst (play_by hs c (pactive (hbase hs)))) orig (pop said (speaker (pactive (hbase hs)) (declarer (hbase hs)))) q
    end end.
Lemma play_view_S f i hs orig said q :
  play_view (S f) i hs orig said q =
  match said (speaker (pactive (hbase hs)) (declarer (hbase hs))) with
  | [] => []
  | (m, c) :: _ =>
      card_to (i mod 4 =? 0) (pactive (hbase hs)) (declarer (hbase hs)) m q ++
      (if i =? 0 then dummy_to orig (declarer (hbase hs)) q else []) ++
      play_view f (S i) (fst (play_by hs c (pactive (hbase hs)))) orig (pop said (speaker (pactive (hbase hs)) (declarer (hbase hs)))) q
  end.
Proof. reflexivity. Qed.

Lemma play_general k decl orig : forall f i hs cards hsfin, seq_cards f hs cards = Some hsfin ->
  forall a0 os K kt0 kt1 kt2 kt3 kc0 kc1 kc2 kc3 L T0 T1 T2 T3 T4 T5 T6 T7 b F,
  (i =? 0) = false -> PInv k decl i hs os -> DInv decl hs os -> ((i mod 4 =? 0) = false -> a0 = pactive (hbase hs)) ->
  (forall a0' os' cards' T1' T3' T5' T7', PInv k decl (i + f) hsfin os' ->
     reach (PlaySt 0 (i + f) hsfin orig decl a0' os' true cards' K kt0 kt1 kt2 kt3 kc0 kc1 kc2 kc3 L
              (T0 ++ play_view f i hs orig cards North) T1' (T2 ++ play_view f i hs orig cards East) T3'
              (T4 ++ play_view f i hs orig cards South) T5' (T6 ++ play_view f i hs orig cards West) T7' b) F) ->
  reach (PlaySt f i hs orig decl a0 os true cards K kt0 kt1 kt2 kt3 kc0 kc1 kc2 kc3 L T0 T1 T2 T3 T4 T5 T6 T7 b) F.
Proof.
  induction f as [|f IH]; intros i hs cards hsfin H a0 os K kt0 kt1 kt2 kt3 kc0 kc1 kc2 kc3 L T0 T1 T2 T3 T4 T5 T6 T7 b F
    Hi0 HP HD Ha0 HF; cbn [seq_cards] in H.
  - injection H as <-. cbn [play_view] in HF. rewrite !app_nil_r in HF.
    rewrite <- (Nat.add_0_r i) at 1. apply HF. rewrite Nat.add_0_r. exact HP.
  - cbv zeta in H.
    pose proof (pinv_facts _ _ _ _ _ HP) as (Fdm & Fdc & Ftn & Flt & Fpa & _ & Opa & Odm & Odc & Otn).
    rewrite !play_view_S in HF. rewrite Fdc in HF.
    remember (pactive (hbase hs)) as a eqn:Ea.
    rewrite Fdm, Fdc in H. change (if seat_beq a (partner decl) then decl else a) with (speaker a decl) in H.
    destruct (cards (speaker a decl)) as [|[m c] r] eqn:Hc; [discriminate|].
    destruct (parse_card m a) as [c'|] eqn:Hpc; [|discriminate].
    destruct (card_beq c c') eqn:E; [|discriminate]. apply internal_card_dec_bl in E. subst c'.
    destruct (play_by hs c a) as [hs' [|]] eqn:Hpb; [|discriminate].
    rewrite Ea in Hpb.
    destruct (pinv_step k decl i hs os c hs' HP (fun _ => HD) Hpb) as (os' & Hob & HP' & HD' & Hnx & _).
    rewrite <- Ea in Hpb, Hob, Hnx.
    cbn [fst] in HF. rewrite Hi0 in HF. cbn [app] in HF.
    assert (Hld : (i mod 4 =? 0) = true -> leader (hbase hs) = a).
    { intros Hm. apply Nat.eqb_eq in Hm. rewrite Fpa, Hm. reflexivity. }
    eapply (card_round a decl (i mod 4 =? 0) f i hs hs' orig a0 (leader (hbase hs)) os os' cards m c r
              K kt0 kt1 kt2 kt3 kc0 kc1 kc2 kc3 L T0 T1 T2 T3 T4 T5 T6 T7 b F
              Hi0 eq_refl Hld Ha0 (eq_sym Ea) Fdm Fdc eq_refl Opa Odm Odc Otn Hc Hpc Hpb Hob).
    intros T1' T3' T5' T7'.
    eapply (IH (S i) hs' (pop cards (speaker a decl)) hsfin H); [reflexivity|exact HP'|exact (HD' HD)| |].
    + intros Hm. apply Hnx. exact Hm.
    + intros a0' os'' cards' U1 U3 U5 U7 HPf.
      replace (S i + f) with (i + S f) in * by lia. rewrite <- !app_assoc. apply HF. exact HPf.
Qed.

(* ===================================================================== the 52 cards *)
Lemma next_not_partner d : next d <> partner d.
Proof. destruct d; discriminate. Qed.
Lemma speaker_lead d : speaker (next d) d = next d.
Proof. destruct d; reflexivity. Qed.
Lemma speaker_dummy d : speaker (partner d) d = d.
Proof. destruct d; reflexivity. Qed.

Lemma seq_cards_inv f hs said hsfin decl : seq_cards (S f) hs said = Some hsfin ->
  dummy (hbase hs) = partner decl -> declarer (hbase hs) = decl ->
  exists m c r hs', said (speaker (pactive (hbase hs)) decl) = (m, c) :: r /\
     parse_card m (pactive (hbase hs)) = Some c /\ play_by hs c (pactive (hbase hs)) = (hs', POk) /\
     seq_cards f hs' (pop said (speaker (pactive (hbase hs)) decl)) = Some hsfin.
Proof.
  intros H Fdm Fdc. cbn [seq_cards] in H. cbv zeta in H. rewrite Fdm, Fdc in H.
  change (if seat_beq (pactive (hbase hs)) (partner decl) then decl else pactive (hbase hs))
    with (speaker (pactive (hbase hs)) decl) in H.
  destruct (said (speaker (pactive (hbase hs)) decl)) as [|[m c] r] eqn:Hc; [discriminate|].
  destruct (parse_card m (pactive (hbase hs))) as [c'|] eqn:Hpc; [|discriminate].
  destruct (card_beq c c') eqn:E; [|discriminate]. apply internal_card_dec_bl in E. subst c'.
  destruct (play_by hs c (pactive (hbase hs))) as [hs' [|]] eqn:Hpb; [|discriminate].
  exists m, c, r, hs'. auto.
Qed.

(* ---------- the whole play of a board: 2 + f cards ---------- *)
Lemma play_all : forall kk d b0 orig cards hsfin f os0 a0 K kt0 kt1 kt2 kt3 kc0 kc1 kc2 kc3 L T0 T1 T2 T3 T4 T5 T6 T7 b F,
  init_play kk = Some b0 -> declarer b0 = d -> dummy b0 = partner d -> leader b0 = next d -> pactive b0 = next d ->
  (forall q, obase (os0 q) = b0 /\ ome (os0 q) = q /\ odummy (os0 q) = None /\ same_cards (ohand (os0 q)) (orig q)) ->
  seq_cards (S (S f)) (mkH b0 orig) cards = Some hsfin ->
  (forall a0' os' cards' T1' T3' T5' T7', PInv kk d (2 + f) hsfin os' ->
     reach (PlaySt 0 (2 + f) hsfin orig d a0' os' true cards' K kt0 kt1 kt2 kt3 kc0 kc1 kc2 kc3 L
              (T0 ++ play_view (S (S f)) 0 (mkH b0 orig) orig cards North) T1'
              (T2 ++ play_view (S (S f)) 0 (mkH b0 orig) orig cards East) T3'
              (T4 ++ play_view (S (S f)) 0 (mkH b0 orig) orig cards South) T5'
              (T6 ++ play_view (S (S f)) 0 (mkH b0 orig) orig cards West) T7' b) F) ->
  reach (PlaySt (S (S f)) 0 (mkH b0 orig) orig d a0 os0 false cards K kt0 kt1 kt2 kt3 kc0 kc1 kc2 kc3 L T0 T1 T2 T3 T4 T5 T6 T7 b) F.
Proof.
  intros kk d b0 orig cards hsfin f os0 a0 K kt0 kt1 kt2 kt3 kc0 kc1 kc2 kc3 L T0 T1 T2 T3 T4 T5 T6 T7 b F
    Hb0 Hdc Hdm Hle Hpa Hos Hsq HF.
  set (hs0 := mkH b0 orig) in *.
  assert (HP0 : PInv kk d 0 hs0 os0).
  { exists b0, []. repeat split; try assumption; try reflexivity; destruct (Hos q) as (A1 & A2 & A3 & A4).
    - rewrite A1. reflexivity.
    - exact A2.
    - apply A4.
    - apply A4. }
  (* card 0 *)
  pose proof (pinv_facts _ _ _ _ _ HP0) as (F0dm & F0dc & _ & _ & _ & _ & O0pa & O0dm & O0dc & O0tn).
  destruct (seq_cards_inv _ _ _ _ d Hsq F0dm F0dc) as (m0 & c0 & r0 & hs1 & Hc0 & Hpc0 & Hpb0 & Hsq1).
  assert (E0 : pactive (hbase hs0) = next d) by exact Hpa.
  rewrite E0 in Hc0, Hpc0, Hpb0, Hsq1, O0pa. rewrite speaker_lead in Hc0, Hsq1.
  destruct (pinv_step kk d 0 hs0 os0 c0 hs1 HP0) as (os1 & Hob0 & HP1 & _ & Hnx0 & Hhn1).
  { rewrite E0. intros E. exfalso. exact (next_not_partner d E). }
  { rewrite E0. exact Hpb0. }
  rewrite E0 in Hob0, Hnx0, Hhn1.
  eapply (opening_lead d (S f) hs0 hs1 orig a0 os0 os1 cards m0 c0 r0 K kt0 kt1 kt2 kt3 kc0 kc1 kc2 kc3 L T0 T1 T2 T3 T4 T5 T6 T7 b F
            E0 F0dm F0dc Hle O0pa O0dm O0dc O0tn Hc0 Hpc0 Hpb0 Hob0).
  clear T1 T3 T5 T7. intros T1 T3 T5 T7.
  (* card 1 *)
  assert (E1 : pactive (hbase hs1) = partner d) by (symmetry; apply Hnx0; reflexivity).
  pose proof (pinv_facts _ _ _ _ _ HP1) as (F1dm & F1dc & _ & _ & _ & _ & O1pa & O1dm & O1dc & O1tn).
  destruct (seq_cards_inv _ _ _ _ d Hsq1 F1dm F1dc) as (m1 & c1 & r1 & hs2 & Hc1 & Hpc1 & Hpb1 & Hsq2).
  rewrite E1 in Hc1, Hpc1, Hpb1, Hsq2, O1pa. rewrite speaker_dummy in Hc1, Hsq2.
  destruct (hand_roundtrip "Dummy" (orig (partner d))) as (hd & Hhd & Hsd); [simpl; tauto|].
  set (os1' := fun q : seat => if seat_beq q (partner d) then os1 q else set_dummy_hand (os1 q) hd).
  assert (HP1' : PInv kk d 1 hs1 os1').
  { destruct HP1 as (b0' & pl & A1 & A2 & A3 & A4 & A5 & A6). exists b0', pl. repeat split; try assumption;
      unfold os1'; destruct (seat_beq q (partner d)); try apply A6; apply (A6 q). }
  assert (HD1' : DInv d hs1 os1').
  { intros q Hne. unfold os1'. destruct (seat_beq q (partner d)) eqn:E; [apply Proofs.Play.seat_beq_true in E; contradiction|].
    exists hd. split; [reflexivity|]. intros _ x. rewrite Hhn1. unfold hs0. cbn [hands].
    pose proof (Hsd x) as Hx. pose proof (next_not_partner d). split; [intros Hi; split; [apply Hx; exact Hi|]|intros [Hi _]; apply Hx; exact Hi].
    intros [Ep _]. congruence. }
  destruct (pinv_step kk d 1 hs1 os1' c1 hs2 HP1' (fun _ => HD1')) as (os2 & Hob1 & HP2 & HD2 & Hnx1 & _).
  { rewrite E1. exact Hpb1. }
  rewrite E1 in Hob1, Hnx1. specialize (HD2 HD1').
  eapply (dummy_shown d f hs1 hs2 orig os1 os2 hd (pop cards (next d)) m1 c1 r1 K kt0 kt1 kt2 kt3 kc0 kc1 kc2 kc3 L _ T1 _ T3 _ T5 _ T7 b F
            E1 F1dm F1dc O1pa O1dm O1dc O1tn Hhd Hc1 Hpc1 Hpb1 Hob1).
  clear T1 T3 T5 T7. intros T1 T3 T5 T7.
  (* the other cards *)
  eapply (play_general kk d orig f 2 hs2 _ hsfin Hsq2); [reflexivity|exact HP2|exact HD2| |].
  { intros _. apply Hnx1. reflexivity. }
  (* the three pieces are the view of the whole play *)
  assert (EV : forall T q,
     ((T ++ card_to true (next d) d m0 q) ++ dummy_to orig d q ++ card_to false (partner d) d m1 q) ++
       play_view f 2 hs2 orig (pop (pop cards (next d)) d) q = T ++ play_view (S (S f)) 0 hs0 orig cards q).
  { intros T q. rewrite (play_view_S (S f) 0 hs0). rewrite E0, F0dc, speaker_lead, Hc0, Hpb0. cbn [fst].
    rewrite (play_view_S f 1 hs1). rewrite E1, F1dc, speaker_dummy, Hc1, Hpb1. cbn [fst].
    change (0 mod 4 =? 0) with true. change (0 =? 0) with true. change (1 mod 4 =? 0) with false. change (1 =? 0) with false.
    cbv iota. cbn [app]. rewrite <- !app_assoc. reflexivity. }
  intros a0' os' cards' U1 U3 U5 U7 HPf. rewrite !EV. apply HF. exact HPf.
Qed.

(* ===================================================================== one board *)
Strategy 1000 [bidding t_bidding c_bidding playing t_playing c_playing boards_loop t_boards c_boards seq_calls seq_cards conform_board auction_view play_view].

(* ---------- the continuations of the three kinds of process after the auction of a board ---------- *)
Definition KTb (i ft : nat) (me : seat) : proc :=
  sget (fun m =>
    if String.eqb m PASSED_OUT then t_after i ft me
    else if String.eqb m NULL_MSG then
      sget (fun d => match seat_of_formal d with
                     | Some decl => t_playing 4 i 52 0 me decl North (t_after i ft me)
                     | None => Fail end) (ch_q i)
    else Fail) (ch_q i).
Definition KCb (i : nat) (me : seat) (fc : nat) (sc : cscript) (scr : list cscript) (hand : list card)
  : astate -> list (string * call) -> proc :=
  fun s _ =>
    match contract_of s with
    | None => Fail
    | Some k =>
        if is_passed_out k then c_next i me fc scr
        else match init_obs k me hand with
             | None => Fail
             | Some o => c_playing 4 i me 52 0 o false (sc_cards sc) (fun _ _ => c_next i me fc scr) end end.
Definition KMfin (bd : board) (rest : list board) (k : nat) (names : seat -> string) (s : astate) (kk : contract)
   (play : option (list (seat * list card))) (taken : option Z) (score : Z) : proc :=
  let (sns, sew) := scores_of kk score in
  logp 4 (LRec (mkLog names (b_id bd) (b_dealer bd) (b_deal bd) (hist s) kk play taken "IMP" sns sew (b_dda bd)))
    (m_after names rest (S k)).
Definition KMb (bd : board) (rest : list board) (k : nat) (names : seat -> string) : astate -> proc :=
  fun s =>
    match contract_of s with
    | None => abort 4
    | Some kk =>
        put_null_pair CN kk
          (if is_passed_out kk then KMfin bd rest k names s kk None None 0%Z
           else match init_hands kk (b_deal bd) with
                | None => abort 4
                | Some hs0 =>
                    put_all CN (formal_name (declarer (hbase hs0)))
                      (playing 4 CN 52 0 hs0 (b_deal bd) (fun hs =>
                         let t := Z.of_nat (taken (hbase hs) (side_of (declarer (hbase hs)))) in
                         match calc_score kk t with
                         | None => abort 4
                         | Some sc => KMfin bd rest k names s kk (Some (tricks (hbase hs))) (Some t) sc end)) end) end.

Lemma boards_loop_cons bd rest k names :
  boards_loop 4 CN names (bd :: rest) k =
  fold_right (fun p acc => Put (ch_q (CN p)) (MS (board_header k (b_dealer bd) (b_vul bd)))
                             (Put (ch_q (CN p)) (MS (cards_line (formal_name p) (b_deal bd p))) acc))
    (Bar (Bar (bidding 4 CN 400 (Auction.init (b_dealer bd) (b_vul bd)) (KMb bd rest k names)))) all_seats.
Proof. reflexivity. Qed.
Lemma t_boards_S i ft me :
  t_boards 4 i (S ft) me =
  send 4 i "Start of board"
    (expect 4 i (formal_name me ++ " ready for deal")
       (Bar (forward_q 4 i
          (expect 4 i (formal_name me ++ " ready for cards")
             (Bar (forward_q 4 i (t_bidding 4 i 400 me (KTb i ft me)))) Ret))) Ret).
Proof. reflexivity. Qed.
Lemma c_boards_S i me fc sc scr :
  c_boards 4 i me (S fc) START (sc :: scr) =
  csend 4 i (formal_name me ++ " ready for deal")
    (crecv i (fun hd =>
       match parse_board hd with
       | None => Fail
       | Some (_, dealer, vul) =>
           csend 4 i (formal_name me ++ " ready for cards")
             (crecv i (fun cl =>
                match parse_cards_line cl (formal_name me) with
                | None => Fail
                | Some hand => c_bidding 4 i me 400 (Auction.init dealer vul) (sc_calls sc) (KCb i me fc sc scr hand) end)) end)).
Proof. reflexivity. Qed.

Ltac deal_a2 i HK :=
  let ti := eval cbv in (S i) in let ci := eval cbv in (5 + i) in
  go ti; go ti; cget ci; rewrite HK; rewrite c_boards_S; go ci; go ci;
  go ti; cbv iota; evhd ti; go ti.

(* the three lines every seat is sent at the start of a board *)
Definition deal_to (k : nat) (bd : board) (q : seat) : list msg :=
  [MS START; MS (board_header k (b_dealer bd) (b_vul bd)); MS (cards_line (formal_name q) (b_deal bd q))].

(* ---------- a board up to the start of its auction ---------- *)
Lemma board_deal : forall bd rest k names ft fc sc s0 s1 s2 s3 h0 h1 h2 h3 K0 K1 K2 K3 L T0 T1 T2 T3 T4 T5 T6 T7 b F,
  K0 START = c_boards 4 0 North (S fc) START (sc North :: s0) ->
  K1 START = c_boards 4 1 East (S fc) START (sc East :: s1) ->
  K2 START = c_boards 4 2 South (S fc) START (sc South :: s2) ->
  K3 START = c_boards 4 3 West (S fc) START (sc West :: s3) ->
  parse_cards_line (cards_line (formal_name North) (b_deal bd North)) (formal_name North) = Some h0 ->
  parse_cards_line (cards_line (formal_name East) (b_deal bd East)) (formal_name East) = Some h1 ->
  parse_cards_line (cards_line (formal_name South) (b_deal bd South)) (formal_name South) = Some h2 ->
  parse_cards_line (cards_line (formal_name West) (b_deal bd West)) (formal_name West) = Some h3 ->
  (forall T1' T3' T5' T7',
     reach (BidSt 400 (Auction.init (b_dealer bd) (b_vul bd)) (fun p => sc_calls (sc p)) (KMb bd rest k names)
              (KTb 0 ft North) (KTb 1 ft East) (KTb 2 ft South) (KTb 3 ft West)
              (KCb 0 North fc (sc North) s0 h0) (KCb 1 East fc (sc East) s1 h1)
              (KCb 2 South fc (sc South) s2 h2) (KCb 3 West fc (sc West) s3 h3)
              L (T0 ++ deal_to k bd North) T1' (T2 ++ deal_to k bd East) T3'
                (T4 ++ deal_to k bd South) T5' (T6 ++ deal_to k bd West) T7' (S (S b))) F) ->
  reach (QS (boards_loop 4 CN names (bd :: rest) k)
            (t_boards 4 0 (S ft) North) (t_boards 4 1 (S ft) East) (t_boards 4 2 (S ft) South) (t_boards 4 3 (S ft) West)
            (crecv 0 K0) (crecv 1 K1) (crecv 2 K2) (crecv 3 K3) L T0 T1 T2 T3 T4 T5 T6 T7 b) F.
Proof.
  intros bd rest k names ft fc sc s0 s1 s2 s3 h0 h1 h2 h3 K0 K1 K2 K3 L T0 T1 T2 T3 T4 T5 T6 T7 b F
    HK0 HK1 HK2 HK3 Hh0 Hh1 Hh2 Hh3 HF.
  unfold QS, BidSt, deal_to in *.
  rewrite boards_loop_cons, !t_boards_S.
  unfold send, expect, forward_q, sget, crecv.
  deal_a2 0 HK0. deal_a2 1 HK1. deal_a2 2 HK2. deal_a2 3 HK3.
  unfold all_seats; cbn [fold_right].
  do 9 go 0.
  go 0. go 1. go 2. go 3. go 4.
  deal_b 0. deal_b 1. deal_b 2. deal_b 3.
  go 0. go 0. go 1. go 2. go 3. go 4.
  deal_c 0 Hh0. deal_c 1 Hh1. deal_c 2 Hh2. deal_c 3 Hh3.
  rewrite <- !app_assoc. cbn [app]. apply HF.
Qed.

(* ---------- what is logged is the record of Model/Conform.v ---------- *)
Lemma scores_of_zero k : scores_of k 0 = (0%Z, 0%Z).
Proof. unfold scores_of. destruct (cdeclarer k) as [d|]; [destruct (side_of d)|]; reflexivity. Qed.
Lemma model_record_passed names b sc s k :
  seq_calls 400 (Auction.init (b_dealer b) (b_vul b)) (fun p => sc_calls (sc p)) = Some s ->
  contract_of s = Some k -> is_passed_out k = true ->
  model_record names b sc = Some (mkLog names (b_id b) (b_dealer b) (b_deal b) (hist s) k None None "IMP" 0%Z 0%Z (b_dda b)).
Proof. intros H1 H2 H3. unfold model_record. rewrite H1, H2, H3. reflexivity. Qed.
Lemma model_record_played names b sc s k hs0 hs score sns sew :
  seq_calls 400 (Auction.init (b_dealer b) (b_vul b)) (fun p => sc_calls (sc p)) = Some s ->
  contract_of s = Some k -> is_passed_out k = false -> init_hands k (b_deal b) = Some hs0 ->
  seq_cards 52 hs0 (fun p => sc_cards (sc p)) = Some hs ->
  calc_score k (Z.of_nat (taken (hbase hs) (side_of (declarer (hbase hs))))) = Some score ->
  scores_of k score = (sns, sew) ->
  model_record names b sc =
    Some (mkLog names (b_id b) (b_dealer b) (b_deal b) (hist s) k (Some (tricks (hbase hs)))
            (Some (Z.of_nat (taken (hbase hs) (side_of (declarer (hbase hs)))))) "IMP" sns sew (b_dda b)).
Proof. intros H1 H2 H3 H4 H5 H6 H7. unfold model_record. rewrite H1, H2, H3, H4, H5. cbv zeta. rewrite H6, H7. reflexivity. Qed.

(* ---------- after the auction: a passed-out board ---------- *)
Lemma board_passed : forall bd rest k names ft fc sc s0 s1 s2 s3 h0 h1 h2 h3 f sfin kk calls L T0 T1 T2 T3 T4 T5 T6 T7 b F,
  seq_calls 400 (Auction.init (b_dealer bd) (b_vul bd)) (fun p => sc_calls (sc p)) = Some sfin ->
  active sfin = None -> contract_of sfin = Some kk -> is_passed_out kk = true ->
  (forall r T1' T3' T5' T7', model_record names bd sc = Some r ->
     reach (QS (m_after names rest (S k))
               (t_after 0 ft North) (t_after 1 ft East) (t_after 2 ft South) (t_after 3 ft West)
               (c_next 0 North fc s0) (c_next 1 East fc s1) (c_next 2 South fc s2) (c_next 3 West fc s3)
               (L ++ [MLog (LRec r)]) T0 T1' T2 T3' T4 T5' T6 T7' b) F) ->
  reach (BidSt (S f) sfin calls (KMb bd rest k names)
              (KTb 0 ft North) (KTb 1 ft East) (KTb 2 ft South) (KTb 3 ft West)
              (KCb 0 North fc (sc North) s0 h0) (KCb 1 East fc (sc East) s1 h1)
              (KCb 2 South fc (sc South) s2 h2) (KCb 3 West fc (sc West) s3 h3)
              L T0 T1 T2 T3 T4 T5 T6 T7 b) F.
Proof.
  intros bd rest k names ft fc sc s0 s1 s2 s3 h0 h1 h2 h3 f sfin kk calls L T0 T1 T2 T3 T4 T5 T6 T7 b F Hsc Hact Hk Hpo HF.
  unfold BidSt, QS in *.
  rewrite (bidding_end 4 CN f _ _ Hact).
  rewrite !(c_bidding_end 4 _ _ f _ _ _ Hact).
  unfold KMb, KCb, KMfin. rewrite Hk. cbv iota. rewrite Hpo. cbv iota.
  rewrite scores_of_zero.
  unfold put_null_pair, all_seats, logp; cbn [fold_right]. rewrite Hpo. cbv iota.
  do 9 go 0.
  unfold KTb.
  wrap_t 0. wrap_t 1. wrap_t 2. wrap_t 3.
  apply HF. exact (model_record_passed names bd sc sfin kk Hsc Hk Hpo).
Qed.

Ltac pre_t i :=
  let ti := eval cbv in (S i) in
  unf_tb i; go ti; cbv iota; evhd ti; go ti; cbv iota; evhd ti; evhd ti; go ti; cbv iota;
  rewrite seat_of_formal_name; cbv iota.

(* ---------- after the auction: a played board ---------- *)
Lemma board_played : forall bd rest k names ft fc sc s0 s1 s2 s3 h0 h1 h2 h3 f sfin kk hs0 hsfin calls L T0 T1 T2 T3 T4 T5 T6 T7 b F,
  seq_calls 400 (Auction.init (b_dealer bd) (b_vul bd)) (fun p => sc_calls (sc p)) = Some sfin ->
  active sfin = None -> contract_of sfin = Some kk -> is_passed_out kk = false ->
  init_hands kk (b_deal bd) = Some hs0 -> seq_cards 52 hs0 (fun p => sc_cards (sc p)) = Some hsfin ->
  same_cards h0 (b_deal bd North) -> same_cards h1 (b_deal bd East) -> same_cards h2 (b_deal bd South) -> same_cards h3 (b_deal bd West) ->
  (forall r T1' T3' T5' T7', model_record names bd sc = Some r ->
     reach (QS (m_after names rest (S k))
               (t_after 0 ft North) (t_after 1 ft East) (t_after 2 ft South) (t_after 3 ft West)
               (c_next 0 North fc s0) (c_next 1 East fc s1) (c_next 2 South fc s2) (c_next 3 West fc s3)
               (L ++ [MLog (LRec r)])
               (T0 ++ play_view 52 0 hs0 (b_deal bd) (fun p => sc_cards (sc p)) North) T1'
               (T2 ++ play_view 52 0 hs0 (b_deal bd) (fun p => sc_cards (sc p)) East) T3'
               (T4 ++ play_view 52 0 hs0 (b_deal bd) (fun p => sc_cards (sc p)) South) T5'
               (T6 ++ play_view 52 0 hs0 (b_deal bd) (fun p => sc_cards (sc p)) West) T7' b) F) ->
  reach (BidSt (S f) sfin calls (KMb bd rest k names)
              (KTb 0 ft North) (KTb 1 ft East) (KTb 2 ft South) (KTb 3 ft West)
              (KCb 0 North fc (sc North) s0 h0) (KCb 1 East fc (sc East) s1 h1)
              (KCb 2 South fc (sc South) s2 h2) (KCb 3 West fc (sc West) s3 h3)
              L T0 T1 T2 T3 T4 T5 T6 T7 b) F.
Proof.
  intros bd rest k names ft fc sc s0 s1 s2 s3 h0 h1 h2 h3 f sfin kk hs0 hsfin calls L T0 T1 T2 T3 T4 T5 T6 T7 b F
    Hsc Hact Hk Hpo Hih Hsq Hs0 Hs1 Hs2 Hs3 HF.
  destruct (Proofs.Play.init_hands_shape kk (b_deal bd) hs0 Hih) as (b0 & Hb0 & ->).
  destruct (Proofs.Play.opening kk b0 Hb0) as (lv & st & d & Hfb & Hcd & _ & Hdc & Hdm & Hle & Hpa & _).
  destruct kk as [fb x xx v cd]. cbn [final_bid cdeclarer] in Hfb, Hcd. subst fb cd.
  unfold BidSt, QS in *.
  rewrite (bidding_end 4 CN f _ _ Hact).
  rewrite !(c_bidding_end 4 _ _ f _ _ _ Hact).
  unfold KMb, KCb. rewrite Hk. cbv iota. rewrite Hpo, Hih. cbv iota. cbn [hbase]. rewrite Hdc.
  unfold init_obs. rewrite Hb0. cbn [option_map]. cbv iota.
  unfold put_null_pair, put_all, all_seats; cbn [fold_right]. rewrite Hpo. cbv iota.
  do 12 go 0.
  unfold KTb.
  pre_t 0. pre_t 1. pre_t 2. pre_t 3.
  set (hq := fun q : seat => match q with North => h0 | East => h1 | South => h2 | West => h3 end).
  pose proof (play_all (mkcontract (Some (lv, st)) x xx v (Some d)) d b0 (b_deal bd) (fun p => sc_cards (sc p)) hsfin 50
            (fun q : seat => mkO b0 q (hq q) None) North) as HH.
  unfold PlaySt, QS in HH. cbv beta in HH. subst hq. cbv beta iota in HH.
  eapply HH; [exact Hb0|exact Hdc|exact Hdm|exact Hle|exact Hpa| |exact Hsq|]; clear HH.
  { intros q. repeat split; try reflexivity; destruct q; cbn; first [apply Hs0 | apply Hs1 | apply Hs2 | apply Hs3]. }
  clear T1 T3 T5 T7. intros a0' os' cards' T1 T3 T5 T7 HPf.
  change (2 + 50) with 52 in *.
  pose proof (pinv_facts _ _ _ _ _ HPf) as (_ & Ffdc & _ & _ & _ & Ftk & _).
  unfold PlaySt, QS. cbn [playing t_playing c_playing]. cbv zeta.
  destruct (calc_score_some lv st x xx v d (taken (hbase hsfin) (side_of (declarer (hbase hsfin))))) as (scv & Hscv).
  { change (52 / 4) with 13 in Ftk. unfold taken. destruct (side_of _); lia. }
  rewrite Hscv. cbv iota. unfold KMfin. destruct (scores_of _ scv) as [sns sew] eqn:Hso. unfold logp.
  go 0.
  apply HF. exact (model_record_played names bd sc sfin _ _ hsfin scv sns sew Hsc Hk Hpo Hih Hsq Hscv Hso).
Qed.

Lemma conform_board_inv bd sc : conform_board bd sc = true ->
  exists sfin kk, seq_calls 400 (Auction.init (b_dealer bd) (b_vul bd)) (fun p => sc_calls (sc p)) = Some sfin /\
    contract_of sfin = Some kk /\
    (is_passed_out kk = true \/
     (is_passed_out kk = false /\ exists hs0 hsfin, init_hands kk (b_deal bd) = Some hs0 /\
        seq_cards 52 hs0 (fun p => sc_cards (sc p)) = Some hsfin)).
Proof.
  unfold conform_board.
  generalize (seq_calls 400 (Auction.init (b_dealer bd) (b_vul bd)) (fun p => sc_calls (sc p))). intros [sfin|]; [|discriminate].
  destruct (contract_of sfin) as [kk|] eqn:Hk; [|discriminate]. intros H. exists sfin, kk. split; [reflexivity|]. split; [exact Hk|].
  destruct (is_passed_out kk) eqn:Hpo; [left; reflexivity|right]. split; [reflexivity|].
  destruct (init_hands kk (b_deal bd)) as [hs0|] eqn:Hih; [|discriminate].
  remember (seq_cards 52 hs0 (fun p => sc_cards (sc p))) as r eqn:Er. destruct r as [hsfin|]; [|discriminate].
  exists hs0, hsfin. split; [reflexivity|symmetry; exact Er].
Qed.

(* ---------- everything seat q is sent during one board ---------- *)
Definition board_view (k : nat) (bd : board) (sc : seat -> cscript) (q : seat) : list msg :=
  deal_to k bd q ++
  auction_view 400 (Auction.init (b_dealer bd) (b_vul bd)) (fun p => sc_calls (sc p)) q ++
  match seq_calls 400 (Auction.init (b_dealer bd) (b_vul bd)) (fun p => sc_calls (sc p)) with
  | None => []
  | Some s =>
      match contract_of s with
      | None => []
      | Some kk =>
          if is_passed_out kk then []
          else match init_hands kk (b_deal bd) with
               | None => []
               | Some hs0 => play_view 52 0 hs0 (b_deal bd) (fun p => sc_cards (sc p)) q end end end.
Lemma board_view_passed k bd sc s kk q T :
  seq_calls 400 (Auction.init (b_dealer bd) (b_vul bd)) (fun p => sc_calls (sc p)) = Some s ->
  contract_of s = Some kk -> is_passed_out kk = true ->
  (T ++ deal_to k bd q) ++ auction_view 400 (Auction.init (b_dealer bd) (b_vul bd)) (fun p => sc_calls (sc p)) q = T ++ board_view k bd sc q.
Proof. intros H1 H2 H3. unfold board_view. rewrite H1, H2, H3. rewrite app_nil_r, app_assoc. reflexivity. Qed.
Lemma board_view_played k bd sc s kk hs0 q T :
  seq_calls 400 (Auction.init (b_dealer bd) (b_vul bd)) (fun p => sc_calls (sc p)) = Some s ->
  contract_of s = Some kk -> is_passed_out kk = false -> init_hands kk (b_deal bd) = Some hs0 ->
  ((T ++ deal_to k bd q) ++ auction_view 400 (Auction.init (b_dealer bd) (b_vul bd)) (fun p => sc_calls (sc p)) q) ++
    play_view 52 0 hs0 (b_deal bd) (fun p => sc_cards (sc p)) q = T ++ board_view k bd sc q.
Proof. intros H1 H2 H3 H4. unfold board_view. rewrite H1, H2, H3, H4. rewrite <- !app_assoc. reflexivity. Qed.

(* ---------- one board, any conforming scripts ---------- *)
Lemma board_general : forall bd rest k names ft fc sc s0 s1 s2 s3 K0 K1 K2 K3 L T0 T1 T2 T3 T4 T5 T6 T7 b F,
  conform_board bd sc = true ->
  K0 START = c_boards 4 0 North (S fc) START (sc North :: s0) ->
  K1 START = c_boards 4 1 East (S fc) START (sc East :: s1) ->
  K2 START = c_boards 4 2 South (S fc) START (sc South :: s2) ->
  K3 START = c_boards 4 3 West (S fc) START (sc West :: s3) ->
  (forall r T1' T3' T5' T7', model_record names bd sc = Some r ->
     reach (QS (m_after names rest (S k))
               (t_after 0 ft North) (t_after 1 ft East) (t_after 2 ft South) (t_after 3 ft West)
               (c_next 0 North fc s0) (c_next 1 East fc s1) (c_next 2 South fc s2) (c_next 3 West fc s3)
               (L ++ [MLog (LRec r)]) (T0 ++ board_view k bd sc North) T1' (T2 ++ board_view k bd sc East) T3'
               (T4 ++ board_view k bd sc South) T5' (T6 ++ board_view k bd sc West) T7' (S (S b))) F) ->
  reach (QS (boards_loop 4 CN names (bd :: rest) k)
            (t_boards 4 0 (S ft) North) (t_boards 4 1 (S ft) East) (t_boards 4 2 (S ft) South) (t_boards 4 3 (S ft) West)
            (crecv 0 K0) (crecv 1 K1) (crecv 2 K2) (crecv 3 K3) L T0 T1 T2 T3 T4 T5 T6 T7 b) F.
Proof.
  intros bd rest k names ft fc sc s0 s1 s2 s3 K0 K1 K2 K3 L T0 T1 T2 T3 T4 T5 T6 T7 b F HC HK0 HK1 HK2 HK3 HF.
  destruct (conform_board_inv bd sc HC) as (sfin & kk & Hsc & Hk & Hcase). clear HC.
  destruct (hand_roundtrip (formal_name North) (b_deal bd North)) as (h0 & Hh0 & Hs0); [simpl; tauto|].
  destruct (hand_roundtrip (formal_name East) (b_deal bd East)) as (h1 & Hh1 & Hs1); [simpl; tauto|].
  destruct (hand_roundtrip (formal_name South) (b_deal bd South)) as (h2 & Hh2 & Hs2); [simpl; tauto|].
  destruct (hand_roundtrip (formal_name West) (b_deal bd West)) as (h3 & Hh3 & Hs3); [simpl; tauto|].
  apply (board_deal bd rest k names ft fc sc s0 s1 s2 s3 h0 h1 h2 h3 K0 K1 K2 K3 L T0 T1 T2 T3 T4 T5 T6 T7 b F
           HK0 HK1 HK2 HK3 Hh0 Hh1 Hh2 Hh3).
  clear T1 T3 T5 T7. intros T1 T3 T5 T7.
  apply (auction_general 400 _ _ sfin Hsc).
  clear T1 T3 T5 T7. intros f' calls' T1 T3 T5 T7 Hact.
  destruct Hcase as [Hpo|(Hpo & hs0 & hsfin & Hih & Hsq)].
  - apply (board_passed bd rest k names ft fc sc s0 s1 s2 s3 h0 h1 h2 h3 f' sfin kk calls' L _ T1 _ T3 _ T5 _ T7 (S (S b)) F Hsc Hact Hk Hpo).
    intros r U1 U3 U5 U7 Hr. rewrite !(board_view_passed k bd sc sfin kk _ _ Hsc Hk Hpo). apply HF. exact Hr.
  - apply (board_played bd rest k names ft fc sc s0 s1 s2 s3 h0 h1 h2 h3 f' sfin kk hs0 hsfin calls' L _ T1 _ T3 _ T5 _ T7 (S (S b)) F
             Hsc Hact Hk Hpo Hih Hsq Hs0 Hs1 Hs2 Hs3).
    intros r U1 U3 U5 U7 Hr. rewrite !(board_view_played k bd sc sfin kk hs0 _ _ Hsc Hk Hpo Hih). apply HF. exact Hr.
Qed.

(* ===================================================================== any non-empty list of boards, with the logged records and what is sent *)
(* ---------- scripts and boards by index ---------- *)
Lemma skipn_nth (l : list cscript) : forall a, S a <= length l -> skipn a l = nth_script l a :: skipn (S a) l.
Proof.
  unfold nth_script. induction l as [|x l IHl]; intros a Hlen; [cbn in Hlen; lia|].
  destruct a as [|a]; [reflexivity|]. cbn [skipn nth]. apply IHl. cbn [length] in Hlen. lia.
Qed.
Lemma forallb_seq_cons {A} (f : nat * A -> bool) a x l :
  forallb f (combine (seq a (length (x :: l))) (x :: l)) = f (a, x) && forallb f (combine (seq (S a) (length l)) l).
Proof. reflexivity. Qed.
Lemma map_seq_cons {A B} (f : nat * A -> B) a x l :
  map f (combine (seq a (length (x :: l))) (x :: l)) = f (a, x) :: map f (combine (seq (S a) (length l)) l).
Proof. reflexivity. Qed.

(* what is logged for the boards from index a on *)
Definition recs_from (names : seat -> string) (scr : seat -> list cscript) (a : nat) (rest : list board) : list (option logrec) :=
  map (fun '(j, b) => model_record names b (fun p => nth_script (scr p) j)) (combine (seq a (length rest)) rest).
Lemma recs_from_length names scr a rest : length (recs_from names scr a rest) = length rest.
Proof. unfold recs_from. rewrite map_length, combine_length, seq_length. apply Nat.min_id. Qed.

(* everything seat q is sent from board index a (number k) on *)
Fixpoint views_from (scr : seat -> list cscript) (k a : nat) (rest : list board) (q : seat) : list msg :=
  match rest with
  | [] => []
  | bd :: rest' => board_view k bd (fun p => nth_script (scr p) a) q ++ views_from scr (S k) (S a) rest' q
  end.

(* ---------- end of session, with what is sent ---------- *)
Lemma session_end_tr : forall k names ft fc s0 s1 s2 s3 L T0 T1 T2 T3 T4 T5 T6 T7 b F,
  (forall T1' T3' T5' T7',
     reach (QS Ret Ret Ret Ret Ret Ret Ret Ret Ret (L ++ [MLog LClose])
              (T0 ++ [MS END_SESSION]) T1' (T2 ++ [MS END_SESSION]) T3' (T4 ++ [MS END_SESSION]) T5' (T6 ++ [MS END_SESSION]) T7' b) F) ->
  reach (QS (m_after names [] k)
            (t_after 0 ft North) (t_after 1 ft East) (t_after 2 ft South) (t_after 3 ft West)
            (c_next 0 North fc s0) (c_next 1 East fc s1) (c_next 2 South fc s2) (c_next 3 West fc s3)
            L T0 T1 T2 T3 T4 T5 T6 T7 b) F.
Proof.
  intros k names ft fc s0 s1 s2 s3 L T0 T1 T2 T3 T4 T5 T6 T7 b F HF.
  unfold QS in *. unfold m_after, t_after, c_next. cbn [boards_loop].
  unfold logp, put_all, join_all, all_seats; cbn [fold_right].
  do 5 go 0.
  end_t 0. end_t 1. end_t 2. end_t 3.
  do 4 go 0.
  apply HF.
Qed.

(* ---------- any non-empty list of boards ---------- *)
Opaque conform_board model_record board_view.
Lemma loop_general : forall rest, rest <> [] -> forall a scr k names K0 K1 K2 K3 L T0 T1 T2 T3 T4 T5 T6 T7 b F,
  (forall p, length (scr p) = a + length rest) ->
  forallb (fun '(j, b) => conform_board b (fun p => nth_script (scr p) j)) (combine (seq a (length rest)) rest) = true ->
  K0 START = c_boards 4 0 North (S (length rest)) START (skipn a (scr North)) ->
  K1 START = c_boards 4 1 East (S (length rest)) START (skipn a (scr East)) ->
  K2 START = c_boards 4 2 South (S (length rest)) START (skipn a (scr South)) ->
  K3 START = c_boards 4 3 West (S (length rest)) START (skipn a (scr West)) ->
  (forall recs T1' T3' T5' T7' b', map Some recs = recs_from names scr a rest ->
     reach (QS Ret Ret Ret Ret Ret Ret Ret Ret Ret (L ++ map recmsg recs ++ [MLog LClose])
              (T0 ++ views_from scr k a rest North ++ [MS END_SESSION]) T1'
              (T2 ++ views_from scr k a rest East ++ [MS END_SESSION]) T3'
              (T4 ++ views_from scr k a rest South ++ [MS END_SESSION]) T5'
              (T6 ++ views_from scr k a rest West ++ [MS END_SESSION]) T7' b') F) ->
  reach (QS (boards_loop 4 CN names rest k)
            (t_boards 4 0 (S (length rest)) North) (t_boards 4 1 (S (length rest)) East)
            (t_boards 4 2 (S (length rest)) South) (t_boards 4 3 (S (length rest)) West)
            (crecv 0 K0) (crecv 1 K1) (crecv 2 K2) (crecv 3 K3) L T0 T1 T2 T3 T4 T5 T6 T7 b) F.
Proof.
  induction rest as [|bd rest IH]; intros Hne a scr k names K0 K1 K2 K3 L T0 T1 T2 T3 T4 T5 T6 T7 b F Hlen HC HK0 HK1 HK2 HK3 HF; [congruence|].
  rewrite forallb_seq_cons in HC. apply andb_true_iff in HC. destruct HC as [HC1 HC2].
  assert (Hsk : forall p, skipn a (scr p) = nth_script (scr p) a :: skipn (S a) (scr p)).
  { intros p. apply skipn_nth. rewrite (Hlen p). cbn [length]. lia. }
  rewrite Hsk in HK0, HK1, HK2, HK3.
  eapply (board_general bd rest k names (length (bd :: rest)) (length (bd :: rest)) (fun p => nth_script (scr p) a)
            (skipn (S a) (scr North)) (skipn (S a) (scr East)) (skipn (S a) (scr South)) (skipn (S a) (scr West))
            K0 K1 K2 K3 L T0 T1 T2 T3 T4 T5 T6 T7 b F HC1 HK0 HK1 HK2 HK3).
  clear T1 T3 T5 T7. intros r T1 T3 T5 T7 Hr.
  cbn [views_from] in HF.
  destruct rest as [|bd' rest'].
  - apply session_end_tr. clear T1 T3 T5 T7. intros T1 T3 T5 T7.
    cbn [views_from] in HF. rewrite !app_nil_r in HF. rewrite <- !app_assoc. apply (HF [r]).
    unfold recs_from. rewrite map_seq_cons. cbn [map]. rewrite Hr. reflexivity.
  - apply next_board.
    eapply (IH ltac:(discriminate) (S a) scr (S k) names); [|exact HC2|reflexivity|reflexivity|reflexivity|reflexivity|].
    + intros p. rewrite (Hlen p). cbn [length]. lia.
    + intros recs T1' T3' T5' T7' b' Hrecs.
      rewrite <- !app_assoc in HF. rewrite <- !app_assoc. apply (HF (r :: recs)).
      unfold recs_from in *. rewrite map_seq_cons. cbn [map]. rewrite Hr, Hrecs. reflexivity.
Qed.
Transparent conform_board model_record board_view.

(* ===================================================================== start of the session; the theorems *)
(* ---------- admission, seating barrier and team line, for any scripts ---------- *)
Lemma init_eq_general boards ns ew scripts :
  init_state (conf_session boards ns ew scripts) =
  Kahn.mk msg
    [main_proc 4 boards;
     conn_proc 4 0 (length boards); conn_proc 4 1 (length boards); conn_proc 4 2 (length boards); conn_proc 4 3 (length boards);
     client_proc 4 0 North ns 18 (scripts North); client_proc 4 1 East ew 18 (scripts East);
     client_proc 4 2 South ns 18 (scripts South); client_proc 4 3 West ew 18 (scripts West)]
    [[];[];[];[]; [];[];[];[]; [];[];[];[]; [];[];[];[]; [];[]; [];[];[];[];[];[];[];[]]
    [] [0;0;0;0;0;0;0;0;0].
Proof. reflexivity. Qed.

Lemma startup_general : forall boards ns ew scripts F, no_quote ns -> no_quote ew ->
  (forall p, length (scripts p) = length boards) ->
  (forall T1 T3 T5 T7,
     reach (QS (boards_loop 4 CN (NM ns ew) boards 1)
               (t_boards 4 0 (S (length boards)) North) (t_boards 4 1 (S (length boards)) East)
               (t_boards 4 2 (S (length boards)) South) (t_boards 4 3 (S (length boards)) West)
               (crecv 0 (fun s => c_boards 4 0 North (S (length boards)) s (scripts North)))
               (crecv 1 (fun s => c_boards 4 1 East (S (length boards)) s (scripts East)))
               (crecv 2 (fun s => c_boards 4 2 South (S (length boards)) s (scripts South)))
               (crecv 3 (fun s => c_boards 4 3 West (S (length boards)) s (scripts West)))
               [MLog LOpen] [MS (seated_line North ns); MS (teams_line ns ew)] T1 [MS (seated_line East ew); MS (teams_line ns ew)] T3
               [MS (seated_line South ns); MS (teams_line ns ew)] T5 [MS (seated_line West ew); MS (teams_line ns ew)] T7 1) F) ->
  reach (init_state (conf_session boards ns ew scripts)) F.
Proof.
  intros boards ns ew scripts F Hns Hew Hlen HF. rewrite init_eq_general.
  rewrite main_proc_eq. cbn [seq]. rewrite admission_eq.
  unfold client_proc, conn_proc, seated, expect, handle_error, csend, crecv, send, sget.
  rewrite !Hlen.
  evhd 0.
  seat_one 0 North ns Hns.
  seat_one 1 East ew Hew.
  seat_one 2 South ns Hns.
  seat_one 3 West ew Hew.
  unfold all_seats; cbn [fold_right].
  do 5 go 0.
  go 0. go 1. go 2. go 3. go 4.
  go 0.
  teams_one 0 North ns ew Hns Hew.
  teams_one 1 East ns ew Hns Hew.
  teams_one 2 South ns ew Hns Hew.
  teams_one 3 West ns ew Hns Hew.
  apply HF.
Qed.

(* ---------- the theorems ---------- *)
Lemma conforming_lengths boards scripts : conforming boards scripts = true ->
  (forall p, length (scripts p) = length boards) /\
  forallb (fun '(j, b) => conform_board b (fun p => nth_script (scripts p) j)) (combine (seq 0 (length boards)) boards) = true.
Proof.
  unfold conforming. intros H. apply andb_true_iff in H. destruct H as [H1 H2]. split; [|exact H2].
  rewrite forallb_forall in H1. intros p. apply Nat.eqb_eq. apply H1. destruct p; cbn; tauto.
Qed.

(* the lines sent to the seat p during the whole session *)
Definition down_view (boards : list board) (ns ew : string) (scripts : seat -> list cscript) (p : seat) : list msg :=
  [MS (seated_line p (match side_of p with NS => ns | EW => ew end)); MS (teams_line ns ew)] ++
  views_from scripts 1 0 boards p ++ [MS END_SESSION].

(* completion, with the list of logged records (board j's record is model_record of board j and the j-th scripts)
   and with the four transcripts of what the table manager sent *)
Lemma conforming_session_full : forall boards ns ew scripts,
  boards <> [] -> no_quote ns -> no_quote ew -> conforming boards scripts = true ->
  exists l f, srun l (init_state (conf_session boards ns ew scripts)) = Some f /\
              Kahn.all_doneb msg f = true /\
              (exists recs, log_events 4 f = LOpen :: map LRec recs ++ [LClose] /\
                            map Some recs = recs_from (NM ns ew) scripts 0 boards) /\
              chan f (tr_down 4 0) = down_view boards ns ew scripts North /\
              chan f (tr_down 4 1) = down_view boards ns ew scripts East /\
              chan f (tr_down 4 2) = down_view boards ns ew scripts South /\
              chan f (tr_down 4 3) = down_view boards ns ew scripts West.
Proof.
  intros boards ns ew scripts Hne Hns Hew Hconf.
  destruct (conforming_lengths boards scripts Hconf) as [Hlen HC].
  change (reach (init_state (conf_session boards ns ew scripts))
            (fun f => Kahn.all_doneb msg f = true /\
                      (exists recs, log_events 4 f = LOpen :: map LRec recs ++ [LClose] /\
                                    map Some recs = recs_from (NM ns ew) scripts 0 boards) /\
                      chan f (tr_down 4 0) = down_view boards ns ew scripts North /\
                      chan f (tr_down 4 1) = down_view boards ns ew scripts East /\
                      chan f (tr_down 4 2) = down_view boards ns ew scripts South /\
                      chan f (tr_down 4 3) = down_view boards ns ew scripts West)).
  apply startup_general; [exact Hns | exact Hew | exact Hlen |]. intros T1 T3 T5 T7.
  apply (loop_general boards Hne 0 scripts); [exact Hlen|exact HC|reflexivity|reflexivity|reflexivity|reflexivity|].
  intros recs T1' T3' T5' T7' b' Hl.
  apply reach_done. split; [reflexivity|]. split; [|repeat split; reflexivity].
  exists recs. split; [|exact Hl].
  unfold log_events.
  match goal with |- context[chan (QS ?a ?b ?c ?d ?e ?f ?g ?h ?i ?L ?t0 ?t1 ?t2 ?t3 ?t4 ?t5 ?t6 ?t7 ?bb) (ch_log 4)] =>
    change (chan (QS a b c d e f g h i L t0 t1 t2 t3 t4 t5 t6 t7 bb) (ch_log 4)) with L end.
  apply log_flat.
Qed.

Lemma conforming_session_recs : forall boards ns ew scripts,
  boards <> [] -> no_quote ns -> no_quote ew -> conforming boards scripts = true ->
  exists l f, srun l (init_state (conf_session boards ns ew scripts)) = Some f /\
              Kahn.all_doneb msg f = true /\
              exists recs, log_events 4 f = LOpen :: map LRec recs ++ [LClose] /\
                           map Some recs = recs_from (NM ns ew) scripts 0 boards.
Proof.
  intros boards ns ew scripts Hne Hns Hew Hconf.
  destruct (conforming_session_full boards ns ew scripts Hne Hns Hew Hconf) as (l & f & Hr & Hd & Hrecs & _).
  exists l, f. auto.
Qed.

Theorem conforming_session_completes : forall boards ns ew scripts,
  boards <> [] -> no_quote ns -> no_quote ew -> conforming boards scripts = true ->
  exists l f, srun l (init_state (conf_session boards ns ew scripts)) = Some f /\
              Kahn.all_doneb msg f = true /\
              exists recs, log_events 4 f = LOpen :: map LRec recs ++ [LClose] /\ length recs = length boards.
Proof.
  intros boards ns ew scripts Hne Hns Hew Hconf.
  destruct (conforming_session_recs boards ns ew scripts Hne Hns Hew Hconf) as (l & f & Hr & Hd & recs & Hlog & Hrecs).
  exists l, f. split; [exact Hr|]. split; [exact Hd|]. exists recs. split; [exact Hlog|].
  apply (f_equal (@length _)) in Hrecs. rewrite map_length, recs_from_length in Hrecs. exact Hrecs.
Qed.

Theorem conforming_session_every_schedule : forall boards ns ew scripts,
  boards <> [] -> no_quote ns -> no_quote ew -> conforming boards scripts = true ->
  exists f n, Kahn.all_doneb msg f = true /\
    forall l' s', srun l' (init_state (conf_session boards ns ew scripts)) = Some s' ->
      length l' <= n /\ (sfinal s' -> s' = f).
Proof.
  intros boards ns ew scripts Hne Hns Hew Hconf.
  destruct (conforming_session_completes boards ns ew scripts Hne Hns Hew Hconf) as (l & f & Hr & Hd & _).
  pose proof (all_done_final f Hd) as Hf.
  exists f, (length l). split; [exact Hd|].
  intros l' s' Hr'. split.
  - exact (session_no_run_is_longer _ l f l' s' Hr Hf Hr').
  - intros Hs'. exact (proj1 (session_maximal_runs_agree _ l f l' s' Hr Hf Hr' Hs')).
Qed.

Print Assumptions conforming_session_completes.
Print Assumptions conforming_session_every_schedule.

