(* Proofs about Model/Json.v and Model/Schema.v: token printer / parser, the writer's framing,
   record and setting round trips, and conformance of written documents to the shipped schemas.
   Facts about the generated constants (json_framing, tag_logs, tag_settings, log_schema, setting_schema)
   are obtained by computation on those constants only. *)
From BE Require Import Model.Json Model.Schema Model.JsonFramingHand Model.SchemasHand.
From BE Require Import Proofs.Hands.
From Coq Require Import ZArith Lia.
Local Open Scope string_scope.
Local Open Scope nat_scope.
Local Open Scope list_scope.

(* ================= tokens / parser ================= *)

Section JsonInd.
  Variable P : json -> Prop.
  Hypothesis Hnull : P JNull.
  Hypothesis Hbool : forall b, P (JBool b).
  Hypothesis Hnum : forall z, P (JNum z).
  Hypothesis Hstr : forall s, P (JStr s).
  Hypothesis Harr : forall l, Forall P l -> P (JArr l).
  Hypothesis Hobj : forall l, Forall (fun kv => P (snd kv)) l -> P (JObj l).
  Fixpoint json_ind' (j : json) : P j :=
    match j with
    | JNull => Hnull | JBool b => Hbool b | JNum z => Hnum z | JStr s => Hstr s
    | JArr l => Harr l ((fix go (l : list json) : Forall P l :=
                           match l with [] => Forall_nil _ | x :: r => Forall_cons x (json_ind' x) (go r) end) l)
    | JObj l => Hobj l ((fix go (l : list (string * json)) : Forall (fun kv => P (snd kv)) l :=
                           match l with [] => Forall_nil _ | kv :: r => Forall_cons kv (json_ind' (snd kv)) (go r) end) l)
    end.
End JsonInd.

Definition tok_items := fix items (l : list json) : list tok :=
  match l with [] => [] | [x] => tokens x | x :: r => tokens x ++ TComma :: items r end.
Definition tok_members := fix members (l : list (string * json)) : list tok :=
  match l with [] => [] | [(k, v)] => TStr k :: TColon :: tokens v
  | (k, v) :: r => TStr k :: TColon :: tokens v ++ TComma :: members r end.
Lemma tokens_arr l : tokens (JArr l) = TLBrack :: tok_items l ++ [TRBrack]. Proof. reflexivity. Qed.
Lemma tokens_obj l : tokens (JObj l) = TLBrace :: tok_members l ++ [TRBrace]. Proof. reflexivity. Qed.
Lemma tok_items_one x : tok_items [x] = tokens x. Proof. reflexivity. Qed.
Lemma tok_items_more x y l : tok_items (x :: y :: l) = tokens x ++ TComma :: tok_items (y :: l). Proof. reflexivity. Qed.
Lemma tok_members_one k v : tok_members [(k, v)] = TStr k :: TColon :: tokens v. Proof. reflexivity. Qed.
Lemma tok_members_more k v y l : tok_members ((k, v) :: y :: l) = TStr k :: TColon :: tokens v ++ TComma :: tok_members (y :: l).
Proof. reflexivity. Qed.

Definition p_items (f : nat) := fix items (g : nat) (ts : list tok) (acc : list json) : option (json * list tok) :=
  match g with
  | 0 => None
  | S g' => match parse_value f ts with
            | Some (v, TComma :: r') => items g' r' (acc ++ [v])
            | Some (v, TRBrack :: r') => Some (JArr (acc ++ [v]), r')
            | _ => None end end.
Definition p_members (f : nat) := fix members (g : nat) (ts : list tok) (acc : list (string * json)) : option (json * list tok) :=
  match g with
  | 0 => None
  | S g' => match ts with
            | TStr k :: TColon :: r1 =>
                match parse_value f r1 with
                | Some (v, TComma :: r') => members g' r' (acc ++ [(k, v)])
                | Some (v, TRBrace :: r') => Some (JObj (acc ++ [(k, v)]), r')
                | _ => None end
            | _ => None end end.
Lemma p_items_S f g ts acc : p_items f (S g) ts acc =
  match parse_value f ts with
  | Some (v, TComma :: r') => p_items f g r' (acc ++ [v])
  | Some (v, TRBrack :: r') => Some (JArr (acc ++ [v]), r')
  | _ => None end.
Proof. reflexivity. Qed.
Lemma p_members_S f g k r1 acc : p_members f (S g) (TStr k :: TColon :: r1) acc =
  match parse_value f r1 with
  | Some (v, TComma :: r') => p_members f g r' (acc ++ [(k, v)])
  | Some (v, TRBrace :: r') => Some (JObj (acc ++ [(k, v)]), r')
  | _ => None end.
Proof. reflexivity. Qed.

Definition opens (t : tok) : bool := match t with TRBrace | TRBrack | TColon | TComma => false | _ => true end.
Lemma parse_arr_step f t r : opens t = true -> parse_value (S f) (TLBrack :: t :: r) = p_items f f (t :: r) [].
Proof. destruct t; intros H; try discriminate H; reflexivity. Qed.
Lemma parse_obj_step f k r : parse_value (S f) (TLBrace :: TStr k :: r) = p_members f f (TStr k :: r) [].
Proof. reflexivity. Qed.
Lemma tokens_head j : exists t r, tokens j = t :: r /\ opens t = true.
Proof. destruct j as [|[]| | | |]; cbn; eauto. Qed.
Lemma tok_items_head l : l <> [] -> exists t r, tok_items l = t :: r /\ opens t = true.
Proof.
  destruct l as [|x [|y l]]; [congruence| |]; intros _.
  - apply tokens_head.
  - rewrite tok_items_more. destruct (tokens_head x) as (t & r & E & H). rewrite E. cbn. eauto.
Qed.

Definition parses (x : json) : Prop :=
  forall fuel rest, length (tokens x) <= fuel -> parse_value fuel (tokens x ++ rest) = Some (x, rest).

Lemma p_items_ok f : forall l, l <> [] -> Forall parses l ->
  forall g acc rest, length (tok_items l) <= g -> length (tok_items l) <= f ->
  p_items f g (tok_items l ++ TRBrack :: rest) acc = Some (JArr (acc ++ l), rest).
Proof.
  induction l as [|x l IH]; [congruence|]. intros _ HF g acc rest Hg Hf.
  inversion HF as [|? ? Hx HF']; subst.
  destruct l as [|y l].
  - rewrite tok_items_one in *. destruct (tokens_head x) as (t & r & E & _).
    destruct g as [|g]; [rewrite E in Hg; cbn in Hg; lia|].
    rewrite p_items_S, (Hx f (TRBrack :: rest) Hf). reflexivity.
  - rewrite tok_items_more in *. rewrite app_length in Hg, Hf. cbn [length] in Hg, Hf.
    destruct g as [|g]; [lia|].
    rewrite <- app_assoc. cbn [app]. rewrite p_items_S, (Hx f _ ltac:(lia)).
    rewrite (IH ltac:(congruence) HF' g (acc ++ [x]) rest ltac:(lia) ltac:(lia)).
    rewrite <- app_assoc. reflexivity.
Qed.

Lemma p_members_ok f : forall l, l <> [] -> Forall (fun kv => parses (snd kv)) l ->
  forall g acc rest, length (tok_members l) <= g -> length (tok_members l) <= f ->
  p_members f g (tok_members l ++ TRBrace :: rest) acc = Some (JObj (acc ++ l), rest).
Proof.
  induction l as [|[k x] l IH]; [congruence|]. intros _ HF g acc rest Hg Hf.
  inversion HF as [|? ? Hx HF']; subst. cbn [snd] in Hx.
  destruct l as [|y l].
  - rewrite tok_members_one in *. cbn [length] in Hg, Hf.
    destruct g as [|g]; [lia|].
    cbn [app]. rewrite p_members_S, (Hx f (TRBrace :: rest) ltac:(lia)). reflexivity.
  - rewrite tok_members_more in *. cbn [length] in Hg, Hf. rewrite app_length in Hg, Hf. cbn [length] in Hg, Hf.
    destruct g as [|g]; [lia|].
    cbn [app]. rewrite <- app_assoc. cbn [app]. rewrite p_members_S, (Hx f _ ltac:(lia)).
    rewrite (IH ltac:(congruence) HF' g (acc ++ [(k, x)]) rest ltac:(lia) ltac:(lia)).
    rewrite <- app_assoc. reflexivity.
Qed.

Lemma parse_ok : forall j, parses j.
Proof.
  induction j using json_ind'; unfold parses; intros fuel rest Hfuel.
  - destruct fuel; [cbn in Hfuel; lia|]. reflexivity.
  - destruct fuel; [destruct b; cbn in Hfuel; lia|]. destruct b; reflexivity.
  - destruct fuel; [cbn in Hfuel; lia|]. reflexivity.
  - destruct fuel; [cbn in Hfuel; lia|]. reflexivity.
  - rewrite tokens_arr in *. cbn [length] in Hfuel. rewrite app_length in Hfuel. cbn [length] in Hfuel.
    destruct fuel as [|f]; [lia|].
    destruct l as [|x l].
    + reflexivity.
    + cbn [app]. rewrite <- app_assoc. cbn [app].
      destruct (tok_items_head (x :: l)) as (t & r & E & Ht); [congruence|].
      assert (E' : tok_items (x :: l) ++ TRBrack :: rest = t :: (r ++ TRBrack :: rest)) by (rewrite E; reflexivity).
      rewrite E', (parse_arr_step f t _ Ht), <- E'.
      apply (p_items_ok f (x :: l) ltac:(congruence) H f [] rest); lia.
  - rewrite tokens_obj in *. cbn [length] in Hfuel. rewrite app_length in Hfuel. cbn [length] in Hfuel.
    destruct fuel as [|f]; [lia|].
    destruct l as [|[k x] l].
    + reflexivity.
    + cbn [app]. rewrite <- app_assoc. cbn [app].
      assert (E : exists r, tok_members ((k, x) :: l) = TStr k :: r) by (destruct l as [|[] ?]; eexists; reflexivity).
      destruct E as (r & E).
      assert (E' : tok_members ((k, x) :: l) ++ TRBrace :: rest = TStr k :: (r ++ TRBrace :: rest)) by (rewrite E; reflexivity).
      rewrite E', parse_obj_step, <- E'.
      apply (p_members_ok f ((k, x) :: l) ltac:(congruence) H f [] rest); lia.
Qed.

Lemma parse_tokens : forall j rest, exists n, forall fuel, n <= fuel -> parse_value fuel (tokens j ++ rest) = Some (j, rest).
Proof. intros j rest. exists (length (tokens j)). intros fuel H. apply parse_ok. exact H. Qed.

Lemma parse_doc_tokens : forall j, parse_doc (tokens j) = Some j.
Proof.
  intros j. unfold parse_doc.
  pose proof (parse_ok j (S (length (tokens j))) [] ltac:(lia)) as H. rewrite app_nil_r in H. rewrite H. reflexivity.
Qed.

(* ================= framing ================= *)

Definition wordc (c : ascii) : bool := is_alpha c || Ascii.eqb c "_"%char.

Lemma strip_prefix_len : forall p s r, strip_prefix p s = Some r -> String.length s = String.length p + String.length r.
Proof.
  induction p as [|a p IH]; intros s r H.
  - cbn in H. injection H as <-. reflexivity.
  - destruct s as [|b s]; [discriminate H|]. cbn in H. destruct (Ascii.eqb a b); [|discriminate H].
    cbn [String.length]. rewrite (IH _ _ H). reflexivity.
Qed.

Lemma lex_fuel : forall n m s, String.length s < n -> String.length s < m -> lex_framing n s = lex_framing m s.
Proof.
  induction n as [|n IH]; intros m s Hn Hm; [lia|]. destruct m as [|m]; [lia|].
  destruct s as [|a r]; [reflexivity|]. cbn [String.length] in Hn, Hm.
  assert (H : forall r', String.length r' <= String.length r -> lex_framing n r' = lex_framing m r')
    by (intros r' Hr; apply IH; lia).
  cbn [lex_framing]. rewrite (H r (le_n _)).
  destruct (strip_prefix (take_while (fun c => is_alpha c || Ascii.eqb c "_"%char) r) r) as [[|q r']|] eqn:E; try reflexivity.
  apply strip_prefix_len in E. cbn [String.length] in E. rewrite (H r' ltac:(lia)). reflexivity.
Qed.

Lemma lexf_struct a t s :
  (forall f r, lex_framing (S f) (String a r) = option_map (cons t) (lex_framing f r)) ->
  lexf (String a s) = option_map (cons t) (lexf s).
Proof. intros H. unfold lexf. cbn [String.length]. rewrite H. reflexivity. Qed.

Lemma lexf_lbrace s : lexf (String "{" s) = option_map (cons TLBrace) (lexf s).
Proof. apply lexf_struct. reflexivity. Qed.

Lemma take_while_word : forall tag rest, sforall wordc tag = true ->
  take_while wordc (tag ++ String """" rest)%string = tag.
Proof.
  induction tag as [|a tag IH]; intros rest H; [reflexivity|].
  cbn in H. apply andb_prop in H. destruct H as [Ha Ht].
  cbn [append take_while]. rewrite Ha, (IH rest Ht). reflexivity.
Qed.
Lemma strip_prefix_app : forall p s, strip_prefix p (p ++ s)%string = Some s.
Proof.
  induction p as [|a p IH]; intros s; [reflexivity|]. cbn [append strip_prefix]. rewrite Ascii.eqb_refl. apply IH.
Qed.
Lemma slen_app' (a b : string) : String.length (a ++ b)%string = String.length a + String.length b.
Proof. induction a as [|c a IH]; cbn; [reflexivity|]. rewrite IH. reflexivity. Qed.

Lemma lexf_word tag rest : sforall wordc tag = true ->
  lexf (String """" (tag ++ String """" rest)) = option_map (cons (TStr tag)) (lexf rest).
Proof.
  intros H. unfold lexf. cbn [String.length].
  change (lex_framing (S (S (String.length (tag ++ String """" rest)))) (String """" (tag ++ String """" rest)))
    with (let w := take_while wordc (tag ++ String """" rest)%string in
          match strip_prefix w (tag ++ String """" rest)%string with
          | Some (String q r') => if Ascii.eqb q """" then option_map (cons (TStr w)) (lex_framing (S (String.length (tag ++ String """" rest))) r') else None
          | _ => None end).
  cbv zeta. rewrite (take_while_word tag rest H), strip_prefix_app. rewrite Ascii.eqb_refl.
  rewrite (lex_fuel _ (S (String.length rest)) rest); [reflexivity| |lia].
  rewrite slen_app'. cbn [String.length]. lia.
Qed.

(* the generated pieces, reached by computation only *)
Definition open_rest : string :=
  match f_open json_framing EmptyString with String _ (String _ (String _ r)) => r | _ => EmptyString end.
Lemma open_shape tag : f_open json_framing tag = String "{" (String """" (tag ++ String """" open_rest)).
Proof. reflexivity. Qed.
Lemma open_rest_tokens : lexf open_rest = Some [TColon; TLBrack]. Proof. vm_compute. reflexivity. Qed.
Lemma sep_tokens : lexf (f_sep json_framing) = Some [TComma]. Proof. vm_compute. reflexivity. Qed.
Lemma close_tokens : lexf (f_close json_framing) = Some [TRBrack; TRBrace]. Proof. vm_compute. reflexivity. Qed.
Lemma close_empty_tokens : lexf (f_close_empty json_framing) = Some [TRBrack; TRBrace]. Proof. vm_compute. reflexivity. Qed.

Lemma open_tokens tag : sforall wordc tag = true ->
  lexf (f_open json_framing tag) = Some [TLBrace; TStr tag; TColon; TLBrack].
Proof. intros H. rewrite open_shape, lexf_lbrace, (lexf_word tag open_rest H), open_rest_tokens. reflexivity. Qed.

Lemma framing_tokens : forall tag rs, sforall (fun c => is_alpha c || Ascii.eqb c "_"%char) tag = true ->
  written_tokens json_framing tag rs = Some (tokens (JObj [(tag, JArr rs)])).
Proof.
  intros tag rs H. unfold written_tokens. rewrite (open_tokens tag H), sep_tokens.
  assert (C : lexf (if match rs with [] => true | _ => false end then f_close_empty json_framing else f_close json_framing)
              = Some [TRBrack; TRBrace]) by (destruct rs; [apply close_empty_tokens|apply close_tokens]).
  rewrite C. rewrite tokens_obj, tok_members_one, tokens_arr.
  change (fix go (l : list json) : list tok :=
            match l with [] => [] | [x] => tokens x | y :: r => tokens y ++ [TComma] ++ go r end) with tok_items.
  cbn [app]. rewrite <- app_assoc. reflexivity.
Qed.

Lemma framing_parses : forall tag rs, sforall (fun c => is_alpha c || Ascii.eqb c "_"%char) tag = true ->
  exists ts, written_tokens json_framing tag rs = Some ts /\ parse_doc ts = Some (JObj [(tag, JArr rs)]).
Proof. intros tag rs H. eexists. split; [apply framing_tokens; exact H|apply parse_doc_tokens]. Qed.

Lemma tags_are_words : sforall (fun c => is_alpha c || Ascii.eqb c "_"%char) tag_logs = true /\
                       sforall (fun c => is_alpha c || Ascii.eqb c "_"%char) tag_settings = true.
Proof. vm_compute. split; reflexivity. Qed.

(* ================= records ================= *)

(* notation round trips (finite case analyses, proved here so that this file depends on the models only) *)
Lemma seat_rt p : seat_of_str (seat_str p) = Some p. Proof. destruct p; reflexivity. Qed.
Lemma vul_rt v : vul_of_str (vul_str v) = Some v. Proof. destruct v; reflexivity. Qed.
Lemma strain_rt s : strain_of_str (strain_str s) = Some s. Proof. destruct s as [[]|]; reflexivity. Qed.
Lemma call_rt c : call_of_str (call_str c) = Some c. Proof. destruct c as [[] [[]|]| | |]; reflexivity. Qed.
Lemma contract_rt l s x xx v d :
  exists k', contract_of_str (contract_str (mkcontract (Some (l, s)) x xx v d)) v d = Some k' /\
             final_bid k' = Some (l, s) /\ cvul k' = v /\ cdeclarer k' = d /\ cstatus k' = status_of x xx.
Proof. destruct l, s as [[]|], x, xx; (eexists; split; [reflexivity|]); repeat split. Qed.

Definition same_hand (a b : hand) : Prop := forall c, In c a <-> In c b.
Definition same_deal (d e : deal) : Prop := forall p, same_hand (d p) (e p).
Definition wf_rec (r : logrec) : Prop := is_passed_out (l_contract r) = false -> cdeclarer (l_contract r) <> None.
Definition rec_equiv (r r' : logrec) : Prop :=
  (forall p, l_players r' p = l_players r p) /\ l_board_id r' = l_board_id r /\ l_dealer r' = l_dealer r /\
  same_deal (l_deal r) (l_deal r') /\ l_bids r' = l_bids r /\
  final_bid (l_contract r') = final_bid (l_contract r) /\ cvul (l_contract r') = cvul (l_contract r) /\
  cstatus (l_contract r') = (if is_passed_out (l_contract r) then Undoubled else cstatus (l_contract r)) /\
  cdeclarer (l_contract r') = (if is_passed_out (l_contract r) then None else cdeclarer (l_contract r)) /\
  l_play r' = l_play r /\ l_taken r' = l_taken r /\ l_scoring r' = l_scoring r /\
  l_score_ns r' = l_score_ns r /\ l_score_ew r' = l_score_ew r /\ l_dda r' = l_dda r.
Definition setting_matches (r : logrec) (s : setting) : Prop :=
  s_board_id s = l_board_id r /\ s_dealer s = l_dealer r /\ same_deal (l_deal r) (s_deal s) /\
  s_vul s = cvul (l_contract r) /\ s_dda s = l_dda r.
Definition setting_equiv (s s' : setting) : Prop :=
  s_board_id s' = s_board_id s /\ s_dealer s' = s_dealer s /\ same_deal (s_deal s) (s_deal s') /\ s_vul s' = s_vul s /\ s_dda s' = s_dda s.

Ltac conjs := repeat match goal with |- _ /\ _ => split end.

(* the deal as it comes back: every hand in ascending card order without repetitions *)
Definition norm_deal (d : deal) : deal :=
  fun p => match p with North => sorted_hand (d North) | East => sorted_hand (d East)
                      | South => sorted_hand (d South) | West => sorted_hand (d West) end.
Lemma norm_deal_same d : same_deal d (norm_deal d).
Proof. intros p c. destruct p; cbn [norm_deal]; symmetry; apply in_sorted_hand. Qed.

Lemma strs_of_map l : strs_of (map JStr l) = Some l.
Proof. induction l as [|s l IH]; [reflexivity|]. cbn [map strs_of]. rewrite IH. reflexivity. Qed.
Lemma hand_of_jstrs h : hand_of_json (Some (jstrs (deal_to_json h))) = Some (sorted_hand h).
Proof. unfold hand_of_json, jstrs. rewrite strs_of_map. apply json_to_hand_map. Qed.
Lemma deal_fields a b c d :
  let j := JObj [("N", a); ("E", b); ("S", c); ("W", d)] in
  field "N" j = Some a /\ field "E" j = Some b /\ field "S" j = Some c /\ field "W" j = Some d.
Proof. repeat split. Qed.
Lemma deal_of_deal_json d : deal_of_json (deal_json d) = Some (norm_deal d).
Proof.
  unfold deal_of_json, deal_json.
  destruct (deal_fields (jstrs (deal_to_json (d North))) (jstrs (deal_to_json (d East)))
                        (jstrs (deal_to_json (d South))) (jstrs (deal_to_json (d West)))) as (E1 & E2 & E3 & E4).
  cbv zeta in E1, E2, E3, E4. rewrite E1, E2, E3, E4, !hand_of_jstrs. reflexivity.
Qed.
Lemma dda_row_rt row : dda_row (map (fun '(s, n) => (strain_str s, JNum n)) row) = Some row.
Proof. induction row as [|[s n] row IH]; [reflexivity|]. cbn [map dda_row]. rewrite strain_rt, IH. reflexivity. Qed.
Lemma dda_of_rt t : dda_of (map (fun '(p, row) => (seat_str p, JObj (map (fun '(s, n) => (strain_str s, JNum n)) row))) t) = Some t.
Proof. induction t as [|[p row] t IH]; [reflexivity|]. cbn [map dda_of]. rewrite seat_rt, dda_row_rt, IH. reflexivity. Qed.
Lemma calls_of_rt l : calls_of (map call_str l) = Some l.
Proof. induction l as [|c l IH]; [reflexivity|]. cbn [map calls_of]. rewrite call_rt, IH. reflexivity. Qed.
Lemma cards_of_rt l : cards_of (map card_str l) = Some l.
Proof. induction l as [|c l IH]; [reflexivity|]. cbn [map cards_of]. rewrite card_str_rt, IH. reflexivity. Qed.
Definition trick_json := fun '((ld, cs) : seat * list card) => JObj [("leader", JStr (seat_str ld)); ("cards", jstrs (map card_str cs))].
Lemma trick_fields a b : let j := JObj [("leader", a); ("cards", b)] in field "leader" j = Some a /\ field "cards" j = Some b.
Proof. split; reflexivity. Qed.
Lemma tricks_of_rt ts : tricks_of (map trick_json ts) = Some ts.
Proof.
  induction ts as [|[ld cs] ts IH]; [reflexivity|]. cbn [map tricks_of trick_json].
  destruct (trick_fields (JStr (seat_str ld)) (jstrs (map card_str cs))) as (E1 & E2). cbv zeta in E1, E2.
  rewrite E1, E2. unfold jstrs. rewrite seat_rt, strs_of_map, cards_of_rt, IH. reflexivity.
Qed.

Lemma setting_of_json_gen j b d dl v dda :
  field "board_id" j = Some (JStr b) -> field "dealer" j = Some (JStr (seat_str d)) ->
  field "deal" j = Some (deal_json dl) -> field "vulnerability" j = Some (JStr (vul_str v)) ->
  field "dda" j = option_map dda_json dda ->
  setting_of_json j = Some (mkSetting b d (norm_deal dl) v dda).
Proof.
  intros H1 H2 H3 H4 H5. unfold setting_of_json. rewrite H1, H2, H3, H4, H5, seat_rt, deal_of_deal_json, vul_rt.
  destruct dda as [t|]; cbn [option_map]; [|reflexivity]. unfold dda_json. rewrite dda_of_rt. reflexivity.
Qed.

(* ---- settings ---- *)
Lemma setting_of_setting_json s :
  setting_of_json (setting_json s) = Some (mkSetting (s_board_id s) (s_dealer s) (norm_deal (s_deal s)) (s_vul s) (s_dda s)).
Proof. apply setting_of_json_gen; unfold setting_json; destruct (s_dda s); reflexivity. Qed.

Lemma setting_roundtrip : forall s, exists s', setting_of_json (setting_json s) = Some s' /\ setting_equiv s s'.
Proof.
  intros s. eexists. split; [apply setting_of_setting_json|].
  unfold setting_equiv; cbn [s_board_id s_dealer s_deal s_vul s_dda]. conjs; try reflexivity. apply norm_deal_same.
Qed.

Lemma map_opt_Forall2 {A B} (f : A -> option B) (R : A -> B -> Prop) l :
  Forall (fun x => exists y, f x = Some y /\ R x y) l -> exists l', map_opt f l = Some l' /\ Forall2 R l l'.
Proof.
  induction 1 as [|x l (y & E & HR) _ (l' & E' & HF)].
  - exists []. split; [reflexivity|constructor].
  - exists (y :: l'). split; [cbn [map_opt]; rewrite E, E'; reflexivity|constructor; assumption].
Qed.
Lemma map_opt_map {A B C} (f : B -> option C) (g : A -> B) l : map_opt f (map g l) = map_opt (fun x => f (g x)) l.
Proof. induction l as [|x l IH]; [reflexivity|]. cbn [map map_opt]. rewrite IH. reflexivity. Qed.

Lemma settings_roundtrip : forall ss,
  exists ss', parse_board_settings (JObj [("board_settings"%string, JArr (map setting_json ss))]) = Some ss' /\ Forall2 setting_equiv ss ss'.
Proof.
  intros ss.
  change (parse_board_settings (JObj [("board_settings", JArr (map setting_json ss))])) with (map_opt setting_of_json (map setting_json ss)).
  rewrite map_opt_map. apply map_opt_Forall2. apply Forall_forall. intros s _. apply setting_roundtrip.
Qed.

(* ---- log records ---- *)
Lemma rf_board_id r : field "board_id" (record_json r) = Some (JStr (l_board_id r)).
Proof. unfold record_json; destruct (l_dda r); reflexivity. Qed.
Lemma rf_dealer r : field "dealer" (record_json r) = Some (JStr (seat_str (l_dealer r))).
Proof. unfold record_json; destruct (l_dda r); reflexivity. Qed.
Lemma rf_deal r : field "deal" (record_json r) = Some (deal_json (l_deal r)).
Proof. unfold record_json; destruct (l_dda r); reflexivity. Qed.
Lemma rf_vul r : field "vulnerability" (record_json r) = Some (JStr (vul_str (cvul (l_contract r)))).
Proof. unfold record_json; destruct (l_dda r); reflexivity. Qed.
Lemma rf_dda r : field "dda" (record_json r) = option_map dda_json (l_dda r).
Proof. unfold record_json; destruct (l_dda r); reflexivity. Qed.
Lemma rf_players r : field "players" (record_json r) =
  Some (JObj [("N", JStr (l_players r North)); ("E", JStr (l_players r East)); ("S", JStr (l_players r South)); ("W", JStr (l_players r West))]).
Proof. unfold record_json; destruct (l_dda r); reflexivity. Qed.
Lemma rf_bids r : field "bid_history" (record_json r) = Some (jstrs (map call_str (l_bids r))).
Proof. unfold record_json; destruct (l_dda r); reflexivity. Qed.
Lemma rf_contract r : field "contract" (record_json r) = Some (JStr (contract_str (l_contract r))).
Proof. unfold record_json; destruct (l_dda r); reflexivity. Qed.
Lemma rf_declarer r : field "declarer" (record_json r) =
  Some (if is_passed_out (l_contract r) then JNull
        else match cdeclarer (l_contract r) with Some d => JStr (seat_str d) | None => JStr "None" end).
Proof. unfold record_json; destruct (l_dda r); reflexivity. Qed.
Lemma rf_play r : field "play_history" (record_json r) =
  Some (match l_play r with None => JNull | Some ts => JArr (map trick_json ts) end).
Proof. unfold record_json; destruct (l_dda r); reflexivity. Qed.
Lemma rf_taken r : field "taken_trick" (record_json r) = Some (match l_taken r with None => JNull | Some n => JNum n end).
Proof. unfold record_json; destruct (l_dda r); reflexivity. Qed.
Lemma rf_scoring r : field "score_type" (record_json r) = Some (JStr (l_scoring r)).
Proof. unfold record_json; destruct (l_dda r); reflexivity. Qed.
Lemma rf_scores r : field "scores" (record_json r) = Some (JObj [("NS", JNum (l_score_ns r)); ("EW", JNum (l_score_ew r))]).
Proof. unfold record_json; destruct (l_dda r); reflexivity. Qed.
Lemma score_fields a b : let j := JObj [("NS", a); ("EW", b)] in field "NS" j = Some a /\ field "EW" j = Some b.
Proof. split; reflexivity. Qed.

Lemma setting_of_record_json r :
  setting_of_json (record_json r) =
  Some (mkSetting (l_board_id r) (l_dealer r) (norm_deal (l_deal r)) (cvul (l_contract r)) (l_dda r)).
Proof. apply setting_of_json_gen; [apply rf_board_id|apply rf_dealer|apply rf_deal|apply rf_vul|apply rf_dda]. Qed.

Definition players_back (r : logrec) : seat -> string :=
  fun p => match p with North => l_players r North | East => l_players r East | South => l_players r South | West => l_players r West end.

Lemma log_of_record_json r : wf_rec r ->
  exists k', log_of_json (record_json r) =
             Some (mkLog (players_back r) (l_board_id r) (l_dealer r) (norm_deal (l_deal r)) (l_bids r) k'
                         (l_play r) (l_taken r) (l_scoring r) (l_score_ns r) (l_score_ew r) (l_dda r)) /\
             final_bid k' = final_bid (l_contract r) /\ cvul k' = cvul (l_contract r) /\
             cstatus k' = (if is_passed_out (l_contract r) then Undoubled else cstatus (l_contract r)) /\
             cdeclarer k' = (if is_passed_out (l_contract r) then None else cdeclarer (l_contract r)).
Proof.
  intros wf. unfold log_of_json.
  rewrite setting_of_record_json, rf_declarer, rf_contract, rf_taken, rf_players, rf_bids, rf_play, rf_scoring, rf_scores.
  cbn [s_board_id s_dealer s_deal s_vul s_dda].
  destruct (deal_fields (JStr (l_players r North)) (JStr (l_players r East)) (JStr (l_players r South)) (JStr (l_players r West)))
    as (P1 & P2 & P3 & P4). cbv zeta in P1, P2, P3, P4. rewrite P1, P2, P3, P4.
  destruct (score_fields (JNum (l_score_ns r)) (JNum (l_score_ew r))) as (S1 & S2). cbv zeta in S1, S2. rewrite S1, S2.
  unfold jstrs. rewrite strs_of_map, calls_of_rt.
  assert (PL : match match l_play r with None => JNull | Some ts => JArr (map trick_json ts) end with
               | JNull => Some None | JArr l => option_map Some (tricks_of l) | _ => None end = Some (l_play r)).
  { destruct (l_play r) as [ts|]; [rewrite tricks_of_rt|]; reflexivity. }
  assert (TK : match match l_taken r with None => JNull | Some n => JNum n end with
               | JNull => Some None | JNum n => Some (Some n) | _ => None end = Some (l_taken r)).
  { destruct (l_taken r); reflexivity. }
  unfold wf_rec in wf. destruct (l_contract r) as [fb x xx v dd]. cbn [is_passed_out final_bid cvul cdeclarer cstatus cx cxx] in *.
  destruct fb as [[l s]|]; cbn [is_passed_out final_bid] in *.
  - specialize (wf eq_refl). destruct dd as [d|]; [|congruence].
    rewrite seat_rt. cbn [option_map].
    destruct (contract_rt l s x xx v (Some d)) as (k' & E & F1 & F2 & F3 & F4). rewrite E.
    exists k'. split; [|auto].
    cbv zeta. rewrite PL, TK. reflexivity.
  - exists (mkcontract None false false v None). split; [|repeat split].
    change (contract_of_str (contract_str (mkcontract None x xx v dd)) v None) with (Some (mkcontract None false false v None)).
    cbv zeta. rewrite PL, TK. reflexivity.
Qed.

Lemma log_roundtrip : forall r, wf_rec r -> exists r', log_of_json (record_json r) = Some r' /\ rec_equiv r r'.
Proof.
  intros r wf. destruct (log_of_record_json r wf) as (k' & E & F1 & F2 & F3 & F4).
  eexists. split; [exact E|]. unfold rec_equiv. cbn [l_players l_board_id l_dealer l_deal l_bids l_contract l_play l_taken l_scoring l_score_ns l_score_ew l_dda].
  conjs; try assumption; try reflexivity.
  - intros p. destruct p; reflexivity.
  - apply norm_deal_same.
Qed.

Lemma logs_roundtrip : forall rs, Forall wf_rec rs ->
  exists rs', parse_board_logs (JObj [("logs"%string, JArr (map record_json rs))]) = Some rs' /\ Forall2 rec_equiv rs rs'.
Proof.
  intros rs H.
  change (parse_board_logs (JObj [("logs", JArr (map record_json rs))])) with (map_opt log_of_json (map record_json rs)).
  rewrite map_opt_map. apply map_opt_Forall2. revert H. apply Forall_impl. intros r wf. apply log_roundtrip. exact wf.
Qed.

Lemma log_as_settings : forall rs,
  exists ss, parse_board_settings (JObj [("logs"%string, JArr (map record_json rs))]) = Some ss /\ Forall2 setting_matches rs ss.
Proof.
  intros rs.
  change (parse_board_settings (JObj [("logs", JArr (map record_json rs))])) with (map_opt setting_of_json (map record_json rs)).
  rewrite map_opt_map. apply map_opt_Forall2. apply Forall_forall. intros r _.
  eexists. split; [apply setting_of_record_json|]. unfold setting_matches; cbn [s_board_id s_dealer s_deal s_vul s_dda].
  conjs; try reflexivity. apply norm_deal_same.
Qed.

(* ================= schemas ================= *)
(* A shape describes a set of JSON values.  [conforms] decides, by computation on a schema, that every value of a
   shape validates; the generated schemas are only ever inspected by running [conforms] on them. *)
Inductive shape := ShNull | ShStr | ShNum | ShAlt (a b : shape) | ShArr (s : shape) | ShObj (must may : list (string * shape)).

Inductive inS : shape -> json -> Prop :=
| in_null : inS ShNull JNull
| in_str s : inS ShStr (JStr s)
| in_num n : inS ShNum (JNum n)
| in_altl a b j : inS a j -> inS (ShAlt a b) j
| in_altr a b j : inS b j -> inS (ShAlt a b) j
| in_arr s l : (forall x, In x l -> inS s x) -> inS (ShArr s) (JArr l)
| in_obj must may m :
    (forall k v, In (k, v) m -> exists sh, In (k, sh) (must ++ may) /\ inS sh v) ->
    (forall k, In k (map fst must) -> In k (map fst m)) -> inS (ShObj must may) (JObj m).

Definition shape_type (t : jtype) (sh : shape) : bool :=
  match t, sh with
  | TyString, ShStr | TyInteger, ShNum | TyNumber, ShNum | TyObject, ShObj _ _ | TyArray, ShArr _ | TyNull, ShNull => true
  | _, _ => false end.
Definition types_ok (types : list jtype) (sh : shape) : bool :=
  match types with [] => true | _ => existsb (fun t => shape_type t sh) types end.

Fixpoint conforms (fuel : nat) (sch : schema) (sh : shape) : bool :=
  match fuel with
  | 0 => false
  | S f =>
    match sh with
    | ShAlt a b => conforms f sch a && conforms f sch b
    | _ =>
      match sch with
      | Schema types props required items =>
          types_ok types sh &&
          match sh with
          | ShObj must may =>
              forallb (fun k => existsb (String.eqb k) (map fst must)) required &&
              forallb (fun ks => forallb (fun ksh => if String.eqb (fst ks) (fst ksh) then conforms f (snd ks) (snd ksh) else true)
                                         (must ++ may)) props
          | ShArr s => match items with None => true | Some si => conforms f si s end
          | _ => true end
      end
    end
  end.

Lemma lookup_in k m v : lookup k m = Some v -> In (k, v) m.
Proof.
  induction m as [|[k' v'] m IH]; cbn [lookup]; [discriminate|].
  destruct (lookup k m) as [w|] eqn:E.
  - intros H. injection H as <-. right. apply IH. reflexivity.
  - destruct (String.eqb k k') eqn:Ek; [|discriminate]. apply String.eqb_eq in Ek. subst k'.
    intros H. injection H as <-. left. reflexivity.
Qed.
Lemma lookup_some k m : In k (map fst m) -> lookup k m <> None.
Proof.
  induction m as [|[k' v'] m IH]; cbn [lookup map fst In]; [tauto|]. intros [->|H].
  - destruct (lookup k m); [discriminate|]. rewrite String.eqb_refl. discriminate.
  - specialize (IH H). destruct (lookup k m); [discriminate|congruence].
Qed.

Definition jtypes_ok (types : list jtype) (j : json) : bool :=
  match types with [] => true | _ => existsb (fun t => has_type t j) types end.

Lemma validates_obj_intro types props required items m :
  jtypes_ok types (JObj m) = true ->
  (forall k, In k required -> lookup k m <> None) ->
  (forall k sk v, In (k, sk) props -> lookup k m = Some v -> validates sk v = true) ->
  validates (Schema types props required items) (JObj m) = true.
Proof.
  intros H1 H2 H3. cbn [validates]. unfold jtypes_ok in H1. rewrite H1. cbn [andb].
  apply andb_true_intro. split.
  - apply forallb_forall. intros k Hk. specialize (H2 k Hk). destruct (lookup k m); [reflexivity|congruence].
  - clear H2. induction props as [|[k sk] props IH]; [reflexivity|].
    apply andb_true_intro. split.
    + destruct (lookup k m) as [v|] eqn:E; [|reflexivity]. apply (H3 k sk v); [left; reflexivity|exact E].
    + apply IH. intros k' sk' v' Hin. apply H3. right. exact Hin.
Qed.
Lemma validates_arr_intro types props required items l :
  jtypes_ok types (JArr l) = true ->
  (forall si, items = Some si -> forall x, In x l -> validates si x = true) ->
  validates (Schema types props required items) (JArr l) = true.
Proof.
  intros H1 H2. cbn [validates]. unfold jtypes_ok in H1. rewrite H1. cbn [andb].
  destruct items as [si|]; [|reflexivity]. specialize (H2 si eq_refl). clear H1.
  induction l as [|x l IH]; [reflexivity|]. apply andb_true_intro. split.
  - apply H2. left. reflexivity.
  - apply IH. intros y Hy. apply H2. right. exact Hy.
Qed.

Lemma types_sound types sh j : (forall t, shape_type t sh = has_type t j) -> types_ok types sh = true -> jtypes_ok types j = true.
Proof.
  intros H. unfold types_ok, jtypes_ok. destruct types as [|t0 ts]; [reflexivity|].
  intros E. rewrite <- E. generalize (t0 :: ts). intros l.
  induction l as [|t l IH]; [reflexivity|]. cbn [existsb]. rewrite IH, H. reflexivity.
Qed.

Lemma existsb_eqb_in k l : existsb (String.eqb k) l = true -> In k l.
Proof. intros H. apply existsb_exists in H. destruct H as (x & Hx & E). apply String.eqb_eq in E. subst. exact Hx. Qed.

Lemma conforms_sound : forall f sch sh j, conforms f sch sh = true -> inS sh j -> validates sch j = true.
Proof.
  induction f as [|f IH]; intros sch sh j C I; [discriminate C|].
  destruct I as [|s|n|a b j I|a b j I|s l Hl|must may m Hm Hreq].
  - destruct sch as [types props required items]. cbn [conforms] in C. apply andb_prop in C. destruct C as [C _].
    cbn [validates]. change (jtypes_ok types JNull && true = true).
    rewrite (types_sound types ShNull JNull); [reflexivity| |exact C]. intros t; destruct t; reflexivity.
  - destruct sch as [types props required items]. cbn [conforms] in C. apply andb_prop in C. destruct C as [C _].
    cbn [validates]. change (jtypes_ok types (JStr s) && true = true).
    rewrite (types_sound types ShStr (JStr s)); [reflexivity| |exact C]. intros t; destruct t; reflexivity.
  - destruct sch as [types props required items]. cbn [conforms] in C. apply andb_prop in C. destruct C as [C _].
    cbn [validates]. change (jtypes_ok types (JNum n) && true = true).
    rewrite (types_sound types ShNum (JNum n)); [reflexivity| |exact C]. intros t; destruct t; reflexivity.
  - cbn [conforms] in C. apply andb_prop in C. destruct C as [C _]. apply (IH sch a j C I).
  - cbn [conforms] in C. apply andb_prop in C. destruct C as [_ C]. apply (IH sch b j C I).
  - destruct sch as [types props required items]. cbn [conforms] in C. apply andb_prop in C. destruct C as [C1 C2].
    apply validates_arr_intro.
    + apply (types_sound types (ShArr s)); [|exact C1]. intros t; destruct t; reflexivity.
    + intros si -> x Hx. apply (IH si s x C2 (Hl x Hx)).
  - destruct sch as [types props required items]. cbn [conforms] in C. apply andb_prop in C. destruct C as [C1 C].
    apply andb_prop in C. destruct C as [C2 C3].
    apply validates_obj_intro.
    + apply (types_sound types (ShObj must may)); [|exact C1]. intros t; destruct t; reflexivity.
    + intros k Hk. apply lookup_some. apply Hreq. apply existsb_eqb_in.
      rewrite forallb_forall in C2. apply C2. exact Hk.
    + intros k sk v Hin Hl. apply lookup_in in Hl. destruct (Hm k v Hl) as (sh & Hsh & Iv).
      rewrite forallb_forall in C3. specialize (C3 (k, sk) Hin). rewrite forallb_forall in C3.
      specialize (C3 (k, sh) Hsh). cbn [fst snd] in C3. rewrite String.eqb_refl in C3.
      apply (IH sk sh v C3 Iv).
Qed.

(* ---- the shapes of what the writers produce ---- *)
Definition sh_strs : shape := ShArr ShStr.
Definition deal_shape : shape := ShObj [("N", sh_strs); ("E", sh_strs); ("S", sh_strs); ("W", sh_strs)] [].
Definition row_shape : shape := ShObj (map (fun s => (strain_str s, ShNum)) all_strains) [].
Definition dda_shape : shape := ShObj [] (map (fun p => (seat_str p, row_shape)) all_seats).
Definition trick_shape : shape := ShObj [("leader", ShStr); ("cards", sh_strs)] [].
Definition record_shape : shape :=
  ShObj [("players", ShObj [("N", ShStr); ("E", ShStr); ("S", ShStr); ("W", ShStr)] []);
         ("board_id", ShStr); ("dealer", ShStr); ("deal", deal_shape); ("vulnerability", ShStr);
         ("bid_history", sh_strs); ("contract", ShStr); ("declarer", ShAlt ShNull ShStr);
         ("play_history", ShAlt ShNull (ShArr trick_shape)); ("taken_trick", ShAlt ShNull ShNum);
         ("score_type", ShStr); ("scores", ShObj [("NS", ShNum); ("EW", ShNum)] [])]
        [("dda", dda_shape)].
Definition setting_shape : shape :=
  ShObj [("board_id", ShStr); ("dealer", ShStr); ("deal", deal_shape); ("vulnerability", ShStr)] [("dda", dda_shape)].
Definition doc_shape (tag : string) (sh : shape) : shape := ShObj [(tag, ShArr sh)] [].

(* the schema requires every double-dummy row to list all five denominations *)
Definition row_full (row : list (strain * Z)) : Prop := forall s, In s (map fst row).
Definition dda_full (o : option dda_table) : Prop :=
  match o with None => True | Some t => Forall (fun pr => row_full (snd pr)) t end.

Lemma in_obj_app must may m1 m2 :
  Forall2 (fun kv ks => fst kv = fst ks /\ inS (snd ks) (snd kv)) m1 must ->
  (forall k v, In (k, v) m2 -> exists sh, In (k, sh) may /\ inS sh v) ->
  inS (ShObj must may) (JObj (m1 ++ m2)).
Proof.
  intros HF H2. constructor.
  - intros k v H. apply in_app_or in H. destruct H as [H|H].
    + clear H2. induction HF as [|[k1 v1] [k2 s2] m1 must (E & I) HF IH]; [destruct H|].
      cbn [fst snd] in E, I. destruct H as [H|H].
      * injection H as -> ->. subst k2. exists s2. split; [left; reflexivity|exact I].
      * destruct (IH H) as (sh & Hsh & Ish). exists sh. split; [right; exact Hsh|exact Ish].
    + destruct (H2 k v H) as (sh & Hsh & Ish). exists sh. split; [apply in_or_app; right; exact Hsh|exact Ish].
  - intros k Hk. rewrite map_app. apply in_or_app. left.
    clear H2. induction HF as [|[k1 v1] [k2 s2] m1 must (E & I) HF IH]; [destruct Hk|].
    cbn [fst snd map In] in *. destruct Hk as [Hk|Hk]; [left; congruence|right; apply IH; exact Hk].
Qed.
Lemma in_obj_exact must may m :
  Forall2 (fun kv ks => fst kv = fst ks /\ inS (snd ks) (snd kv)) m must -> inS (ShObj must may) (JObj m).
Proof. intros H. rewrite <- (app_nil_r m). apply in_obj_app; [exact H|]. intros k v []. Qed.

Ltac obj_fields := repeat (apply Forall2_cons; [split; [reflexivity|cbn [snd]]|]); try apply Forall2_nil.

Lemma in_jstrs l : inS sh_strs (jstrs l).
Proof. constructor. intros x H. apply in_map_iff in H. destruct H as (s & <- & _). constructor. Qed.
Lemma in_deal d : inS deal_shape (deal_json d).
Proof. apply in_obj_exact. obj_fields; apply in_jstrs. Qed.
Lemma in_row row : row_full row -> inS row_shape (JObj (map (fun '(s, n) => (strain_str s, JNum n)) row)).
Proof.
  intros Hfull. constructor.
  - intros k v H. apply in_map_iff in H. destruct H as ([s n] & E & _). injection E as <- <-.
    exists ShNum. split; [|constructor]. rewrite app_nil_r.
    apply (in_map (fun s => (strain_str s, ShNum))). destruct s as [[]|]; cbn; tauto.
  - intros k Hk. rewrite map_map in Hk. cbn [fst] in Hk. apply in_map_iff in Hk. destruct Hk as (s & <- & _).
    specialize (Hfull s). apply in_map_iff in Hfull. destruct Hfull as ([s' n] & E & Hin). cbn [fst] in E. subst s'.
    rewrite map_map. apply in_map_iff. exists (s, n). split; [reflexivity|exact Hin].
Qed.
Lemma in_dda t : dda_full (Some t) -> inS dda_shape (dda_json t).
Proof.
  intros Hfull. unfold dda_json, dda_shape. constructor.
  - intros k v H. apply in_map_iff in H. destruct H as ([p row] & E & Hin). injection E as <- <-.
    exists row_shape. split.
    + cbn [app]. apply (in_map (fun p => (seat_str p, row_shape))). destruct p; cbn; tauto.
    + apply in_row. cbn [dda_full] in Hfull. rewrite Forall_forall in Hfull. apply (Hfull (p, row) Hin).
  - intros k [].
Qed.
Lemma in_dda_opt o : dda_full o ->
  forall k v, In (k, v) (match o with None => [] | Some t => [("dda", dda_json t)] end) ->
  exists sh, In (k, sh) [("dda", dda_shape)] /\ inS sh v.
Proof.
  intros Hfull k v H. destruct o as [t|]; [|destruct H]. destruct H as [H|[]]. injection H as <- <-.
  exists dda_shape. split; [left; reflexivity|apply in_dda; exact Hfull].
Qed.
Lemma in_trick t : inS trick_shape (trick_json t).
Proof. destruct t as [ld cs]. apply in_obj_exact. obj_fields; [constructor|apply in_jstrs]. Qed.

Lemma in_record r : dda_full (l_dda r) -> inS record_shape (record_json r).
Proof.
  intros Hfull. unfold record_json, record_shape. apply in_obj_app; [|apply in_dda_opt; exact Hfull].
  obj_fields; try (constructor; fail); try apply in_jstrs.
  - apply in_obj_exact. obj_fields; constructor.
  - apply in_deal.
  - destruct (is_passed_out (l_contract r)); [apply in_altl; constructor|apply in_altr].
    destruct (cdeclarer (l_contract r)); constructor.
  - destruct (l_play r) as [ts|]; [apply in_altr|apply in_altl; constructor].
    constructor. intros x H. apply in_map_iff in H. destruct H as (t & <- & _). apply (in_trick t).
  - destruct (l_taken r); [apply in_altr|apply in_altl]; constructor.
  - apply in_obj_exact. obj_fields; constructor.
Qed.
Lemma in_setting s : dda_full (s_dda s) -> inS setting_shape (setting_json s).
Proof.
  intros Hfull. unfold setting_json, setting_shape. apply in_obj_app; [|apply in_dda_opt; exact Hfull].
  obj_fields; try (constructor; fail). apply in_deal.
Qed.
Lemma in_doc {A} tag sh (f : A -> json) (P : A -> Prop) l :
  (forall x, P x -> inS sh (f x)) -> Forall P l -> inS (doc_shape tag sh) (JObj [(tag, JArr (map f l))]).
Proof.
  intros H HF. apply in_obj_exact. obj_fields. constructor. intros x Hx. apply in_map_iff in Hx.
  destruct Hx as (a & <- & Ha). apply H. rewrite Forall_forall in HF. apply HF. exact Ha.
Qed.

(* the only facts used about the generated schemas: they accept the two shapes (by computation) *)
Lemma log_schema_accepts : conforms 12 log_schema (doc_shape "logs" record_shape) = true.
Proof. vm_compute. reflexivity. Qed.
Lemma setting_schema_accepts : conforms 12 setting_schema (doc_shape "board_settings" setting_shape) = true.
Proof. vm_compute. reflexivity. Qed.

(* Hypothesis added to the statement as first written: every double-dummy row lists all five denominations
   (the schemas have required C, D, H, S, NT in each row); see log_schema_needs_full_rows below. *)
Lemma log_schema_valid : forall rs, Forall (fun r => dda_full (l_dda r)) rs ->
  validates log_schema (JObj [("logs"%string, JArr (map record_json rs))]) = true.
Proof.
  intros rs H. apply (conforms_sound _ _ _ _ log_schema_accepts).
  apply (in_doc "logs" record_shape record_json (fun r => dda_full (l_dda r))); [apply in_record|exact H].
Qed.
Lemma settings_schema_valid : forall ss, Forall (fun s => dda_full (s_dda s)) ss ->
  validates setting_schema (JObj [("board_settings"%string, JArr (map setting_json ss))]) = true.
Proof.
  intros ss H. apply (conforms_sound _ _ _ _ setting_schema_accepts).
  apply (in_doc "board_settings" setting_shape setting_json (fun s => dda_full (s_dda s))); [apply in_setting|exact H].
Qed.

(* ================= non-vacuity ================= *)
Definition ex_deal : deal := fun p =>
  match p with North => map cn (seq 0 13) | East => map cn (seq 13 13) | South => map cn (seq 26 13) | West => map cn (seq 39 13) end.
Definition ex_players : seat -> string := fun p => match p with North => "n1" | East => "e1" | South => "s1" | West => "w1" end.
Definition ex_row : list (strain * Z) := [(Tr Cl, 7%Z); (Tr Di, 6%Z); (Tr He, 6%Z); (Tr Sp, 5%Z); (NT, 6%Z)].
(* passed out *)
Definition ex_rec1 : logrec :=
  mkLog ex_players "b1" North ex_deal [Pass; Pass; Pass; Pass] (mkcontract None false false VNone None)
        None None "MP" 0%Z 0%Z None.
(* 3NT doubled by East, one recorded trick, a double-dummy table *)
Definition ex_rec2 : logrec :=
  mkLog ex_players "b2" East ex_deal [Bid L3 NT; Dbl; Pass; Pass; Pass] (mkcontract (Some (L3, NT)) true false VEW (Some East))
        (Some [(South, [cn 26; cn 39; cn 0; cn 13])]) (Some 7%Z) "IMP" 500%Z (-500)%Z
        (Some [(North, ex_row); (East, ex_row); (South, ex_row); (West, ex_row)]).
Definition ex_recs := [ex_rec1; ex_rec2].
Definition ex_doc : json := JObj [("logs", JArr (map record_json ex_recs))].
Definition log_view (r : logrec) :=
  (map (l_players r) all_seats, l_board_id r, l_dealer r, map (l_deal r) all_seats, l_bids r, l_contract r,
   (l_play r, l_taken r, l_scoring r, l_score_ns r, l_score_ew r, l_dda r)).
Definition setting_view (s : setting) := (s_board_id s, s_dealer s, map (s_deal s) all_seats, s_vul s, s_dda s).

Example ex_written_and_read :
  option_map parse_doc (written_tokens json_framing tag_logs (map record_json ex_recs)) = Some (Some ex_doc).
Proof. vm_compute. reflexivity. Qed.
Example ex_logs_back : option_map (map log_view) (parse_board_logs ex_doc) = Some (map log_view ex_recs).
Proof. vm_compute. reflexivity. Qed.
Example ex_settings_back :
  option_map (map setting_view) (parse_board_settings ex_doc)
  = Some (map (fun r => (l_board_id r, l_dealer r, map (l_deal r) all_seats, cvul (l_contract r), l_dda r)) ex_recs).
Proof. vm_compute. reflexivity. Qed.
Example ex_validates : validates log_schema ex_doc = true.
Proof. vm_compute. reflexivity. Qed.
Example ex_hypotheses : Forall wf_rec ex_recs /\ Forall (fun r => dda_full (l_dda r)) ex_recs.
Proof.
  split.
  - apply Forall_cons; [intros H; discriminate H|apply Forall_cons; [intros _ H; discriminate H|apply Forall_nil]].
  - apply Forall_cons; [exact I|apply Forall_cons; [|apply Forall_nil]].
    repeat (apply Forall_cons; [intros s; destruct s as [[]|]; cbn; tauto|]). apply Forall_nil.
Qed.
Example ex_empty_logs :
  option_map parse_doc (written_tokens json_framing tag_logs []) = Some (Some (JObj [("logs", JArr [])])) /\
  parse_board_logs (JObj [("logs", JArr [])]) = Some [] /\
  validates log_schema (JObj [("logs", JArr [])]) = true.
Proof. vm_compute. repeat split; reflexivity. Qed.

Definition ex_set1 : setting := mkSetting "b1" South ex_deal VBoth None.
Definition ex_set2 : setting := mkSetting "b2" West ex_deal VNS (Some [(North, ex_row); (South, ex_row)]).
Definition ex_sdoc : json := JObj [("board_settings", JArr (map setting_json [ex_set1; ex_set2]))].
Example ex_settings_written_and_read :
  option_map parse_doc (written_tokens json_framing tag_settings (map setting_json [ex_set1; ex_set2])) = Some (Some ex_sdoc) /\
  option_map (map setting_view) (parse_board_settings ex_sdoc) = Some (map setting_view [ex_set1; ex_set2]) /\
  validates setting_schema ex_sdoc = true.
Proof. vm_compute. repeat split; reflexivity. Qed.
Example ex_empty_settings :
  option_map parse_doc (written_tokens json_framing tag_settings []) = Some (Some (JObj [("board_settings", JArr [])])) /\
  parse_board_settings (JObj [("board_settings", JArr [])]) = Some [] /\
  validates setting_schema (JObj [("board_settings", JArr [])]) = true.
Proof. vm_compute. repeat split; reflexivity. Qed.

(* why the schema lemmas carry the dda_full hypothesis: a writable record whose double-dummy row is incomplete is rejected *)
Definition ex_short_row : logrec :=
  mkLog ex_players "b3" North ex_deal [Pass; Pass; Pass; Pass] (mkcontract None false false VNone None)
        None None "MP" 0%Z 0%Z (Some [(North, [(Tr Cl, 7%Z)])]).
Example log_schema_needs_full_rows :
  wf_rec ex_short_row /\ validates log_schema (JObj [("logs", JArr (map record_json [ex_short_row]))]) = false.
Proof. split; [intros H; discriminate H|vm_compute; reflexivity]. Qed.
Example settings_schema_needs_full_rows :
  validates setting_schema (JObj [("board_settings", JArr (map setting_json [mkSetting "b3" North ex_deal VNone (Some [(North, [])])]))]) = false.
Proof. vm_compute. reflexivity. Qed.

Print Assumptions parse_tokens.
Print Assumptions parse_doc_tokens.
Print Assumptions framing_tokens.
Print Assumptions framing_parses.
Print Assumptions tags_are_words.
Print Assumptions log_roundtrip.
Print Assumptions logs_roundtrip.
Print Assumptions log_as_settings.
Print Assumptions log_schema_valid.
Print Assumptions setting_roundtrip.
Print Assumptions settings_roundtrip.
Print Assumptions settings_schema_valid.
