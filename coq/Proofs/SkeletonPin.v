(* Pin: the synchronisation skeleton of server.py, client.py and socket_interface.py that Model/Session.v was written against -
   per method, the control structure and the synchronising / communicating calls (Event set/clear/wait, Queue put/get, Barrier
   wait, Thread start/join/is_alive, accept, send/receive, close, sleep, the phases' entry points) in evaluation order, with the
   text skeleton of the message they send or expect.  Gen/Skeleton.v is regenerated from the source on every run; if the
   synchronisation structure of the code is edited the pin no longer holds by reflexivity and the controlled runs decide whether
   behaviour changed.  Logging, comments, local names and straight-line computation are not part of the skeleton. *)
From Coq Require Import List String.
Import ListNotations.
From BE Require Import Gen.Skeleton.
Local Open Scope string_scope.
(* bridge_env/network_bridge/server.py *)
Definition pinned_server_skeleton : list (string * string) :=
 [("PlayerThread"%string, "class(Thread,MessageInterface)"%string);
  ("PlayerThread.send_message_to_queue"%string, "self._sent_message_queues[self.player].put()"%string);
  ("PlayerThread.receive_message_from_queue"%string, "self._received_message_queues[self.player].get() return"%string);
  ("PlayerThread._check_message"%string, "super().receive_message() if[]{self._handle_error(""ERROR: Unexpected message received."") return}else{} return"%string);
  ("PlayerThread._handle_error"%string, "super().send_message() self.connection.close()"%string);
  ("PlayerThread._sync_event"%string, "self.event_sync.wait()"%string);
  ("PlayerThread._connect"%string, "super().receive_message() if[]{self._handle_error(""ERROR: Protocol version is not {} but {}."") self.event_thread.set() return}else{} if[]{self._handle_error(""ERROR: Player {} is already seated."") self.event_thread.set() return}else{} if[]{self._handle_error(""ERROR: Team name ""{}"" is not same as partner's team name ""{}""."") self.event_thread.set() return}else{} super().send_message(""{} {} seated"") if[self._check_message(""{} ready for teams"")]{self.event_thread.set() return}else{} self.event_thread.set() self._sync_event() super().send_message(""Teams : N/S : ""{}"" E/W : ""{}"""") if[self._check_message(""{} ready to start"")]{return}else{} return"%string);
  ("PlayerThread._deal"%string, "if[self._check_message(""{} ready for deal"")]{return}else{} self._sync_event() super().send_message() self.receive_message_from_queue() if[self._check_message(""{} ready for cards"")]{return}else{} self._sync_event() super().send_message() self.receive_message_from_queue() return"%string);
  ("PlayerThread._bidding_phase"%string, "while[]{self.receive_message_from_queue() if[]{break}else{if[]{self._handle_error() return}else{if[]{self._handle_error() return}else{}}} if[]{self.send_message_to_queue() super().receive_message()}else{self._check_message(""{} ready for {}'s bid"") super().send_message() self.receive_message_from_queue()}} return"%string);
  ("PlayerThread._playing_phase"%string, "self.receive_message_from_queue() for[]{self.receive_message_from_queue() for[]{if[]{if[]{super().send_message(""{} to lead"")}else{} self.send_message_to_queue() super().receive_message()}else{if[]{if[]{super().send_message(""Dummy to lead"")}else{} self.send_message_to_queue() super().receive_message()}else{self._check_message(""{} ready for {}'s card to trick {}"") super().send_message() self.receive_message_from_queue()}} if[]{if[]{continue}else{} self._check_message(""{} ready for dummy"") super().send_message() self.receive_message_from_queue()}else{}}} return"%string);
  ("PlayerThread.run"%string, "if[self._connect()]{return}else{} while[]{super().send_message(""Start of board"") if[self._deal()]{return}else{} if[self._bidding_phase()]{return}else{} self.receive_message_from_queue() if[]{}else{if[]{raise}else{}} if[]{if[self._playing_phase()]{return}else{}}else{} self.receive_message_from_queue() if[]{continue}else{if[]{super().send_message() return}else{}} raise}"%string);
  ("Server"%string, "class(SocketInterface)"%string);
  ("Server._sync_event"%string, "event.wait()"%string);
  ("Server.deal"%string, "for[]{self.sent_message_queues[player].put(""Board number {}. Dealer {}. {} vulnerable."") self.sent_message_queues[player].put(""{}'s cards : {}"")} self._sync_event() self._sync_event()"%string);
  ("Server.bidding_phase"%string, "while[bidding_env.has_done()]{for[]{self.sent_message_queues[player].put()} self.received_message_queues[active_player].get() bidding_env.take_bid() if[]{for[]{if[]{self.sent_message_queues[player].put()}else{self.sent_message_queues[player].put()}} raise}else{} for[]{if[]{self.sent_message_queues[player].put()}else{}}} for[]{self.sent_message_queues[player].put() self.sent_message_queues[player].put()} return"%string);
  ("Server.playing_phase"%string, "for[]{self.sent_message_queues[player].put()} for[]{time.sleep() for[]{self.sent_message_queues[player].put()} for[]{self.received_message_queues[played_player].get() playing_env.play_card_by_player() for[]{if[]{continue}else{} self.sent_message_queues[player].put()} if[]{for[]{if[]{continue}else{} self.sent_message_queues[player].put()}}else{}}} return"%string);
  ("Server.run"%string, "self._socket.bind() self._socket.listen() while[.all_connected()]{self._socket.accept() thread.start() event_thread.wait() time.sleep() if[thread.is_alive()]{}else{} event_thread.clear()} self._sync_event() with[.open()]{for[]{self.deal() self.bidding_phase() if[]{}else{self.playing_phase()} game_log_writer.write() if[]{break}else{} for[]{self.sent_message_queues[player].put()}}} for[]{self.sent_message_queues[player].put()} for[]{thread.join()}"%string)].

(* bridge_env/network_bridge/client.py *)
Definition pinned_client_skeleton : list (string * string) :=
 [("Client"%string, "class(SocketInterface,MessageInterface)"%string);
  ("Client._connect"%string, "super().send_message(""Connecting ""{}"" as {} using protocol version {}"") super().receive_message() if[]{raise}else{} super().send_message(""{} ready for teams"") super().receive_message() if[]{if[]{raise}else{}}else{if[]{raise}else{}} super().send_message(""{} ready to start"")"%string);
  ("Client._deal"%string, "super().send_message(""{} ready for deal"") super().receive_message() self.send_message(""{} ready for cards"") super().receive_message()"%string);
  ("Client.bidding_phase"%string, "while[env.has_done()]{if[]{super().send_message()}else{super().send_message(""{} ready for {}'s bid"") super().receive_message()} env.take_bid() if[]{raise}else{} if[]{break}else{}} return"%string);
  ("Client.playing_phase"%string, "while[env.has_done()]{if[]{super().receive_message()}else{} for[]{if[]{if[]{super().send_message(""{} ready for dummy"") super().receive_message()}else{}}else{} if[]{env.play_card_by_player() super().send_message(""{} plays {}"")}else{if[]{env.play_card_by_player() super().send_message(""{} plays {}"")}else{super().send_message(""{} ready for {}'s card to trick {}"") super().receive_message() env.play_card_by_player()}}}}"%string);
  ("Client.run"%string, "self._connect() super().receive_message() while[]{if[]{raise}else{} self._deal() self.bidding_phase() if[]{self.playing_phase()}else{} super().receive_message() if[]{break}else{}}"%string)].

(* bridge_env/network_bridge/socket_interface.py *)
Definition pinned_framing_skeleton : list (string * string) :=
 [("SocketInterface"%string, "class()"%string);
  ("SocketInterface.__exit__"%string, "self._socket.close()"%string);
  ("SocketInterface.connect_socket"%string, "self._socket.connect()"%string);
  ("MessageInterface"%string, "class()"%string);
  ("MessageInterface.send_message"%string, "self.connection_socket.sendall()"%string);
  ("MessageInterface.receive_message"%string, "while[]{self.connection_socket.recv() if[]{raise}else{} if[]{self.connection_socket.recv() if[]{raise}else{} break}else{}} return"%string)].

Lemma server_skeleton_pinned : server_skeleton = pinned_server_skeleton.
Proof. reflexivity. Qed.
Lemma client_skeleton_pinned : client_skeleton = pinned_client_skeleton.
Proof. reflexivity. Qed.
Lemma framing_skeleton_pinned : framing_skeleton = pinned_framing_skeleton.
Proof. reflexivity. Qed.
Example skeleton_not_empty : (List.length pinned_server_skeleton, List.length pinned_client_skeleton, List.length pinned_framing_skeleton) = (17, 6, 6).
Proof. vm_compute. reflexivity. Qed.
