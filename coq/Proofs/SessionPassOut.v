(* Stretch goal: a symbolic, unbounded completion theorem for the sessions in which four clients arrive North, East,
   South, West (teams ns / ew without double quotes, protocol 18) and every seat passes on every board, for ANY non-empty
   list of boards.  An explicit schedule is built by recursion on the board list: the network of Model/Session.v is
   executed symbolically (one Kahn.step at a time, on 9-process / 26-channel states given as explicit lists) through
   the seating of the four connections, the seating barrier, the team line, and then board after board: deal, the four
   rounds of the auction (generic in the seat to call), the passed-out pair, the log record, next board or end of session.
   [reach s P] : some schedule drives s to a state satisfying P; every phase lemma is in continuation-passing form
   so that the transcripts (which nobody reads) stay existentially quantified.
   Standard library only; closed under the global context. *)
From BE Require Import Model.Session Proofs.Kahn Proofs.Session Proofs.Wire.
From Coq Require Import Lia.
Local Open Scope string_scope.
Local Open Scope nat_scope.
Local Open Scope list_scope.

(* ===================================================================== the session family; [reach]; one lemma per kind of step *)
Definition pass_script (nboards : nat) (p : seat) : list cscript :=
  repeat (mkScript [(bid_message Pass (formal_name p), Pass)] []) nboards.
Definition passout_session (boards : list board) (ns ew : string) : session :=
  mkSession boards
    [mkArr North ns 18; mkArr East ew 18; mkArr South ns 18; mkArr West ew 18]
    [pass_script (length boards) North; pass_script (length boards) East; pass_script (length boards) South; pass_script (length boards) West]
    None.

(* [reach s P]: some schedule drives s to a state satisfying P *)
Definition reach (s : Kahn.st msg) (P : Kahn.st msg -> Prop) : Prop := exists l f, srun l s = Some f /\ P f.
Lemma reach_done s (P : Kahn.st msg -> Prop) : P s -> reach s P.
Proof. intros H. exists [], s. split; [reflexivity|exact H]. Qed.
Lemma reach_step t s s1 P : Kahn.step msg PARTIES t s = Some s1 -> reach s1 P -> reach s P.
Proof. intros H (l & f & Hl & Hf). exists (t :: l), f. split; [|exact Hf]. unfold srun in *. cbn [Kahn.run]. rewrite H. exact Hl. Qed.

Lemma step_put t ps chs ce ba c m p q :
  nth_error ps t = Some (Put c m p) -> nth_error chs c = Some q ->
  Kahn.step msg PARTIES t (Kahn.mk msg ps chs ce ba) = Some (Kahn.mk msg (upd ps t p) (upd chs c (q ++ [m])) ce ba).
Proof. intros H1 H2. unfold Kahn.step. cbn [Kahn.procs Kahn.chans Kahn.cells Kahn.barr]. rewrite H1, H2. reflexivity. Qed.
Lemma step_get t ps chs ce ba c k m r :
  nth_error ps t = Some (Get c k) -> nth_error chs c = Some (m :: r) ->
  Kahn.step msg PARTIES t (Kahn.mk msg ps chs ce ba) = Some (Kahn.mk msg (upd ps t (k m)) (upd chs c r) ce ba).
Proof. intros H1 H2. unfold Kahn.step. cbn [Kahn.procs Kahn.chans Kahn.cells Kahn.barr]. rewrite H1, H2. reflexivity. Qed.
Lemma step_bar t ps chs ce ba p a :
  nth_error ps t = Some (Bar p) -> nth_error ba t = Some a ->
  Kahn.step msg PARTIES t (Kahn.mk msg ps chs ce ba) = Some (Kahn.mk msg (upd ps t (BarWait (S a) p)) chs ce (upd ba t (S a))).
Proof. intros H1 H2. unfold Kahn.step. cbn [Kahn.procs Kahn.chans Kahn.cells Kahn.barr]. rewrite H1, H2. reflexivity. Qed.
Lemma step_barwait t ps chs ce ba p n :
  nth_error ps t = Some (BarWait n p) -> Kahn.released PARTIES n ba = true ->
  Kahn.step msg PARTIES t (Kahn.mk msg ps chs ce ba) = Some (Kahn.mk msg (upd ps t p) chs ce ba).
Proof. intros H1 H2. unfold Kahn.step. cbn [Kahn.procs Kahn.chans Kahn.cells Kahn.barr]. rewrite H1, H2. reflexivity. Qed.
Lemma step_tau t ps chs ce ba p :
  nth_error ps t = Some (Tau p) ->
  Kahn.step msg PARTIES t (Kahn.mk msg ps chs ce ba) = Some (Kahn.mk msg (upd ps t p) chs ce ba).
Proof. intros H1. unfold Kahn.step. cbn [Kahn.procs Kahn.chans Kahn.cells Kahn.barr]. rewrite H1. reflexivity. Qed.

Lemma released_all c : Kahn.released PARTIES (S c) [S c; S c; S c; S c; S c; 0; 0; 0; 0] = true.
Proof. unfold Kahn.released, PARTIES. cbn [filter]. cbn [Nat.leb]. rewrite Nat.leb_refl. reflexivity. Qed.

Lemma init_eq boards ns ew :
  init_state (passout_session boards ns ew) =
  Kahn.mk msg
    [main_proc 4 boards;
     conn_proc 4 0 (length boards); conn_proc 4 1 (length boards); conn_proc 4 2 (length boards); conn_proc 4 3 (length boards);
     client_proc 4 0 North ns 18 (pass_script (length boards) North);
     client_proc 4 1 East ew 18 (pass_script (length boards) East);
     client_proc 4 2 South ns 18 (pass_script (length boards) South);
     client_proc 4 3 West ew 18 (pass_script (length boards) West)]
    [[];[];[];[]; [];[];[];[]; [];[];[];[]; [];[];[];[]; [];[]; [];[];[];[];[];[];[];[]]
    [] [0;0;0;0;0;0;0;0;0].
Proof. reflexivity. Qed.

(* ===================================================================== symbolic stepping tactics *)
(* [go t]: thread t performs its next operation (the state is an explicit [Kahn.mk] of 9 processes and 26 channels);
   [evhd t]: decide the test at the head of thread t's process by computation; [cget t]: a client's receive. *)
Ltac renorm :=
  lazymatch goal with
  | |- reach (Kahn.mk _ ?ps ?chs ?ce ?ba) ?f =>
      let ps' := eval cbn [upd] in ps in
      let chs' := eval cbn [upd app] in chs in
      let ba' := eval cbn [upd] in ba in
      change (reach (Kahn.mk msg ps' chs' ce ba') f)
  end.
Ltac numchan :=
  lazymatch goal with
  | |- reach (Kahn.mk _ ?ps (upd ?chs ?c ?v) ?ce ?ba) ?f =>
      let c' := eval vm_compute in c in
      change (reach (Kahn.mk msg ps (upd chs c' v) ce ba) f)
  end.
Ltac go_put t := eapply (reach_step t); [ eapply step_put; [ reflexivity | reflexivity ] | ]; numchan; renorm.
Ltac go_get t := eapply (reach_step t); [ eapply step_get; [ reflexivity | reflexivity ] | ]; numchan; renorm; cbv beta.
Ltac go_tau t := eapply (reach_step t); [ eapply step_tau; reflexivity | ]; renorm.
Ltac go_bar t := eapply (reach_step t); [ eapply step_bar; [ reflexivity | reflexivity ] | ]; renorm.
Ltac go_bw t := eapply (reach_step t); [ eapply step_barwait; [ reflexivity | apply released_all ] | ]; renorm.
Ltac go t := first [ go_put t | go_get t | go_tau t | go_bar t | go_bw t ].
Ltac ev c := let r := eval vm_compute in c in change c with r.
Ltac getp t k :=
  lazymatch goal with
  | |- reach (Kahn.mk _ ?ps _ _ _) _ =>
     let p := eval hnf in (nth_error ps t) in
     lazymatch p with Some ?q => k q end
  end.
Ltac evhd t :=
  getp t ltac:(fun p =>
     lazymatch p with
     | (if ?c then _ else _) => let r := eval vm_compute in c in
           lazymatch r with true => idtac | false => idtac end; change c with r; cbv iota
     | (match ?c with _ => _ end) => let r := eval vm_compute in c in change c with r; cbv iota
     end).
Ltac cget t := go_get t; cbv iota; evhd t.

Lemma seated_ok p team B : (String.eqb (seated_line p team) (formal_name p ++ " " ++ team ++ " seated") || B) = true.
Proof. unfold seated_line. rewrite String.eqb_refl. reflexivity. Qed.

(* ===================================================================== the seat table after admission; quiescent states; the bidding states *)
Definition CN : seat -> nat := fun q =>
  if seat_beq q West then 3 else if seat_beq q South then 2 else if seat_beq q East then 1 else if seat_beq q North then 0 else 0.
Definition TB (ns ew : string) : table := tset (tset (tset (tset (fun _ : seat => None) North ns) East ew) South ns) West ew.
Definition NM (ns ew : string) : seat -> string := fun p => match TB ns ew p with Some s => s | None => "None" end.

(* a state whose sockets and queues are all empty: only the log and the transcripts have contents *)
Definition QS (M t1 t2 t3 t4 c1 c2 c3 c4 : proc) (L T0 T1 T2 T3 T4 T5 T6 T7 : list msg) (b : nat) : Kahn.st msg :=
  Kahn.mk msg [M; t1; t2; t3; t4; c1; c2; c3; c4]
    [[];[];[];[]; [];[];[];[]; [];[];[];[]; [];[];[];[]; L; []; T0; T1; T2; T3; T4; T5; T6; T7]
    [] [b; b; b; b; b; 0; 0; 0; 0].

Definition pcall (p : seat) : string * call := (bid_message Pass (formal_name p), Pass).

Definition BidSt (f : nat) (s : astate) (calls : seat -> list (string * call)) (km : astate -> proc)
   (kt0 kt1 kt2 kt3 : proc) (kc0 kc1 kc2 kc3 : astate -> list (string * call) -> proc) L T0 T1 T2 T3 T4 T5 T6 T7 b :=
  QS (bidding 4 CN f s km)
     (t_bidding 4 0 f North kt0) (t_bidding 4 1 f East kt1) (t_bidding 4 2 f South kt2) (t_bidding 4 3 f West kt3)
     (c_bidding 4 0 North f s (calls North) kc0) (c_bidding 4 1 East f s (calls East) kc1)
     (c_bidding 4 2 South f s (calls South) kc2) (c_bidding 4 3 West f s (calls West) kc3) L T0 T1 T2 T3 T4 T5 T6 T7 b.

(* ===================================================================== one round of the auction, for any seat to call; four passes from any dealer *)
(* the fuel must be a variable when a loop process is unfolded one step (a numeral would be unfolded all the way) *)
Ltac unf_bidding := match goal with |- context[bidding ?n ?c (S ?f) ?s ?k] =>
   let t := constr:(bidding n c (S f) s k) in let t' := eval cbn [bidding] in t in change t with t' end.
Ltac unf_tb i := match goal with |- context[t_bidding ?n i (S ?f) ?me ?k] =>
   let t := constr:(t_bidding n i (S f) me k) in let t' := eval cbn [t_bidding] in t in change t with t' end.
Ltac unf_cb i := match goal with |- context[c_bidding ?n i ?me (S ?f) ?s ?calls ?k] =>
   let t := constr:(c_bidding n i me (S f) s calls k) in let t' := eval cbn [c_bidding] in t in change t with t' end.

Ltac other_round j a Ha Ht :=
  let tj := eval cbv in (S j) in let cj := eval cbv in (5 + j) in
  unf_cb j; rewrite Ha; cbv iota; evhd cj; go cj; go cj;
  unf_tb j; go tj; cbv iota; do 5 evhd tj;
  go tj; cbv iota; evhd tj; go tj; cbv iota; go tj; go tj;
  cget cj; evhd cj; rewrite Ht; cbv iota.

Ltac round_script i j1 j2 j3 a Ha Ht Hc :=
  let ti := eval cbv in (S i) in let ci := eval cbv in (5 + i) in
  unf_bidding; rewrite Ha; cbv iota; unfold put_all, all_seats; cbn [fold_right];
  go 0; go 0; go 0; go 0;
  unf_cb i; rewrite Ha; cbv iota; evhd ci; rewrite Hc; unfold pcall; cbv iota; go ci; go ci; rewrite Ht; cbv iota;
  unf_tb i; go ti; cbv iota; do 5 evhd ti; go ti; cbv iota; go ti;
  go 0; cbv iota; rewrite (call_without_alert_relayed_verbatim Pass a _ eq_refl); cbv iota; rewrite Ht; cbv iota;
  unfold put_others, all_seats; cbn [fold_right seat_beq]; go 0; go 0; go 0;
  other_round j1 a Ha Ht; other_round j2 a Ha Ht; other_round j3 a Ha Ht.

Lemma round : forall a s s' o f calls r km kt0 kt1 kt2 kt3 kc0 kc1 kc2 kc3 L T0 T1 T2 T3 T4 T5 T6 T7 b F,
  active s = Some a -> take_bid s Pass = (s', o) -> (o = Ongoing \/ o = Finished) -> calls a = pcall a :: r ->
  (forall T0' T1' T2' T3' T4' T5' T6' T7',
     reach (BidSt f s' (fun q => if seat_beq q a then r else calls q) km kt0 kt1 kt2 kt3 kc0 kc1 kc2 kc3 L T0' T1' T2' T3' T4' T5' T6' T7' b) F) ->
  reach (BidSt (S f) s calls km kt0 kt1 kt2 kt3 kc0 kc1 kc2 kc3 L T0 T1 T2 T3 T4 T5 T6 T7 b) F.
Proof.
  intros a s s' o f calls r km kt0 kt1 kt2 kt3 kc0 kc1 kc2 kc3 L T0 T1 T2 T3 T4 T5 T6 T7 b F Ha Ht Ho Hc HF.
  unfold BidSt, QS in *.
  destruct a; destruct Ho as [-> | ->].
  - round_script 0 1 2 3 North Ha Ht Hc. apply HF.
  - round_script 0 1 2 3 North Ha Ht Hc. apply HF.
  - round_script 1 0 2 3 East Ha Ht Hc. apply HF.
  - round_script 1 0 2 3 East Ha Ht Hc. apply HF.
  - round_script 2 0 1 3 South Ha Ht Hc. apply HF.
  - round_script 2 0 1 3 South Ha Ht Hc. apply HF.
  - round_script 3 0 1 2 West Ha Ht Hc. apply HF.
  - round_script 3 0 1 2 West Ha Ht Hc. apply HF.
Qed.

(* ---------- the auction of four passes ---------- *)
Definition pst (d : seat) (v : vul) (j : nat) : astate := fold_left offer (repeat Pass j) (Auction.init d v).
Lemma pst_active d v j : j < 4 -> active (pst d v j) = Some (rot d j).
Proof. intros H. destruct j as [|[|[|[|j]]]]; try lia; destruct d, v; reflexivity. Qed.
Lemma pst_take d v j : j < 3 -> take_bid (pst d v j) Pass = (pst d v (S j), Ongoing).
Proof. intros H. destruct j as [|[|[|j]]]; try lia; destruct d, v; reflexivity. Qed.
Lemma pst_take3 d v : take_bid (pst d v 3) Pass = (pst d v 4, Finished).
Proof. destruct d, v; reflexivity. Qed.
Lemma pst_end d v : active (pst d v 4) = None.
Proof. destruct d, v; reflexivity. Qed.
Lemma pst_contract d v : contract_of (pst d v 4) = Some (mkcontract None false false v None).
Proof. destruct d, v; reflexivity. Qed.

Lemma auction : forall d v f km kt0 kt1 kt2 kt3 kc0 kc1 kc2 kc3 L T0 T1 T2 T3 T4 T5 T6 T7 b F,
  (forall calls' T0' T1' T2' T3' T4' T5' T6' T7',
     reach (BidSt f (pst d v 4) calls' km kt0 kt1 kt2 kt3 kc0 kc1 kc2 kc3 L T0' T1' T2' T3' T4' T5' T6' T7' b) F) ->
  reach (BidSt (S (S (S (S f)))) (pst d v 0) (fun p => [pcall p]) km kt0 kt1 kt2 kt3 kc0 kc1 kc2 kc3 L T0 T1 T2 T3 T4 T5 T6 T7 b) F.
Proof.
  intros d v f km kt0 kt1 kt2 kt3 kc0 kc1 kc2 kc3 L T0 T1 T2 T3 T4 T5 T6 T7 b F HF.
  eapply (round (rot d 0) (pst d v 0) (pst d v 1) Ongoing _ _ []);
    [apply pst_active; lia | apply pst_take; lia | left; reflexivity | destruct d; reflexivity | clear T0 T1 T2 T3 T4 T5 T6 T7; intros T0 T1 T2 T3 T4 T5 T6 T7].
  eapply (round (rot d 1) (pst d v 1) (pst d v 2) Ongoing _ _ []);
    [apply pst_active; lia | apply pst_take; lia | left; reflexivity | destruct d; reflexivity | clear T0 T1 T2 T3 T4 T5 T6 T7; intros T0 T1 T2 T3 T4 T5 T6 T7].
  eapply (round (rot d 2) (pst d v 2) (pst d v 3) Ongoing _ _ []);
    [apply pst_active; lia | apply pst_take; lia | left; reflexivity | destruct d; reflexivity | clear T0 T1 T2 T3 T4 T5 T6 T7; intros T0 T1 T2 T3 T4 T5 T6 T7].
  eapply (round (rot d 3) (pst d v 3) (pst d v 4) Finished _ _ []);
    [apply pst_active; lia | apply pst_take3 | right; reflexivity | destruct d; reflexivity | clear T0 T1 T2 T3 T4 T5 T6 T7; intros T0 T1 T2 T3 T4 T5 T6 T7].
  apply HF.
Qed.

Lemma bidding_end n conn f s k : active s = None -> bidding n conn (S f) s k = k s.
Proof. intros H. cbn [bidding]. rewrite H. reflexivity. Qed.
Lemma c_bidding_end n i me f s calls k : active s = None -> c_bidding n i me (S f) s calls k = k s calls.
Proof. intros H. cbn [c_bidding]. rewrite H. reflexivity. Qed.

(* ===================================================================== what main, a connection thread and a client are waiting for between two boards *)
Notation START := "Start of board"%string (only parsing).
Definition scp (p : seat) : cscript := mkScript [pcall p] [].

Definition t_after (i f : nat) (p : seat) : proc :=
  sget (fun st => if String.eqb st NEXT_BOARD then t_boards 4 i f p
                  else if String.eqb st END_SESSION then send 4 i END_SESSION (Put (ch_r i) MDone Ret)
                  else Fail) (ch_q i).
Definition c_next (i : nat) (p : seat) (f : nat) (scr : list cscript) : proc :=
  crecv i (fun m => if String.eqb m END_SESSION then Ret else c_boards 4 i p f m scr).
Definition m_after (names : seat -> string) (rest : list board) (k : nat) : proc :=
  match rest with
  | [] => boards_loop 4 CN names rest k
  | _ => put_all CN NEXT_BOARD (boards_loop 4 CN names rest k) end.

Ltac unf_bl := match goal with |- context[boards_loop ?n ?c ?nm (?bd :: ?rest) ?k] =>
   let t := constr:(boards_loop n c nm (bd :: rest) k) in let t' := eval cbn [boards_loop] in t in change t with t' end.
Ltac unf_tbd i := match goal with |- context[t_boards ?n i (S ?f) ?me] =>
   let t := constr:(t_boards n i (S f) me) in let t' := eval cbn [t_boards] in t in change t with t' end.
Ltac unf_cbd i := match goal with |- context[c_boards ?n i ?me (S ?f) ?first ?scr] =>
   let t := constr:(c_boards n i me (S f) first scr) in let t' := eval cbn [c_boards] in t in change t with t' end.

(* ===================================================================== one passed-out board, arbitrary deal / dealer / vulnerability / id *)
Ltac deal_a i HK :=
  let ti := eval cbv in (S i) in let ci := eval cbv in (5 + i) in
  go ti; go ti; cget ci; rewrite HK; unf_cbd i; evhd ci; go ci; go ci;
  go ti; cbv iota; evhd ti; go ti.
Ltac deal_b i :=
  let ti := eval cbv in (S i) in let ci := eval cbv in (5 + i) in
  go ti; cbv iota; go ti; go ti; cget ci; rewrite header_roundtrip; cbv iota; go ci; go ci;
  go ti; cbv iota; evhd ti; go ti.
Ltac deal_c i Hh :=
  let ti := eval cbv in (S i) in let ci := eval cbv in (5 + i) in
  go ti; cbv iota; go ti; go ti; cget ci; rewrite Hh; cbv iota.

Ltac wrap_t i :=
  let ti := eval cbv in (S i) in
  unf_tb i; go ti; cbv iota; evhd ti; go ti; cbv iota; evhd ti.

Lemma board_lemma : forall bd rest k names ft fc s0 s1 s2 s3 K0 K1 K2 K3 L T0 T1 T2 T3 T4 T5 T6 T7 b F,
  K0 START = c_boards 4 0 North (S fc) START (scp North :: s0) ->
  K1 START = c_boards 4 1 East (S fc) START (scp East :: s1) ->
  K2 START = c_boards 4 2 South (S fc) START (scp South :: s2) ->
  K3 START = c_boards 4 3 West (S fc) START (scp West :: s3) ->
  (forall r T0' T1' T2' T3' T4' T5' T6' T7',
     reach (QS (m_after names rest (S k))
               (t_after 0 ft North) (t_after 1 ft East) (t_after 2 ft South) (t_after 3 ft West)
               (c_next 0 North fc s0) (c_next 1 East fc s1) (c_next 2 South fc s2) (c_next 3 West fc s3)
               (L ++ [MLog (LRec r)]) T0' T1' T2' T3' T4' T5' T6' T7' (S (S b))) F) ->
  reach (QS (boards_loop 4 CN names (bd :: rest) k)
            (t_boards 4 0 (S ft) North) (t_boards 4 1 (S ft) East) (t_boards 4 2 (S ft) South) (t_boards 4 3 (S ft) West)
            (crecv 0 K0) (crecv 1 K1) (crecv 2 K2) (crecv 3 K3) L T0 T1 T2 T3 T4 T5 T6 T7 b) F.
Proof.
  intros bd rest k names ft fc s0 s1 s2 s3 K0 K1 K2 K3 L T0 T1 T2 T3 T4 T5 T6 T7 b F HK0 HK1 HK2 HK3 HF.
  destruct (hand_roundtrip (formal_name North) (b_deal bd North)) as (h0 & Hh0 & _); [simpl; tauto|].
  destruct (hand_roundtrip (formal_name East) (b_deal bd East)) as (h1 & Hh1 & _); [simpl; tauto|].
  destruct (hand_roundtrip (formal_name South) (b_deal bd South)) as (h2 & Hh2 & _); [simpl; tauto|].
  destruct (hand_roundtrip (formal_name West) (b_deal bd West)) as (h3 & Hh3 & _); [simpl; tauto|].
  unfold QS in *.
  unf_bl.
  match goal with |- context[bidding 4 CN 400 ?s ?km] => set (KM := km) end.
  unf_tbd 0. unf_tbd 1. unf_tbd 2. unf_tbd 3.
  unfold send, expect, forward_q, sget, crecv.
  deal_a 0 HK0.
  deal_a 1 HK1. deal_a 2 HK2. deal_a 3 HK3.
  unfold all_seats; cbn [fold_right].
  do 9 go 0.
  go 0. go 1. go 2. go 3. go 4.
  deal_b 0. deal_b 1. deal_b 2. deal_b 3.
  go 0. go 0. go 1. go 2. go 3. go 4.
  deal_c 0 Hh0. deal_c 1 Hh1. deal_c 2 Hh2. deal_c 3 Hh3.
  generalize 395; intros f5.     (* 400 = 5 + f5: from here on the fuel is symbolic *)
  eapply (auction (b_dealer bd) (b_vul bd) (S f5) KM).
  clear T0 T1 T2 T3 T4 T5 T6 T7. intros calls' T0 T1 T2 T3 T4 T5 T6 T7.
  unfold BidSt, QS.
  rewrite (bidding_end 4 CN f5 _ KM (pst_end _ _)).
  rewrite !(c_bidding_end 4 _ _ f5 _ _ _ (pst_end _ _)).
  subst KM. cbv beta. rewrite pst_contract. cbv iota.
  change (is_passed_out (mkcontract None false false (b_vul bd) None)) with true. cbv iota zeta.
  change (scores_of (mkcontract None false false (b_vul bd) None) 0) with (0%Z, 0%Z). cbv iota.
  unfold put_null_pair, all_seats, logp; cbn [fold_right].
  do 9 go 0.
  wrap_t 0. wrap_t 1. wrap_t 2. wrap_t 3.
  apply HF.
Qed.

(* ===================================================================== between boards; end of session *)
Ltac next_t i := let ti := eval cbv in (S i) in go ti; cbv iota; evhd ti.

Lemma next_board : forall bd rest k names ft fc s0 s1 s2 s3 L T0 T1 T2 T3 T4 T5 T6 T7 b F,
  reach (QS (boards_loop 4 CN names (bd :: rest) k)
            (t_boards 4 0 ft North) (t_boards 4 1 ft East) (t_boards 4 2 ft South) (t_boards 4 3 ft West)
            (c_next 0 North fc s0) (c_next 1 East fc s1) (c_next 2 South fc s2) (c_next 3 West fc s3)
            L T0 T1 T2 T3 T4 T5 T6 T7 b) F ->
  reach (QS (m_after names (bd :: rest) k)
            (t_after 0 ft North) (t_after 1 ft East) (t_after 2 ft South) (t_after 3 ft West)
            (c_next 0 North fc s0) (c_next 1 East fc s1) (c_next 2 South fc s2) (c_next 3 West fc s3)
            L T0 T1 T2 T3 T4 T5 T6 T7 b) F.
Proof.
  intros bd rest k names ft fc s0 s1 s2 s3 L T0 T1 T2 T3 T4 T5 T6 T7 b F HF.
  unfold QS in *. unfold m_after, t_after. unfold put_all, all_seats; cbn [fold_right].
  do 4 go 0.
  next_t 0. next_t 1. next_t 2. next_t 3.
  exact HF.
Qed.

Ltac end_t i := let ti := eval cbv in (S i) in let ci := eval cbv in (5 + i) in
  go ti; cbv iota; evhd ti; evhd ti; go ti; go ti; go ti; cget ci; evhd ci.

Lemma session_end : forall k names ft fc s0 s1 s2 s3 L T0 T1 T2 T3 T4 T5 T6 T7 b F,
  (forall T0' T1' T2' T3' T4' T5' T6' T7',
     reach (QS Ret Ret Ret Ret Ret Ret Ret Ret Ret (L ++ [MLog LClose]) T0' T1' T2' T3' T4' T5' T6' T7' b) F) ->
  reach (QS (m_after names [] k)
            (t_after 0 ft North) (t_after 1 ft East) (t_after 2 ft South) (t_after 3 ft West)
            (c_next 0 North fc s0) (c_next 1 East fc s1) (c_next 2 South fc s2) (c_next 3 West fc s3)
            L T0 T1 T2 T3 T4 T5 T6 T7 b) F.
Proof.
  intros k names ft fc s0 s1 s2 s3 L T0 T1 T2 T3 T4 T5 T6 T7 b F HF.
  unfold QS in *. unfold m_after, t_after, c_next. cbn [boards_loop].
  unfold logp, put_all, join_all, all_seats; cbn [fold_right].
  do 5 go 0.
  end_t 0. end_t 1. end_t 2. end_t 3.
  do 4 go 0.
  apply HF.
Qed.

(* ===================================================================== any non-empty list of boards, by induction *)
Definition recmsg (r : logrec) : msg := MLog (LRec r).

Lemma loop : forall rest, rest <> [] -> forall k names K0 K1 K2 K3 L T0 T1 T2 T3 T4 T5 T6 T7 b F,
  K0 START = c_boards 4 0 North (S (length rest)) START (repeat (scp North) (length rest)) ->
  K1 START = c_boards 4 1 East (S (length rest)) START (repeat (scp East) (length rest)) ->
  K2 START = c_boards 4 2 South (S (length rest)) START (repeat (scp South) (length rest)) ->
  K3 START = c_boards 4 3 West (S (length rest)) START (repeat (scp West) (length rest)) ->
  (forall recs T0' T1' T2' T3' T4' T5' T6' T7' b', length recs = length rest ->
     reach (QS Ret Ret Ret Ret Ret Ret Ret Ret Ret (L ++ map recmsg recs ++ [MLog LClose]) T0' T1' T2' T3' T4' T5' T6' T7' b') F) ->
  reach (QS (boards_loop 4 CN names rest k)
            (t_boards 4 0 (S (length rest)) North) (t_boards 4 1 (S (length rest)) East)
            (t_boards 4 2 (S (length rest)) South) (t_boards 4 3 (S (length rest)) West)
            (crecv 0 K0) (crecv 1 K1) (crecv 2 K2) (crecv 3 K3) L T0 T1 T2 T3 T4 T5 T6 T7 b) F.
Proof.
  induction rest as [|bd rest IH]; intros Hne k names K0 K1 K2 K3 L T0 T1 T2 T3 T4 T5 T6 T7 b F HK0 HK1 HK2 HK3 HF; [congruence|].
  eapply (board_lemma bd rest k names (length (bd :: rest)) (length (bd :: rest))
            (repeat (scp North) (length rest)) (repeat (scp East) (length rest))
            (repeat (scp South) (length rest)) (repeat (scp West) (length rest)) K0 K1 K2 K3);
    [exact HK0 | exact HK1 | exact HK2 | exact HK3 |].
  clear T0 T1 T2 T3 T4 T5 T6 T7. intros r T0 T1 T2 T3 T4 T5 T6 T7.
  destruct rest as [|bd' rest'].
  - apply session_end. clear T0 T1 T2 T3 T4 T5 T6 T7. intros T0 T1 T2 T3 T4 T5 T6 T7.
    rewrite <- app_assoc. apply (HF [r]). reflexivity.
  - apply next_board.
    eapply (IH ltac:(discriminate) (S k) names).
    + reflexivity.
    + reflexivity.
    + reflexivity.
    + reflexivity.
    + intros recs T0' T1' T2' T3' T4' T5' T6' T7' b' Hlen.
      rewrite <- app_assoc. apply (HF (r :: recs)). cbn [length]. rewrite Hlen. reflexivity.
Qed.

(* ===================================================================== admission of the four connections, seating barrier, team line *)
Lemma ae_ok2 (t : table) p team ver : ver = 18 -> t p = None -> t (partner p) = Some team -> admission_error t team p ver = None.
Proof. intros -> H1 H2. unfold admission_error. rewrite H1, H2, String.eqb_refl. reflexivity. Qed.
Lemma ae_ok1 (t : table) p team ver : ver = 18 -> t p = None -> t (partner p) = None -> admission_error t team p ver = None.
Proof. intros -> H1 H2. unfold admission_error. rewrite H1, H2. reflexivity. Qed.

Ltac seat_one i p team Hteam :=
  let ti := eval cbv in (S i) in let ci := eval cbv in (5 + i) in
  go 0;
  go ci; go ci;
  go ti; cbv iota; go ti; cbv iota;
  rewrite (connect_roundtrip team p Hteam); cbv iota;
  first [rewrite ae_ok1 by reflexivity | rewrite ae_ok2 by reflexivity]; cbv iota;
  go ti; go ti;
  cget ci; rewrite seated_ok; cbv iota;
  go ci; go ci;
  go ti; cbv iota; evhd ti; go ti; go ti;
  go 0; go 0; cbv iota;
  rewrite admission_eq; evhd 0.

Ltac teams_one i p ns ew Hns Hew :=
  let ti := eval cbv in (S i) in let ci := eval cbv in (5 + i) in
  go ti; cbv iota; go ti; go ti;
  cget ci; match goal with |- context[parse_team_names ?x] => change x with (teams_line ns ew) end;
  rewrite (teams_roundtrip ns ew Hns Hew); cbv iota;
  ev (side_of p); cbv iota; rewrite String.eqb_refl; cbv iota;
  go ci; go ci; go ti; cbv iota; evhd ti.

Lemma startup : forall boards ns ew F, no_quote ns -> no_quote ew ->
  (forall T0 T1 T2 T3 T4 T5 T6 T7,
     reach (QS (boards_loop 4 CN (NM ns ew) boards 1)
               (t_boards 4 0 (S (length boards)) North) (t_boards 4 1 (S (length boards)) East)
               (t_boards 4 2 (S (length boards)) South) (t_boards 4 3 (S (length boards)) West)
               (crecv 0 (fun s => c_boards 4 0 North (S (length boards)) s (repeat (scp North) (length boards))))
               (crecv 1 (fun s => c_boards 4 1 East (S (length boards)) s (repeat (scp East) (length boards))))
               (crecv 2 (fun s => c_boards 4 2 South (S (length boards)) s (repeat (scp South) (length boards))))
               (crecv 3 (fun s => c_boards 4 3 West (S (length boards)) s (repeat (scp West) (length boards))))
               [MLog LOpen] T0 T1 T2 T3 T4 T5 T6 T7 1) F) ->
  reach (init_state (passout_session boards ns ew)) F.
Proof.
  intros boards ns ew F Hns Hew HF. rewrite init_eq.
  rewrite main_proc_eq. cbn [seq]. rewrite admission_eq.
  unfold client_proc, conn_proc, seated, expect, handle_error, csend, crecv, send, sget.
  unfold pass_script. rewrite !repeat_length.
  evhd 0.
  seat_one 0 North ns Hns.
  seat_one 1 East ew Hew.
  seat_one 2 South ns Hns.
  seat_one 3 West ew Hew.
  unfold all_seats; cbn [fold_right].
  do 5 go 0.
  go 0. go 1. go 2. go 3. go 4.
  go 0.
  teams_one 0 North ns ew Hns Hew.
  teams_one 1 East ns ew Hns Hew.
  teams_one 2 South ns ew Hns Hew.
  teams_one 3 West ns ew Hns Hew.
  apply HF.
Qed.

(* ===================================================================== the theorems *)
Lemma log_flat recs :
  flat_map (fun m : msg => match m with MLog e => [e] | _ => [] end) ([MLog LOpen] ++ map recmsg recs ++ [MLog LClose]) =
  LOpen :: map LRec recs ++ [LClose].
Proof. cbn [app flat_map]. f_equal. induction recs as [|r recs IH]; [reflexivity|]. cbn [map app flat_map]. rewrite IH. reflexivity. Qed.

Theorem passout_session_completes : forall boards ns ew,
  boards <> [] -> no_quote ns -> no_quote ew ->
  exists l f, srun l (init_state (passout_session boards ns ew)) = Some f /\
              Kahn.all_doneb msg f = true /\
              exists recs, log_events 4 f = LOpen :: map LRec recs ++ [LClose] /\ length recs = length boards.
Proof.
  intros boards ns ew Hne Hns Hew.
  change (reach (init_state (passout_session boards ns ew))
            (fun f => Kahn.all_doneb msg f = true /\
                      exists recs, log_events 4 f = LOpen :: map LRec recs ++ [LClose] /\ length recs = length boards)).
  apply startup; [exact Hns | exact Hew |]. intros T0 T1 T2 T3 T4 T5 T6 T7.
  apply (loop boards Hne); try reflexivity.
  intros recs T0' T1' T2' T3' T4' T5' T6' T7' b' Hlen.
  apply reach_done. split; [reflexivity|].
  exists recs. split; [|exact Hlen].
  unfold log_events. change (chan (QS Ret Ret Ret Ret Ret Ret Ret Ret Ret ([MLog LOpen] ++ map recmsg recs ++ [MLog LClose]) T0' T1' T2' T3' T4' T5' T6' T7' b') (ch_log 4))
    with ([MLog LOpen] ++ map recmsg recs ++ [MLog LClose]).
  apply log_flat.
Qed.

Lemma all_done_final f : Kahn.all_doneb msg f = true -> sfinal f.
Proof.
  intros H t. unfold Kahn.step. destruct (nth_error (Kahn.procs msg f) t) as [p|] eqn:E; [|reflexivity].
  apply nth_error_In in E. unfold Kahn.all_doneb in H. rewrite forallb_forall in H. apply H in E.
  destruct p; try discriminate E; reflexivity.
Qed.

Theorem passout_session_every_schedule : forall boards ns ew,
  boards <> [] -> no_quote ns -> no_quote ew ->
  exists f n, Kahn.all_doneb msg f = true /\
    forall l' s', srun l' (init_state (passout_session boards ns ew)) = Some s' ->
      length l' <= n /\ (sfinal s' -> s' = f).
Proof.
  intros boards ns ew Hne Hns Hew.
  destruct (passout_session_completes boards ns ew Hne Hns Hew) as (l & f & Hr & Hd & _).
  pose proof (all_done_final f Hd) as Hf.
  exists f, (length l). split; [exact Hd|].
  intros l' s' Hr'. split.
  - exact (session_no_run_is_longer _ l f l' s' Hr Hf Hr').
  - intros Hs'. exact (proj1 (session_maximal_runs_agree _ l f l' s' Hr Hf Hr' Hs')).
Qed.

Print Assumptions passout_session_completes.
Print Assumptions passout_session_every_schedule.
