(* C17 (PBN half) and C18: the PBN reader on admissible layouts, the PBN writer, and the export round trip. *)
From BE Require Import Model.Pbn.
From Coq Require Import Lia.
From BE Require Proofs.Hands Proofs.Wire.

(* the alphabet the properties speak of: letters, digits, space and . , - _ / ( ) ' + # : *)
Definition ok_char (a : ascii) : bool :=
  is_alpha a || is_digit a || existsb (Ascii.eqb a) (chars " .,-_/()'+#:"%string).
Definition ok_text (s : string) : Prop := sforall ok_char s = true.
Definition tag_name (s : string) : Prop :=          (* [A-Z][a-zA-Z]+ *)
  exists a b r, s = String a (String b r) /\ is_upper a = true /\ sforall is_alpha (String b r) = true.
Definition eol_ok (e : string) : Prop := e = String LF ""%string \/ e = String CR (String LF ""%string).

(* ---------- a layout of a PBN import file ---------- *)
Inductive item := ITag (name value : string) | IRow (text : string).
Definition item_ok (it : item) : Prop :=
  match it with
  | ITag n v => tag_name n /\ ok_text v
  | IRow t => ok_text t /\ t <> ""%string /\ sforall pbn_ws t = false /\ starts_with "%"%string t = false end.
Definition render_item (eol : string) (it : item) : string :=
  match it with
  | ITag n v => ("[" ++ n ++ " """ ++ v ++ """]" ++ eol)%string
  | IRow t => (t ++ eol)%string end.
(* a blank line: blanks/tabs only, then the line end *)
Definition blank_ok (b : string) : Prop := sforall (fun a => Ascii.eqb a " "%char || Ascii.eqb a (ascii_of_nat 9)) b = true.
Record game_layout := mkGame { g_items : list item; g_blanks_after : list string }.
Record layout := mkLayout { l_eol : string; l_header : list string; l_lead : list string; l_games : list game_layout }.
Definition header_ok (h : string) : Prop := starts_with "%"%string h = true /\ sforall (fun a => negb (Ascii.eqb a LF)) h = true.
Definition layout_ok (L : layout) : Prop :=
  eol_ok (l_eol L) /\ Forall header_ok (l_header L) /\ Forall blank_ok (l_lead L) /\
  Forall (fun g => g_items g <> [] /\ Forall item_ok (g_items g) /\ Forall blank_ok (g_blanks_after g) /\
                   (exists n v, hd_error (g_items g) = Some (ITag n v))) (l_games L) /\
  (* games are separated by at least one blank line (the last one may be followed by none) *)
  (forall pre g post, l_games L = pre ++ g :: post -> post <> [] -> g_blanks_after g <> []).
Definition render (L : layout) : string :=
  sconcat (map (fun h => (h ++ l_eol L)%string) (l_header L) ++ map (fun b => (b ++ l_eol L)%string) (l_lead L) ++
           flat_map (fun g => map (render_item (l_eol L)) (g_items g) ++ map (fun b => (b ++ l_eol L)%string) (g_blanks_after g)) (l_games L)).
Definition tags_of (g : game_layout) : list (string * string) :=
  flat_map (fun it => match it with ITag n v => [(n, v)] | IRow _ => [] end) (g_items g).

(* ---------- C17 (PBN half): every admissible layout is read as its games, first occurrence of each tag winning ---------- *)
Definition same_hand (a b : hand) : Prop := forall c, In c a <-> In c b.
Definition same_deal (d e : deal) : Prop := forall p, same_hand (d p) (e p).
Definition pbn_deal (d : deal) : Prop := forall p, NoDup (d p) /\ (length (d p) = 13 \/ d p = []).
Record bsetting := mkB { bs_id : string; bs_dealer : seat; bs_deal : deal; bs_vul : vul }.
Definition game_carries (g : game_layout) (b : bsetting) : Prop :=
  pbn_deal (bs_deal b) /\
  tag_lookup "Board" (first_wins (tags_of g) []) = Some (bs_id b) /\
  tag_lookup "Dealer" (first_wins (tags_of g) []) = Some (seat_str (bs_dealer b)) /\
  (exists sp, tag_lookup "Vulnerable" (first_wins (tags_of g) []) = Some sp /\ vul_of_str sp = Some (bs_vul b)) /\
  (exists first, option_map Some (to_pbn (bs_deal b) first) = Some (tag_lookup "Deal" (first_wins (tags_of g) []))).
Definition setting_matches (b : bsetting) (s : psetting) : Prop :=
  ps_board_id s = bs_id b /\ ps_dealer s = bs_dealer b /\ ps_vul s = bs_vul b /\ same_deal (bs_deal b) (ps_deal s).
Fixpoint drop_lf (s : string) : string :=
  match s with EmptyString => EmptyString | String a r => if Ascii.eqb a LF then drop_lf r else String a (drop_lf r) end.
(* a result whose tag pairs fit on one line and whose texts are over the alphabet *)
Definition result_ok (x : pbn_result) : Prop :=
  ok_text (r_event x) /\ ok_text (r_site x) /\ ok_text (r_scoring x) /\ (forall p, ok_text (r_players x p)) /\
  pbn_deal (r_deal x) /\ 0 < r_board x /\
  (is_passed_out (r_contract x) = true -> r_taken x = None) /\
  (is_passed_out (r_contract x) = false -> r_taken x <> None /\ cdeclarer (r_contract x) <> None) /\
  (forall ts n v, tags15 x = Some ts -> In (n, v) ts -> String.length n + String.length v + 5 <= 254).
Definition result_matches (x : pbn_result) (s : psetting) : Prop :=
  ps_board_id s = string_of_nat (r_board x) /\ ps_dealer s = r_dealer x /\ ps_vul s = cvul (r_contract x) /\ same_deal (r_deal x) (ps_deal s).

Local Open Scope string_scope.
Local Open Scope nat_scope.

(* ================= characters ================= *)
Definition all_ascii : list ascii := map ascii_of_nat (seq 0 256).
Lemma ascii_forall (P : ascii -> bool) : forallb P all_ascii = true -> forall a, P a = true.
Proof.
  intros H a. rewrite forallb_forall in H. apply H. unfold all_ascii.
  rewrite <- (ascii_nat_embedding a). apply in_map. apply in_seq. pose proof (nat_ascii_bounded a). lia.
Qed.
Ltac by_ascii := let a := fresh "a" in intro a; match goal with |- ?b = true =>
  let P := eval pattern a in b in
  match P with ?F _ => revert a; apply (ascii_forall F); vm_compute; reflexivity end end.

Definition not_c (c : ascii) (a : ascii) : bool := negb (Ascii.eqb a c).
Definition nolf (s : string) : Prop := sforall (not_c LF) s = true.
(* characters that may stand in the body of an item line *)
Definition body_char (a : ascii) : bool :=
  ok_char a || Ascii.eqb a "[" || Ascii.eqb a "]" || Ascii.eqb a """" || Ascii.eqb a CR.
Definition blank_char (a : ascii) : bool := Ascii.eqb a " " || Ascii.eqb a (ascii_of_nat 9).

Lemma ch_alpha_ok : forall a, implb (is_alpha a) (ok_char a) = true. Proof. by_ascii. Qed.
Lemma ch_digit_ok : forall a, implb (is_digit a) (ok_char a) = true. Proof. by_ascii. Qed.
Lemma ch_upper_alpha : forall a, implb (is_upper a) (is_alpha a) = true. Proof. by_ascii. Qed.
Lemma ch_upper_nows : forall a, implb (is_upper a) (negb (pbn_ws a)) = true. Proof. by_ascii. Qed.
Lemma ch_ok_body : forall a, implb (ok_char a) (body_char a) = true. Proof. by_ascii. Qed.
Lemma ch_ok_noquote : forall a, implb (ok_char a) (not_c """" a) = true. Proof. by_ascii. Qed.
Lemma ch_ok_nobr : forall a, implb (ok_char a) (not_c "[" a) = true. Proof. by_ascii. Qed.
Lemma ch_body_nolf : forall a, implb (body_char a) (not_c LF a) = true. Proof. by_ascii. Qed.
Lemma ch_body_c1 : forall a, implb (body_char a) (not_c ";" a) = true. Proof. by_ascii. Qed.
Lemma ch_body_c2 : forall a, implb (body_char a) (not_c "{" a) = true. Proof. by_ascii. Qed.
Lemma ch_body_c3 : forall a, implb (body_char a) (not_c "}" a) = true. Proof. by_ascii. Qed.
Lemma ch_blank_ws : forall a, implb (blank_char a) (pbn_ws a) = true. Proof. by_ascii. Qed.
Lemma ch_blank_nolf : forall a, implb (blank_char a) (not_c LF a) = true. Proof. by_ascii. Qed.

Lemma implb_elim (p q : bool) : implb p q = true -> p = true -> q = true.
Proof. destruct p, q; simpl; congruence. Qed.

(* ================= strings ================= *)
Lemma sapp_nil_r (s : string) : s ++ "" = s.
Proof. induction s; simpl; congruence. Qed.
Lemma sapp_assoc (a b c : string) : (a ++ b) ++ c = a ++ b ++ c.
Proof. induction a; simpl; congruence. Qed.
Lemma slen_app (a b : string) : String.length (a ++ b) = String.length a + String.length b.
Proof. induction a; simpl; congruence. Qed.
Lemma sforall_app f (a b : string) : sforall f (a ++ b) = sforall f a && sforall f b.
Proof. induction a; simpl; [reflexivity|]. rewrite IHa. apply andb_assoc. Qed.
Lemma sforall_impl (f g : ascii -> bool) s : (forall a, implb (f a) (g a) = true) -> sforall f s = true -> sforall g s = true.
Proof.
  intros H. induction s as [|a s IH]; simpl; [reflexivity|]. intros K. apply andb_true_iff in K. destruct K as [K1 K2].
  rewrite (implb_elim _ _ (H a) K1), (IH K2). reflexivity.
Qed.
Lemma sconcat_app (l1 l2 : list string) : sconcat (l1 ++ l2)%list = sconcat l1 ++ sconcat l2.
Proof. induction l1; simpl; [reflexivity|]. rewrite IHl1, sapp_assoc. reflexivity. Qed.
Lemma snonempty_last (s : string) : s <> "" -> exists p a, s = p ++ String a "".
Proof.
  induction s as [|c s IH]; [congruence|]. intros _. destruct s as [|d s'].
  - exists "", c. reflexivity.
  - destruct IH as [p [a E]]; [discriminate|]. exists (String c p), a. simpl. rewrite <- E. reflexivity.
Qed.

Lemma slen_substring : forall s n m, String.length (substring n m s) = Nat.min m (String.length s - n).
Proof.
  induction s as [|c s IH]; intros n m.
  - destruct n, m; reflexivity.
  - destruct n.
    + destruct m; [reflexivity|]. cbn [substring String.length]. rewrite IH. lia.
    + cbn [substring String.length]. rewrite IH. lia.
Qed.
Lemma substring_all y : forall m, String.length y <= m -> substring 0 m y = y.
Proof. induction y; intros m H; destruct m; simpl in *; try reflexivity; try lia. rewrite IHy by lia. reflexivity. Qed.
Lemma substring_split : forall s n m, String.length s - n <= m -> substring 0 n s ++ substring n m s = s.
Proof.
  induction s as [|c s IH]; intros n m H.
  - destruct n, m; reflexivity.
  - destruct n.
    + cbn [String.length] in H. replace (substring 0 0 (String c s)) with "" by reflexivity. cbn [append].
      apply substring_all. cbn [String.length]. lia.
    + cbn [substring append]. rewrite IH; [reflexivity|]. cbn [String.length] in H. lia.
Qed.
Lemma substring_drop x y m : substring (String.length x) m (x ++ y) = substring 0 m y.
Proof. induction x; simpl; [reflexivity|]. exact IHx. Qed.
Lemma substring_drop_all x y n m : n = String.length x -> String.length y <= m -> substring n m (x ++ y) = y.
Proof. intros -> H. rewrite substring_drop. apply substring_all, H. Qed.

(* ================= ends_with_lf, drop_lf ================= *)
Lemma str_rev_acc_last p : forall a acc, str_rev_acc (p ++ String a "") acc = String a (str_rev_acc p acc).
Proof. induction p as [|c p IH]; intros a acc; simpl; [reflexivity|]. apply IH. Qed.
Lemma ewl_last p a : ends_with_lf (p ++ String a "") = Ascii.eqb a LF.
Proof. unfold ends_with_lf, str_rev. rewrite str_rev_acc_last. reflexivity. Qed.
Lemma ewl_app_r h t : t <> "" -> ends_with_lf (h ++ t) = ends_with_lf t.
Proof. intros H. destruct (snonempty_last t H) as [p [a ->]]. rewrite <- sapp_assoc, !ewl_last. reflexivity. Qed.
Lemma ewl_inv s : ends_with_lf s = true -> exists p, s = p ++ String LF "".
Proof.
  intros H. destruct s as [|c s]; [discriminate|].
  destruct (snonempty_last (String c s)) as [p [a E]]; [discriminate|]. rewrite E in *. rewrite ewl_last in H.
  apply Ascii.eqb_eq in H. subst a. exists p. reflexivity.
Qed.
Lemma drop_lf_app a b : drop_lf (a ++ b) = drop_lf a ++ drop_lf b.
Proof. induction a as [|c a IH]; simpl; [reflexivity|]. destruct (Ascii.eqb c LF); simpl; rewrite IH; reflexivity. Qed.
Lemma drop_lf_LF : drop_lf (String LF "") = "". Proof. reflexivity. Qed.

(* ================= the writer: write_line ================= *)
Lemma wlf_len : forall fuel s l, String.length s <= fuel + 255 -> In l (write_line_fuel fuel s) -> String.length l <= 255.
Proof.
  induction fuel as [|f IH]; intros s l H K.
  - destruct K as [<-|[]]. lia.
  - cbn [write_line_fuel] in K. destruct (255 <? String.length s) eqn:E.
    + apply Nat.ltb_lt in E. destruct K as [<-|K].
      * rewrite slen_app, slen_substring. cbn [String.length]. lia.
      * apply IH in K; [exact K|]. rewrite slen_substring. lia.
    + apply Nat.ltb_ge in E. destruct K as [<-|[]]. exact E.
Qed.
Lemma write_line_arg_ewl s : ends_with_lf (if ends_with_lf s then s else s ++ String LF "") = true.
Proof. destruct (ends_with_lf s) eqn:E; [exact E|]. rewrite ewl_last. apply Ascii.eqb_refl. Qed.
Theorem write_line_le_255 : forall s l, In l (write_line s) -> String.length l <= 255.
Proof. intros s l H. unfold write_line in H. cbv zeta in H. eapply wlf_len; [|exact H]. lia. Qed.

Lemma wlf_ewl : forall fuel s l, ends_with_lf s = true -> In l (write_line_fuel fuel s) -> ends_with_lf l = true.
Proof.
  induction fuel as [|f IH]; intros s l H K.
  - destruct K as [<-|[]]. exact H.
  - cbn [write_line_fuel] in K. destruct (255 <? String.length s) eqn:E.
    + apply Nat.ltb_lt in E. destruct K as [<-|K].
      * rewrite ewl_last. apply Ascii.eqb_refl.
      * apply IH in K; [exact K|].
        rewrite <- (substring_split s 254 (String.length s)) in H by lia.
        rewrite ewl_app_r in H; [exact H|]. intros Z. apply (f_equal String.length) in Z.
        rewrite slen_substring in Z. cbn [String.length] in Z. lia.
    + destruct K as [<-|[]]. exact H.
Qed.
Theorem write_line_ends_lines : forall s l, In l (write_line s) -> ends_with_lf l = true.
Proof. intros s l H. unfold write_line in H. cbv zeta in H. eapply wlf_ewl; [|exact H]. apply write_line_arg_ewl. Qed.

Lemma wlf_text : forall fuel s, drop_lf (sconcat (write_line_fuel fuel s)) = drop_lf s.
Proof.
  induction fuel as [|f IH]; intros s.
  - cbn [write_line_fuel sconcat]. rewrite sapp_nil_r. reflexivity.
  - cbn [write_line_fuel]. destruct (255 <? String.length s) eqn:E.
    + cbn [sconcat]. rewrite !drop_lf_app, IH, drop_lf_LF, sapp_nil_r, <- drop_lf_app.
      rewrite substring_split by lia. reflexivity.
    + cbn [sconcat]. rewrite sapp_nil_r. reflexivity.
Qed.
Theorem write_line_keeps_text : forall s, drop_lf (sconcat (write_line s)) = drop_lf s.
Proof.
  intros s. unfold write_line. cbv zeta. rewrite wlf_text. destruct (ends_with_lf s); [reflexivity|].
  rewrite drop_lf_app, drop_lf_LF, sapp_nil_r. reflexivity.
Qed.

(* ================= lines ================= *)
Lemma lines_aux_nolf a : forall cur rest, nolf a ->
  lines_aux (a ++ String LF rest) cur = (cur ++ a ++ String LF "") :: lines_aux rest "".
Proof.
  unfold nolf. induction a as [|c a IH]; intros cur rest H.
  - cbn [append lines_aux]. rewrite Ascii.eqb_refl. reflexivity.
  - cbn [sforall] in H. apply andb_true_iff in H. destruct H as [Hc Ha]. unfold not_c in Hc. apply negb_true_iff in Hc.
    cbn [append lines_aux]. rewrite Hc. rewrite IH by exact Ha. rewrite sapp_assoc. reflexivity.
Qed.
Definition is_line (l : string) : Prop := exists b, l = b ++ String LF "" /\ nolf b.
Lemma lines_aux_lines ls : forall rest, Forall is_line ls -> lines_aux (sconcat ls ++ rest) "" = (ls ++ lines_aux rest "")%list.
Proof.
  induction ls as [|l ls IH]; intros rest H; [reflexivity|].
  inversion H as [|? ? [b [-> Hb]] Hls]; subst. cbn [sconcat]. rewrite !sapp_assoc. cbn [append].
  rewrite lines_aux_nolf by exact Hb. cbn [append app]. rewrite IH by exact Hls. reflexivity.
Qed.
Lemma lines_sconcat ls : Forall is_line ls -> lines (sconcat ls) = ls.
Proof.
  intros H. unfold lines. rewrite <- (sapp_nil_r (sconcat ls)). rewrite lines_aux_lines by exact H.
  cbn [lines_aux]. apply app_nil_r.
Qed.

Lemma lines_aux_len s : forall cur l, In l (lines_aux s cur) -> String.length l <= String.length cur + String.length s.
Proof.
  induction s as [|c s IH]; intros cur l H.
  - cbn [lines_aux] in H. destruct cur; [destruct H|]. destruct H as [<-|[]]. lia.
  - cbn [lines_aux] in H. destruct (Ascii.eqb c LF).
    + destruct H as [<-|H].
      * rewrite slen_app. cbn [String.length]. lia.
      * apply IH in H. cbn [String.length] in *. lia.
    + apply IH in H. rewrite slen_app in H. cbn [String.length] in *. lia.
Qed.
Lemma lines_aux_app_lf q : forall cur rest,
  lines_aux ((q ++ String LF "") ++ rest) cur = (lines_aux (q ++ String LF "") cur ++ lines_aux rest "")%list.
Proof.
  induction q as [|c q IH]; intros cur rest.
  - cbn [append lines_aux]. rewrite Ascii.eqb_refl. reflexivity.
  - cbn [append lines_aux]. destruct (Ascii.eqb c LF).
    + rewrite IH. reflexivity.
    + apply IH.
Qed.
Definition piece_ok (p : string) : Prop := ends_with_lf p = true /\ String.length p <= 255.
Lemma lines_pieces ps : Forall piece_ok ps -> forall l, In l (lines (sconcat ps)) -> String.length l <= 255.
Proof.
  unfold lines. induction ps as [|p ps IH]; intros H l K.
  - destruct K.
  - inversion H as [|? ? [He Hl] Hps]; subst. cbn [sconcat] in K. destruct (ewl_inv p He) as [q ->].
    rewrite lines_aux_app_lf in K. apply in_app_or in K. destruct K as [K|K].
    + apply lines_aux_len in K. cbn [String.length] in K. lia.
    + apply IH; assumption.
Qed.

Lemma write_line_pieces s : Forall piece_ok (write_line s).
Proof. apply Forall_forall. intros l H. split; [eapply write_line_ends_lines | eapply write_line_le_255]; exact H. Qed.
Lemma Forall_flat_map {A B} (P : B -> Prop) (f : A -> list B) l : (forall x, In x l -> Forall P (f x)) -> Forall P (flat_map f l).
Proof.
  induction l as [|x l IH]; intros H; [constructor|]. cbn [flat_map]. apply Forall_app. split.
  - apply H. left. reflexivity.
  - apply IH. intros y Hy. apply H. right. exact Hy.
Qed.
Lemma wbr_pieces x l : write_board_result x = Some l -> Forall piece_ok l.
Proof.
  unfold write_board_result. destruct (negb (0 <? r_board x)); [discriminate|].
  destruct (negb _); [discriminate|]. destruct (tags15 x) as [ts|]; [|discriminate]. intros H. injection H as <-.
  apply Forall_app. split.
  - apply Forall_flat_map. intros [n v] _. apply write_line_pieces.
  - constructor; [|constructor]. split; [reflexivity | cbn; lia].
Qed.
Lemma map_opt_Forall {A B} (f : A -> option B) (P : B -> Prop) : (forall x y, f x = Some y -> P y) ->
  forall l ys, map_opt f l = Some ys -> Forall P ys.
Proof.
  intros H. induction l as [|x l IH]; intros ys E; cbn [map_opt] in E.
  - injection E as <-. constructor.
  - destruct (f x) as [y|] eqn:Ex; [|discriminate]. destruct (map_opt f l) as [ys'|]; [|discriminate].
    injection E as <-. constructor; [eapply H; exact Ex | apply IH; reflexivity].
Qed.
Lemma Forall_concat {A} (P : A -> Prop) ls : Forall (Forall P) ls -> Forall P (concat ls).
Proof. induction 1; cbn [concat]; [constructor | apply Forall_app; split; assumption]. Qed.
Theorem every_written_line_le_255 : forall h rs text l, write_file h rs = Some text -> In l (lines text) -> String.length l <= 255.
Proof.
  intros h rs text l H K. unfold write_file in H. destruct (map_opt write_board_result rs) as [ls|] eqn:E; [|discriminate].
  cbn [option_map] in H. injection H as <-. revert K. apply lines_pieces. apply Forall_app. split.
  - destruct h; [|constructor]. unfold write_header. apply Forall_app. split; apply write_line_pieces.
  - apply Forall_concat. eapply map_opt_Forall; [|exact E]. apply wbr_pieces.
Qed.

(* ================= classification of the lines of a layout ================= *)
Lemma eol_cases e : eol_ok e -> exists p, e = p ++ String LF "" /\ (p = "" \/ p = String CR "").
Proof. intros [->| ->]; [exists "" | exists (String CR "")]; split; auto. Qed.
Lemma seqb_nonempty s : s <> "" -> String.eqb s "" = false.
Proof. intros H. apply String.eqb_neq. exact H. Qed.
Lemma find_first_nochar c p s : sforall (not_c c) s = true -> find_first (String c p) s = None.
Proof.
  induction s as [|a s IH]; intros H; [reflexivity|].
  cbn [sforall] in H. apply andb_true_iff in H. destruct H as [Ha Hs]. unfold not_c in Ha. apply negb_true_iff in Ha.
  cbn [find_first strip_prefix]. rewrite Ascii.eqb_sym, Ha. rewrite IH by exact Hs. reflexivity.
Qed.
Lemma contains_nochar c p s : sforall (not_c c) s = true -> contains (String c p) s = false.
Proof. intros H. unfold contains. rewrite find_first_nochar by exact H. reflexivity. Qed.
Lemma body_no_comment l : sforall body_char l = true -> has_comment_syntax (l ++ String LF "") = false.
Proof.
  intros H. unfold has_comment_syntax.
  rewrite !contains_nochar; [reflexivity| | |]; rewrite sforall_app; apply andb_true_iff; (split; [|reflexivity]).
  - eapply sforall_impl; [apply ch_body_c3 | exact H].
  - eapply sforall_impl; [apply ch_body_c2 | exact H].
  - eapply sforall_impl; [apply ch_body_c1 | exact H].
Qed.
Lemma body_is_line l : sforall body_char l = true -> is_line (l ++ String LF "").
Proof. intros H. exists l. split; [reflexivity|]. eapply sforall_impl; [apply ch_body_nolf | exact H]. Qed.

Lemma ok_text_body s : ok_text s -> sforall body_char s = true.
Proof. apply sforall_impl, ch_ok_body. Qed.
Lemma tag_name_ok n : tag_name n -> ok_text n.
Proof.
  intros (a & b & r & -> & Ha & Hb). unfold ok_text. cbn [sforall] in *.
  rewrite (implb_elim _ _ (ch_alpha_ok a) (implb_elim _ _ (ch_upper_alpha a) Ha)).
  apply andb_true_iff in Hb. destruct Hb as [Hb Hr].
  rewrite (implb_elim _ _ (ch_alpha_ok b) Hb). cbn [andb]. eapply sforall_impl; [apply ch_alpha_ok | exact Hr].
Qed.

(* the body (everything before the final LF) of a rendered item *)
Definition item_body (p : string) (it : item) : string :=
  match it with ITag n v => "[" ++ n ++ " """ ++ v ++ """]" ++ p | IRow t => t ++ p end.
Lemma render_item_body p it : render_item (p ++ String LF "") it = item_body p it ++ String LF "".
Proof. destruct it; cbn [render_item item_body]; rewrite !sapp_assoc; reflexivity. Qed.
Lemma item_body_chars p it : (p = "" \/ p = String CR "") -> item_ok it -> sforall body_char (item_body p it) = true.
Proof.
  intros Hp H. assert (sforall body_char p = true) as Kp by (destruct Hp as [->| ->]; reflexivity).
  destruct it as [n v|t]; cbn [item_ok item_body] in *.
  - destruct H as [Hn Hv]. rewrite !sforall_app, (ok_text_body n (tag_name_ok n Hn)), (ok_text_body v Hv), Kp. reflexivity.
  - destruct H as [Ht _]. rewrite sforall_app, (ok_text_body t Ht), Kp. reflexivity.
Qed.
Lemma item_line_class e it : eol_ok e -> item_ok it ->
  blank_line (render_item e it) = false /\ starts_with "%" (render_item e it) = false /\
  has_comment_syntax (render_item e it) = false /\ is_line (render_item e it).
Proof.
  intros He H. destruct (eol_cases e He) as [p [-> Hp]].
  pose proof (item_body_chars p it Hp H) as Hb.
  split; [|split; [|split]].
  - destruct it as [n v|t]; cbn [render_item].
    + reflexivity.
    + destruct H as (_ & _ & Hw & _). unfold blank_line. rewrite sforall_app, Hw. cbn [andb]. apply andb_false_r.
  - destruct it as [n v|t]; cbn [render_item].
    + reflexivity.
    + destruct H as (_ & Hne & _ & Hs). destruct t as [|a t]; [congruence|].
      unfold starts_with in *. cbn [append strip_prefix] in *. destruct (Ascii.eqb "%" a); [|reflexivity].
      destruct t; discriminate.
  - rewrite render_item_body. apply body_no_comment, Hb.
  - rewrite render_item_body. apply body_is_line, Hb.
Qed.
Lemma blank_line_class e b : eol_ok e -> blank_ok b -> blank_line (b ++ e) = true /\ is_line (b ++ e).
Proof.
  intros He Hb. change (sforall blank_char b = true) in Hb. destruct (eol_cases e He) as [p [-> Hp]]. split.
  - unfold blank_line. apply andb_true_iff. split.
    + apply negb_true_iff, seqb_nonempty. intros Z. apply (f_equal String.length) in Z. rewrite !slen_app in Z. cbn in Z. lia.
    + rewrite sforall_app. apply andb_true_iff. split; [eapply sforall_impl; [apply ch_blank_ws | exact Hb]|].
      destruct Hp as [->| ->]; reflexivity.
  - rewrite <- sapp_assoc. exists (b ++ p). split; [reflexivity|]. unfold nolf. rewrite sforall_app. apply andb_true_iff. split.
    + eapply sforall_impl; [apply ch_blank_nolf | exact Hb].
    + destruct Hp as [->| ->]; reflexivity.
Qed.
Lemma header_line_class e h : eol_ok e -> header_ok h ->
  blank_line (h ++ e) = false /\ starts_with "%" (h ++ e) = true /\ is_line (h ++ e).
Proof.
  intros He [Hs Hl]. destruct (eol_cases e He) as [p [-> Hp]].
  assert (exists h', h = String "%" h') as [h' ->].
  { destruct h as [|a h']; [discriminate|]. unfold starts_with in Hs. cbn [strip_prefix] in Hs.
    destruct (Ascii.eqb "%" a) eqn:E; [|discriminate]. apply Ascii.eqb_eq in E. subst a. exists h'. reflexivity. }
  split; [reflexivity | split; [reflexivity|]].
  rewrite <- sapp_assoc. exists (String "%" h' ++ p). split; [reflexivity|]. unfold nolf. rewrite sforall_app. apply andb_true_iff. split.
  - exact Hl.
  - destruct Hp as [->| ->]; reflexivity.
Qed.

(* ================= find_tags on the text of a game ================= *)
Lemma take_while_app f x c r : sforall f x = true -> f c = false -> take_while f (x ++ String c r) = x.
Proof.
  intros Hx Hc. induction x as [|a x IH]; cbn [append take_while].
  - rewrite Hc. reflexivity.
  - cbn [sforall] in Hx. apply andb_true_iff in Hx. destruct Hx as [Ha Hx]. rewrite Ha, (IH Hx). reflexivity.
Qed.
Lemma match_tag_ok a b r0 v rest :
  is_upper a = true -> sforall is_alpha (String b r0) = true -> sforall (not_c """") v = true ->
  match_tag (String a (String b r0) ++ String " " (String """" (v ++ String """" (String "]" rest))))
  = Some (String a (String b r0), v, rest).
Proof.
  intros Ha Hb Hv.
  assert (Hn : sforall is_alpha (String a (String b r0)) = true).
  { change (is_alpha a && sforall is_alpha (String b r0) = true).
    rewrite (implb_elim _ _ (ch_upper_alpha a) Ha). exact Hb. }
  pose proof (implb_elim _ _ (ch_upper_nows a) Ha) as Hw. apply negb_true_iff in Hw.
  set (n := String a (String b r0)) in *.
  set (tail2 := String """" (String "]" rest)).
  set (tail := String " " (String """" (v ++ tail2))).
  unfold match_tag. cbv zeta.
  assert (E1 : drop_while pbn_ws (n ++ tail) = n ++ tail).
  { unfold n. cbn [append drop_while]. rewrite Hw. reflexivity. }
  rewrite E1.
  assert (E2 : take_while is_alpha (n ++ tail) = n).
  { unfold tail. apply take_while_app; [exact Hn | reflexivity]. }
  rewrite E2. unfold n at 1. cbv beta iota. rewrite Ha.
  rewrite (substring_drop_all n tail) by (try reflexivity; rewrite slen_app; lia).
  assert (E3 : drop_while pbn_ws tail = String """" (v ++ tail2)) by reflexivity.
  rewrite E3.
  assert (E4 : (String.length (String """" (v ++ tail2)) <? String.length tail) = true).
  { unfold tail. cbn [String.length]. apply Nat.ltb_lt. lia. }
  rewrite E4. cbv beta iota. rewrite Ascii.eqb_refl.
  assert (E5 : take_while (fun c => negb (Ascii.eqb c """")) (v ++ tail2) = v).
  { unfold tail2. apply take_while_app; [exact Hv | reflexivity]. }
  rewrite E5.
  rewrite (substring_drop_all v tail2) by (try reflexivity; rewrite slen_app; lia).
  unfold tail2. cbv beta iota.
  assert (E6 : drop_while pbn_ws (String "]" rest) = String "]" rest) by reflexivity.
  rewrite E6. rewrite Ascii.eqb_refl. reflexivity.
Qed.
Lemma find_tags_tag n v : tag_name n -> ok_text v -> forall fuel rest,
  find_tags (S fuel) ("[" ++ n ++ " """ ++ v ++ """]" ++ rest) = (n, v) :: find_tags fuel rest.
Proof.
  intros (a & b & r & -> & Ha & Hb) Hv fuel rest.
  change ("[" ++ String a (String b r) ++ " """ ++ v ++ """]" ++ rest)
    with (String "[" (String a (String b r) ++ String " " (String """" (v ++ String """" (String "]" rest))))).
  cbn [find_tags]. rewrite Ascii.eqb_refl. rewrite match_tag_ok; [reflexivity | exact Ha | exact Hb |].
  eapply sforall_impl; [apply ch_ok_noquote | exact Hv].
Qed.
Lemma find_tags_skip w : sforall (not_c "[") w = true -> forall fuel rest,
  find_tags (String.length w + fuel) (w ++ rest) = find_tags fuel rest.
Proof.
  induction w as [|a w IH]; intros H fuel rest; [reflexivity|].
  cbn [sforall] in H. apply andb_true_iff in H. destruct H as [Ha Hw]. unfold not_c in Ha. apply negb_true_iff in Ha.
  cbn [String.length append plus find_tags]. rewrite Ha. apply IH, Hw.
Qed.
Lemma find_tags_skip' w fuel rest : sforall (not_c "[") w = true -> String.length w <= fuel ->
  find_tags fuel (w ++ rest) = find_tags (fuel - String.length w) rest.
Proof.
  intros H L. replace fuel with (String.length w + (fuel - String.length w)) at 1 by lia. apply find_tags_skip, H.
Qed.
Lemma eol_nobr e : eol_ok e -> sforall (not_c "[") e = true.
Proof. intros [->| ->]; reflexivity. Qed.
Definition tag_of (it : item) : list (string * string) := match it with ITag n v => [(n, v)] | IRow _ => [] end.
Lemma find_tags_items e : eol_ok e -> forall items fuel, Forall item_ok items ->
  String.length (sconcat (map (render_item e) items)) <= fuel ->
  find_tags fuel (sconcat (map (render_item e) items)) = flat_map tag_of items.
Proof.
  intros He. pose proof (eol_nobr e He) as Hbr.
  induction items as [|it items IH]; intros fuel H L.
  - cbn [map sconcat flat_map]. destruct fuel; reflexivity.
  - inversion H as [|? ? Hit Hits]; subst. cbn [map sconcat flat_map] in *.
    rewrite slen_app in L. destruct it as [n v|t]; cbn [render_item tag_of] in *.
    + destruct Hit as [Hn Hv]. rewrite !slen_app in L. cbn [String.length] in L.
      destruct fuel as [|fuel]; [lia|]. rewrite !sapp_assoc. rewrite find_tags_tag by assumption.
      cbn [app]. f_equal. rewrite find_tags_skip' by (try exact Hbr; lia). apply IH; [exact Hits | lia].
    + destruct Hit as (Ht & _). rewrite slen_app in L. rewrite find_tags_skip'.
      * cbn [app]. apply IH; [exact Hits|]. rewrite slen_app. lia.
      * rewrite sforall_app, Hbr, andb_true_r. eapply sforall_impl; [apply ch_ok_nobr | exact Ht].
      * rewrite slen_app. lia.
Qed.
Lemma parse_board_items e items : eol_ok e -> Forall item_ok items ->
  parse_board (map (render_item e) items) = first_wins (flat_map tag_of items) [].
Proof. intros He H. unfold parse_board. cbv zeta. rewrite (find_tags_items e He) by (try exact H; lia). reflexivity. Qed.

(* ================= parse_stream over the lines of a layout ================= *)
Section Stream.
Variable e : string.
Hypothesis He : eol_ok e.
Definition bl (b : string) : string := b ++ e.
Definition game_lines (g : game_layout) : list string :=
  (map (render_item e) (g_items g) ++ map bl (g_blanks_after g))%list.

Lemma ps_items items : Forall item_ok items -> forall buf rest,
  parse_stream (map (render_item e) items ++ rest)%list buf = parse_stream rest (buf ++ map (render_item e) items)%list.
Proof.
  induction 1 as [|it items Hit Hits IH]; intros buf rest.
  - cbn [map app]. rewrite app_nil_r. reflexivity.
  - destruct (item_line_class e it He Hit) as (C1 & C2 & C3 & _).
    cbn [map app parse_stream]. rewrite C1, C2, C3. rewrite IH, <- app_assoc. reflexivity.
Qed.
Lemma ps_blanks bs : Forall blank_ok bs -> forall rest, parse_stream (map bl bs ++ rest)%list [] = parse_stream rest [].
Proof.
  induction 1 as [|b bs Hb Hbs IH]; intros rest; [reflexivity|].
  cbn [map app parse_stream]. unfold bl at 1. rewrite (proj1 (blank_line_class e b He Hb)). apply IH.
Qed.
Lemma ps_headers hs : Forall header_ok hs -> forall rest buf,
  parse_stream (map bl hs ++ rest)%list buf = parse_stream rest buf.
Proof.
  induction 1 as [|h hs Hh Hhs IH]; intros rest buf; [reflexivity|].
  destruct (header_line_class e h He Hh) as (C1 & C2 & _).
  change (h ++ e) with (bl h) in C1, C2. cbn [map app parse_stream]. rewrite C1, C2. apply IH.
Qed.
Definition game_ok (g : game_layout) : Prop :=
  g_items g <> [] /\ Forall item_ok (g_items g) /\ Forall blank_ok (g_blanks_after g) /\
  (exists n v, hd_error (g_items g) = Some (ITag n v)).
Lemma ps_game g rest : game_ok g -> g_blanks_after g <> [] ->
  parse_stream (game_lines g ++ rest)%list [] =
  option_map (cons (parse_board (map (render_item e) (g_items g)))) (parse_stream rest []).
Proof.
  intros (Hne & Hits & Hbs & _) Hb. unfold game_lines. rewrite <- app_assoc, ps_items by exact Hits.
  destruct (g_blanks_after g) as [|b bs]; [congruence|]. inversion Hbs as [|? ? Hb1 Hbs']; subst.
  cbn [map app parse_stream]. unfold bl at 1. rewrite (proj1 (blank_line_class e b He Hb1)).
  destruct (g_items g) as [|it its]; [congruence|]. cbn [map app]. rewrite ps_blanks by exact Hbs'. reflexivity.
Qed.
Lemma ps_last_game g : game_ok g -> g_blanks_after g = [] ->
  parse_stream (game_lines g) [] = Some [parse_board (map (render_item e) (g_items g))].
Proof.
  intros (Hne & Hits & _) Hb. unfold game_lines. rewrite Hb. cbn [map]. rewrite ps_items by exact Hits.
  destruct (g_items g) as [|it its]; [congruence|]. reflexivity.
Qed.
Lemma ps_games gs : Forall game_ok gs ->
  (forall pre g post, gs = (pre ++ g :: post)%list -> post <> [] -> g_blanks_after g <> []) ->
  parse_stream (flat_map game_lines gs) [] = Some (map (fun g => parse_board (map (render_item e) (g_items g))) gs).
Proof.
  induction 1 as [|g gs Hg Hgs IH]; intros Sep; [reflexivity|].
  cbn [flat_map map].
  assert (Sep' : forall pre g0 post, gs = (pre ++ g0 :: post)%list -> post <> [] -> g_blanks_after g0 <> []).
  { intros pre g0 post E. apply (Sep (g :: pre)%list g0 post). rewrite E. reflexivity. }
  destruct (g_blanks_after g) as [|b bs] eqn:Eb.
  - destruct gs as [|g' gs'].
    + cbn [flat_map]. rewrite app_nil_r. apply ps_last_game; assumption.
    + exfalso. apply (Sep [] g (g' :: gs')%list); [reflexivity | discriminate | exact Eb].
  - rewrite ps_game; [| exact Hg | rewrite Eb; discriminate]. rewrite (IH Sep'). reflexivity.
Qed.
Lemma game_lines_are_lines g : game_ok g -> Forall is_line (game_lines g).
Proof.
  intros (_ & Hits & Hbs & _). unfold game_lines. apply Forall_app. split.
  - apply Forall_forall. intros l Hl. apply in_map_iff in Hl. destruct Hl as [it [<- Hin]].
    rewrite Forall_forall in Hits. apply (item_line_class e it He (Hits it Hin)).
  - apply Forall_forall. intros l Hl. apply in_map_iff in Hl. destruct Hl as [b [<- Hin]].
    rewrite Forall_forall in Hbs. apply (blank_line_class e b He (Hbs b Hin)).
Qed.
End Stream.

Lemma tags_of_flat g : tags_of g = flat_map tag_of (g_items g).
Proof. reflexivity. Qed.

Theorem parse_all_layout : forall L, layout_ok L ->
  parse_all (render L) = Some (map (fun g => first_wins (tags_of g) []) (l_games L)).
Proof.
  intros [e hs lead gs] (He & Hh & Hl & Hg & Sep). cbn [l_eol l_header l_lead l_games] in *.
  assert (Hg' : Forall (game_ok) gs) by exact Hg.
  unfold parse_all, render. cbn [l_eol l_header l_lead l_games].
  change (fun h => h ++ e) with (bl e).
  change (fun g => (map (render_item e) (g_items g) ++ map (bl e) (g_blanks_after g))%list) with (game_lines e).
  rewrite lines_sconcat.
  - rewrite (ps_headers e He) by exact Hh. rewrite (ps_blanks e He) by exact Hl.
    rewrite (ps_games e He gs Hg' Sep). f_equal. apply map_ext_in. intros g Hin.
    rewrite Forall_forall in Hg'. destruct (Hg' g Hin) as (_ & Hits & _).
    rewrite (parse_board_items e _ He Hits). reflexivity.
  - apply Forall_app. split; [|apply Forall_app; split].
    + apply Forall_forall. intros l K. apply in_map_iff in K. destruct K as [h [<- Hin]].
      rewrite Forall_forall in Hh. apply (header_line_class e h He (Hh h Hin)).
    + apply Forall_forall. intros l K. apply in_map_iff in K. destruct K as [b [<- Hin]].
      rewrite Forall_forall in Hl. apply (blank_line_class e b He (Hl b Hin)).
    + apply Forall_flat_map. intros g Hin. rewrite Forall_forall in Hg'. apply game_lines_are_lines; auto.
Qed.

(* ================= board settings of a layout ================= *)
Lemma seat_of_seat_str p : seat_of_str (seat_str p) = Some p. Proof. destruct p; reflexivity. Qed.
Lemma vul_of_vul_pbn v : vul_of_str (vul_pbn v) = Some v. Proof. destruct v; reflexivity. Qed.

Lemma setting_of_carried g b : game_carries g b ->
  exists s, setting_of_game (first_wins (tags_of g) []) = Some s /\ setting_matches b s.
Proof.
  intros (Hd & HB & HD & (sp & HV & Hsp) & (first & HDl)).
  destruct (to_pbn (bs_deal b) first) as [dl|] eqn:E; [|discriminate]. cbn [option_map] in HDl. injection HDl as HDl.
  destruct (BE.Proofs.Hands.pbn_roundtrip (bs_deal b) first dl Hd E) as [d' [Ec Hs]].
  unfold setting_of_game. rewrite <- HDl, HD, HV, HB, Ec, seat_of_seat_str, Hsp.
  eexists. split; [reflexivity|]. unfold setting_matches. cbn [ps_board_id ps_dealer ps_vul ps_deal].
  split; [reflexivity|]. split; [reflexivity|]. split; [reflexivity|]. exact Hs.
Qed.
Lemma settings_of_carried gs bs : Forall2 game_carries gs bs ->
  exists ss, map_opt setting_of_game (map (fun g => first_wins (tags_of g) []) gs) = Some ss /\ Forall2 setting_matches bs ss.
Proof.
  induction 1 as [|g b gs bs Hgb _ IH].
  - exists []. split; [reflexivity | constructor].
  - destruct IH as [ss [E F]]. destruct (setting_of_carried g b Hgb) as [s [Es Ms]].
    exists (s :: ss). split; [|constructor; assumption]. cbn [map map_opt]. rewrite Es, E. reflexivity.
Qed.
Theorem settings_of_layout : forall L bs, layout_ok L -> Forall2 game_carries (l_games L) bs ->
  exists ss, parse_board_settings (render L) = Some (Some ss) /\ Forall2 setting_matches bs ss.
Proof.
  intros L bs HL HC. destruct (settings_of_carried _ _ HC) as [ss [E F]]. exists ss. split; [|exact F].
  unfold parse_board_settings. rewrite (parse_all_layout L HL). cbn [option_map]. rewrite E. reflexivity.
Qed.

(* ================= the exported file is the rendering of a layout ================= *)
Definition LFs : string := String LF "".
Definition items_of (ts : list (string * string)) : list item := map (fun nv => ITag (fst nv) (snd nv)) ts.
Definition export_game (ts : list (string * string)) : game_layout := mkGame (items_of ts) [""].
Definition export_layout (h : bool) (tss : list (list (string * string))) : layout :=
  mkLayout LFs (if h then ["% PBN 2.1"; "% EXPORT"] else []) [] (map export_game tss).

Lemma tags_of_export ts : tags_of (export_game ts) = ts.
Proof.
  unfold tags_of, export_game, items_of. cbn [g_items]. induction ts as [|[n v] ts IH]; [reflexivity|].
  cbn [map flat_map fst snd app]. rewrite IH. reflexivity.
Qed.

Lemma wlf_short fuel s : String.length s <= 255 -> write_line_fuel fuel s = [s].
Proof. intros H. destruct fuel; cbn [write_line_fuel]; [reflexivity|]. rewrite (proj2 (Nat.ltb_ge _ _) H). reflexivity. Qed.
Lemma write_tag_pair_fits n v : String.length n + String.length v + 5 <= 254 ->
  write_tag_pair n v = [render_item LFs (ITag n v)].
Proof.
  intros H. unfold write_tag_pair, write_line.
  assert (E : "[" ++ n ++ " """ ++ v ++ """]" = ("[" ++ n ++ " """ ++ v ++ """") ++ String "]" "").
  { rewrite !sapp_assoc. reflexivity. }
  assert (N : ends_with_lf ("[" ++ n ++ " """ ++ v ++ """]") = false) by (rewrite E, ewl_last; reflexivity).
  rewrite N. cbv zeta. rewrite wlf_short.
  - cbn [render_item]. unfold LFs. rewrite !sapp_assoc. reflexivity.
  - rewrite !slen_app. cbn [String.length]. lia.
Qed.
Lemma write_pairs_fit ts : (forall n v, In (n, v) ts -> String.length n + String.length v + 5 <= 254) ->
  flat_map (fun '(n, v) => write_tag_pair n v) ts = map (render_item LFs) (items_of ts).
Proof.
  induction ts as [|[n v] ts IH]; intros H; [reflexivity|].
  cbn [flat_map items_of map fst snd]. rewrite write_tag_pair_fits by (apply H; left; reflexivity).
  cbn [app]. f_equal. apply IH. intros n' v' Hin. apply H. right. exact Hin.
Qed.

(* --- the values of the fifteen tags are over the alphabet --- *)
Lemma ok_text_app a b : ok_text a -> ok_text b -> ok_text (a ++ b).
Proof. unfold ok_text. intros Ha Hb. rewrite sforall_app, Ha, Hb. reflexivity. Qed.
Lemma ok_text_digits s : sforall is_digit s = true -> ok_text s.
Proof. apply sforall_impl, ch_digit_ok. Qed.
Lemma ok_text_nat n : ok_text (string_of_nat n).
Proof. apply ok_text_digits. apply (BE.Proofs.Wire.string_of_nat_roundtrip n). Qed.
Lemma ok_text_seat p : ok_text (seat_str p). Proof. destruct p; reflexivity. Qed.
Lemma ok_text_vul v : ok_text (vul_pbn v). Proof. destruct v; reflexivity. Qed.
Lemma ok_text_two n : ok_text (two_digits n).
Proof. unfold two_digits. apply ok_text_app; [destruct (n <? 10); reflexivity | apply ok_text_nat]. Qed.
Lemma ok_text_four n : ok_text (four_digits n).
Proof.
  unfold four_digits. apply ok_text_app; [|apply ok_text_nat].
  destruct (n <? 10); [reflexivity|]. destruct (n <? 100); [reflexivity|]. destruct (n <? 1000); reflexivity.
Qed.
Lemma ok_text_contract k : is_passed_out k = false -> ok_text (contract_str k).
Proof.
  unfold is_passed_out, contract_str. destruct (final_bid k) as [[l s]|]; [|discriminate]. intros _.
  destruct l, s as [[]|], (cxx k), (cx k); reflexivity.
Qed.
Lemma ok_text_ranks l : ok_text (BE.Proofs.Hands.str_of (map BE.Proofs.Hands.rank_char l)).
Proof.
  induction l as [|r l IH]; [reflexivity|]. unfold ok_text in *. cbn [map BE.Proofs.Hands.str_of sforall]. rewrite IH.
  destruct r; reflexivity.
Qed.
Lemma ok_text_hand h s : hand_to_pbn h = Some s -> ok_text s.
Proof.
  intros H. destruct h as [|c t].
  - injection H as <-. reflexivity.
  - destruct (BE.Proofs.Hands.hand_to_pbn_nonempty _ _ H) as [_ ->]; [discriminate|].
    unfold BE.Proofs.Hands.hand_field. rewrite !BE.Proofs.Hands.suit_field_rks.
    repeat (apply ok_text_app; [first [apply ok_text_ranks | reflexivity]|]). apply ok_text_ranks.
Qed.
Lemma ok_text_deal d first s : to_pbn d first = Some s -> ok_text s.
Proof.
  intros H. destruct (BE.Proofs.Hands.to_pbn_shape d first s H) as (a & b & c & e & Ha & Hb & Hc & He & ->).
  apply ok_text_app; [apply ok_text_seat|].
  apply ok_text_app; [reflexivity|]. apply ok_text_app; [eapply ok_text_hand; exact Ha|].
  apply ok_text_app; [reflexivity|]. apply ok_text_app; [eapply ok_text_hand; exact Hb|].
  apply ok_text_app; [reflexivity|]. apply ok_text_app; [eapply ok_text_hand; exact Hc|].
  apply ok_text_app; [reflexivity|]. eapply ok_text_hand; exact He.
Qed.

Definition tag_nameb (s : string) : bool :=
  match s with String a (String b r) => is_upper a && sforall is_alpha (String b r) | _ => false end.
Lemma tag_nameb_ok s : tag_nameb s = true -> tag_name s.
Proof.
  destruct s as [|a [|b r]]; try discriminate. intros H. apply andb_true_iff in H. destruct H as [Ha Hb].
  exists a, b, r. auto.
Qed.

Definition tags15_of (v1 v2 v3 v4 v5 v6 v7 v8 v9 v10 v11 v12 v13 v14 v15 : string) : list (string * string) :=
  [("Event", v1); ("Site", v2); ("Date", v3); ("Board", v4); ("West", v5); ("North", v6); ("East", v7); ("South", v8);
   ("Dealer", v9); ("Vulnerable", v10); ("Deal", v11); ("Scoring", v12); ("Declarer", v13); ("Contract", v14); ("Result", v15)].
Lemma tags15_of_facts v1 v2 v3 v4 v5 v6 v7 v8 v9 v10 v11 v12 v13 v14 v15 :
  let ts := tags15_of v1 v2 v3 v4 v5 v6 v7 v8 v9 v10 v11 v12 v13 v14 v15 in
  first_wins ts [] = ts /\ tag_lookup "Board" ts = Some v4 /\ tag_lookup "Dealer" ts = Some v9 /\
  tag_lookup "Vulnerable" ts = Some v10 /\ tag_lookup "Deal" ts = Some v11.
Proof. cbv zeta. repeat split; reflexivity. Qed.
Lemma tags15_of_items v1 v2 v3 v4 v5 v6 v7 v8 v9 v10 v11 v12 v13 v14 v15 :
  ok_text v1 -> ok_text v2 -> ok_text v3 -> ok_text v4 -> ok_text v5 -> ok_text v6 -> ok_text v7 -> ok_text v8 ->
  ok_text v9 -> ok_text v10 -> ok_text v11 -> ok_text v12 -> ok_text v13 -> ok_text v14 -> ok_text v15 ->
  Forall item_ok (items_of (tags15_of v1 v2 v3 v4 v5 v6 v7 v8 v9 v10 v11 v12 v13 v14 v15)).
Proof.
  intros. unfold tags15_of, items_of. cbn [map fst snd].
  repeat (constructor; [split; [apply tag_nameb_ok; reflexivity | assumption]|]). constructor.
Qed.

Lemma tags15_shape x ts : result_ok x -> tags15 x = Some ts ->
  exists v1 v2 v3 v5 v6 v7 v8 v11 v12 v13 v14 v15,
    ts = tags15_of v1 v2 v3 (string_of_nat (r_board x)) v5 v6 v7 v8 (seat_str (r_dealer x)) (vul_pbn (cvul (r_contract x)))
           v11 v12 v13 v14 v15 /\
    to_pbn (r_deal x) (r_dealer x) = Some v11 /\ Forall item_ok (items_of ts).
Proof.
  intros (He & Hs & Hsc & Hp & _) H. unfold tags15 in H.
  destruct (to_pbn (r_deal x) (r_dealer x)) as [dl|] eqn:E; [|discriminate].
  destruct (r_date x) as [[y m] d]. injection H as <-.
  do 12 eexists. split; [reflexivity|]. split; [reflexivity|].
  apply tags15_of_items; auto.
  - repeat (apply ok_text_app; [first [apply ok_text_four | apply ok_text_two | reflexivity]|]). apply ok_text_two.
  - apply ok_text_nat.
  - apply ok_text_seat.
  - apply ok_text_vul.
  - eapply ok_text_deal. exact E.
  - destruct (is_passed_out (r_contract x)); [reflexivity|]. destruct (cdeclarer (r_contract x)); [apply ok_text_seat | reflexivity].
  - destruct (is_passed_out (r_contract x)) eqn:Ep; [reflexivity|]. apply ok_text_contract, Ep.
  - destruct (is_passed_out (r_contract x)); [reflexivity|]. destruct (r_taken x); [apply ok_text_nat | reflexivity].
Qed.

Lemma tags15_defined x : result_ok x -> exists ts, tags15 x = Some ts.
Proof.
  intros (_ & _ & _ & _ & Hd & _). unfold tags15.
  destruct (BE.Proofs.Hands.to_pbn_defined (r_deal x) (r_dealer x) Hd) as [dl ->].
  destruct (r_date x) as [[y m] d]. eexists. reflexivity.
Qed.
Lemma wbr_ok x : result_ok x -> exists ts, tags15 x = Some ts /\
  write_board_result x = Some (map (render_item LFs) (items_of ts) ++ [LFs])%list.
Proof.
  intros H. destruct (tags15_defined x H) as [ts E]. exists ts. split; [exact E|].
  destruct H as (_ & _ & _ & _ & _ & Hb & Hp1 & Hp2 & Hfit).
  unfold write_board_result. rewrite (proj2 (Nat.ltb_lt _ _) Hb). cbn [negb].
  assert (Bool.eqb (is_passed_out (r_contract x)) (match r_taken x with None => true | Some _ => false end) = true) as ->.
  { destruct (is_passed_out (r_contract x)).
    - rewrite Hp1 by reflexivity. reflexivity.
    - destruct (Hp2 eq_refl) as [Ht _]. destruct (r_taken x); [reflexivity | congruence]. }
  cbn [negb]. rewrite E. rewrite write_pairs_fit; [reflexivity|]. intros n v. apply Hfit, E.
Qed.

Lemma export_lines tss :
  concat (map (fun ts => (map (render_item LFs) (items_of ts) ++ [LFs])%list) tss) =
  flat_map (fun g => (map (render_item LFs) (g_items g) ++ map (fun b => (b ++ LFs)%string) (g_blanks_after g))%list) (map export_game tss).
Proof. induction tss as [|ts tss IH]; [reflexivity|]. cbn [map concat flat_map]. rewrite IH. reflexivity. Qed.

Lemma export_is_render h rs : Forall result_ok rs ->
  exists tss, map_opt tags15 rs = Some tss /\ write_file h rs = Some (render (export_layout h tss)) /\
    Forall2 (fun x ts => tags15 x = Some ts) rs tss.
Proof.
  intros H.
  assert (exists tss, map_opt tags15 rs = Some tss /\ Forall2 (fun x ts => tags15 x = Some ts) rs tss /\
     map_opt write_board_result rs = Some (map (fun ts => (map (render_item LFs) (items_of ts) ++ [LFs])%list) tss)) as (tss & E1 & F & E2).
  { induction H as [|x rs Hx _ IH].
    - exists []. repeat split; constructor.
    - destruct IH as (tss & E1 & F & E2). destruct (wbr_ok x Hx) as (ts & Et & Ew).
      exists (ts :: tss). cbn [map_opt map]. rewrite Et, E1, Ew, E2. repeat split; [constructor; assumption]. }
  exists tss. split; [exact E1|]. split; [|exact F].
  unfold write_file. rewrite E2. cbn [option_map]. f_equal. unfold render, export_layout. cbn [l_eol l_header l_lead l_games].
  cbn [map app]. rewrite export_lines. f_equal. f_equal. destruct h; reflexivity.
Qed.

Lemma export_layout_ok h rs tss : Forall result_ok rs -> Forall2 (fun x ts => tags15 x = Some ts) rs tss ->
  layout_ok (export_layout h tss).
Proof.
  intros H F. unfold layout_ok, export_layout. cbn [l_eol l_header l_lead l_games].
  split; [left; reflexivity|]. split; [destruct h; repeat constructor|]. split; [constructor|]. split.
  - apply Forall_forall. intros g Hg. apply in_map_iff in Hg. destruct Hg as [ts [<- Hin]].
    assert (exists x, result_ok x /\ tags15 x = Some ts) as (x & Hx & Et).
    { clear -H F Hin. induction F as [|x ts0 rs tss Hxt F IH]; [destruct Hin|].
      inversion H; subst. destruct Hin as [->|Hin]; [exists x; auto | apply IH; assumption]. }
    destruct (tags15_shape x ts Hx Et) as (v1&v2&v3&v5&v6&v7&v8&v11&v12&v13&v14&v15& -> & _ & Hits).
    cbn [export_game g_items g_blanks_after]. split; [discriminate|]. split; [exact Hits|].
    split; [repeat constructor|]. do 2 eexists. reflexivity.
  - intros pre g post E _. assert (In g (map export_game tss)) as Hg by (rewrite E; apply in_elt).
    apply in_map_iff in Hg. destruct Hg as [ts [<- _]]. discriminate.
Qed.

Lemma first_wins_export rs tss : Forall result_ok rs -> Forall2 (fun x ts => tags15 x = Some ts) rs tss ->
  map (fun g => first_wins (tags_of g) []) (map export_game tss) = tss.
Proof.
  intros H F. induction F as [|x ts rs tss Et F IH]; [reflexivity|]. inversion H as [|? ? Hx Hrs]; subst.
  cbn [map]. rewrite (IH Hrs), tags_of_export. f_equal.
  destruct (tags15_shape x ts Hx Et) as (v1&v2&v3&v5&v6&v7&v8&v11&v12&v13&v14&v15& -> & _ & _).
  apply tags15_of_facts.
Qed.

Theorem export_roundtrip : forall h rs text, Forall result_ok rs -> write_file h rs = Some text ->
  exists tss, map_opt tags15 rs = Some tss /\ parse_all text = Some tss.
Proof.
  intros h rs text H W. destruct (export_is_render h rs H) as (tss & E & W' & F).
  exists tss. split; [exact E|]. rewrite W' in W. injection W as <-.
  rewrite (parse_all_layout _ (export_layout_ok h rs tss H F)). cbn [export_layout l_games].
  rewrite (first_wins_export rs tss H F). reflexivity.
Qed.
Lemma map_opt_length {A B} (f : A -> option B) : forall l ys, map_opt f l = Some ys -> length ys = length l.
Proof.
  induction l as [|x l IH]; intros ys E; cbn [map_opt] in E.
  - injection E as <-. reflexivity.
  - destruct (f x); [|discriminate]. destruct (map_opt f l) as [ys'|]; [|discriminate]. injection E as <-.
    cbn [length]. rewrite (IH ys' eq_refl). reflexivity.
Qed.
Theorem export_one_game_per_result : forall h rs text gs, Forall result_ok rs -> write_file h rs = Some text ->
  parse_all text = Some gs -> length gs = length rs.
Proof.
  intros h rs text gs H W P. destruct (export_roundtrip h rs text H W) as (tss & E & P').
  rewrite P in P'. injection P' as ->. eapply map_opt_length, E.
Qed.
Theorem export_defined : forall h rs, Forall result_ok rs -> exists text, write_file h rs = Some text.
Proof. intros h rs H. destruct (export_is_render h rs H) as (tss & _ & W & _). eexists. exact W. Qed.

Definition setting_of_result (x : pbn_result) : bsetting :=
  mkB (string_of_nat (r_board x)) (r_dealer x) (r_deal x) (cvul (r_contract x)).
Lemma export_carries rs tss : Forall result_ok rs -> Forall2 (fun x ts => tags15 x = Some ts) rs tss ->
  Forall2 game_carries (map export_game tss) (map setting_of_result rs).
Proof.
  intros H F. induction F as [|x ts rs tss Et F IH]; [constructor|]. inversion H as [|? ? Hx Hrs]; subst.
  cbn [map]. constructor; [|apply IH, Hrs].
  destruct (tags15_shape x ts Hx Et) as (v1&v2&v3&v5&v6&v7&v8&v11&v12&v13&v14&v15& -> & Ed & _).
  unfold game_carries. rewrite tags_of_export.
  destruct (tags15_of_facts v1 v2 v3 (string_of_nat (r_board x)) v5 v6 v7 v8 (seat_str (r_dealer x))
              (vul_pbn (cvul (r_contract x))) v11 v12 v13 v14 v15) as (-> & L1 & L2 & L3 & L4).
  cbn [setting_of_result bs_id bs_dealer bs_deal bs_vul].
  split; [apply Hx|]. split; [exact L1|]. split; [exact L2|]. split.
  - eexists. split; [exact L3 | apply vul_of_vul_pbn].
  - exists (r_dealer x). rewrite Ed, L4. reflexivity.
Qed.
Lemma Forall2_map_l {A B C} (R : B -> C -> Prop) (f : A -> B) : forall l l', Forall2 R (map f l) l' -> Forall2 (fun x => R (f x)) l l'.
Proof.
  induction l as [|x l IH]; intros l' H; inversion H; subst; constructor; auto.
Qed.
Theorem export_as_settings : forall h rs text, Forall result_ok rs -> write_file h rs = Some text ->
  exists ss, parse_board_settings text = Some (Some ss) /\ Forall2 result_matches rs ss.
Proof.
  intros h rs text H W. destruct (export_is_render h rs H) as (tss & E & W' & F).
  rewrite W' in W. injection W as <-.
  destruct (settings_of_layout (export_layout h tss) (map setting_of_result rs) (export_layout_ok h rs tss H F)
              (export_carries rs tss H F)) as (ss & P & M).
  exists ss. split; [exact P|]. apply Forall2_map_l in M. exact M.
Qed.

(* ================= non-vacuity examples ================= *)
(* a two-game file with CR LF line ends, two header lines (one with comment characters), leading and repeated
   blank lines, a repeated tag (Board), extra tags, a table row, and no blank line after the last game *)
Definition ex_layout : layout :=
  mkLayout (String CR (String LF "")) ["% PBN 2.1"; "% a; { remark }"] [""; "  "]
    [ mkGame [ITag "Event" "Club evening"; ITag "Board" "1"; ITag "Dealer" "N"; ITag "Vulnerable" "Love"; ITag "Board" "7";
              ITag "Deal" "N:AKQJT98765432... .AKQJT98765432.. ..AKQJT98765432. ...AKQJT98765432";
              ITag "Auction" "N"; IRow "1C Pass Pass Pass"; ITag "Note" ""] [" "; ""];
      mkGame [ITag "Board" "2"; ITag "Dealer" "E"; ITag "Vulnerable" "All"; ITag "Deal" "E:- - - -"] [] ].
Example ex_layout_ok : layout_ok ex_layout.
Proof.
  unfold layout_ok, ex_layout. cbn [l_eol l_header l_lead l_games].
  split; [right; reflexivity|]. split; [repeat constructor|]. split; [repeat constructor|]. split.
  - repeat (constructor; [cbn [g_items g_blanks_after]; split; [discriminate|]; split; [|split; [repeat constructor | do 2 eexists; reflexivity]]|]);
      [| | constructor];
      repeat (constructor; [first [split; [apply tag_nameb_ok; reflexivity | reflexivity] | repeat split; discriminate]|]); constructor.
  - intros pre g post E Hp. destruct pre as [|a [|b pre]]; cbn [app] in E.
    + injection E as <- _. discriminate.
    + injection E as _ _ <-. congruence.
    + injection E as _ _ E. destruct pre; discriminate.
Qed.
Example ex_layout_lines : List.length (lines (render ex_layout)) = 19.
Proof. vm_compute. reflexivity. Qed.
Example ex_layout_parsed :
  parse_all (render ex_layout) =
  Some [[("Event", "Club evening"); ("Board", "1"); ("Dealer", "N"); ("Vulnerable", "Love");
         ("Deal", "N:AKQJT98765432... .AKQJT98765432.. ..AKQJT98765432. ...AKQJT98765432"); ("Auction", "N"); ("Note", "")];
        [("Board", "2"); ("Dealer", "E"); ("Vulnerable", "All"); ("Deal", "E:- - - -")]].
Proof. vm_compute. reflexivity. Qed.
Example ex_layout_settings :
  option_map (option_map (map (fun s => (ps_board_id s, ps_dealer s, ps_vul s, map (fun p => List.length (ps_deal s p)) all_seats))))
    (parse_board_settings (render ex_layout)) =
  Some (Some [("1", North, VNone, [13; 13; 13; 13]); ("2", East, VBoth, [0; 0; 0; 0])]).
Proof. vm_compute. reflexivity. Qed.

(* a two-result export: 3NT doubled by South making nine tricks, and a passed-out board with two empty hands *)
Definition ex_result1 : pbn_result :=
  mkResult "Club evening" "Room 1" (2024, 3, 7) 5 formal_name East BE.Proofs.Hands.ex_deal "IMP"
    (mkcontract (Some (L3, NT)) true false VNS (Some South)) (Some 9).
Definition ex_result2 : pbn_result :=
  mkResult "Club evening" "" (987, 12, 25) 16 (fun _ => "") West BE.Proofs.Hands.ex_partial "MP"
    (mkcontract None false false VBoth None) None.
Example ex_results_ok : Forall result_ok [ex_result1; ex_result2].
Proof.
  constructor; [|constructor; [|constructor]]; unfold result_ok.
  - split; [reflexivity|]. split; [reflexivity|]. split; [reflexivity|]. split; [intros p; destruct p; reflexivity|].
    split; [exact BE.Proofs.Hands.ex_deal_is_pbn_deal|]. split; [cbn; lia|]. split; [discriminate|].
    split; [intros _; split; discriminate|].
    intros ts n v E Hin. vm_compute in E. injection E as <-.
    repeat (destruct Hin as [Hin|Hin]; [injection Hin as <- <-; vm_compute; lia|]). destruct Hin.
  - split; [reflexivity|]. split; [reflexivity|]. split; [reflexivity|]. split; [intros p; reflexivity|].
    split; [exact BE.Proofs.Hands.ex_partial_is_pbn_deal|]. split; [cbn; lia|]. split; [reflexivity|].
    split; [discriminate|].
    intros ts n v E Hin. vm_compute in E. injection E as <-.
    repeat (destruct Hin as [Hin|Hin]; [injection Hin as <- <-; vm_compute; lia|]). destruct Hin.
Qed.
Example ex_export_read_back :
  match write_file true [ex_result1; ex_result2] with
  | Some text => parse_all text = map_opt tags15 [ex_result1; ex_result2] /\ List.length (lines text) = 34 /\
      option_map (option_map (map (fun s => (ps_board_id s, ps_dealer s, ps_vul s,
                                            map (fun p => List.length (ps_deal s p)) all_seats)))) (parse_board_settings text) =
      Some (Some [("5", East, VNS, [13; 13; 13; 13]); ("16", West, VBoth, [13; 0; 13; 0])])
  | None => False end.
Proof. vm_compute. repeat split; reflexivity. Qed.
Example ex_second_game_written :
  option_map (fun tss => nth 1 tss []) (map_opt tags15 [ex_result1; ex_result2]) =
  Some [("Event", "Club evening"); ("Site", ""); ("Date", "0987.12.25"); ("Board", "16"); ("West", ""); ("North", "");
        ("East", ""); ("South", ""); ("Dealer", "W"); ("Vulnerable", "All"); ("Deal", "W:- AKQJT98765432... - ..AKQJT98765432.");
        ("Scoring", "MP"); ("Declarer", ""); ("Contract", "Pass"); ("Result", "")].
Proof. vm_compute. reflexivity. Qed.
(* a long line is cut into pieces of 255 characters, each ending in LF *)
Example ex_long_line : map String.length (write_line (sconcat (repeat "0123456789" 60))) = [255; 255; 93].
Proof. vm_compute. reflexivity. Qed.

Print Assumptions parse_all_layout.
Print Assumptions settings_of_layout.
Print Assumptions write_line_le_255.
Print Assumptions write_line_ends_lines.
Print Assumptions write_line_keeps_text.
Print Assumptions every_written_line_le_255.
Print Assumptions export_roundtrip.
Print Assumptions export_one_game_per_result.
Print Assumptions export_defined.
Print Assumptions export_as_settings.
